(** Stitching matches every object reached through a service hop back to the right parent.

    [extract_keys] (extractKeys, executor.go:268-328) walks the result tree of the parent service along the path
    of a sub-plan and collects, per object found at the end of the path (a TARGET), its _federation key;
    [graft] (the loop of executor.go:385-404 over the targets extractKeys remembered) merges result i into
    target i.  This file says what that matching is, for ALL paths and ALL result trees (induction on the path
    and, nested, on the JSON tree):

      - [targets path node]: the targets in the order in which the walk meets them (depth first, left to right
        through arrays and arrays of arrays, nulls and objects of other union members skipped);
      - [extract_keys_is_targets]: the keys extractKeys returns are exactly the _federation entries of the
        targets, in that order;
      - [graft_is_merge_each]: grafting is the pointwise merge of the list of targets with the list of results
        (an equation: it says when graft succeeds, what the targets become, and what is left over);
      - [graft_skeleton]: nothing but the targets changes;
      - duplicates: equal keys get their own result, by position; nulls: removing / inserting null elements in
        any array the walk goes through shifts nothing ([strip_nulls]); arrays of arrays: only the depth-first
        order of the leaves matters ([leaves]); the length guard of [stitch].

    Specification-side definitions ([targets], [walk_ok], [merge_each], [skeleton], [strip_nulls], [leaves])
    are at the top; none of them is part of the executable model. *)
From Coq Require Import List String Bool Arith ZArith Lia.
From Thunder Require Import Lib.Json Federation.Normalize Federation.Planner Federation.Executor
  Federation.ExecutorProofs Federation.FedBase.
Import ListNotations.
Open Scope string_scope.
Open Scope list_scope.

(** * Definitions *)

(** the objects at the end of [path], in the order of the walk *)
Fixpoint targets (path : list step) {struct path} : json -> list json :=
  match path with
  | [] =>
      fix arr (node : json) : list json :=
        match node with
        | JArr l => flat_map arr l
        | JObj _ => [node]
        | _ => []
        end
  | SField name :: rest =>
      fix arr (node : json) : list json :=
        match node with
        | JArr l => flat_map arr l
        | JObj kvs => match lookup name kvs with Some next => targets rest next | None => [] end
        | _ => []
        end
  | SType t :: rest =>
      fix arr (node : json) : list json :=
        match node with
        | JArr l => flat_map arr l
        | JObj kvs =>
            match lookup "__typename" kvs with
            | Some (JStr s) => if String.eqb s t then targets rest node else []
            | _ => []
            end
        | _ => []
        end
  end.

(** the walk finds what it needs: every object on the way has the field of a field step, a string __typename
    at a type step.  [strict]: a scalar at the end of the path is an error (extractKeys: "not an object");
    the grafting walk never gets there without extractKeys having succeeded, and passes scalars by. *)
Fixpoint walk_ok (strict : bool) (path : list step) {struct path} : json -> bool :=
  match path with
  | [] =>
      fix arr (node : json) : bool :=
        match node with
        | JArr l => forallb arr l
        | JObj _ => true
        | JNull => true
        | _ => negb strict
        end
  | SField name :: rest =>
      fix arr (node : json) : bool :=
        match node with
        | JArr l => forallb arr l
        | JObj kvs => match lookup name kvs with Some next => walk_ok strict rest next | None => false end
        | _ => true
        end
  | SType t :: rest =>
      fix arr (node : json) : bool :=
        match node with
        | JArr l => forallb arr l
        | JObj kvs =>
            match lookup "__typename" kvs with
            | Some (JStr s) => if String.eqb s t then walk_ok strict rest node else true
            | _ => false
            end
        | _ => true
        end
  end.

Definition fed_key (t : json) : option json :=
  match t with JObj kvs => lookup federation_field kvs | _ => None end.

(** one result merged into one target (executor.go:389-403: the result must be an object; its entries are
    added; an entry the target already has is an error unless it is the equal __key) *)
Definition merge_pair (t r : json) : option json :=
  match t, r with
  | JObj a, JObj b => match merge_result a b with Some c => Some (JObj c) | None => None end
  | _, _ => None
  end.

(** target i gets result i; returns the merged targets and the results left over *)
Fixpoint merge_each (ts rs : list json) {struct ts} : option (list json * list json) :=
  match ts with
  | [] => Some ([], rs)
  | t :: ts' =>
      match rs with
      | [] => None
      | r :: rs' =>
          match merge_pair t r with
          | Some t' =>
              match merge_each ts' rs' with
              | Some (m, rest) => Some (t' :: m, rest)
              | None => None
              end
          | None => None
          end
      end
  end.

Definition on_targets (path : list step) (x : option (json * list json)) : option (list json * list json) :=
  match x with Some (n, rest) => Some (targets path n, rest) | None => None end.

(** the tree with the content of every target erased *)
Fixpoint skeleton (path : list step) {struct path} : json -> json :=
  match path with
  | [] =>
      fix arr (node : json) : json :=
        match node with
        | JArr l => JArr (map arr l)
        | JObj _ => JObj []
        | _ => node
        end
  | SField name :: rest =>
      fix arr (node : json) : json :=
        match node with
        | JArr l => JArr (map arr l)
        | JObj kvs =>
            match lookup name kvs with
            | Some next => JObj (set_key name (skeleton rest next) kvs)
            | None => node
            end
        | _ => node
        end
  | SType t :: rest =>
      fix arr (node : json) : json :=
        match node with
        | JArr l => JArr (map arr l)
        | JObj kvs =>
            match lookup "__typename" kvs with
            | Some (JStr s) => if String.eqb s t then skeleton rest node else node
            | _ => node
            end
        | _ => node
        end
  end.

Definition jnull (j : json) : bool := match j with JNull => true | _ => false end.

(** the tree without the null elements of the arrays the walk goes through *)
Fixpoint strip_nulls (path : list step) {struct path} : json -> json :=
  match path with
  | [] =>
      fix arr (node : json) : json :=
        match node with
        | JArr l => JArr (flat_map (fun e => if jnull e then [] else [arr e]) l)
        | _ => node
        end
  | SField name :: rest =>
      fix arr (node : json) : json :=
        match node with
        | JArr l => JArr (flat_map (fun e => if jnull e then [] else [arr e]) l)
        | JObj kvs =>
            match lookup name kvs with
            | Some next => JObj (set_key name (strip_nulls rest next) kvs)
            | None => node
            end
        | _ => node
        end
  | SType t :: rest =>
      fix arr (node : json) : json :=
        match node with
        | JArr l => JArr (flat_map (fun e => if jnull e then [] else [arr e]) l)
        | JObj kvs =>
            match lookup "__typename" kvs with
            | Some (JStr s) => if String.eqb s t then strip_nulls rest node else node
            | _ => node
            end
        | _ => node
        end
  end.

(** the non-array values of an array of arrays of ..., depth first, left to right *)
Fixpoint leaves (j : json) : list json :=
  match j with
  | JArr l => flat_map leaves l
  | _ => [j]
  end.

Definition strip_res (path : list step) (x : option (json * list json)) : option (json * list json) :=
  match x with Some (n, rest) => Some (strip_nulls path n, rest) | None => None end.

(** * Unfolding equations *)
Lemma targets_arr : forall path l, targets path (JArr l) = flat_map (targets path) l.
Proof. intros path l. destruct path as [|[name|t] rest]; reflexivity. Qed.

Lemma walk_ok_arr : forall st path l, walk_ok st path (JArr l) = forallb (walk_ok st path) l.
Proof. intros st path l. destruct path as [|[name|t] rest]; reflexivity. Qed.

Lemma skeleton_arr : forall path l, skeleton path (JArr l) = JArr (map (skeleton path) l).
Proof. intros path l. destruct path as [|[name|t] rest]; reflexivity. Qed.

Lemma strip_nulls_arr : forall path l,
  strip_nulls path (JArr l) = JArr (flat_map (fun e => if jnull e then [] else [strip_nulls path e]) l).
Proof. intros path l. destruct path as [|[name|t] rest]; reflexivity. Qed.

Lemma targets_field_obj : forall name rest kvs,
  targets (SField name :: rest) (JObj kvs) =
  match lookup name kvs with Some next => targets rest next | None => [] end.
Proof. reflexivity. Qed.

Lemma targets_type_obj : forall t rest kvs,
  targets (SType t :: rest) (JObj kvs) =
  match lookup "__typename" kvs with
  | Some (JStr s) => if String.eqb s t then targets rest (JObj kvs) else []
  | _ => []
  end.
Proof. reflexivity. Qed.

Lemma walk_ok_field_obj : forall st name rest kvs,
  walk_ok st (SField name :: rest) (JObj kvs) =
  match lookup name kvs with Some next => walk_ok st rest next | None => false end.
Proof. reflexivity. Qed.

Lemma walk_ok_type_obj : forall st t rest kvs,
  walk_ok st (SType t :: rest) (JObj kvs) =
  match lookup "__typename" kvs with
  | Some (JStr s) => if String.eqb s t then walk_ok st rest (JObj kvs) else true
  | _ => false
  end.
Proof. reflexivity. Qed.

Lemma skeleton_field_obj : forall name rest kvs,
  skeleton (SField name :: rest) (JObj kvs) =
  match lookup name kvs with
  | Some next => JObj (set_key name (skeleton rest next) kvs)
  | None => JObj kvs
  end.
Proof. reflexivity. Qed.

Lemma skeleton_type_obj : forall t rest kvs,
  skeleton (SType t :: rest) (JObj kvs) =
  match lookup "__typename" kvs with
  | Some (JStr s) => if String.eqb s t then skeleton rest (JObj kvs) else JObj kvs
  | _ => JObj kvs
  end.
Proof. reflexivity. Qed.

Lemma strip_nulls_field_obj : forall name rest kvs,
  strip_nulls (SField name :: rest) (JObj kvs) =
  match lookup name kvs with
  | Some next => JObj (set_key name (strip_nulls rest next) kvs)
  | None => JObj kvs
  end.
Proof. reflexivity. Qed.

Lemma strip_nulls_type_obj : forall t rest kvs,
  strip_nulls (SType t :: rest) (JObj kvs) =
  match lookup "__typename" kvs with
  | Some (JStr s) => if String.eqb s t then strip_nulls rest (JObj kvs) else JObj kvs
  | _ => JObj kvs
  end.
Proof. reflexivity. Qed.

(** values that are neither arrays nor objects: every walk passes them by *)
Definition atom (j : json) : bool := match j with JArr _ | JObj _ => false | _ => true end.

Lemma graft_atom : forall path v rs, atom v = true -> graft path v rs = Some (v, rs).
Proof. intros path v rs H. destruct path as [|[name|t] rest]; destruct v; try discriminate; reflexivity. Qed.

Lemma targets_atom : forall path v, atom v = true -> targets path v = [].
Proof. intros path v H. destruct path as [|[name|t] rest]; destruct v; try discriminate; reflexivity. Qed.

Lemma strip_nulls_atom : forall path v, atom v = true -> strip_nulls path v = v.
Proof. intros path v H. destruct path as [|[name|t] rest]; destruct v; try discriminate; reflexivity. Qed.

Lemma skeleton_atom : forall path v, atom v = true -> skeleton path v = v.
Proof. intros path v H. destruct path as [|[name|t] rest]; destruct v; try discriminate; reflexivity. Qed.

Lemma walk_ok_false_atom : forall path v, atom v = true -> walk_ok false path v = true.
Proof. intros path v H. destruct path as [|[name|t] rest]; destruct v; try discriminate; reflexivity. Qed.

(** * Grafting keeps the kind of every value, and the atoms an object holds *)
Lemma merge_result_keeps : forall r t t' k v,
  merge_result t r = Some t' -> lookup k t = Some v -> lookup k t' = Some v.
Proof.
  induction r as [|[k0 v0] r IH]; intros t t' k v Hm Hl; simpl in Hm.
  - inversion Hm; subst; exact Hl.
  - destruct (lookup k0 t) as [v'|] eqn:E.
    + destruct (String.eqb k0 "__key" && json_eqb v0 v'); [|discriminate]. eapply IH; eauto.
    + eapply IH; [exact Hm|]. rewrite lookup_app, Hl. reflexivity.
Qed.

Definition keeps_atoms (kvs kvs' : list (string * json)) : Prop :=
  forall k v, lookup k kvs = Some v -> atom v = true -> lookup k kvs' = Some v.

Lemma graft_obj_keeps_atoms : forall path kvs rs n' rest,
  graft path (JObj kvs) rs = Some (n', rest) -> exists kvs', n' = JObj kvs' /\ keeps_atoms kvs kvs'.
Proof.
  induction path as [|[name|t] restp IHp]; intros kvs rs n' rest Hg.
  - rewrite graft_nil_obj in Hg. destruct rs as [|[| | | | |r] rs']; try discriminate.
    destruct (merge_result kvs r) as [kvs'|] eqn:E; [|discriminate]. inversion Hg; subst.
    exists kvs'. split; [reflexivity|]. intros k v Hl _. eapply merge_result_keeps; eauto.
  - rewrite graft_field_obj in Hg. destruct (lookup name kvs) as [next|] eqn:El; [|discriminate].
    destruct (graft restp next rs) as [[next' rs']|] eqn:E; [|discriminate]. inversion Hg; subst.
    eexists. split; [reflexivity|]. intros k v Hl Ha.
    destruct (String.eqb name k) eqn:Ek.
    + apply String.eqb_eq in Ek. subst k. rewrite El in Hl. inversion Hl; subst next.
      rewrite (graft_atom _ _ _ Ha) in E. inversion E; subst.
      apply lookup_set_key_same. congruence.
    + apply String.eqb_neq in Ek. rewrite lookup_set_key_other; auto.
  - rewrite graft_type_obj in Hg. destruct (lookup "__typename" kvs) as [[| | |s| |]|]; try discriminate.
    destruct (String.eqb s t).
    + eapply IHp; eauto.
    + inversion Hg; subst. exists kvs. split; [reflexivity|]. intros k v Hl _. exact Hl.
Qed.

Definition same_kind (a b : json) : Prop :=
  match a with
  | JArr _ => exists l, b = JArr l
  | JObj _ => exists l, b = JObj l
  | _ => b = a
  end.

Lemma graft_kind : forall path node rs node' rest,
  graft path node rs = Some (node', rest) -> same_kind node node'.
Proof.
  intros path node rs node' rest Hg. destruct node; simpl;
    try (rewrite graft_atom in Hg by reflexivity; inversion Hg; reflexivity).
  - rewrite graft_arr in Hg. destruct (graft_list (graft path) l rs) as [[l' rs']|]; [|discriminate].
    inversion Hg; eauto.
  - destruct (graft_obj_keeps_atoms _ _ _ _ _ Hg) as [kvs' [-> _]]. eauto.
Qed.

Lemma graft_jnull : forall path node rs node' rest,
  graft path node rs = Some (node', rest) -> jnull node' = jnull node.
Proof.
  intros path node rs node' rest Hg. apply graft_kind in Hg.
  destruct node; simpl in Hg; try (subst; reflexivity); destruct Hg as [l' ->]; reflexivity.
Qed.

Lemma graft_list_app : forall one a b rs,
  graft_list one (a ++ b) rs =
  match graft_list one a rs with
  | Some (a', r1) =>
      match graft_list one b r1 with
      | Some (b', r2) => Some (a' ++ b', r2)
      | None => None
      end
  | None => None
  end.
Proof.
  intros one a b. induction a as [|e t IH]; intros rs; simpl.
  - destruct (graft_list one b rs) as [[b' r2]|]; reflexivity.
  - destruct (one e rs) as [[e' r1]|]; [|reflexivity]. rewrite IH.
    destruct (graft_list one t r1) as [[t' r2]|]; [|reflexivity].
    destruct (graft_list one b r2) as [[b' r3]|]; reflexivity.
Qed.

(** * 1. extractKeys returns the _federation entries of the targets, in the order of the walk *)
Lemma mapo_app' : forall {A B} (f : A -> option B) l1 l2,
  mapo f (l1 ++ l2) = match mapo f l1, mapo f l2 with Some a, Some b => Some (a ++ b) | _, _ => None end.
Proof.
  intros A B f l1 l2. induction l1 as [|x t IH]; simpl.
  - destruct (mapo f l2); reflexivity.
  - destruct (f x); auto. rewrite IH. destruct (mapo f t); auto. destruct (mapo f l2); auto.
Qed.

Lemma extract_keys_arr_targets : forall path l,
  Forall (fun e => extract_keys true path e =
                   if walk_ok true path e then mapo fed_key (targets path e) else None) l ->
  concat_opt (map (extract_keys true path) l) =
  if forallb (walk_ok true path) l then mapo fed_key (flat_map (targets path) l) else None.
Proof.
  intros path l H. induction H as [|e t He _ IH]; simpl; [reflexivity|].
  rewrite He, IH. destruct (walk_ok true path e); simpl; [|reflexivity].
  rewrite mapo_app'. destruct (mapo fed_key (targets path e)); destruct (forallb (walk_ok true path) t); reflexivity.
Qed.

Theorem extract_keys_is_targets : forall path node,
  extract_keys true path node =
  if walk_ok true path node then mapo fed_key (targets path node) else None.
Proof.
  induction path as [|[name|t] rest IHp]; intros node.
  - induction node using json_ind'; try reflexivity.
    rewrite extract_keys_arr, walk_ok_arr, targets_arr. apply extract_keys_arr_targets; assumption.
  - induction node using json_ind'; try reflexivity.
    + rewrite extract_keys_arr, walk_ok_arr, targets_arr. apply extract_keys_arr_targets; assumption.
    + rewrite extract_keys_field_obj, walk_ok_field_obj, targets_field_obj.
      destruct (lookup name l); [apply IHp | reflexivity].
  - induction node using json_ind'; try reflexivity.
    + rewrite extract_keys_arr, walk_ok_arr, targets_arr. apply extract_keys_arr_targets; assumption.
    + rewrite extract_keys_type_obj, walk_ok_type_obj, targets_type_obj.
      destruct (lookup "__typename" l) as [[| | |s| |]|]; try reflexivity.
      destruct (String.eqb s t); [apply IHp | reflexivity].
Qed.

Lemma mapo_some_map : forall {A B} (f : A -> option B) l r, mapo f l = Some r -> map f l = map Some r.
Proof.
  intros A B f l. induction l as [|x t IH]; intros r H; simpl in H.
  - inversion H; reflexivity.
  - destruct (f x) eqn:E; [|discriminate]. destruct (mapo f t) eqn:E2; [|discriminate].
    inversion H; subst. simpl. rewrite E, (IH _ eq_refl). reflexivity.
Qed.

Corollary extract_keys_targets : forall path node ks,
  extract_keys true path node = Some ks ->
  walk_ok true path node = true /\
  map fed_key (targets path node) = map Some ks /\
  List.length (targets path node) = List.length ks.
Proof.
  intros path node ks H. rewrite extract_keys_is_targets in H.
  destruct (walk_ok true path node); [|discriminate]. split; [reflexivity|].
  pose proof (mapo_some_map _ _ _ H) as Hm. split; [exact Hm|].
  apply (f_equal (@List.length _)) in Hm. rewrite !map_length in Hm. exact Hm.
Qed.

Lemma walk_ok_strict_weaken : forall path node, walk_ok true path node = true -> walk_ok false path node = true.
Proof.
  induction path as [|[name|t] rest IHp]; intros node.
  - induction node using json_ind'; try reflexivity; try discriminate.
    rewrite !walk_ok_arr. intros Hw. rewrite forallb_forall in *. rewrite Forall_forall in H. auto.
  - induction node using json_ind'; try reflexivity.
    + rewrite !walk_ok_arr. intros Hw. rewrite forallb_forall in *. rewrite Forall_forall in H. auto.
    + rewrite !walk_ok_field_obj. destruct (lookup name l); auto.
  - induction node using json_ind'; try reflexivity.
    + rewrite !walk_ok_arr. intros Hw. rewrite forallb_forall in *. rewrite Forall_forall in H. auto.
    + rewrite !walk_ok_type_obj. destruct (lookup "__typename" l) as [[| | |s| |]|]; auto.
      destruct (String.eqb s t); auto.
Qed.

(** * 2. Grafting is the pointwise merge of the targets with the results *)
Lemma merge_each_app : forall a b rs,
  merge_each (a ++ b) rs =
  match merge_each a rs with
  | Some (ma, r1) =>
      match merge_each b r1 with
      | Some (mb, r2) => Some (ma ++ mb, r2)
      | None => None
      end
  | None => None
  end.
Proof.
  induction a as [|t a IH]; intros b rs; simpl.
  - destruct (merge_each b rs) as [[mb r2]|]; reflexivity.
  - destruct rs as [|r rs']; [reflexivity|]. destruct (merge_pair t r); [|reflexivity].
    rewrite IH. destruct (merge_each a rs') as [[ma r1]|]; [|reflexivity].
    destruct (merge_each b r1) as [[mb r2]|]; reflexivity.
Qed.

Lemma graft_list_merge_each : forall path l,
  Forall (fun e => forall rs, on_targets path (graft path e rs) =
                              if walk_ok false path e then merge_each (targets path e) rs else None) l ->
  forall rs,
    match graft_list (graft path) l rs with
    | Some (l', rest) => Some (flat_map (targets path) l', rest)
    | None => None
    end =
    if forallb (walk_ok false path) l then merge_each (flat_map (targets path) l) rs else None.
Proof.
  intros path l H. induction H as [|e t He _ IH]; intros rs; simpl; [reflexivity|].
  specialize (He rs). destruct (graft path e rs) as [[e' r1]|]; simpl in He.
  - destruct (walk_ok false path e); [|discriminate]. simpl. rewrite merge_each_app, <- He.
    specialize (IH r1). destruct (graft_list (graft path) t r1) as [[t' r2]|]; simpl.
    + destruct (forallb (walk_ok false path) t); [|discriminate]. rewrite <- IH. reflexivity.
    + destruct (forallb (walk_ok false path) t); [|reflexivity]. rewrite <- IH. reflexivity.
  - destruct (walk_ok false path e); simpl; [|reflexivity]. rewrite merge_each_app, <- He.
    destruct (forallb (walk_ok false path) t); reflexivity.
Qed.

Theorem graft_is_merge_each : forall path node rs,
  on_targets path (graft path node rs) =
  if walk_ok false path node then merge_each (targets path node) rs else None.
Proof.
  induction path as [|[name|t] rest IHp]; intros node.
  - induction node using json_ind'; intros rs; try reflexivity.
    + rewrite graft_arr, walk_ok_arr, targets_arr. rewrite <- (graft_list_merge_each [] l H rs).
      destruct (graft_list (graft []) l rs) as [[l' rs']|]; [|reflexivity]. unfold on_targets. rewrite targets_arr. reflexivity.
    + rewrite graft_nil_obj. simpl. destruct rs as [|[| | | | |r] rs']; try reflexivity.
      destruct (merge_result l r); reflexivity.
  - induction node using json_ind'; intros rs; try reflexivity.
    + rewrite graft_arr, walk_ok_arr, targets_arr. rewrite <- (graft_list_merge_each _ l H rs).
      destruct (graft_list (graft (SField name :: rest)) l rs) as [[l' rs']|]; [|reflexivity].
      unfold on_targets. rewrite targets_arr. reflexivity.
    + rewrite graft_field_obj, walk_ok_field_obj, targets_field_obj.
      destruct (lookup name l) as [next|] eqn:El; [|reflexivity].
      rewrite <- IHp. destruct (graft rest next rs) as [[next' rs']|]; [|reflexivity].
      simpl. rewrite lookup_set_key_same by congruence. reflexivity.
  - induction node using json_ind'; intros rs; try reflexivity.
    + rewrite graft_arr, walk_ok_arr, targets_arr. rewrite <- (graft_list_merge_each _ l H rs).
      destruct (graft_list (graft (SType t :: rest)) l rs) as [[l' rs']|]; [|reflexivity].
      unfold on_targets. rewrite targets_arr. reflexivity.
    + rewrite graft_type_obj, walk_ok_type_obj, targets_type_obj.
      destruct (lookup "__typename" l) as [[| | |s| |]|] eqn:El; try reflexivity.
      destruct (String.eqb s t) eqn:Es.
      * rewrite <- IHp. destruct (graft rest (JObj l) rs) as [[n' rs']|] eqn:Eg; [|reflexivity].
        destruct (graft_obj_keeps_atoms _ _ _ _ _ Eg) as [kvs' [-> Hk]].
        unfold on_targets. rewrite targets_type_obj, (Hk _ _ El eq_refl), Es. reflexivity.
      * simpl. rewrite El, Es. reflexivity.
Qed.

Corollary graft_some_merge_each : forall path node rs node' rest,
  graft path node rs = Some (node', rest) ->
  walk_ok false path node = true /\ merge_each (targets path node) rs = Some (targets path node', rest).
Proof.
  intros path node rs node' rest Hg. pose proof (graft_is_merge_each path node rs) as H.
  rewrite Hg in H. simpl in H. destruct (walk_ok false path node); [|discriminate]. auto.
Qed.

Corollary graft_none_merge_each : forall path node rs,
  walk_ok false path node = true -> (graft path node rs = None <-> merge_each (targets path node) rs = None).
Proof.
  intros path node rs Hw. pose proof (graft_is_merge_each path node rs) as H. rewrite Hw in H.
  destruct (graft path node rs) as [[n' rest]|]; simpl in H; split; intros X; try discriminate; try congruence.
Qed.

(** ** what [merge_each] is: position by position, from the front, nothing skipped, nothing shared *)
Lemma merge_each_spec : forall ts rs m rest,
  merge_each ts rs = Some (m, rest) ->
  List.length m = List.length ts /\ rest = skipn (List.length ts) rs /\ List.length ts <= List.length rs /\
  forall i t r, nth_error ts i = Some t -> nth_error rs i = Some r ->
                exists t', nth_error m i = Some t' /\ merge_pair t r = Some t'.
Proof.
  induction ts as [|t ts IH]; intros rs m rest H; simpl in H.
  - inversion H; subst. repeat split; simpl; try lia. intros [|i] t r Ht; discriminate.
  - destruct rs as [|r rs']; [discriminate|]. destruct (merge_pair t r) as [t'|] eqn:Ep; [|discriminate].
    destruct (merge_each ts rs') as [[m' rest']|] eqn:Em; [|discriminate]. inversion H; subst.
    destruct (IH _ _ _ Em) as [Hl [Hr [Hle Hn]]]. simpl. repeat split; try lia; auto.
    intros [|i] t0 r0 Ht Hr0; simpl in *.
    + inversion Ht; inversion Hr0; subst. eauto.
    + eauto.
Qed.

Lemma merge_each_none : forall ts rs,
  merge_each ts rs = None <->
  List.length rs < List.length ts \/
  exists i t r, nth_error ts i = Some t /\ nth_error rs i = Some r /\ merge_pair t r = None.
Proof.
  induction ts as [|t ts IH]; intros rs; simpl.
  - split; [discriminate|]. intros [H|[i [t [r [H _]]]]]; [lia | destruct i; discriminate].
  - destruct rs as [|r rs']; simpl.
    + split; auto. intros _. left. lia.
    + destruct (merge_pair t r) as [t'|] eqn:Ep.
      * destruct (merge_each ts rs') as [[m rest]|] eqn:Em.
        -- split; [discriminate|]. intros X. exfalso.
           assert (Z : merge_each ts rs' = None).
           { apply IH. destruct X as [X|[i [t0 [r0 [A [B C]]]]]]; [left; lia|].
             destruct i as [|i]; simpl in A, B.
             - inversion A; inversion B; subst. congruence.
             - right. exists i, t0, r0. auto. }
           congruence.
        -- split; auto. intros _. apply IH in Em. destruct Em as [X|[i [t0 [r0 [A [B C]]]]]]; [left; lia|].
           right. exists (S i), t0, r0. auto.
      * split; auto. intros _. right. exists 0, t, r. auto.
Qed.

(** ** POSITIONAL MATCHING: with as many results as keys, target i is merged with result i; the key of
    target i is key i; no result is left, none is used twice *)
Theorem positional_matching : forall path node ks rs node' rest,
  extract_keys true path node = Some ks -> List.length rs = List.length ks ->
  graft path node rs = Some (node', rest) ->
  rest = [] /\
  List.length (targets path node') = List.length ks /\
  forall i t r, nth_error (targets path node) i = Some t -> nth_error rs i = Some r ->
    exists t' k, nth_error (targets path node') i = Some t' /\ merge_pair t r = Some t' /\
                 nth_error ks i = Some k /\ fed_key t = Some k.
Proof.
  intros path node ks rs node' rest Hk Hl Hg.
  destruct (extract_keys_targets _ _ _ Hk) as [_ [Hm Hlen]].
  destruct (graft_some_merge_each _ _ _ _ _ Hg) as [_ He].
  destruct (merge_each_spec _ _ _ _ He) as [Hl' [Hr [_ Hn]]].
  split; [|split].
  - subst rest. apply length_zero_iff_nil. rewrite skipn_length. lia.
  - lia.
  - intros i t r Ht Hr0. destruct (Hn i t r Ht Hr0) as [t' [A B]].
    assert (X : nth_error (map fed_key (targets path node)) i = Some (fed_key t)) by (apply map_nth_error; exact Ht).
    rewrite Hm in X. rewrite nth_error_map in X. destruct (nth_error ks i) as [k|]; simpl in X; [|discriminate].
    exists t', k. repeat split; auto. congruence.
Qed.

(** ** COMPLETE CONSUMPTION: when extractKeys succeeded and there are as many results as keys, grafting fails
    exactly when some result is not an object or clashes with its own target *)
Theorem graft_fails_iff : forall path node ks rs,
  extract_keys true path node = Some ks -> List.length rs = List.length ks ->
  (graft path node rs = None <->
   exists i t r, nth_error (targets path node) i = Some t /\ nth_error rs i = Some r /\ merge_pair t r = None).
Proof.
  intros path node ks rs Hk Hl. destruct (extract_keys_targets _ _ _ Hk) as [Hw [_ Hlen]].
  rewrite (graft_none_merge_each _ _ _ (walk_ok_strict_weaken _ _ Hw)), merge_each_none.
  split; [intros [X|X]; [lia|exact X] | auto].
Qed.

Lemma merge_pair_none : forall kvs r,
  merge_pair (JObj kvs) r = None <->
  (forall b, r <> JObj b) \/ exists b, r = JObj b /\ merge_result kvs b = None.
Proof.
  intros kvs r. destruct r; simpl; try (split; [intros _; left; intros b0; discriminate | reflexivity]).
  destruct (merge_result kvs l) eqn:E; split; try discriminate; auto.
  - intros [X|[b [Hb Hn]]]; [exfalso; eapply X; reflexivity | inversion Hb; subst; congruence].
  - intros _. right. eauto.
Qed.

Lemma targets_are_objects : forall path node t, In t (targets path node) -> exists kvs, t = JObj kvs.
Proof.
  induction path as [|[name|ty] rest IHp]; intros node.
  - induction node using json_ind'; intros t Hin; try contradiction.
    + rewrite targets_arr in Hin. apply in_flat_map in Hin as [e [He Ht]]. rewrite Forall_forall in H. eauto.
    + destruct Hin as [<-|[]]. eauto.
  - induction node using json_ind'; intros t Hin; try contradiction.
    + rewrite targets_arr in Hin. apply in_flat_map in Hin as [e [He Ht]]. rewrite Forall_forall in H. eauto.
    + rewrite targets_field_obj in Hin. destruct (lookup name l); [eauto | contradiction].
  - induction node using json_ind'; intros t Hin; try contradiction.
    + rewrite targets_arr in Hin. apply in_flat_map in Hin as [e [He Ht]]. rewrite Forall_forall in H. eauto.
    + rewrite targets_type_obj in Hin. destruct (lookup "__typename" l) as [[| | |s| |]|]; try contradiction.
      destruct (String.eqb s ty); [eauto | contradiction].
Qed.

(** too few results: the walk runs out of them; too many: some are left over *)
Theorem graft_too_few_fails : forall path node rs,
  List.length rs < List.length (targets path node) -> graft path node rs = None.
Proof.
  intros path node rs Hl. destruct (graft path node rs) as [[n' rest]|] eqn:Eg; [|reflexivity].
  destruct (graft_some_merge_each _ _ _ _ _ Eg) as [_ He]. apply merge_each_spec in He. lia.
Qed.

Theorem graft_too_many_left_over : forall path node rs node' rest,
  graft path node rs = Some (node', rest) ->
  rest = skipn (List.length (targets path node)) rs /\
  List.length rest = List.length rs - List.length (targets path node).
Proof.
  intros path node rs node' rest Hg. destruct (graft_some_merge_each _ _ _ _ _ Hg) as [_ He].
  apply merge_each_spec in He. destruct He as [_ [-> _]]. split; [reflexivity | apply skipn_length].
Qed.

(** ** DUPLICATE KEYS: the matching is by position only.  Two targets with equal keys (the same object reached
    twice) each get the result at their own position ([positional_matching] does not look at keys); and when
    the service answers as a function of the key, they get equal results. *)
Theorem equal_keys_equal_results : forall (f : json -> json) path node ks node' rest i j ti tj,
  extract_keys true path node = Some ks ->
  graft path node (map f ks) = Some (node', rest) ->
  nth_error (targets path node) i = Some ti -> nth_error (targets path node) j = Some tj ->
  fed_key ti = fed_key tj ->
  exists k, fed_key ti = Some k /\
            nth_error (targets path node') i = merge_pair ti (f k) /\
            nth_error (targets path node') j = merge_pair tj (f k).
Proof.
  intros f path node ks node' rest i j ti tj Hk Hg Hi Hj Heq.
  destruct (positional_matching _ _ _ _ _ _ Hk (map_length f ks) Hg) as [_ [_ Hn]].
  destruct (extract_keys_targets _ _ _ Hk) as [_ [Hm Hlen]].
  assert (Hki : exists k, nth_error ks i = Some k).
  { destruct (nth_error ks i) eqn:E; eauto. apply nth_error_None in E.
    assert (i < List.length (targets path node)) by (apply nth_error_Some; congruence). lia. }
  assert (Hkj : exists k, nth_error ks j = Some k).
  { destruct (nth_error ks j) eqn:E; eauto. apply nth_error_None in E.
    assert (j < List.length (targets path node)) by (apply nth_error_Some; congruence). lia. }
  destruct Hki as [ki Hki], Hkj as [kj Hkj].
  destruct (Hn i ti (f ki) Hi) as [ti' [ki' [Ai [Bi [Ci Di]]]]]; [rewrite nth_error_map, Hki; reflexivity|].
  destruct (Hn j tj (f kj) Hj) as [tj' [kj' [Aj [Bj [Cj Dj]]]]]; [rewrite nth_error_map, Hkj; reflexivity|].
  assert (ki' = ki) by congruence. assert (kj' = kj) by congruence. subst ki' kj'.
  assert (ki = kj) by congruence. subst kj.
  exists ki. split; [exact Di|]. split; congruence.
Qed.

(** a tree in which the walk meets no target comes back as it is *)
Lemma set_key_same : forall k v (l : list (string * json)), lookup k l = Some v -> set_key k v l = l.
Proof.
  intros k v l. induction l as [|[k' v'] t IH]; simpl; [reflexivity|].
  destruct (String.eqb k k') eqn:E; intros H.
  - apply String.eqb_eq in E. inversion H; subst. reflexivity.
  - rewrite IH by exact H. reflexivity.
Qed.

(** * 3. Nothing but the targets changes *)
Lemma graft_list_skeleton : forall path l,
  Forall (fun e => forall rs e' rest, graft path e rs = Some (e', rest) -> skeleton path e' = skeleton path e) l ->
  forall rs l' rest, graft_list (graft path) l rs = Some (l', rest) ->
                     map (skeleton path) l' = map (skeleton path) l.
Proof.
  intros path l H. induction H as [|e t He _ IH]; intros rs l' rest Hg; simpl in Hg.
  - inversion Hg; reflexivity.
  - destruct (graft path e rs) as [[e' r1]|] eqn:E1; [|discriminate].
    destruct (graft_list (graft path) t r1) as [[t' r2]|] eqn:E2; [|discriminate].
    inversion Hg; subst. simpl. rewrite (He _ _ _ E1), (IH _ _ _ E2). reflexivity.
Qed.

Theorem graft_skeleton : forall path node rs node' rest,
  graft path node rs = Some (node', rest) -> skeleton path node' = skeleton path node.
Proof.
  induction path as [|[name|t] restp IHp]; intros node.
  - induction node using json_ind'; intros rs node' rest Hg;
      try (rewrite graft_atom in Hg by reflexivity; inversion Hg; reflexivity).
    + rewrite graft_arr in Hg. destruct (graft_list (graft []) l rs) as [[l' rs']|] eqn:E; [|discriminate].
      inversion Hg; subst. rewrite !skeleton_arr. f_equal. eapply graft_list_skeleton; eauto.
    + destruct (graft_obj_keeps_atoms _ _ _ _ _ Hg) as [kvs' [-> _]]. reflexivity.
  - induction node using json_ind'; intros rs node' rest Hg;
      try (rewrite graft_atom in Hg by reflexivity; inversion Hg; reflexivity).
    + rewrite graft_arr in Hg.
      destruct (graft_list (graft (SField name :: restp)) l rs) as [[l' rs']|] eqn:E; [|discriminate].
      inversion Hg; subst. rewrite !skeleton_arr. f_equal. eapply graft_list_skeleton; eauto.
    + rewrite graft_field_obj in Hg. destruct (lookup name l) as [next|] eqn:El; [|discriminate].
      destruct (graft restp next rs) as [[next' rs']|] eqn:E; [|discriminate]. inversion Hg; subst.
      rewrite !skeleton_field_obj, El, lookup_set_key_same by congruence.
      rewrite set_key_twice, (IHp _ _ _ _ E). reflexivity.
  - induction node using json_ind'; intros rs node' rest Hg;
      try (rewrite graft_atom in Hg by reflexivity; inversion Hg; reflexivity).
    + rewrite graft_arr in Hg.
      destruct (graft_list (graft (SType t :: restp)) l rs) as [[l' rs']|] eqn:E; [|discriminate].
      inversion Hg; subst. rewrite !skeleton_arr. f_equal. eapply graft_list_skeleton; eauto.
    + rewrite graft_type_obj in Hg.
      destruct (lookup "__typename" l) as [[| | |s| |]|] eqn:El; try discriminate.
      destruct (String.eqb s t) eqn:Es; [|inversion Hg; reflexivity].
      destruct (graft_obj_keeps_atoms _ _ _ _ _ Hg) as [kvs' [-> Hk]].
      rewrite !skeleton_type_obj, El, (Hk _ _ El eq_refl), Es. eapply IHp; eauto.
Qed.

Lemma skeleton_no_targets_list : forall path l,
  Forall (fun e => targets path e = [] -> skeleton path e = e) l ->
  flat_map (targets path) l = [] -> map (skeleton path) l = l.
Proof.
  intros path l H. induction H as [|e t He _ IH]; simpl; intros Hn; [reflexivity|].
  apply app_eq_nil in Hn as [H1 H2]. rewrite (He H1), (IH H2). reflexivity.
Qed.

Lemma skeleton_no_targets : forall path node, targets path node = [] -> skeleton path node = node.
Proof.
  induction path as [|[name|t] restp IHp]; intros node.
  - induction node using json_ind'; intros Hn; try reflexivity.
    + rewrite targets_arr in Hn. rewrite skeleton_arr, (skeleton_no_targets_list _ _ H Hn). reflexivity.
    + discriminate.
  - induction node using json_ind'; intros Hn; try reflexivity.
    + rewrite targets_arr in Hn. rewrite skeleton_arr, (skeleton_no_targets_list _ _ H Hn). reflexivity.
    + rewrite targets_field_obj in Hn. rewrite skeleton_field_obj.
      destruct (lookup name l) as [next|] eqn:El; [|reflexivity].
      rewrite (IHp _ Hn), (set_key_same _ _ _ El). reflexivity.
  - induction node using json_ind'; intros Hn; try reflexivity.
    + rewrite targets_arr in Hn. rewrite skeleton_arr, (skeleton_no_targets_list _ _ H Hn). reflexivity.
    + rewrite targets_type_obj in Hn. rewrite skeleton_type_obj.
      destruct (lookup "__typename" l) as [[| | |s| |]|]; try reflexivity.
      destruct (String.eqb s t); [apply IHp; exact Hn | reflexivity].
Qed.

Theorem graft_without_targets_is_identity : forall path node rs node' rest,
  targets path node = [] -> graft path node rs = Some (node', rest) -> node' = node /\ rest = rs.
Proof.
  intros path node rs node' rest Hn Hg.
  destruct (graft_some_merge_each _ _ _ _ _ Hg) as [_ He]. rewrite Hn in He. simpl in He. inversion He as [[Hn' Hr]].
  split; [|reflexivity].
  rewrite <- (skeleton_no_targets path node' (eq_sym Hn')), <- (skeleton_no_targets path node Hn).
  eapply graft_skeleton; eauto.
Qed.

(** * 4. NULLS IN LISTS: null elements of the arrays on the way contribute no key and take no result; with
    or without them the same targets are met in the same order, and grafting commutes with removing them *)
Lemma strip_nulls_obj_keeps : forall path kvs,
  exists kvs', strip_nulls path (JObj kvs) = JObj kvs' /\ keeps_atoms kvs kvs'.
Proof.
  induction path as [|[name|t] restp IHp]; intros kvs.
  - exists kvs. split; [reflexivity | intros k v Hl _; exact Hl].
  - rewrite strip_nulls_field_obj. destruct (lookup name kvs) as [next|] eqn:El.
    + eexists. split; [reflexivity|]. intros k v Hl Ha. destruct (String.eqb name k) eqn:Ek.
      * apply String.eqb_eq in Ek. subst k. rewrite El in Hl. inversion Hl; subst next.
        rewrite (strip_nulls_atom _ _ Ha). apply lookup_set_key_same. congruence.
      * apply String.eqb_neq in Ek. rewrite lookup_set_key_other; auto.
    + exists kvs. split; [reflexivity | intros k v Hl _; exact Hl].
  - rewrite strip_nulls_type_obj. destruct (lookup "__typename" kvs) as [[| | |s| |]|];
      try (exists kvs; split; [reflexivity | intros k v Hl _; exact Hl]).
    destruct (String.eqb s t); [apply IHp | exists kvs; split; [reflexivity | intros k v Hl _; exact Hl]].
Qed.

Lemma jnull_true : forall e, jnull e = true -> e = JNull.
Proof. intros e H. destruct e; try discriminate; reflexivity. Qed.

Lemma targets_strip_list : forall path l,
  Forall (fun e => targets path (strip_nulls path e) = targets path e) l ->
  flat_map (targets path) (flat_map (fun e => if jnull e then [] else [strip_nulls path e]) l) =
  flat_map (targets path) l.
Proof.
  intros path l H. induction H as [|e t He _ IH]; simpl; [reflexivity|].
  destruct (jnull e) eqn:En; simpl.
  - apply jnull_true in En. subst e. rewrite (targets_atom path JNull eq_refl). exact IH.
  - rewrite He, IH. reflexivity.
Qed.

Theorem targets_strip_nulls : forall path node, targets path (strip_nulls path node) = targets path node.
Proof.
  induction path as [|[name|t] restp IHp]; intros node.
  - induction node using json_ind'; try reflexivity.
    rewrite strip_nulls_arr, !targets_arr. apply targets_strip_list; assumption.
  - induction node using json_ind'; try reflexivity.
    + rewrite strip_nulls_arr, !targets_arr. apply targets_strip_list; assumption.
    + rewrite strip_nulls_field_obj. destruct (lookup name l) as [next|] eqn:El; [|reflexivity].
      rewrite !targets_field_obj, El, lookup_set_key_same by congruence. apply IHp.
  - induction node using json_ind'; try reflexivity.
    + rewrite strip_nulls_arr, !targets_arr. apply targets_strip_list; assumption.
    + rewrite strip_nulls_type_obj. destruct (lookup "__typename" l) as [[| | |s| |]|] eqn:El; try reflexivity.
      destruct (String.eqb s t) eqn:Es; [|reflexivity].
      destruct (strip_nulls_obj_keeps restp l) as [kvs' [E Hk]].
      rewrite targets_type_obj, El, Es. rewrite <- (IHp (JObj l)), E.
      rewrite targets_type_obj, (Hk _ _ El eq_refl), Es. reflexivity.
Qed.

Lemma walk_ok_strip_list : forall st path l,
  Forall (fun e => walk_ok st path (strip_nulls path e) = walk_ok st path e) l ->
  forallb (walk_ok st path) (flat_map (fun e => if jnull e then [] else [strip_nulls path e]) l) =
  forallb (walk_ok st path) l.
Proof.
  intros st path l H. induction H as [|e t He _ IH]; simpl; [reflexivity|].
  destruct (jnull e) eqn:En; simpl.
  - apply jnull_true in En. subst e. rewrite IH.
    destruct path as [|[name|ty] rest]; reflexivity.
  - rewrite He, IH. reflexivity.
Qed.

Theorem walk_ok_strip_nulls : forall st path node,
  walk_ok st path (strip_nulls path node) = walk_ok st path node.
Proof.
  intros st. induction path as [|[name|t] restp IHp]; intros node.
  - induction node using json_ind'; try reflexivity.
    rewrite strip_nulls_arr, !walk_ok_arr. apply walk_ok_strip_list; assumption.
  - induction node using json_ind'; try reflexivity.
    + rewrite strip_nulls_arr, !walk_ok_arr. apply walk_ok_strip_list; assumption.
    + rewrite strip_nulls_field_obj. destruct (lookup name l) as [next|] eqn:El; [|reflexivity].
      rewrite !walk_ok_field_obj, El, lookup_set_key_same by congruence. apply IHp.
  - induction node using json_ind'; try reflexivity.
    + rewrite strip_nulls_arr, !walk_ok_arr. apply walk_ok_strip_list; assumption.
    + rewrite strip_nulls_type_obj. destruct (lookup "__typename" l) as [[| | |s| |]|] eqn:El; try reflexivity.
      destruct (String.eqb s t) eqn:Es; [|reflexivity].
      destruct (strip_nulls_obj_keeps restp l) as [kvs' [E Hk]].
      rewrite walk_ok_type_obj, El, Es. rewrite <- (IHp (JObj l)), E.
      rewrite walk_ok_type_obj, (Hk _ _ El eq_refl), Es. reflexivity.
Qed.

Theorem extract_keys_strip_nulls : forall path node,
  extract_keys true path (strip_nulls path node) = extract_keys true path node.
Proof.
  intros path node. rewrite !extract_keys_is_targets, walk_ok_strip_nulls, targets_strip_nulls. reflexivity.
Qed.

Lemma graft_list_strip : forall path l,
  Forall (fun e => forall rs, graft path (strip_nulls path e) rs = strip_res path (graft path e rs)) l ->
  forall rs,
    graft_list (graft path) (flat_map (fun e => if jnull e then [] else [strip_nulls path e]) l) rs =
    match graft_list (graft path) l rs with
    | Some (l', rest) => Some (flat_map (fun e => if jnull e then [] else [strip_nulls path e]) l', rest)
    | None => None
    end.
Proof.
  intros path l H. induction H as [|e t He _ IH]; intros rs; [reflexivity|].
  cbn [flat_map]. destruct (jnull e) eqn:En.
  - apply jnull_true in En. subst e. cbn [app graft_list]. rewrite (graft_atom path JNull rs eq_refl), IH.
    destruct (graft_list (graft path) t rs) as [[t' r2]|]; reflexivity.
  - cbn [app graft_list]. rewrite He. destruct (graft path e rs) as [[e' r1]|] eqn:E1; [|reflexivity].
    cbn [strip_res]. rewrite IH. destruct (graft_list (graft path) t r1) as [[t' r2]|]; [|reflexivity].
    cbn [flat_map]. rewrite (graft_jnull _ _ _ _ _ E1), En. reflexivity.
Qed.

Theorem graft_strip_nulls : forall path node rs,
  graft path (strip_nulls path node) rs = strip_res path (graft path node rs).
Proof.
  induction path as [|[name|t] restp IHp]; intros node.
  - induction node using json_ind'; intros rs; try reflexivity.
    + rewrite strip_nulls_arr, !graft_arr, (graft_list_strip [] l H rs).
      destruct (graft_list (graft []) l rs) as [[l' rs']|]; [|reflexivity].
      unfold strip_res. rewrite strip_nulls_arr. reflexivity.
    + simpl. destruct rs as [|[| | | | |r] rs']; try reflexivity. destruct (merge_result l r); reflexivity.
  - induction node using json_ind'; intros rs; try reflexivity.
    + rewrite strip_nulls_arr, !graft_arr, (graft_list_strip _ l H rs).
      destruct (graft_list (graft (SField name :: restp)) l rs) as [[l' rs']|]; [|reflexivity].
      unfold strip_res. rewrite strip_nulls_arr. reflexivity.
    + rewrite strip_nulls_field_obj. destruct (lookup name l) as [next|] eqn:El.
      * rewrite !graft_field_obj, El, lookup_set_key_same by congruence. rewrite IHp.
        destruct (graft restp next rs) as [[next' rs']|]; [|reflexivity].
        unfold strip_res. rewrite strip_nulls_field_obj, lookup_set_key_same by congruence.
        rewrite !set_key_twice. reflexivity.
      * rewrite graft_field_obj, El. reflexivity.
  - induction node using json_ind'; intros rs; try reflexivity.
    + rewrite strip_nulls_arr, !graft_arr, (graft_list_strip _ l H rs).
      destruct (graft_list (graft (SType t :: restp)) l rs) as [[l' rs']|]; [|reflexivity].
      unfold strip_res. rewrite strip_nulls_arr. reflexivity.
    + rewrite strip_nulls_type_obj, (graft_type_obj t restp l).
      destruct (lookup "__typename" l) as [[| | |s| |]|] eqn:El;
        try (rewrite graft_type_obj, El; reflexivity).
      destruct (String.eqb s t) eqn:Es.
      * destruct (strip_nulls_obj_keeps restp l) as [kvs' [E Hk]].
        rewrite E, graft_type_obj, (Hk _ _ El eq_refl), Es.
        rewrite <- E, IHp. destruct (graft restp (JObj l) rs) as [[n' rs']|] eqn:Eg; [|reflexivity].
        destruct (graft_obj_keeps_atoms _ _ _ _ _ Eg) as [k2 [-> Hk2]].
        unfold strip_res. rewrite strip_nulls_type_obj, (Hk2 _ _ El eq_refl), Es. reflexivity.
      * rewrite graft_type_obj, El, Es. unfold strip_res. rewrite strip_nulls_type_obj, El, Es. reflexivity.
Qed.

(** inserting a null anywhere in an array on the way changes nothing of the above *)
Lemma strip_nulls_insert : forall path l1 l2,
  strip_nulls path (JArr (l1 ++ JNull :: l2)) = strip_nulls path (JArr (l1 ++ l2)).
Proof. intros path l1 l2. rewrite !strip_nulls_arr, !flat_map_app. reflexivity. Qed.

Theorem nulls_shift_nothing : forall path a b,
  strip_nulls path a = strip_nulls path b ->
  targets path a = targets path b /\
  extract_keys true path a = extract_keys true path b /\
  forall rs, strip_res path (graft path a rs) = strip_res path (graft path b rs).
Proof.
  intros path a b H. split; [|split].
  - rewrite <- (targets_strip_nulls path a), H. apply targets_strip_nulls.
  - rewrite <- (extract_keys_strip_nulls path a), H. apply extract_keys_strip_nulls.
  - intros rs. rewrite <- !graft_strip_nulls, H. reflexivity.
Qed.

(** ... and grafting puts the null back where it was *)
Theorem graft_insert_null : forall path l1 l2 rs,
  graft path (JArr (l1 ++ JNull :: l2)) rs =
  match graft_list (graft path) l1 rs with
  | Some (l1', r1) =>
      match graft_list (graft path) l2 r1 with
      | Some (l2', r2) => Some (JArr (l1' ++ JNull :: l2'), r2)
      | None => None
      end
  | None => None
  end /\
  graft path (JArr (l1 ++ l2)) rs =
  match graft_list (graft path) l1 rs with
  | Some (l1', r1) =>
      match graft_list (graft path) l2 r1 with
      | Some (l2', r2) => Some (JArr (l1' ++ l2'), r2)
      | None => None
      end
  | None => None
  end.
Proof.
  intros path l1 l2 rs. rewrite !graft_arr, !graft_list_app. split.
  - destruct (graft_list (graft path) l1 rs) as [[l1' r1]|]; [|reflexivity].
    cbn [graft_list]. rewrite (graft_atom path JNull r1 eq_refl).
    destruct (graft_list (graft path) l2 r1) as [[l2' r2]|]; reflexivity.
  - destruct (graft_list (graft path) l1 rs) as [[l1' r1]|]; [|reflexivity].
    destruct (graft_list (graft path) l2 r1) as [[l2' r2]|]; reflexivity.
Qed.

(** the unrepaired extractKeys (no nil check) fails on a null element at the end of the path; the end-to-end
    refutation is Props/C06.gateway_fails_on_null_at_hop_refuted *)
Lemma extract_keys_unrepaired_null : forall l, In JNull l -> extract_keys false [] (JArr l) = None.
Proof.
  intros l H. rewrite extract_keys_arr. induction l as [|e t IH]; [contradiction|].
  destruct H as [->|H]; cbn [map concat_opt]; [reflexivity|].
  rewrite (IH H). destruct (extract_keys false [] e); reflexivity.
Qed.

(** * 5. LISTS OF LISTS: only the depth-first, left-to-right order of the leaves of an array of arrays matters *)
Lemma flat_map_flat_map : forall {A B C} (f : B -> list C) (g : A -> list B) l,
  flat_map f (flat_map g l) = flat_map (fun x => flat_map f (g x)) l.
Proof.
  intros A B C f g l. induction l as [|x t IH]; simpl; [reflexivity|]. rewrite flat_map_app, IH. reflexivity.
Qed.

Theorem targets_leaves : forall path node, targets path node = flat_map (targets path) (leaves node).
Proof.
  intros path node. induction node using json_ind'; try (simpl; rewrite app_nil_r; reflexivity).
  rewrite targets_arr. simpl. rewrite flat_map_flat_map.
  induction H as [|e t He _ IH]; simpl; [reflexivity|]. rewrite <- He, IH. reflexivity.
Qed.

Lemma concat_opt_app : forall {A} (a b : list (option (list A))),
  concat_opt (a ++ b) = match concat_opt a, concat_opt b with Some x, Some y => Some (x ++ y) | _, _ => None end.
Proof.
  intros A a b. induction a as [|[x|] t IH]; simpl.
  - destruct (concat_opt b); reflexivity.
  - rewrite IH. destruct (concat_opt t); [|reflexivity]. destruct (concat_opt b); [|reflexivity].
    rewrite app_assoc. reflexivity.
  - reflexivity.
Qed.

Theorem extract_keys_leaves : forall rep path node,
  extract_keys rep path node = concat_opt (map (extract_keys rep path) (leaves node)).
Proof.
  intros rep path node.
  induction node using json_ind';
    try (simpl leaves; simpl map; simpl concat_opt;
         match goal with |- ?x = _ => destruct x end; [rewrite app_nil_r|]; reflexivity).
  rewrite extract_keys_arr. simpl leaves.
  induction H as [|e t He _ IH]; [reflexivity|]. cbn [map flat_map]. rewrite map_app, concat_opt_app, <- He, <- IH.
  simpl. destruct (extract_keys rep path e); reflexivity.
Qed.

Lemma leaves_same_kind : forall a b, same_kind a b -> atom a = true \/ (exists l, a = JObj l) -> leaves b = [b].
Proof.
  intros a b Hk H. destruct a; simpl in Hk; try (subst; reflexivity).
  - destruct H as [H|[l0 H]]; discriminate.
  - destruct Hk as [l' ->]. reflexivity.
Qed.

Theorem graft_leaves : forall path node rs node' rest,
  graft path node rs = Some (node', rest) ->
  graft_list (graft path) (leaves node) rs = Some (leaves node', rest).
Proof.
  intros path node. induction node using json_ind'; intros rs node' rest Hg;
    try (pose proof (graft_kind _ _ _ _ _ Hg) as Hk; simpl in Hk; subst node'; simpl; rewrite Hg; reflexivity).
  - rewrite graft_arr in Hg. destruct (graft_list (graft path) l rs) as [[l' rs']|] eqn:E; [|discriminate].
    inversion Hg; subst. simpl leaves. clear Hg. revert rs l' rest E.
    induction H as [|e t He _ IH]; intros rs l' rest E; simpl in E.
    + inversion E; reflexivity.
    + destruct (graft path e rs) as [[e' r1]|] eqn:E1; [|discriminate].
      destruct (graft_list (graft path) t r1) as [[t' r2]|] eqn:E2; [|discriminate].
      inversion E; subst. cbn [flat_map]. rewrite graft_list_app, (He _ _ _ E1), (IH _ _ _ E2). reflexivity.
  - pose proof (graft_kind _ _ _ _ _ Hg) as [l' ->]. simpl. rewrite Hg. reflexivity.
Qed.

Corollary nesting_is_irrelevant : forall rep path a b,
  leaves a = leaves b ->
  targets path a = targets path b /\ extract_keys rep path a = extract_keys rep path b.
Proof.
  intros rep path a b H. split.
  - rewrite (targets_leaves path a), (targets_leaves path b), H. reflexivity.
  - rewrite (extract_keys_leaves rep path a), (extract_keys_leaves rep path b), H. reflexivity.
Qed.

(** * 6. The length guard of [stitch] (executor.go:385-387) and what a successful stitch is *)
Theorem stitch_length_guard : forall run path cur ks rs,
  extract_keys true path (JArr cur) = Some ks -> run (Some ks) = Some rs ->
  List.length rs <> List.length ks -> stitch true run false path cur = None.
Proof.
  intros run path cur ks rs Hk Hr Hl. unfold stitch. rewrite Hk, Hr.
  apply Nat.eqb_neq in Hl. rewrite Hl. reflexivity.
Qed.

Theorem stitch_spec : forall run path cur cur',
  stitch true run false path cur = Some cur' ->
  exists ks rs,
    extract_keys true path (JArr cur) = Some ks /\ run (Some ks) = Some rs /\
    List.length rs = List.length ks /\
    map fed_key (targets path (JArr cur)) = map Some ks /\
    merge_each (targets path (JArr cur)) rs = Some (targets path (JArr cur'), []) /\
    skeleton path (JArr cur') = skeleton path (JArr cur).
Proof.
  intros run path cur cur' H. unfold stitch in H.
  destruct (extract_keys true path (JArr cur)) as [ks|] eqn:Hk; [|discriminate].
  destruct (run (Some ks)) as [rs|] eqn:Hr; [|discriminate].
  destruct (negb (Nat.eqb (List.length rs) (List.length ks))) eqn:Hl; [discriminate|].
  apply negb_false_iff, Nat.eqb_eq in Hl.
  destruct (graft path (JArr cur) rs) as [[n' rest]|] eqn:Hg; [|discriminate].
  destruct n'; try discriminate. destruct rest; [|discriminate]. inversion H; subst.
  exists ks, rs. destruct (extract_keys_targets _ _ _ Hk) as [_ [Hm _]].
  destruct (graft_some_merge_each _ _ _ _ _ Hg) as [_ He].
  repeat split; auto. eapply graft_skeleton; eauto.
Qed.

(** with as many results as keys a stitch fails only because some result is not an object or clashes with its
    own target *)
Theorem stitch_fails_iff : forall run path cur ks rs,
  extract_keys true path (JArr cur) = Some ks -> run (Some ks) = Some rs ->
  List.length rs = List.length ks ->
  (stitch true run false path cur = None <->
   exists i t r, nth_error (targets path (JArr cur)) i = Some t /\ nth_error rs i = Some r /\ merge_pair t r = None).
Proof.
  intros run path cur ks rs Hk Hr Hl. rewrite <- (graft_fails_iff _ _ _ _ Hk Hl).
  unfold stitch. rewrite Hk, Hr, Hl, Nat.eqb_refl. simpl.
  destruct (graft path (JArr cur) rs) as [[n' rest]|] eqn:Hg; [|tauto].
  destruct (positional_matching _ _ _ _ _ _ Hk Hl Hg) as [-> _].
  destruct (graft_kind _ _ _ _ _ Hg) as [l' ->]. split; discriminate.
Qed.

(** * Examples (non-vacuity) *)
Definition xo (id : Z) (extra : list (string * json)) : json :=
  JObj ([("id", JNum id); (federation_field, JObj [("id", JNum id)])] ++ extra).
Definition xr (v : Z) : json := JObj [("x", JNum v)].
Definition xk (id : Z) : json := JObj [("id", JNum id)].

(** duplicate keys: the same object twice in a list, and once more under another parent; three results, all
    different; each copy gets the result at its own position *)
Definition dup_tree : json :=
  JArr [JObj [("items", JArr [xo 1 []; xo 1 []])]; JObj [("items", JArr [xo 1 []])]].

Example duplicate_keys_by_position :
  extract_keys true [SField "items"] dup_tree = Some [xk 1; xk 1; xk 1] /\
  graft [SField "items"] dup_tree [xr 10; xr 20; xr 30] =
    Some (JArr [JObj [("items", JArr [xo 1 [("x", JNum 10%Z)]; xo 1 [("x", JNum 20%Z)]])];
                JObj [("items", JArr [xo 1 [("x", JNum 30%Z)]])]], []).
Proof. vm_compute. split; reflexivity. Qed.

(** nulls and arrays of arrays: [[o1, null], [], [o2, [o3]]] *)
Definition nest_tree : json :=
  JObj [("f", JArr [JArr [xo 1 []; JNull]; JArr []; JArr [xo 2 []; JArr [xo 3 []]]])].

Example nested_lists_and_nulls :
  targets [SField "f"] nest_tree = [xo 1 []; xo 2 []; xo 3 []] /\
  extract_keys true [SField "f"] nest_tree = Some [xk 1; xk 2; xk 3] /\
  graft [SField "f"] nest_tree [xr 10; xr 20; xr 30] =
    Some (JObj [("f", JArr [JArr [xo 1 [("x", JNum 10%Z)]; JNull]; JArr [];
                            JArr [xo 2 [("x", JNum 20%Z)]; JArr [xo 3 [("x", JNum 30%Z)]]]])], []) /\
  strip_nulls [SField "f"] nest_tree =
    JObj [("f", JArr [JArr [xo 1 []]; JArr []; JArr [xo 2 []; JArr [xo 3 []]]])] /\
  skeleton [SField "f"] nest_tree =
    JObj [("f", JArr [JArr [JObj []; JNull]; JArr []; JArr [JObj []; JArr [JObj []]]])] /\
  extract_keys false [SField "f"] nest_tree = None.
Proof. vm_compute. repeat split; reflexivity. Qed.

(** a type step: the object of the other union member is no target, takes no result and stays as it is *)
Definition union_tree : json :=
  JArr [JObj [("u", JArr [xo 1 [("__typename", JStr "A")]; xo 2 [("__typename", JStr "B")]; JNull;
                           xo 3 [("__typename", JStr "A")]])]].

Example union_members_skipped :
  extract_keys true [SField "u"; SType "A"] union_tree = Some [xk 1; xk 3] /\
  graft [SField "u"; SType "A"] union_tree [xr 10; xr 30] =
    Some (JArr [JObj [("u", JArr [xo 1 [("__typename", JStr "A"); ("x", JNum 10%Z)];
                                  xo 2 [("__typename", JStr "B")]; JNull;
                                  xo 3 [("__typename", JStr "A"); ("x", JNum 30%Z)]])]], []).
Proof. vm_compute. split; reflexivity. Qed.

(** the guard and the failure cases: one result too few / too many; a result that is not an object; a result
    that clashes with its target *)
Example stitch_guard_examples :
  let cur := [JObj [("items", JArr [xo 1 []; xo 2 []])]] in
  stitch true (fun _ => Some [xr 10]) false [SField "items"] cur = None /\
  stitch true (fun _ => Some [xr 10; xr 20; xr 30]) false [SField "items"] cur = None /\
  stitch true (fun _ => Some [xr 10; JNum 5%Z]) false [SField "items"] cur = None /\
  stitch true (fun _ => Some [xr 10; JObj [("id", JNum 2%Z)]]) false [SField "items"] cur = None /\
  stitch true (fun _ => Some [xr 10; xr 20]) false [SField "items"] cur =
    Some [JObj [("items", JArr [xo 1 [("x", JNum 10%Z)]; xo 2 [("x", JNum 20%Z)]])]].
Proof. vm_compute. repeat split; reflexivity. Qed.
