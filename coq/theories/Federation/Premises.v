(** The premises of the transparency theorem (Props/C06.v), as boolean functions the correspondence check
    evaluates on the generated cases.  Definitions only. *)
From Coq Require Import List String Bool Arith ZArith.
From Thunder Require Import Lib.Json Federation.Merge Federation.Normalize Federation.Planner Federation.Executor.
Import ListNotations.
Open Scope string_scope.
Open Scope list_scope.

(** ** queries as the parser delivers them: a selection without a selection set carries no sub-selections
    (decidable; directives are unrestricted) *)
Fixpoint qwf (n : node) : bool :=
  match n with
  | NField _ _ _ _ _ hs subs => (hs || match subs with [] => true | _ => false end) && forallb qwf subs
  | NFrag _ _ subs => forallb qwf subs
  end.

(** ** well-formed normalised queries (decidable; evaluated on every flattened query by the harness) *)
Definition alias_ok (al nm : string) : bool :=
  negb (String.eqb al federation_field) && negb (String.eqb al "__key") &&
  negb (String.eqb nm federation_field) &&
  Bool.eqb (String.eqb al "__typename") (String.eqb nm "__typename").

Fixpoint node_ok (g : gschema) (ctx : rtype) (n : node) {struct n} : bool :=
  match ctx, n with
  | RObj ty, NField al nm _ _ dirs hs subs =>
      alias_ok al nm && should_include dirs &&
      if String.eqb nm "__typename" then negb hs && match subs with [] => true | _ => false end
      else match find_gfield g ty nm with
           | None => false
           | Some (RScalar, _) => negb hs && match subs with [] => true | _ => false end
           | Some (RObj o, _) =>
               hs && nodup_str (map n_alias subs) && forallb (node_ok g (RObj o)) subs
           | Some (RUnion u, _) =>
               hs && nodup_str (map n_alias subs) && forallb (node_ok g (RUnion u)) subs &&
               match subs with [] => false | _ => true end &&
               match union_members g u with Some _ => true | None => false end
           end
  | RUnion u, NFrag on dirs body =>
      match dirs with [] => true | _ => false end &&
      match union_members g u with Some ms => existsb (String.eqb on) ms | None => false end &&
      match body with [] => false | _ => true end &&
      nodup_str (map n_alias body) && forallb (node_ok g (RObj on)) body
  | _, _ => false
  end.

Definition flat_ok (g : gschema) (ty : string) (sels : list node) : bool :=
  nodup_str (map n_alias sels) && forallb (node_ok g (RObj ty)) sels.


(** what the transparency theorem needs of [fed_ok] (the rest of it -- who has _federation on what -- is what
    makes the plans executable on real services: Props/C06.subquery_closed) *)
Definition fed_ok0 (g : gschema) : bool :=
  forallb (fun e => let '(_, _, rty, _) := e in match rty with RObj o => negb (String.eqb o "Query") | _ => true end)
          (g_fields g) &&
  forallb (fun e => negb (existsb (String.eqb "Query") (snd e))) (g_unions g) &&
  negb (existsb (String.eqb coordinator) (services_of g)).

(** further decidable conditions on the federation: every service that serves a field of an object other than
    Query can re-fetch it by (at least) its id; id and org are scalars; results of Query carry no __key *)
Definition fed_ok2 (g : gschema) : bool :=
  forallb (fun e => let '(ty, f, rty, owners) := e in
     (String.eqb ty "Query" || is_leaf ty || forallb (fun o => existsb (String.eqb "id") (fkeys_of g ty o)) owners) &&
     (negb (String.eqb f "id" || String.eqb f "org") || String.eqb ty "Query" ||
      match rty with RScalar => true | _ => false end)) (g_fields g) &&
  negb (existsb (String.eqb "Query") (g_keyed g)).


(** what selectService (planner.go:150-178) needs in order not to fail: every field is served by at least one
    service, and a ServiceSelector entry names a service that serves the field *)
Definition sel_ok (g : gschema) : bool :=
  forallb (fun e => let '(_, _, _, owners) := e in match owners with [] => false | _ => true end) (g_fields g) &&
  forallb (fun e => let '(t, f, s) := e in
     match find_gfield g t f with
     | Some (_, owners) => existsb (String.eqb s) owners
     | None => true
     end) (g_selector g).

(** fuel of the planner on a normalised selection set: two units per field level (the selection itself, and
    the step to another service), one per union-member fragment *)
Fixpoint pd (n : node) : nat :=
  match n with
  | NField _ _ _ _ _ _ subs => 2 + fold_right (fun x d => Nat.max (pd x) d) 0 subs
  | NFrag _ _ subs => 1 + fold_right (fun x d => Nat.max (pd x) d) 0 subs
  end.
Definition pdl (l : list node) : nat := fold_right (fun x d => Nat.max (pd x) d) 0 l.

(** ** the world of data of a case: a finite table of resolver results (everything else is null) *)
Definition world_of (calls : list (string * Z * string * string * aval)) (orgs : list (string * Z * Z)) : world :=
  mk_world
    (fun ty id f ak =>
       match find (fun e => let '(t, i, n, a, _) := e in
                            String.eqb t ty && Z.eqb i id && String.eqb n f && String.eqb a ak) calls with
       | Some (_, _, _, _, v) => v
       | None => ANull
       end)
    (fun ty id =>
       match find (fun e => let '(t, i, _) := e in String.eqb t ty && Z.eqb i id) orgs with
       | Some (_, _, o) => o
       | None => 0%Z
       end).


Definition scalar_jsonb (j : json) : bool := match j with JArr _ | JObj _ => false | _ => true end.

(** scalars of the world are JSON scalars *)
Fixpoint scalars_okb (v : aval) : bool :=
  match v with
  | AScalar j => scalar_jsonb j
  | AList l => forallb scalars_okb l
  | _ => true
  end.

(** what a scalar-typed field may yield *)
Fixpoint svalb (v : aval) : bool :=
  match v with
  | ANull => true
  | AScalar j => scalar_jsonb j
  | AList l => forallb svalb l
  | _ => false
  end.

(** an object-typed field yields (lists of, or null) objects of that type, a union-typed field members of the union *)
Fixpoint vokb (g : gschema) (rty : rtype) (v : aval) {struct v} : bool :=
  match v with
  | ANull => true
  | AList l => forallb (vokb g rty) l
  | ARef t _ => match rty with RObj o => String.eqb t o && negb (is_leaf o) | RScalar => true | RUnion _ => false end
  | AURef t _ => match rty with
                 | RUnion u => match union_members g u with Some ms => existsb (String.eqb t) ms | None => false end
                 | RScalar => true
                 | RObj _ => false
                 end
  | AScalar _ => match rty with RScalar => true | _ => false end
  | ALeaf _ _ => match rty with RScalar => true | RObj o => is_leaf o | RUnion _ => false end
  end.

Definition calls_ok (g : gschema) (calls : list (string * Z * string * string * aval)) : bool :=
  forallb (fun e => let '(t, _, n, _, v) := e in
     scalars_okb v &&
     match find_gfield g t n with
     | Some (rty, _) => vokb g rty v && match rty with RScalar => svalb v | _ => true end
     | None => true
     end) calls.

(** all premises about one case: the federation, the data, the query and its normal form ([pick] is kept as a
    parameter for the callers; that the planner succeeds is no longer a premise: PlannerTotal) *)
Definition premises (g : gschema) (calls : list (string * Z * string * string * aval))
           (pick : list string -> option string) (q : list node) : bool :=
  let fuel := 2 * depth_list q + 4 in
  fed_ok0 g && plain_ok g && fed_ok2 g && sel_ok g && calls_ok g calls && forallb qwf q &&
  match flatten fuel false g (RObj "Query") (Some q) with
  | Some (Some flat) => flat_ok g "Query" flat
  | _ => false
  end.
