(** C09 composed with C06: the federation that (the model of) ConvertVersionedSchemas accepts satisfies the clauses
    of [Planner.fed_ok] that say who has _federation on what and who serves the federated keys -- the clauses
    Props/C06.subquery_closed needs in order that every sub-query only uses fields its service exposes.

    [gschema_of per m]: the gateway's view (Normalize.gschema) computed from the per-service schemas [per] (after
    the intersection of versions) and their union [m], as ConvertVersionedSchemas records it: a field's owners are
    [Merge.field_services], a service's federated keys of an object are the input fields of the argument of its
    Federation.<service>_<Object> field ([Merge.asked_keys]). *)
From Coq Require Import List String Bool Arith ZArith.
From Thunder Require Import Lib.Json Federation.Merge Federation.MergeProofsBase Federation.MergeProofsValid
  Federation.MergeProofsMore Federation.MergeProofsKeys Federation.Normalize Federation.Planner Federation.PlannerProofs.
Import ListNotations.
Open Scope string_scope.
Open Scope list_scope.

Definition rtype_of (t : tref) : rtype :=
  let '(k, n) := root_tref t in
  if String.eqb k "OBJECT" then RObj n else if String.eqb k "UNION" then RUnion n else RScalar.

(** the Federation plumbing object and the introspection types are never visited for a user query *)
Definition visible (n : string) : bool := negb (String.eqb n "Federation") && negb (String.prefix "__" n).

Definition gfields_of (per : list (string * schema)) (m : schema) : list (string * string * rtype * list string) :=
  flat_map (fun t =>
    if String.eqb (t_kind t) "OBJECT" && visible (t_name t)
    then map (fun f => (t_name t, f_name f, rtype_of (f_type f), field_services per (t_name t) (f_name f))) (t_fields t)
    else []) m.

Definition gfkeys_of (per : list (string * schema)) (m : schema) : list (string * string * list string) :=
  flat_map (fun sv =>
    let asked := asked_keys m (snd sv) in
    map (fun obj => (obj, fst sv, map snd (filter (fun ok => String.eqb (fst ok) obj) asked))) (dedupe (map fst asked))) per.

Definition gschema_of (per : list (string * schema)) (m : schema) : gschema :=
  mk_gschema (map t_name (filter (fun t => String.eqb (t_kind t) "OBJECT" && visible (t_name t)) m))
             (map (fun t => (t_name t, map fst (t_possible t))) (filter (fun t => String.eqb (t_kind t) "UNION") m))
             (gfields_of per m) (gfkeys_of per m) [] [].

Lemma find_type_in : forall s n t, find_type s n = Some t -> In t s /\ t_name t = n.
Proof. intros s n t H. unfold find_type in H. apply find_some in H as [Hin He]. apply String.eqb_eq in He. auto. Qed.

Lemma find_field_in : forall fs n f, find_field fs n = Some f -> In f fs /\ f_name f = n.
Proof. intros fs n f H. unfold find_field in H. apply find_some in H as [Hin He]. apply String.eqb_eq in He. auto. Qed.

Lemma has_field_inv : forall s ty f, has_field s ty f = true ->
  exists t fd, find_type s ty = Some t /\ t_kind t = "OBJECT" /\ find_field (t_fields t) f = Some fd.
Proof.
  intros s ty f H. unfold has_field in H. destruct (find_type s ty) as [t|] eqn:Et; [|discriminate].
  apply andb_prop in H as [Hk Hf]. apply String.eqb_eq in Hk.
  destruct (find_field (t_fields t) f) as [fd|] eqn:Ef; [|discriminate]. exists t, fd. repeat split; auto.
Qed.

Lemma has_field_intro : forall s ty f t, find_type s ty = Some t -> t_kind t = "OBJECT" -> type_has_field t f = true ->
  has_field s ty f = true.
Proof.
  intros s ty f t Ht Hk Hf. unfold has_field. rewrite Ht, Hk. simpl. unfold type_has_field in Hf. exact Hf.
Qed.

Section Compose.
  Variable per : list (string * schema).
  Variable m : schema.
  Hypothesis Hwf : forall sv, In sv per -> wf_schema (snd sv) = true.
  Hypothesis Hm : merge_slice Union (map snd per) = Some m.
  Notation g := (gschema_of per m).

  (** completeness of the union, on the per-service schemas *)
  Lemma merged_has : forall sv ty f, In sv per -> has_field (snd sv) ty f = true -> has_field m ty f = true.
  Proof.
    intros sv ty f Hin Hf. destruct per as [|sv0 rest] eqn:Ep; [contradiction|]. simpl in Hm.
    eapply (union_slice_complete (map snd rest) (snd sv0) m); eauto.
    - apply Hwf. left; reflexivity.
    - intros v Hv. apply in_map_iff in Hv as [x [<- Hx]]. apply Hwf. right; exact Hx.
    - destruct Hin as [<-|Hin]; [left; reflexivity | right; apply in_map; exact Hin].
  Qed.

  (** every entry of the gateway's field table for (ty, f) lists [field_services per ty f] *)
  Lemma gfield_owners : forall ty f rty owners, In (ty, f, rty, owners) (g_fields g) -> owners = field_services per ty f.
  Proof.
    intros ty f rty owners H. simpl in H. unfold gfields_of in H. apply in_flat_map in H as [t [Ht H]].
    destruct (String.eqb (t_kind t) "OBJECT" && visible (t_name t)); [|contradiction].
    apply in_map_iff in H as [fd [He Hfd]]. inversion He; subst. reflexivity.
  Qed.

  Lemma owns_inv : forall svc ty f, owns g svc ty f = true -> exists s, In (svc, s) per /\ has_field s ty f = true.
  Proof.
    intros svc ty f H. unfold owns in H. destruct (find_gfield g ty f) as [[rty owners]|] eqn:E; [|discriminate].
    apply existsb_eqb_In in H. apply find_gfield_in in E. rewrite (gfield_owners _ _ _ _ E) in H.
    unfold field_services in H. apply in_map_iff in H as [[svc' s] [Hs Hin]]. simpl in Hs. subst svc'.
    apply filter_In in Hin as [Hin Hf]. exists s. auto.
  Qed.

  Lemma owns_intro : forall svc s ty f, In (svc, s) per -> has_field s ty f = true -> visible ty = true ->
    owns g svc ty f = true.
  Proof.
    intros svc s ty f Hin Hf Hv. pose proof (merged_has (svc, s) ty f Hin Hf) as Hmf.
    destruct (has_field_inv _ _ _ Hmf) as [t [fd [Ht [Hk Hfd]]]].
    destruct (find_type_in _ _ _ Ht) as [Htin Htn]. destruct (find_field_in _ _ _ Hfd) as [Hfin Hfn].
    assert (Hentry : In (ty, f, rtype_of (f_type fd), field_services per ty f) (g_fields g)).
    { simpl. unfold gfields_of. apply in_flat_map. exists t. split; [exact Htin|].
      rewrite Hk, Htn, Hv. simpl. apply in_map_iff. exists fd. rewrite Hfn. auto. }
    unfold owns.
    destruct (find_gfield g ty f) as [[rty owners]|] eqn:E.
    - apply find_gfield_in in E. rewrite (gfield_owners _ _ _ _ E). apply existsb_eqb_In.
      unfold field_services. apply in_map_iff. exists (svc, s). split; [reflexivity|]. apply filter_In. auto.
    - exfalso. unfold find_gfield in E.
      destruct (find (fun e : string * string * rtype * list string => let '(t0, n, _, _) := e in String.eqb t0 ty && String.eqb n f) (g_fields g))
        as [[[[a b] c] d]|] eqn:Ef; [discriminate|].
      eapply find_none in Ef; [|exact Hentry]. cbv beta iota zeta in Ef. rewrite !String.eqb_refl in Ef. discriminate.
  Qed.

  Hypothesis Hobjs : fedobjs_ok per m = true.
  Hypothesis Hkeys : fedkeys_ok per m = true.

  (** (A) validateFederatedObjects: whoever serves a field of an object that some service federates has
      _federation on that object *)
  Theorem accepted_owner_federates : forall svc ty f,
    visible ty = true -> ty <> "Query" -> ty <> "Mutation" ->
    owns g svc ty f = true -> federated_somewhere per ty = true -> owns g svc ty federation_field = true.
  Proof.
    intros svc ty f Hv Hq Hmu Ho Hfs. destruct (owns_inv _ _ _ Ho) as [s [Hin Hf]].
    destruct (has_field_inv _ _ _ Hf) as [ta [fd [Hta [Hka _]]]]. destruct (find_type_in _ _ _ Hta) as [Htain Htan].
    pose proof (merged_has (svc, s) ty f Hin Hf) as Hmf.
    destruct (has_field_inv _ _ _ Hmf) as [mt [_ [Hmt _]]]. destruct (find_type_in _ _ _ Hmt) as [Hmtin Hmtn].
    unfold federated_somewhere in Hfs. apply existsb_exists in Hfs as [a [Ha Hfa]]. apply existsb_exists in Hfa as [t0 [Ht0 Hc]].
    apply andb_prop in Hc as [Hn0 Hfed0]. apply String.eqb_eq in Hn0.
    assert (Hfed : type_has_field ta "_federation" = true).
    { apply (fedobjs_ok_sound per m Hobjs mt Hmtin) with (a := a) (ta := t0) (b := (svc, s)); auto; try congruence. }
    apply (owns_intro svc s ty federation_field Hin); [|exact Hv].
    apply (has_field_intro s ty _ ta Hta Hka Hfed).
  Qed.

  (** (B) validateFederationKeys: whoever has _federation on an object serves every field any service uses as a
      federated key of it *)
  Theorem accepted_keys_served : forall ty asker ks svc,
    visible ty = true -> In (ty, asker, ks) (g_fkeys g) -> owns g svc ty federation_field = true ->
    forall k, In k ks -> owns g svc ty k = true.
  Proof.
    intros ty asker ks svc Hv Hin Ho k Hk. simpl in Hin. unfold gfkeys_of in Hin. apply in_flat_map in Hin as [sv [Hsv Hin]].
    apply in_map_iff in Hin as [obj [He _]]. inversion He; subst obj asker ks. clear He.
    apply in_map_iff in Hk as [[o k'] [Hk' Hkin]]. simpl in Hk'. subst k'. apply filter_In in Hkin as [Hkin Ho']. simpl in Ho'.
    apply String.eqb_eq in Ho'. subst o.
    destruct (owns_inv _ _ _ Ho) as [s [Hsin Hf]].
    destruct (has_field_inv _ _ _ Hf) as [ta [fd [Hta [Hka Hfd]]]]. destruct (find_type_in _ _ _ Hta) as [Htain Htan].
    assert (Hfed : type_has_field ta "_federation" = true) by (unfold type_has_field, federation_field in *; rewrite Hfd; reflexivity).
    pose proof (fedkeys_ok_sound per m Hkeys sv ty k Hsv Hkin (svc, s) ta Hsin Htain Htan Hfed) as Hkf.
    apply (owns_intro svc s ty k Hsin); [|exact Hv]. apply (has_field_intro s ty k ta Hta Hka Hkf).
  Qed.

  (** ... and each sub-query of C06 then stays inside the schema of its service: a field [svc] owns in the
      gateway's view is a field of [svc]'s own (version-intersected) schema -- the schema C09's
      [intersection_sound] says every live version of the service accepts *)
  Theorem owned_field_is_in_the_service_schema : forall svc ty f,
    owns g svc ty f = true -> exists s, In (svc, s) per /\ has_field s ty f = true.
  Proof. exact owns_inv. Qed.
End Compose.

(** ** a concrete federation: s1 serves Query.a and A.x, s2 serves A.y; both federate A and ask for its id *)
Definition cw_scalar : itype := mk_itype "int64" "SCALAR" [] [] [] [] [].
Definition cw_keys : itype := mk_itype "KeysA" "INPUT_OBJECT" [] [mk_ifield "id" (TNamed "SCALAR" "int64")] [] [] [].
Definition cw_obj_a (fs : list field) : itype :=
  mk_itype "A" "OBJECT" ([mk_field "_federation" (TNamed "OBJECT" "A") []; mk_field "id" (TNamed "SCALAR" "int64") []] ++ fs) [] [] [] [].
Definition cw_fed (svc : string) : itype :=
  mk_itype "Federation" "OBJECT"
    [mk_field (svc ++ "_A") (TList (TNamed "OBJECT" "A")) [mk_ifield "keys" (TList (TNamed "INPUT_OBJECT" "KeysA"))]] [] [] [] [].
Definition cw_s1 : schema :=
  [cw_obj_a [mk_field "x" (TNamed "SCALAR" "int64") []]; cw_fed "s1"; cw_keys;
   mk_itype "Query" "OBJECT" [mk_field "_federation" (TNamed "OBJECT" "Federation") []; mk_field "a" (TNamed "OBJECT" "A") []] [] [] [] [];
   cw_scalar].
Definition cw_s2 : schema :=
  [cw_obj_a [mk_field "y" (TNamed "SCALAR" "int64") []]; cw_fed "s2"; cw_keys;
   mk_itype "Query" "OBJECT" [mk_field "_federation" (TNamed "OBJECT" "Federation") []] [] [] [] [];
   cw_scalar].
Definition cw_per : list (string * schema) := [("s1", cw_s1); ("s2", cw_s2)].

Lemma compose_witness :
  exists m, merge_slice Union (map snd cw_per) = Some m /\
    wf_schema cw_s1 = true /\ wf_schema cw_s2 = true /\ fedobjs_ok cw_per m = true /\ fedkeys_ok cw_per m = true /\
    federated_somewhere cw_per "A" = true /\
    owns (gschema_of cw_per m) "s2" "A" "y" = true /\ owns (gschema_of cw_per m) "s1" "A" "y" = false /\
    owns (gschema_of cw_per m) "s2" "A" federation_field = true /\
    g_fkeys (gschema_of cw_per m) = [("A", "s1", ["id"]); ("A", "s2", ["id"])] /\
    fed_ok (gschema_of cw_per m) = true.
Proof. eexists. split; [vm_compute; reflexivity|]. vm_compute. repeat split; reflexivity. Qed.
