(** "An argument is required if any side requires it; an output is non-null only if every side guarantees it",
    for any number of schemas, at schema level: in the result of mergeSchemaSlice (either mode) the type of a
    field is, level by level through the list nesting, the AND of the field's types in the versions that have it
    (Intersection: all of them), the type of an argument / of an input-object field the OR.  Corollary of the
    per-name value of a fold ([ofold_step_val]) and of [merge_trefs_levels]. *)
From Coq Require Import List String Bool Arith Lia Permutation.
From Thunder Require Import Lib.Json Federation.Merge Federation.MergeProofsBase Federation.MergeProofsTref
  Federation.MergeProofs Federation.MergeProofsValid Federation.MergeProofsComm Federation.MergeProofsNary
  Federation.MergeProofsShape Federation.MergeProofsPerm Federation.MergeProofsKeys.
Import ListNotations.
Open Scope string_scope.
Open Scope list_scope.

Lemma somes_all_length : forall {B} (X : list (option B)), forallb is_some X = true -> List.length (somes X) = List.length X.
Proof.
  intros B X. induction X as [|o t IH]; simpl; auto. destruct o; simpl; [|discriminate]. intros H. rewrite IH; auto.
Qed.

(** ** the entries of name [n] of the original lists, in order, and the entry of the result *)
Section Entry.
  Context {A : Type}.
  Variable name : A -> string.
  Variable bad : A -> bool.
  Variable pair : A -> A -> option A.
  Variable md : mode.
  Hypothesis pair_name : forall x y z, pair x y = Some z -> name z = name x.

  Definition entries (n : string) (X : list (list A)) : list A := somes (map (findn name n) X).

  Lemma entries_in : forall n X x, In x (entries n X) -> exists l, In l X /\ In x l /\ name x = n.
  Proof.
    intros n X x H. unfold entries in H. apply in_somes in H. apply in_map_iff in H as [l [Hf Hl]].
    apply findn_some in Hf as [H1 H2]. eauto.
  Qed.

  Lemma slice_entry : forall X r n z, Forall (NDn name) X -> oslice (mrg name bad pair md) X = Some r ->
    findn name n r = Some z ->
    exists x xs, entries n X = x :: xs /\ ofold pair x xs = Some z /\
                 (md = Intersection -> List.length (entries n X) = List.length X).
  Proof.
    intros [|l0 ls] r n z HN H Hz; [discriminate|]. simpl in H. inversion HN as [|? ? N0 Ns]; subst.
    destruct (fold_find name bad pair md pair_name n ls l0 r N0 Ns H) as [F _].
    apply (ofold_step_val bad pair md) in F. unfold entries.
    change (map (findn name n) (l0 :: ls)) with (findn name n l0 :: map (findn name n) ls).
    destruct (pres md (findn name n l0 :: map (findn name n) ls)) eqn:P; [|congruence].
    destruct F as [x [xs [z' [Hs [Hf Hv]]]]]. rewrite Hz in Hv. inversion Hv; subst z'.
    exists x, xs. split; auto. split; auto. intros ->. unfold pres in P.
    rewrite (somes_all_length _ P). simpl. rewrite map_length. reflexivity.
  Qed.
End Entry.

(** ** the columns of a schema list *)
Definition types_named (ty : string) (l : list schema) : list itype := somes (map (fun s => find_type s ty) l).
Definition fields_named (f : string) (ts : list itype) : list field :=
  somes (map (fun t => find_field (t_fields t) f) ts).
Definition args_named (a : string) (fs : list field) : list ifield :=
  somes (map (fun f => find_ifield (f_args f) a) fs).
Definition inputs_named (a : string) (ts : list itype) : list ifield :=
  somes (map (fun t => find_ifield (t_inputs t) a) ts).

Lemma types_named_entries : forall ty l, types_named ty l = entries t_name ty l.
Proof. reflexivity. Qed.
Lemma fields_named_entries : forall f ts, fields_named f ts = entries f_name f (map t_fields ts).
Proof. intros. unfold fields_named, entries. rewrite map_map. reflexivity. Qed.
Lemma args_named_entries : forall a fs, args_named a fs = entries if_name a (map f_args fs).
Proof. intros. unfold args_named, entries. rewrite map_map. reflexivity. Qed.
Lemma inputs_named_entries : forall a ts, inputs_named a ts = entries if_name a (map t_inputs ts).
Proof. intros. unfold inputs_named, entries. rewrite map_map. reflexivity. Qed.

(** ** levels of a folded input field / field *)
Lemma ifield_fold_levels : forall n x xs z, Forall (fun y => if_name y = n) (x :: xs) ->
  ofold ifield_pair x xs = Some z ->
  (forall y, In y (x :: xs) -> List.length (levels (if_type y)) = List.length (levels (if_type z))) /\
  forall k, nth k (levels (if_type z)) false = existsb (fun y => nth k (levels (if_type y)) false) (x :: xs).
Proof.
  intros n x xs z HN H.
  destruct (oslice_hom ifield_pair (merge_tref true) if_type _ (ifield_pair_hom n) (x :: xs) z HN H) as [T _].
  simpl in T. rewrite <- merge_trefs_ofold in T.
  destruct (merge_trefs_levels true _ _ _ T) as [L1 [L2 L3]]. split.
  - intros y [<-|Hy]; [lia|]. rewrite L2. apply L1. apply in_map; exact Hy.
  - intros k. rewrite L3. change (if_type x :: map if_type xs) with (map if_type (x :: xs)).
    rewrite existsb_map. reflexivity.
Qed.

Lemma field_fold_parts : forall md n x xs z, Forall (field_inv n) (x :: xs) -> ofold (field_pair md) x xs = Some z ->
  oslice (merge_input_fields md) (map f_args (x :: xs)) = Some (f_args z) /\
  (forall y, In y (x :: xs) -> List.length (levels (f_type y)) = List.length (levels (f_type z))) /\
  forall k, nth k (levels (f_type z)) false = forallb (fun y => nth k (levels (f_type y)) false) (x :: xs).
Proof.
  intros md n x xs z HN H.
  destruct (oslice_hom _ _ f_type _ (field_pair_hom_type md n) (x :: xs) z HN H) as [T _].
  destruct (oslice_hom _ _ f_args _ (field_pair_hom_args md n) (x :: xs) z HN H) as [Ar _].
  split; auto. simpl in T. rewrite <- merge_trefs_ofold in T.
  destruct (merge_trefs_levels false _ _ _ T) as [L1 [L2 L3]]. split.
  - intros y [<-|Hy]; [lia|]. rewrite L2. apply L1. apply in_map; exact Hy.
  - intros k. rewrite L3. change (f_type x :: map f_type xs) with (map f_type (x :: xs)).
    rewrite forallb_map. reflexivity.
Qed.

(** the entry of name [a] in a folded list of input fields (arguments of a field, fields of an input object) *)
Lemma inputs_fold_levels : forall md (X : list (list ifield)) r a ma,
  Forall (fun l => NoDup (map if_name l)) X -> oslice (merge_input_fields md) X = Some r ->
  find_ifield r a = Some ma ->
  let es := entries if_name a X in
  es <> [] /\ (md = Intersection -> List.length es = List.length X) /\
  (forall y, In y es -> List.length (levels (if_type y)) = List.length (levels (if_type ma))) /\
  forall k, nth k (levels (if_type ma)) false = existsb (fun y => nth k (levels (if_type y)) false) es.
Proof.
  intros md X r a ma HN H Hf es. rewrite merge_input_fields_mrg in H.
  destruct (slice_entry if_name if_bad ifield_pair md ifield_pair_name X r a ma HN H Hf) as [x [xs [E [F L]]]].
  fold es in E, L. rewrite E in *. split; [discriminate|]. split; auto.
  apply (ifield_fold_levels a x xs ma); auto.
  apply Forall_forall. intros y Hy. rewrite <- E in Hy. destruct (entries_in if_name a X y Hy) as [_ [_ [_ Hn]]]. exact Hn.
Qed.

(** ** the theorem: OBJECT fields and their arguments *)
Section Slice.
  Variables (md : mode) (l : list schema) (m : schema).
  Hypothesis W : forall v, In v l -> wf_schema v = true.
  Hypothesis Hm : merge_slice md l = Some m.

  Lemma l_names : Forall (NDn t_name) l.
  Proof. apply Forall_forall. intros s Hs. apply wf_schema_names. auto. Qed.

  Lemma types_named_wf : forall ty x, In x (types_named ty l) -> wf_type x = true /\ t_name x = ty.
  Proof.
    intros ty x Hx. destruct (entries_in t_name ty l x Hx) as [s [Hs [Ix Nx]]]. split; auto.
    eapply wf_schema_type; eauto.
  Qed.

  (** the merged type of name [ty] is the fold of the versions' types of that name *)
  Lemma merged_type_fold : forall ty mt, find_type m ty = Some mt ->
    exists t0 ts, types_named ty l = t0 :: ts /\ ofold (merge_types md) t0 ts = Some mt /\
      (md = Intersection -> List.length (types_named ty l) = List.length l) /\
      Forall (type_inv ty (t_kind mt)) (t0 :: ts).
  Proof.
    intros ty mt Hf. rewrite merge_slice_oslice, merge_schemas_mrg in Hm.
    destruct (slice_entry t_name no_bad (merge_types md) md (merge_types_name md) l m ty mt l_names Hm Hf)
      as [t0 [ts [E [F L]]]].
    exists t0, ts. rewrite types_named_entries. repeat split; auto.
    pose proof (oslice_types_kinds md (t0 :: ts) mt F) as K. rewrite Forall_forall in *.
    intros x Hx. split; [|apply K; exact Hx]. rewrite <- E in Hx. apply (types_named_wf ty x Hx).
  Qed.

  Theorem merged_field_levels_nary : forall ty mt f mf,
    find_type m ty = Some mt -> t_kind mt = "OBJECT" -> find_field (t_fields mt) f = Some mf ->
    let ts := types_named ty l in
    let fs := fields_named f ts in
    fs <> [] /\
    (md = Intersection -> List.length ts = List.length l /\ List.length fs = List.length l) /\
    (forall y, In y fs -> List.length (levels (f_type y)) = List.length (levels (f_type mf))) /\
    (forall k, nth k (levels (f_type mf)) false = forallb (fun y => nth k (levels (f_type y)) false) fs) /\
    forall a ma, find_ifield (f_args mf) a = Some ma ->
      let es := args_named a fs in
      es <> [] /\ (md = Intersection -> List.length es = List.length l) /\
      (forall y, In y es -> List.length (levels (if_type y)) = List.length (levels (if_type ma))) /\
      forall k, nth k (levels (if_type ma)) false = existsb (fun y => nth k (levels (if_type y)) false) es.
  Proof.
    intros ty mt f mf Ht Kt Hf ts fs.
    destruct (merged_type_fold ty mt Ht) as [t0 [ts' [E [F [L I]]]]]. fold ts in E, L. rewrite Kt in I.
    (* the fields of the merged type are the fold of the versions' field lists *)
    pose proof (types_via md t_fields (merge_fields md) ty "OBJECT"
                  (fun a b c Ka Hm' => ltac:(destruct (merge_types_shape _ _ _ _ Hm') as [_ [_ [_ [_ S]]]]; shape_pick S; exact S))
                  (t0 :: ts') mt I F) as FF.
    assert (WT : forall x, In x ts -> wf_type x = true) by (intros x Hx; apply (types_named_wf ty x Hx)).
    assert (NF : Forall (NDn f_name) (map t_fields ts)).
    { apply Forall_forall. intros fl Hfl. apply in_map_iff in Hfl as [t [<- Hx]].
      destruct (wf_type_parts t (WT t Hx)) as [Hn _]. exact Hn. }
    rewrite <- E in FF. rewrite merge_fields_mrg in FF.
    destruct (slice_entry f_name no_bad (field_pair md) md (field_pair_name md) (map t_fields ts) (t_fields mt) f mf NF FF Hf)
      as [f0 [fs' [Ef [Ff Lf]]]].
    rewrite <- fields_named_entries in Ef, Lf. fold fs in Ef, Lf. rewrite map_length in Lf.
    assert (IF : Forall (field_inv f) (f0 :: fs')).
    { apply Forall_forall. intros y Hy. rewrite <- Ef in Hy. unfold fs in Hy. rewrite fields_named_entries in Hy.
      destruct (entries_in f_name f _ y Hy) as [fl [Hfl [Iy Ny]]]. split; auto.
      apply in_map_iff in Hfl as [t [<- Hx]]. destruct (wf_type_parts t (WT t Hx)) as [_ [Ha _]]. apply Ha; exact Iy. }
    destruct (field_fold_parts md f f0 fs' mf IF Ff) as [Ar [L1 L2]].
    split; [rewrite Ef; discriminate|]. split; [intros Hi; split; auto; rewrite (Lf Hi); auto|].
    rewrite Ef. split; auto. split; auto.
    intros a ma Ha es.
    assert (NA : Forall (fun al => NoDup (map if_name al)) (map f_args (f0 :: fs'))).
    { apply Forall_forall. intros al Hal. apply in_map_iff in Hal as [y [<- Hy]]. rewrite Forall_forall in IF. apply (IF y Hy). }
    destruct (inputs_fold_levels md (map f_args (f0 :: fs')) (f_args mf) a ma NA Ar Ha) as [A1 [A2 [A3 A4]]].
    unfold es. rewrite args_named_entries. split; auto. split; auto.
    intros Hi. rewrite (A2 Hi), map_length, <- Ef. destruct (Lf Hi). auto.
  Qed.

  (** INPUT_OBJECT fields *)
  Theorem merged_input_levels_nary : forall ty mt a ma,
    find_type m ty = Some mt -> t_kind mt = "INPUT_OBJECT" -> find_ifield (t_inputs mt) a = Some ma ->
    let ts := types_named ty l in
    let es := inputs_named a ts in
    es <> [] /\ (md = Intersection -> List.length ts = List.length l /\ List.length es = List.length l) /\
    (forall y, In y es -> List.length (levels (if_type y)) = List.length (levels (if_type ma))) /\
    forall k, nth k (levels (if_type ma)) false = existsb (fun y => nth k (levels (if_type y)) false) es.
  Proof.
    intros ty mt a ma Ht Kt Ha ts es.
    destruct (merged_type_fold ty mt Ht) as [t0 [ts' [E [F [L I]]]]]. fold ts in E, L. rewrite Kt in I.
    pose proof (types_via md t_inputs (merge_input_fields md) ty "INPUT_OBJECT"
                  (fun a b c Ka Hm' => ltac:(destruct (merge_types_shape _ _ _ _ Hm') as [_ [_ [_ [_ S]]]]; shape_pick S; exact S))
                  (t0 :: ts') mt I F) as FF.
    rewrite <- E in FF.
    assert (NI : Forall (fun al => NoDup (map if_name al)) (map t_inputs ts)).
    { apply Forall_forall. intros al Hal. apply in_map_iff in Hal as [t [<- Hx]].
      destruct (wf_type_parts t (proj1 (types_named_wf ty t Hx))) as [_ [_ [Hn _]]]. exact Hn. }
    destruct (inputs_fold_levels md (map t_inputs ts) (t_inputs mt) a ma NI FF Ha) as [A1 [A2 [A3 A4]]].
    unfold es. rewrite inputs_named_entries. split; auto. split; auto.
    intros Hi. split; auto. rewrite (A2 Hi), map_length. auto.
  Qed.
End Slice.

(** ** the fold of mergeTypeRefs in the model's own terms: no dependence on the order, failure included *)
Theorem merge_trefs_perm : forall i t l t' l', Permutation (t :: l) (t' :: l') ->
  merge_trefs i t l = merge_trefs i t' l'.
Proof.
  intros i t l t' l' H. rewrite !merge_trefs_ofold. apply (merge_trefs_perm_full i (t :: l) (t' :: l') H).
Qed.
