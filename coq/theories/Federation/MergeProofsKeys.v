(** The federation-key verdict of ConvertVersionedSchemas ([fedkeys_ok]): what acceptance guarantees, and that it
    does not depend on how the services are named or ordered. *)
From Coq Require Import List String Bool Arith Permutation.
From Thunder Require Import Lib.Json Federation.Merge.
Import ListNotations.
Open Scope string_scope.
Open Scope list_scope.

Lemma forallb_perm : forall {A} (f : A -> bool) l l', Permutation l l' -> forallb f l = forallb f l'.
Proof.
  intros A f l l' H. induction H; simpl; auto.
  - rewrite IHPermutation. reflexivity.
  - destruct (f x), (f y); reflexivity.
  - congruence.
Qed.

Lemma forallb_map : forall {A B} (g : A -> B) (f : B -> bool) l, forallb f (map g l) = forallb (fun x => f (g x)) l.
Proof. intros A B g f l. induction l as [|x t IH]; simpl; auto. rewrite IH. reflexivity. Qed.

(** the verdict only looks at the schemas, never at the names *)
Definition key_exposed_s (ss : list schema) (obj k : string) : bool :=
  forallb (fun s =>
    forallb (fun t => negb (String.eqb (t_name t) obj) || negb (type_has_field t "_federation") || type_has_field t k) s) ss.

Definition fedkeys_ok_s (ss : list schema) (merged : schema) : bool :=
  forallb (fun s => forallb (fun ok => key_exposed_s ss (fst ok) (snd ok)) (asked_keys merged s)) ss.

Lemma key_exposed_schemas : forall per obj k, key_exposed per obj k = key_exposed_s (map snd per) obj k.
Proof. intros. unfold key_exposed, key_exposed_s. rewrite forallb_map. reflexivity. Qed.

Lemma forallb_ext' : forall {A} (f g : A -> bool) l, (forall x, f x = g x) -> forallb f l = forallb g l.
Proof. intros A f g l H. induction l as [|x t IH]; simpl; auto. rewrite H, IH. reflexivity. Qed.

Lemma fedkeys_ok_schemas : forall per m, fedkeys_ok per m = fedkeys_ok_s (map snd per) m.
Proof.
  intros per m. unfold fedkeys_ok, fedkeys_ok_s. rewrite forallb_map.
  apply forallb_ext'. intros sv. apply forallb_ext'. intros ok. apply key_exposed_schemas.
Qed.

Theorem fedkeys_ok_naming : forall per per' m,
  Permutation (map snd per) (map snd per') -> fedkeys_ok per m = fedkeys_ok per' m.
Proof.
  intros per per' m H. rewrite !fedkeys_ok_schemas. unfold fedkeys_ok_s.
  rewrite (forallb_perm _ _ _ H). apply forallb_ext'. intros s. apply forallb_ext'. intros ok.
  unfold key_exposed_s. apply forallb_perm. exact H.
Qed.

(** acceptance: every key field a service asks for is a field of the object on every service that is a root
    for the object *)
Theorem fedkeys_ok_sound : forall per m,
  fedkeys_ok per m = true ->
  forall asker obj k, In asker per -> In (obj, k) (asked_keys m (snd asker)) ->
  forall root t, In root per -> In t (snd root) -> t_name t = obj -> type_has_field t "_federation" = true ->
    type_has_field t k = true.
Proof.
  intros per m H asker obj k Ha Hk root t Hr Ht Hn Hf.
  unfold fedkeys_ok in H. rewrite forallb_forall in H. specialize (H _ Ha). rewrite forallb_forall in H.
  specialize (H _ Hk). simpl in H. unfold key_exposed in H. rewrite forallb_forall in H. specialize (H _ Hr).
  rewrite forallb_forall in H. specialize (H _ Ht). rewrite Hn, String.eqb_refl, Hf in H. simpl in H. exact H.
Qed.

(** ... and refusal names a culprit *)
Theorem fedkeys_refused_witness : forall per m,
  fedkeys_ok per m = false ->
  exists asker obj k root t, In asker per /\ In (obj, k) (asked_keys m (snd asker)) /\ In root per /\ In t (snd root) /\
    t_name t = obj /\ type_has_field t "_federation" = true /\ type_has_field t k = false.
Proof.
  intros per m H. unfold fedkeys_ok in H.
  assert (Hex : forall {A} (f : A -> bool) l, forallb f l = false -> exists x, In x l /\ f x = false).
  { intros A f l. induction l as [|x t IH]; simpl; [discriminate|]. destruct (f x) eqn:E; simpl.
    - intros H0. destruct (IH H0) as [y [Hy Hf]]. exists y. auto.
    - intros _. exists x. auto. }
  destruct (Hex _ _ _ H) as [asker [Ha H1]]. destruct (Hex _ _ _ H1) as [[obj k] [Hk H2]]. simpl in H2.
  unfold key_exposed in H2. destruct (Hex _ _ _ H2) as [root [Hr H3]]. destruct (Hex _ _ _ H3) as [t [Ht H4]].
  exists asker, obj, k, root, t. repeat split; auto.
  - destruct (String.eqb (t_name t) obj) eqn:E; [apply String.eqb_eq; exact E | simpl in H4; discriminate].
  - destruct (String.eqb (t_name t) obj); simpl in H4; [|discriminate]. destruct (type_has_field t "_federation"); [reflexivity | simpl in H4; discriminate].
  - destruct (String.eqb (t_name t) obj); simpl in H4; [|discriminate]. destruct (type_has_field t "_federation"); simpl in H4; [exact H4 | discriminate].
Qed.

(** ** validateFederatedObjects: symmetric in the services *)
Lemma existsb_perm : forall {A} (f : A -> bool) l l', Permutation l l' -> existsb f l = existsb f l'.
Proof.
  intros A f l l' H. induction H; simpl; auto.
  - rewrite IHPermutation. reflexivity.
  - destruct (f x), (f y); reflexivity.
  - congruence.
Qed.

Lemma existsb_map : forall {A B} (g : A -> B) (f : B -> bool) l, existsb f (map g l) = existsb (fun x => f (g x)) l.
Proof. intros A B g f l. induction l as [|x t IH]; simpl; auto. rewrite IH. reflexivity. Qed.

Theorem fedobjs_ok_naming : forall per per' m,
  Permutation (map snd per) (map snd per') -> fedobjs_ok per m = fedobjs_ok per' m.
Proof.
  intros per per' m H. unfold fedobjs_ok. apply forallb_ext'. intros mt.
  assert (H1 : federated_somewhere per (t_name mt) = federated_somewhere per' (t_name mt)).
  { unfold federated_somewhere.
    rewrite <- (existsb_map snd (fun s => existsb (fun t => String.eqb (t_name t) (t_name mt) && type_has_field t "_federation") s) per).
    rewrite <- (existsb_map snd (fun s => existsb (fun t => String.eqb (t_name t) (t_name mt) && type_has_field t "_federation") s) per').
    apply existsb_perm; exact H. }
  assert (H2 : federated_everywhere per (t_name mt) = federated_everywhere per' (t_name mt)).
  { unfold federated_everywhere.
    rewrite <- (forallb_map snd (fun s => forallb (fun t => negb (String.eqb (t_name t) (t_name mt)) || type_has_field t "_federation") s) per).
    rewrite <- (forallb_map snd (fun s => forallb (fun t => negb (String.eqb (t_name t) (t_name mt)) || type_has_field t "_federation") s) per').
    apply forallb_perm; exact H. }
  rewrite H1, H2. reflexivity.
Qed.

(** acceptance: a federated object is federated by every service that has it *)
Theorem fedobjs_ok_sound : forall per m,
  fedobjs_ok per m = true ->
  forall mt, In mt m -> t_name mt <> "Query" -> t_name mt <> "Mutation" ->
  forall a ta, In a per -> In ta (snd a) -> t_name ta = t_name mt -> type_has_field ta "_federation" = true ->
  forall b tb, In b per -> In tb (snd b) -> t_name tb = t_name mt -> type_has_field tb "_federation" = true.
Proof.
  intros per m H mt Hmt Hq Hm a ta Ha Hta Hna Hfa b tb Hb Htb Hnb.
  unfold fedobjs_ok in H. rewrite forallb_forall in H. specialize (H _ Hmt).
  apply String.eqb_neq in Hq, Hm. rewrite Hq, Hm in H. simpl in H.
  assert (Hs : federated_somewhere per (t_name mt) = true).
  { unfold federated_somewhere. apply existsb_exists. exists a. split; [exact Ha|]. apply existsb_exists. exists ta.
    split; [exact Hta|]. rewrite Hna, String.eqb_refl, Hfa. reflexivity. }
  rewrite Hs in H. simpl in H. unfold federated_everywhere in H. rewrite forallb_forall in H. specialize (H _ Hb).
  rewrite forallb_forall in H. specialize (H _ Htb). rewrite Hnb, String.eqb_refl in H. simpl in H. exact H.
Qed.
