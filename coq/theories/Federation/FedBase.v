(** Groundwork for the transparency theorem: association-list algebra, the similarity of a stitched result
    tree to the combined server's answer, framing of [graft], distribution of extract/graft over lists, and the
    per-object reading [exec1] of a plan together with the proof that the batched executor [exec_plan] computes
    it (result i is the answer for key i). *)
From Coq Require Import List String Bool Arith ZArith Lia.
From Thunder Require Import Lib.Json Federation.Merge Federation.Normalize Federation.Planner Federation.Executor
  Federation.ExecutorProofs Federation.NormalizeProofs.
Import ListNotations.
Open Scope string_scope.
Open Scope list_scope.

(** ** association lists *)
Lemma lookup_app : forall {A} k (a b : list (string * A)),
  lookup k (a ++ b) = match lookup k a with Some v => Some v | None => lookup k b end.
Proof.
  intros A k a b. induction a as [|[k' v] t IH]; simpl; auto. destruct (String.eqb k k'); auto.
Qed.

Lemma lookup_none_notin : forall {A} k (l : list (string * A)), lookup k l = None <-> ~ In k (map fst l).
Proof.
  intros A k l. induction l as [|[k' v] t IH]; simpl; [tauto|].
  destruct (String.eqb k k') eqn:E.
  - apply String.eqb_eq in E. subst. split; [discriminate | intros H; exfalso; apply H; auto].
  - apply String.eqb_neq in E. rewrite IH. split; intros H; [intros [X|X]; [congruence|auto] | intros X; apply H; auto].
Qed.

Lemma lookup_in : forall {A} k (v : A) l, lookup k l = Some v -> In (k, v) l.
Proof.
  intros A k v l. induction l as [|[k' v'] t IH]; simpl; [discriminate|].
  destruct (String.eqb k k') eqn:E; intros H.
  - apply String.eqb_eq in E. inversion H; subst. auto.
  - auto.
Qed.

Lemma lookup_nodup_in : forall {A} k (v : A) l, NoDup (map fst l) -> In (k, v) l -> lookup k l = Some v.
Proof.
  intros A k v l. induction l as [|[k' v'] t IH]; simpl; intros Hnd Hin; [contradiction|].
  inversion Hnd as [|? ? Hn Hnd']; subst. destruct Hin as [Heq|Hin].
  - inversion Heq; subst. rewrite String.eqb_refl. reflexivity.
  - destruct (String.eqb k k') eqn:E; auto. apply String.eqb_eq in E. subst. exfalso. apply Hn.
    apply in_map_iff. exists (k', v). auto.
Qed.

Lemma set_key_keys : forall k v l, map fst (set_key k v l) = map fst l.
Proof.
  intros k v l. induction l as [|[k' v'] t IH]; simpl; auto.
  destruct (String.eqb k k') eqn:E; simpl; [apply String.eqb_eq in E; subst; reflexivity | rewrite IH; reflexivity].
Qed.

Lemma lookup_set_key_same : forall k v l, lookup k l <> None -> lookup k (set_key k v l) = Some v.
Proof.
  intros k v l. induction l as [|[k' v'] t IH]; simpl; intros H; [congruence|].
  destruct (String.eqb k k') eqn:E; simpl; [rewrite String.eqb_refl; reflexivity | rewrite E; auto].
Qed.

Lemma lookup_set_key_other : forall k k' v l, k <> k' -> lookup k' (set_key k v l) = lookup k' l.
Proof.
  intros k k' v l Hne. induction l as [|[k2 v2] t IH]; simpl; auto.
  destruct (String.eqb k k2) eqn:E; simpl.
  - apply String.eqb_eq in E. subst k2. destruct (String.eqb k' k) eqn:E2; auto.
    apply String.eqb_eq in E2. congruence.
  - rewrite IH. reflexivity.
Qed.

Lemma set_key_app_right : forall k v (a b : list (string * json)), lookup k a = None ->
  set_key k v (a ++ b) = a ++ set_key k v b.
Proof.
  intros k v a b. induction a as [|[k' v'] t IH]; simpl; auto.
  destruct (String.eqb k k'); [discriminate|]. intros H. rewrite IH; auto.
Qed.

Lemma set_key_app_left : forall k v (a b : list (string * json)), lookup k a <> None ->
  set_key k v (a ++ b) = set_key k v a ++ b.
Proof.
  intros k v a b. induction a as [|[k' v'] t IH]; simpl; intros H; [congruence|].
  destruct (String.eqb k k'); auto. rewrite IH; auto.
Qed.

Lemma set_key_twice : forall k v v' l, set_key k v' (set_key k v l) = set_key k v' l.
Proof.
  intros k v v' l. induction l as [|[k' v2] t IH]; simpl; auto.
  destruct (String.eqb k k') eqn:E; simpl; [rewrite String.eqb_refl; reflexivity | rewrite E, IH; reflexivity].
Qed.

(** merging a sub-result whose keys are new (or the equal __key) *)
Definition mergeable (target r : list (string * json)) : Prop :=
  NoDup (map fst r) /\
  forall k v, In (k, v) r -> lookup k target = None \/ (k = "__key" /\ lookup k target = Some v).

Definition fresh_part (target r : list (string * json)) : list (string * json) :=
  filter (fun kv => negb (has_key (fst kv) target)) r.

Lemma merge_result_ok : forall r target, mergeable target r ->
  merge_result target r = Some (target ++ fresh_part target r).
Proof.
  induction r as [|[k v] t IH]; intros target [Hnd Hm]; simpl.
  - rewrite app_nil_r. reflexivity.
  - inversion Hnd as [|? ? Hnk Hnd']; subst.
    destruct (Hm k v (or_introl eq_refl)) as [Hn|[-> Hs]].
    + rewrite Hn. unfold fresh_part. simpl. unfold has_key at 1. rewrite Hn. simpl.
      rewrite IH.
      * rewrite <- app_assoc. simpl. f_equal. f_equal. f_equal. unfold fresh_part.
        apply filter_ext_in. intros [k2 v2] Hin. simpl. unfold has_key. rewrite lookup_app.
        destruct (lookup k2 target); auto. simpl.
        destruct (String.eqb k2 k) eqn:E; auto. apply String.eqb_eq in E. subst. exfalso. apply Hnk.
        apply in_map_iff. exists (k, v2). auto.
      * split; auto. intros k2 v2 Hin. rewrite lookup_app.
        assert (Hne : k2 <> k) by (intros ->; apply Hnk; apply in_map_iff; exists (k, v2); auto).
        destruct (Hm k2 v2 (or_intror Hin)) as [Hn2|[-> Hs2]].
        -- left. rewrite Hn2. simpl. destruct (String.eqb k2 k) eqn:E; auto. apply String.eqb_eq in E. congruence.
        -- right. split; auto. rewrite Hs2. reflexivity.
    + rewrite Hs. simpl. rewrite json_eqb_refl. unfold fresh_part. simpl. unfold has_key at 1. rewrite Hs. simpl.
      apply IH. split; auto. intros k2 v2 Hin. apply Hm. right; exact Hin.
Qed.

Lemma lookup_fresh_part : forall target r k, lookup k target = None -> lookup k (fresh_part target r) = lookup k r.
Proof.
  intros target r k Hn. unfold fresh_part. induction r as [|[k2 v2] t IH]; simpl; auto.
  destruct (has_key k2 target) eqn:Eh; simpl.
  - destruct (String.eqb k k2) eqn:E; auto. apply String.eqb_eq in E. subst. unfold has_key in Eh. rewrite Hn in Eh. discriminate.
  - destruct (String.eqb k k2); auto.
Qed.

(** ** the stitched tree and the combined server's answer: equal as maps, ignoring the _federation keys *)
Inductive simv : json -> json -> Prop :=
| sim_null : simv JNull JNull
| sim_bool : forall b, simv (JBool b) (JBool b)
| sim_num : forall z, simv (JNum z) (JNum z)
| sim_str : forall s, simv (JStr s) (JStr s)
| sim_arr : forall l1 l2, Forall2 simv l1 l2 -> simv (JArr l1) (JArr l2)
| sim_obj : forall l1 l2,
    (forall k, k <> federation_field -> orel simv (lookup k l1) (lookup k l2)) ->
    lookup federation_field l2 = None ->
    simv (JObj l1) (JObj l2).

Lemma lookup_delete_key : forall k l k',
  lookup k' ((fix go (l : list (string * json)) :=
                match l with
                | [] => []
                | (k2, v) :: t => if String.eqb k k2 then go t else (k2, delete_key k v) :: go t
                end) l) =
  if String.eqb k k' then None else option_map (delete_key k) (lookup k' l).
Proof.
  intros k l k'. induction l as [|[k2 v] t IH]; simpl.
  - destruct (String.eqb k k'); reflexivity.
  - destruct (String.eqb k k2) eqn:E.
    + apply String.eqb_eq in E. subst k2. rewrite IH. destruct (String.eqb k k') eqn:E2; auto.
      rewrite (String.eqb_sym k' k), E2. reflexivity.
    + simpl. destruct (String.eqb k' k2) eqn:E3.
      * apply String.eqb_eq in E3. subst k2. rewrite E. reflexivity.
      * exact IH.
Qed.

Lemma delete_key_obj : forall k l, exists l', delete_key k (JObj l) = JObj l' /\
  forall k', lookup k' l' = if String.eqb k k' then None else option_map (delete_key k) (lookup k' l).
Proof. intros k l. eexists. split; [reflexivity|]. apply lookup_delete_key. Qed.

Lemma delete_key_arr : forall k l, delete_key k (JArr l) = JArr (map (delete_key k) l).
Proof. reflexivity. Qed.

(** the gateway's final deleteKey turns similarity into equality of JSON values (objects as maps) *)
Theorem simv_delete_jeq : forall a b, simv a b -> jeq (delete_key federation_field a) b.
Proof.
  fix IH 3. intros a b H. destruct H.
  - constructor.
  - constructor.
  - constructor.
  - constructor.
  - rewrite delete_key_arr. constructor. induction H; constructor; auto.
  - destruct (delete_key_obj federation_field l1) as [l' [E Hl]]. rewrite E. constructor.
    intros k. rewrite Hl. destruct (String.eqb federation_field k) eqn:E2.
    + apply String.eqb_eq in E2. subst k. rewrite H0. constructor.
    + apply String.eqb_neq in E2. specialize (H k (fun X => E2 (eq_sym X))).
      destruct H as [|x y Hxy]; simpl; constructor. apply IH; exact Hxy.
Qed.

(** ** graft: more results behind the ones it needs do not matter *)
Lemma graft_list_frame : forall one l rs l' rest extra,
  (forall e, In e l -> forall rs e' rest, one e rs = Some (e', rest) -> one e (rs ++ extra) = Some (e', rest ++ extra)) ->
  graft_list one l rs = Some (l', rest) -> graft_list one l (rs ++ extra) = Some (l', rest ++ extra).
Proof.
  intros one l. induction l as [|e t IH]; intros rs l' rest extra Hone H; simpl in *.
  - inversion H; reflexivity.
  - destruct (one e rs) as [[e' rs1]|] eqn:E1; [|discriminate].
    rewrite (Hone e (or_introl eq_refl) _ _ _ E1).
    destruct (graft_list one t rs1) as [[t' rs2]|] eqn:E2; [|discriminate].
    assert (Hone' : forall e0, In e0 t -> forall rs e' rest, one e0 rs = Some (e', rest) ->
                      one e0 (rs ++ extra) = Some (e', rest ++ extra))
      by (intros e0 He0; apply Hone; right; exact He0).
    rewrite (IH rs1 t' rs2 extra Hone' E2). inversion H; reflexivity.
Qed.

Lemma graft_frame : forall path node rs node' rest extra,
  graft path node rs = Some (node', rest) -> graft path node (rs ++ extra) = Some (node', rest ++ extra).
Proof.
  induction path as [|s restp IHp]; intros node.
  - induction node using json_ind'; intros rs node' rest extra Hg;
      try (simpl in Hg |- *; inversion Hg; reflexivity).
    + rewrite graft_arr in *. destruct (graft_list (graft []) l rs) as [[l' rs']|] eqn:E; [|discriminate].
      inversion Hg; subst. rewrite Forall_forall in H. erewrite graft_list_frame; [reflexivity| |exact E].
      intros e He rs0 e' rest0 Hx. apply (H e He rs0 e' rest0 extra Hx).
    + rewrite graft_nil_obj in *. destruct rs as [|[| | | | |r] rs']; try discriminate. simpl.
      destruct (merge_result l r); [|discriminate]. inversion Hg; reflexivity.
  - destruct s as [name|t].
    + induction node using json_ind'; intros rs node' rest extra Hg;
        try (simpl in Hg |- *; inversion Hg; reflexivity).
      * rewrite graft_arr in *. destruct (graft_list (graft (SField name :: restp)) l rs) as [[l' rs']|] eqn:E; [|discriminate].
        inversion Hg; subst. rewrite Forall_forall in H. erewrite graft_list_frame; [reflexivity| |exact E].
        intros e He rs0 e' rest0 Hx. apply (H e He rs0 e' rest0 extra Hx).
      * rewrite graft_field_obj in *. destruct (lookup name l) as [next|]; [|discriminate].
        destruct (graft restp next rs) as [[next' rs']|] eqn:E; [|discriminate].
        rewrite (IHp _ _ _ _ extra E). inversion Hg; reflexivity.
    + induction node using json_ind'; intros rs node' rest extra Hg;
        try (simpl in Hg |- *; inversion Hg; reflexivity).
      * rewrite graft_arr in *. destruct (graft_list (graft (SType t :: restp)) l rs) as [[l' rs']|] eqn:E; [|discriminate].
        inversion Hg; subst. rewrite Forall_forall in H. erewrite graft_list_frame; [reflexivity| |exact E].
        intros e He rs0 e' rest0 Hx. apply (H e He rs0 e' rest0 extra Hx).
      * rewrite graft_type_obj in *. destruct (lookup "__typename" l) as [[| | |s| |]|]; try discriminate.
        destruct (String.eqb s t); [apply IHp; exact Hg | inversion Hg; reflexivity].
Qed.

(** ** one sub-plan stitched into one tree *)
Definition after1 (run : list json -> option (list json)) (path : list step) (x : json) : option json :=
  match extract_keys true path x with
  | None => None
  | Some ks =>
      match run ks with
      | None => None
      | Some rs =>
          if negb (Nat.eqb (List.length rs) (List.length ks)) then None else
          match graft path x rs with
          | Some (x', []) => Some x'
          | _ => None
          end
      end
  end.

(** [run] answers a concatenation of key lists with the concatenation of the answers *)
Definition distributes (run : list json -> option (list json)) : Prop :=
  forall kss rss, Forall2 (fun ks rs => run ks = Some rs) kss rss -> run (List.concat kss) = Some (List.concat rss).

Lemma concat_opt_some : forall {A} (l : list (option (list A))) cs,
  Forall2 (fun o c => o = Some c) l cs -> concat_opt l = Some (List.concat cs).
Proof.
  intros A l cs H. induction H as [|o c l cs Ho _ IH]; simpl; auto. subst o. rewrite IH. reflexivity.
Qed.

Lemma length_concat_eq : forall (kss rss : list (list json)),
  Forall2 (fun ks rs => List.length rs = List.length ks) kss rss ->
  List.length (List.concat rss) = List.length (List.concat kss).
Proof.
  intros kss rss H. induction H; simpl; auto. rewrite !app_length. lia.
Qed.

Lemma after1_arr : forall run path xs ys, distributes run ->
  Forall2 (fun x y => after1 run path x = Some y) xs ys ->
  after1 run path (JArr xs) = Some (JArr ys).
Proof.
  intros run path xs ys Hd H.
  (* collect the per-element keys and results *)
  assert (Hex : exists kss rss,
             Forall2 (fun x ks => extract_keys true path x = Some ks) xs kss /\
             Forall2 (fun ks rs => run ks = Some rs) kss rss /\
             Forall2 (fun ks rs => List.length rs = List.length ks) kss rss /\
             Forall2 (fun p y => graft path (fst p) (snd p) = Some (y, [])) (combine xs rss) ys /\
             List.length rss = List.length xs).
  { induction H as [|x y xs ys Hxy _ IH].
    - exists [], []. repeat split; constructor.
    - destruct IH as [kss [rss [A [B [C [D E]]]]]]. unfold after1 in Hxy.
      destruct (extract_keys true path x) as [ks|] eqn:Ek; [|discriminate].
      destruct (run ks) as [rs|] eqn:Er; [|discriminate].
      destruct (negb (Nat.eqb (List.length rs) (List.length ks))) eqn:El; [discriminate|].
      apply negb_false_iff, Nat.eqb_eq in El.
      destruct (graft path x rs) as [[x' [|]]|] eqn:Eg; try discriminate. inversion Hxy; subst x'.
      exists (ks :: kss), (rs :: rss). repeat split; try (constructor; auto). simpl. lia. }
  destruct Hex as [kss [rss [A [B [C [D E]]]]]].
  unfold after1. rewrite extract_keys_arr.
  rewrite (concat_opt_some (map (extract_keys true path) xs) kss).
  2:{ clear -A. induction A; simpl; constructor; auto. }
  rewrite (Hd kss rss B). rewrite (length_concat_eq kss rss C), Nat.eqb_refl. simpl.
  rewrite graft_arr.
  assert (Hg : graft_list (graft path) xs (List.concat rss) = Some (ys, [])).
  { clear -D E. revert rss ys D E. induction xs as [|x xs IH]; intros rss ys D E; destruct rss as [|rs rss]; simpl in *; try discriminate.
    - inversion D. reflexivity.
    - inversion D as [|? y ? ys' Hxy D']; subst. simpl in Hxy.
      rewrite (graft_frame _ _ _ _ _ (List.concat rss) Hxy). simpl.
      rewrite (IH rss ys' D'); auto. }
  rewrite Hg. reflexivity.
Qed.

(** ** the per-object reading of a plan *)
Section Plan1.
  Variable w : world.
  Variable g : gschema.

  Definition kid (sub : plan) (k : json) : option Z := key_id (restrict_key g (p_type sub) (p_service sub) k).

  Section RunAfters.
    Variable ex1 : plan -> Z -> option json.

    Definition run_keys (sub : plan) (ks : list json) : option (list json) :=
      match mapo (kid sub) ks with
      | Some ids => mapo (ex1 sub) ids
      | None => None
      end.

    Fixpoint run_afters_gen (l : list plan) (x : json) {struct l} : option json :=
      match l with
      | [] => Some x
      | sub :: t =>
          match after1 (run_keys sub) (p_path sub) x with
          | Some x' => run_afters_gen t x'
          | None => None
          end
      end.
  End RunAfters.

  (** the answer of plan [p] for the object with id [id]: the service's own answer, then every sub-plan
      stitched in, each run for the keys found in that one tree *)
  Fixpoint exec1 (p : plan) (id : Z) {struct p} : option json :=
    match p with
    | Plan _ svc ty sels after => run_afters_gen exec1 after (eval_obj w (keyed g) ty id sels)
    end.

  Definition run_afters := run_afters_gen exec1.

  Lemma mapo_app : forall {A B} (f : A -> option B) l1 l2,
    mapo f (l1 ++ l2) = match mapo f l1, mapo f l2 with Some a, Some b => Some (a ++ b) | _, _ => None end.
  Proof.
    intros A B f l1 l2. induction l1 as [|x t IH]; simpl.
    - destruct (mapo f l2); reflexivity.
    - destruct (f x); auto. rewrite IH. destruct (mapo f t); auto. destruct (mapo f l2); auto.
  Qed.

  Lemma mapo_concat : forall {A B} (f : A -> option B) kss rss,
    Forall2 (fun ks rs => mapo f ks = Some rs) kss rss -> mapo f (List.concat kss) = Some (List.concat rss).
  Proof.
    intros A B f kss rss H. induction H as [|ks rs kss rss Hk _ IH]; simpl; auto.
    rewrite mapo_app, Hk, IH. reflexivity.
  Qed.

  Lemma mapo_length : forall {A B} (f : A -> option B) l r, mapo f l = Some r -> List.length r = List.length l.
  Proof.
    intros A B f l. induction l as [|x t IH]; intros r H; simpl in H.
    - inversion H; reflexivity.
    - destruct (f x); [|discriminate]. destruct (mapo f t) eqn:E; [|discriminate]. inversion H; subst. simpl. f_equal. apply IH; reflexivity.
  Qed.

  Lemma run_keys_distributes : forall ex1 sub, distributes (run_keys ex1 sub).
  Proof.
    intros ex1 sub kss rss H. unfold run_keys.
    assert (Hex : exists idss, Forall2 (fun ks ids => mapo (kid sub) ks = Some ids) kss idss /\
                               Forall2 (fun ids rs => mapo (ex1 sub) ids = Some rs) idss rss).
    { induction H as [|ks rs kss rss Hk _ IH].
      - exists []. split; constructor.
      - destruct IH as [idss [A B]]. unfold run_keys in Hk. destruct (mapo (kid sub) ks) as [ids|] eqn:E; [|discriminate].
        exists (ids :: idss). split; constructor; auto. }
    destruct Hex as [idss [A B]]. rewrite (mapo_concat _ _ _ A). apply mapo_concat; exact B.
  Qed.

  (** ** the batched executor computes the per-object reading *)
  Fixpoint no_coord (p : plan) {struct p} : bool :=
    match p with
    | Plan _ svc _ _ after =>
        negb (String.eqb svc coordinator) &&
        (fix go (l : list plan) : bool := match l with [] => true | x :: t => no_coord x && go t end) after
    end.

  Lemma no_coord_eq : forall path svc ty sels after,
    no_coord (Plan path svc ty sels after) = negb (String.eqb svc coordinator) && forallb no_coord after.
  Proof. intros. simpl. f_equal. Qed.

  Section PlanInd.
    Variable P : plan -> Prop.
    Hypothesis HP : forall path svc ty sels after, Forall P after -> P (Plan path svc ty sels after).
    Fixpoint plan_ind' (p : plan) : P p :=
      match p with
      | Plan path svc ty sels after =>
          HP path svc ty sels after
             ((fix go (l : list plan) : Forall P l :=
                 match l with [] => Forall_nil _ | x :: t => Forall_cons _ (plan_ind' x) (go t) end) after)
      end.
  End PlanInd.

  Definition exec_go (coord : bool) :=
    fix go (l : list plan) (cur : list json) {struct l} : option (list json) :=
      match l with
      | [] => Some cur
      | sub :: t =>
          match stitch true (exec_plan w g true sub) coord (p_path sub) cur with
          | Some cur' => go t cur'
          | None => None
          end
      end.

  Lemma exec_plan_eq : forall path svc ty sels after keys,
    exec_plan w g true (Plan path svc ty sels after) keys =
    match (if String.eqb svc coordinator then Some [JObj (root_typenames ty sels)] else run_on_service w g svc ty sels keys) with
    | None => None
    | Some res => exec_go (String.eqb svc coordinator) after res
    end.
  Proof. reflexivity. Qed.

  Lemma stitch_after1 : forall run path cur,
    stitch true run false path cur =
    match after1 (fun ks => run (Some ks)) path (JArr cur) with
    | Some (JArr cur') => Some cur'
    | _ => None
    end.
  Proof.
    intros run path cur. unfold stitch, after1.
    destruct (extract_keys true path (JArr cur)) as [ks|]; auto.
    destruct (run (Some ks)) as [rs|]; auto.
    destruct (negb (Nat.eqb (List.length rs) (List.length ks))); auto.
    rewrite graft_arr. destruct (graft_list (graft path) cur rs) as [[l' [|]]|]; auto.
  Qed.

  Lemma after1_run_ext : forall run run' path x y,
    (forall ks rs, run ks = Some rs -> run' ks = Some rs) ->
    after1 run path x = Some y -> after1 run' path x = Some y.
  Proof.
    intros run run' path x y Hext H. unfold after1 in *.
    destruct (extract_keys true path x) as [ks|]; [|discriminate].
    destruct (run ks) as [rs|] eqn:E; [|discriminate]. rewrite (Hext _ _ E). exact H.
  Qed.

  Definition batch_ok (p : plan) : Prop :=
    no_coord p = true ->
    forall ks ids rs, mapo (kid p) ks = Some ids -> mapo (exec1 p) ids = Some rs ->
                      exec_plan w g true p (Some ks) = Some rs.

  Lemma exec_go_batch : forall after, Forall batch_ok after -> forallb no_coord after = true ->
    forall xs ys, Forall2 (fun x y => run_afters after x = Some y) xs ys -> exec_go false after xs = Some ys.
  Proof.
    intros after HF. induction HF as [|sub t Hsub _ IH]; intros Hnc xs ys H.
    - simpl. f_equal. induction H as [|x y xs ys Hxy _ IHl]; auto. inversion Hxy; subst. f_equal; auto.
    - simpl in Hnc. apply andb_prop in Hnc as [Hnc1 Hnc2].
      (* the intermediate trees *)
      assert (Hex : exists zs, Forall2 (fun x z => after1 (run_keys exec1 sub) (p_path sub) x = Some z) xs zs /\
                               Forall2 (fun z y => run_afters t z = Some y) zs ys).
      { induction H as [|x y xs ys Hxy _ IHl].
        - exists []. split; constructor.
        - destruct IHl as [zs [A B]]. unfold run_afters in Hxy. simpl in Hxy.
          destruct (after1 (run_keys exec1 sub) (p_path sub) x) as [z|] eqn:E; [|discriminate].
          exists (z :: zs). split; constructor; auto. }
      destruct Hex as [zs [A B]].
      change (exec_go false (sub :: t) xs) with
        (match stitch true (exec_plan w g true sub) false (p_path sub) xs with
         | Some cur' => exec_go false t cur'
         | None => None
         end).
      rewrite stitch_after1.
      assert (Ha : after1 (fun ks => exec_plan w g true sub (Some ks)) (p_path sub) (JArr xs) = Some (JArr zs)).
      { eapply after1_run_ext; [|apply (after1_arr _ _ _ _ (run_keys_distributes exec1 sub) A)].
        intros ks rs Hr. unfold run_keys in Hr. destruct (mapo (kid sub) ks) as [ids|] eqn:E; [|discriminate].
        apply (Hsub Hnc1 ks ids rs E Hr). }
      rewrite Ha. apply IH; auto.
  Qed.

  Theorem exec_batch : forall p, batch_ok p.
  Proof.
    induction p using plan_ind'. intros Hnc ks ids rs Hk Hr.
    rewrite no_coord_eq in Hnc. apply andb_prop in Hnc as [Hc Hnc]. apply negb_true_iff in Hc.
    rewrite exec_plan_eq, Hc. unfold run_on_service.
    assert (Hown : mapo (fun k => match key_id (restrict_key g ty svc k) with
                                   | Some id => Some (eval_obj w (keyed g) ty id sels)
                                   | None => None
                                   end) ks = Some (map (fun id => eval_obj w (keyed g) ty id sels) ids)).
    { clear -Hk. revert ids Hk. induction ks as [|k t IH]; intros ids Hk; simpl in *.
      - inversion Hk; reflexivity.
      - unfold kid in Hk at 1. simpl in Hk. destruct (key_id (restrict_key g ty svc k)) as [id|]; [|discriminate].
        destruct (mapo (kid (Plan path svc ty sels after)) t) as [ids'|] eqn:E; [|discriminate].
        inversion Hk; subst. rewrite (IH ids' eq_refl). reflexivity. }
    rewrite Hown. apply exec_go_batch; auto.
    clear -Hr. revert rs Hr. induction ids as [|id t IH]; intros rs Hr; simpl in *.
    - inversion Hr; constructor.
    - destruct (run_afters_gen exec1 after (eval_obj w (keyed g) ty id sels)) as [r|] eqn:E; [|discriminate].
      match type of Hr with match ?m with _ => _ end = _ => destruct m as [rs'|] eqn:E2; [|discriminate] end.
      inversion Hr; subst. constructor; auto.
  Qed.

  (** a plan run at the root (keys = None), as the coordinator runs the sub-plans of the services *)
  Lemma exec_root_plan : forall p r, no_coord p = true -> p_type p = "Query" -> exec1 p 0%Z = Some r ->
    exec_plan w g true p None = Some [r].
  Proof.
    intros [path svc ty sels after] r Hnc Hty Hr. simpl in Hty. subst ty.
    rewrite no_coord_eq in Hnc. apply andb_prop in Hnc as [Hc Hnc]. apply negb_true_iff in Hc.
    rewrite exec_plan_eq, Hc. unfold run_on_service.
    apply exec_go_batch.
    - clear. induction after; constructor; auto. apply exec_batch.
    - exact Hnc.
    - constructor; [exact Hr | constructor].
  Qed.
End Plan1.

(** ** every hop (a step that is not directly below the root) is sent as a query, whatever the request is *)
Lemma step_kinds_kind : forall root_kind d svc k p depth,
  In (d, svc, k) (step_kinds root_kind depth p) -> k = kind_at root_kind d.
Proof.
  intros root_kind d svc k p. induction p using plan_ind'. intros depth Hin. simpl in Hin. destruct Hin as [Heq|Hin].
  - inversion Heq; subst. reflexivity.
  - induction H as [|x t Hx _ IHt]; [contradiction|]. apply in_app_or in Hin as [Hin|Hin].
    + apply (Hx (S depth) Hin).
    + apply IHt; exact Hin.
Qed.

Theorem hops_are_queries : forall root_kind p depth d svc k,
  In (d, svc, k) (step_kinds root_kind depth p) -> d <> 1 -> k = "query".
Proof.
  intros root_kind p depth d svc k H Hd. rewrite (step_kinds_kind _ _ _ _ _ _ H).
  unfold kind_at. destruct d as [|[|d]]; try reflexivity. contradiction.
Qed.
