(** Executable model of federation/merge_schemas.go and the version/service fold of
    federation/schema.go (processSchemaVersions, MergeIntrospectionSchemas), plus the
    validity of a query against an introspection schema (what graphql.PrepareQuery and the
    argument parsers of a service check).  Definitions only; proofs are in MergeProofs*.v. *)
From Coq Require Import List String Ascii Bool Arith.
From Thunder Require Import Lib.Json.
Import ListNotations.
Open Scope string_scope.
Open Scope list_scope.

(** * Introspection schema terms *)

(** A type reference as the introspection query returns it: NON_NULL / LIST wrappers around a
    named type carrying its kind ("SCALAR", "ENUM", "OBJECT", "UNION", "INPUT_OBJECT", ...). *)
Inductive tref : Type :=
| TNamed (kind name : string)
| TList (t : tref)
| TNonNull (t : tref).

Record ifield := mk_ifield { if_name : string; if_type : tref }.
Record field := mk_field { f_name : string; f_type : tref; f_args : list ifield }.
(** possibleTypes / interfaces entries: (name, kind) *)
Definition pref := (string * string)%type.
Record itype := mk_itype {
  t_name : string; t_kind : string;
  t_fields : list field; t_inputs : list ifield;
  t_possible : list pref; t_enums : list string; t_interfaces : list pref
}.
Definition schema := list itype.

Inductive mode := Union | Intersection.

(** * mergeTypeRefs (merge_schemas.go:136-192)
    Strip at most one NON_NULL from each side, recurse, re-wrap: inputs are non-null if either side
    is, outputs only if both are.  Otherwise kinds must agree; named types must be identical and of
    one of the five known kinds; lists recurse. *)
Definition known_named_kind (k : string) : bool :=
  String.eqb k "SCALAR" || String.eqb k "ENUM" || String.eqb k "INPUT_OBJECT" ||
  String.eqb k "UNION" || String.eqb k "OBJECT".

Definition wrap_nn (nn : bool) (r : option tref) : option tref :=
  match r with
  | None => None
  | Some t => Some (if nn then TNonNull t else t)
  end.

Fixpoint merge_tref (is_input : bool) (a : tref) {struct a} : tref -> option tref :=
  match a with
  | TNonNull a' =>
      fun b => match b with
               | TNonNull b' => wrap_nn true (merge_tref is_input a' b')
               | _ => wrap_nn is_input (merge_tref is_input a' b)
               end
  | TList a' =>
      fix inner (b : tref) : option tref :=
        match b with
        | TNonNull b' => wrap_nn is_input (inner b')
        | TList b' => option_map TList (merge_tref is_input a' b')
        | TNamed _ _ => None
        end
  | TNamed ka na =>
      fix inner (b : tref) : option tref :=
        match b with
        | TNonNull b' => wrap_nn is_input (inner b')
        | TList _ => None
        | TNamed kb nb =>
            if String.eqb ka kb && known_named_kind ka && String.eqb na nb
            then Some (TNamed ka na) else None
        end
  end.

(** * The grouping pattern shared by every merge function:
    group a ++ b by name, iterate over the sorted distinct names; a name bound once is kept only
    in Union mode (after a per-kind check), a name bound twice (or more) merges the first two. *)
Fixpoint dedupe (l : list string) : list string :=
  match l with
  | [] => []
  | x :: t => if existsb (String.eqb x) t then dedupe t else x :: dedupe t
  end.

Fixpoint insert_str (x : string) (l : list string) : list string :=
  match l with
  | [] => [x]
  | y :: t => if str_ltb y x then y :: insert_str x t else x :: l
  end.

Definition sort_str (l : list string) : list string := fold_right insert_str [] l.

Definition sorted_names (l : list string) : list string := sort_str (dedupe l).

Section ByName.
  Context {A : Type}.
  Variable name : A -> string.
  (** [single x]: None = error, Some None = dropped, Some (Some y) = kept *)
  Variable single : A -> option (option A).
  Variable pair : A -> A -> option A.

  Definition group (n : string) (l : list A) : list A :=
    filter (fun x => String.eqb (name x) n) l.

  Definition merge_one (all : list A) (n : string) : option (list A) :=
    match group n all with
    | [] => Some []
    | [x] => match single x with
             | None => None
             | Some None => Some []
             | Some (Some y) => Some [y]
             end
    | x :: y :: _ => option_map (fun z => [z]) (pair x y)
    end.

  Fixpoint merge_names (all : list A) (ns : list string) : option (list A) :=
    match ns with
    | [] => Some []
    | n :: t => match merge_one all n, merge_names all t with
                | Some l1, Some l2 => Some (l1 ++ l2)
                | _, _ => None
                end
    end.

  Definition merge_by_name (a b : list A) : option (list A) :=
    let all := a ++ b in
    merge_names all (sorted_names (map name all)).
End ByName.

Definition keep_if_union {A} (m : mode) (x : A) : option (option A) :=
  match m with Union => Some (Some x) | Intersection => Some None end.

Definition is_nonnull (t : tref) : bool := match t with TNonNull _ => true | _ => false end.

(** mergeInputFields (merge_schemas.go:198-235): a field only one side knows must be nullable
    (in both modes), and survives only a Union. *)
Definition merge_input_fields (m : mode) (a b : list ifield) : option (list ifield) :=
  merge_by_name if_name
    (fun x => if is_nonnull (if_type x) then None else keep_if_union m x)
    (fun x y => option_map (mk_ifield (if_name x)) (merge_tref true (if_type x) (if_type y)))
    a b.

(** mergeFields (merge_schemas.go:237-278) *)
Definition merge_fields (m : mode) (a b : list field) : option (list field) :=
  merge_by_name f_name (keep_if_union m)
    (fun x y => match merge_tref false (f_type x) (f_type y), merge_input_fields m (f_args x) (f_args y) with
                | Some t, Some args => Some (mk_field (f_name x) t args)
                | _, _ => None
                end)
    a b.

(** mergePossibleTypes / mergeInterfaces / mergeEnumValues (merge_schemas.go:280-343): first one wins *)
Definition merge_prefs (m : mode) (a b : list pref) : option (list pref) :=
  merge_by_name fst (keep_if_union m) (fun x _ => Some x) a b.

Definition merge_enums (m : mode) (a b : list string) : option (list string) :=
  merge_by_name (fun x => x) (keep_if_union m) (fun x _ => Some x) a b.

(** mergeTypes (merge_schemas.go:345-403) *)
Definition merge_types (m : mode) (a b : itype) : option itype :=
  if negb (String.eqb (t_kind a) (t_kind b)) then None else
  let base := mk_itype (t_name a) (t_kind a) [] [] [] [] [] in
  let k := t_kind a in
  if String.eqb k "INPUT_OBJECT" then
    option_map (fun x => mk_itype (t_name a) k [] x [] [] []) (merge_input_fields m (t_inputs a) (t_inputs b))
  else if String.eqb k "OBJECT" then
    option_map (fun x => mk_itype (t_name a) k x [] [] [] []) (merge_fields m (t_fields a) (t_fields b))
  else if String.eqb k "UNION" then
    option_map (fun x => mk_itype (t_name a) k [] [] x [] []) (merge_prefs m (t_possible a) (t_possible b))
  else if String.eqb k "INTERFACE" then
    option_map (fun x => mk_itype (t_name a) k [] [] [] [] x) (merge_prefs m (t_interfaces a) (t_interfaces b))
  else if String.eqb k "ENUM" then
    option_map (fun x => mk_itype (t_name a) k [] [] [] x []) (merge_enums m (t_enums a) (t_enums b))
  else if String.eqb k "SCALAR" then Some base
  else None.

(** mergeSchemas (merge_schemas.go:434-477) *)
Definition merge_schemas (m : mode) (a b : schema) : option schema :=
  merge_by_name t_name (keep_if_union m) (merge_types m) a b.

(** mergeSchemaSlice (merge_schemas.go:479-492): left fold; no schemas is an error *)
Fixpoint merge_fold (m : mode) (acc : schema) (l : list schema) : option schema :=
  match l with
  | [] => Some acc
  | s :: t => match merge_schemas m acc s with
              | Some acc' => merge_fold m acc' t
              | None => None
              end
  end.

Definition merge_slice (m : mode) (l : list schema) : option schema :=
  match l with
  | [] => None
  | s :: t => merge_fold m s t
  end.

(** The same fold guarded by a check of every pair of schemas (i < j): mergeSchemaSlice as repaired by
    patches/C09-fix-1.  If all pairs merge, the fold succeeds in every order with the same result
    (MergeProofsPairs.v), so this function does not depend on the order of [l] at all. *)
Definition is_some_schema (o : option schema) : bool := match o with Some _ => true | None => false end.

Fixpoint all_pairs_ok (m : mode) (l : list schema) : bool :=
  match l with
  | [] => true
  | x :: t => forallb (fun y => is_some_schema (merge_schemas m x y)) t && all_pairs_ok m t
  end.

Definition merge_slice_checked (m : mode) (l : list schema) : option schema :=
  if all_pairs_ok m l then merge_slice m l else None.

(** [repaired = false]: the code as it is; [repaired = true]: with patches/C09-fix-1 applied. *)
Definition slice_of (repaired : bool) : mode -> list schema -> option schema :=
  if repaired then merge_slice_checked else merge_slice.

(** processSchemaVersions + MergeIntrospectionSchemas (schema.go:173-227): services and versions are
    Go maps; the code iterates them in sorted name order.  The input here is an association list
    with distinct keys (a map); [sort_kv] puts it in that order. *)
Definition versions := list (string * schema).
Definition services := list (string * versions).

Fixpoint map_opt {A B} (f : A -> option B) (l : list A) : option (list B) :=
  match l with
  | [] => Some []
  | x :: t => match f x, map_opt f t with
              | Some y, Some r => Some (y :: r)
              | _, _ => None
              end
  end.

Definition service_schema (vs : versions) : option schema :=
  merge_slice Intersection (map snd (sort_kv vs)).

Definition process_versions (ss : services) : option (list (string * schema)) :=
  map_opt (fun sv => option_map (pair (fst sv)) (service_schema (snd sv))) (sort_kv ss).

Definition merge_all (ss : services) : option schema :=
  match process_versions ss with
  | None => None
  | Some per => merge_slice Union (map snd per)
  end.

(** the same three functions over either reading of mergeSchemaSlice ([_r false] is the function above) *)
Definition service_schema_r (rp : bool) (vs : versions) : option schema :=
  slice_of rp Intersection (map snd (sort_kv vs)).

Definition process_versions_r (rp : bool) (ss : services) : option (list (string * schema)) :=
  map_opt (fun sv => option_map (pair (fst sv)) (service_schema_r rp (snd sv))) (sort_kv ss).

Definition merge_all_r (rp : bool) (ss : services) : option schema :=
  match process_versions_r rp ss with
  | None => None
  | Some per => slice_of rp Union (map snd per)
  end.

(** ConvertVersionedSchemas' FieldInfo.Services (schema.go:255-327): the services whose
    (version-intersected) schema has OBJECT type [ty] with field [f]. *)
Definition find_type (s : schema) (n : string) : option itype :=
  find (fun t => String.eqb (t_name t) n) s.
Definition find_field (fs : list field) (n : string) : option field :=
  find (fun f => String.eqb (f_name f) n) fs.
Definition find_ifield (fs : list ifield) (n : string) : option ifield :=
  find (fun f => String.eqb (if_name f) n) fs.

Definition has_field (s : schema) (ty f : string) : bool :=
  match find_type s ty with
  | Some t => String.eqb (t_kind t) "OBJECT" &&
              match find_field (t_fields t) f with Some _ => true | None => false end
  | None => false
  end.

Definition field_services (per : list (string * schema)) (ty f : string) : list string :=
  map fst (filter (fun sv => has_field (snd sv) ty f) per).

(** ConvertVersionedSchemas' federation-key validation (schema.go:42-76, 266-300).  A service asks for the
    key fields of object O in the input object of its Federation.<svc>_O(keys:) field; every service that is a
    root for O (has O._federation) must expose each of them.  [fedkeys_ok per merged = false] iff the
    conversion is refused with "Invalid federation key" (provided it gets that far). *)
Fixpoint root_name (t : tref) : string :=
  match t with
  | TNamed _ n => n
  | TList t' => root_name t'
  | TNonNull t' => root_name t'
  end.

(** the part of a field name after the first '_' (strings.SplitN(name, "_", 2)[1]) *)
Fixpoint after_underscore (s : string) : option string :=
  match s with
  | EmptyString => None
  | String c r => if Ascii.eqb c "_"%char then Some r else after_underscore r
  end.

Definition type_has_field (t : itype) (f : string) : bool :=
  match find_field (t_fields t) f with Some _ => true | None => false end.

(** every root service for [obj] exposes field [k] *)
Definition key_exposed (per : list (string * schema)) (obj k : string) : bool :=
  forallb (fun sv =>
    forallb (fun t => negb (String.eqb (t_name t) obj) || negb (type_has_field t "_federation") || type_has_field t k)
            (snd sv)) per.

(** the (object, key field) pairs the schema [s] of one service asks for *)
Definition asked_keys (merged : schema) (s : schema) : list (string * string) :=
  List.concat (map (fun t =>
    if String.eqb (t_name t) "Federation" then
      List.concat (map (fun f =>
        match after_underscore (f_name f) with
        | None => []
        | Some obj =>
            List.concat (map (fun a =>
              match find_type merged (root_name (if_type a)) with
              | Some it => if String.eqb (t_kind it) "INPUT_OBJECT" then map (fun i => (obj, if_name i)) (t_inputs it) else []
              | None => []
              end) (f_args f))
        end) (t_fields t))
    else []) s).

(** validateFederatedObjects (schema.go:78-118): an object (other than Query / Mutation) that some service
    federates (has _federation on it) is federated by every service that has it. *)
Definition federated_somewhere (per : list (string * schema)) (obj : string) : bool :=
  existsb (fun sv => existsb (fun t => String.eqb (t_name t) obj && type_has_field t "_federation") (snd sv)) per.
Definition federated_everywhere (per : list (string * schema)) (obj : string) : bool :=
  forallb (fun sv => forallb (fun t => negb (String.eqb (t_name t) obj) || type_has_field t "_federation") (snd sv)) per.
Definition fedobjs_ok (per : list (string * schema)) (merged : schema) : bool :=
  forallb (fun mt => String.eqb (t_name mt) "Query" || String.eqb (t_name mt) "Mutation" ||
                     negb (federated_somewhere per (t_name mt)) || federated_everywhere per (t_name mt)) merged.

Definition fedkeys_ok (per : list (string * schema)) (merged : schema) : bool :=
  forallb (fun sv => forallb (fun ok => key_exposed per (fst ok) (snd ok)) (asked_keys merged (snd sv))) per.

(** * Validity of a query against a schema *)

(** Selections: fields with alias, name, arguments (JSON values) and sub-selections, and inline
    fragments with a type condition.  (Named fragments are inlined by the parser.) *)
Inductive sel : Type :=
| SField (alias name : string) (args : list (string * json)) (subs : list sel)
| SFrag (on : string) (subs : list sel).

Fixpoint root_tref (t : tref) : (string * string) :=
  match t with
  | TNamed k n => (k, n)
  | TList t' => root_tref t'
  | TNonNull t' => root_tref t'
  end.

Section Valid.
  (** What a service's parser accepts for a (non-null) value of a named scalar: the same function for
      every schema, since scalars are identified by name. *)
  Variable scalar_ok : string -> json -> bool.
  (** [strict = true]: the GraphQL rule (names of arguments and input fields must be declared, a fragment's
      type condition must apply).  [strict = false]: what thunder's PrepareQuery / struct argument parsers
      actually accept -- undeclared argument names and input-object keys are ignored when the field
      declares at least one argument (graphql/schemabuilder/input.go makeStructParser), the type condition
      of a fragment inside an object is ignored, and a fragment on a non-member of a union is skipped
      (graphql/executor.go:121-193). *)
  Variable strict : bool.

  Definition is_null (v : json) : bool := match v with JNull => true | _ => false end.

  (** An argument / input-field value [v] is acceptable for type [t] in schema [s]. *)
  Fixpoint valid_value (s : schema) (v : json) {struct v} : tref -> bool :=
    fix on_t (t : tref) : bool :=
      match t with
      | TNonNull t' => negb (is_null v) && on_t t'
      | TList t' =>
          match v with
          | JNull => true
          | JArr l => forallb (fun x => valid_value s x t') l
          | _ => false
          end
      | TNamed k n =>
          match v with
          | JNull => true
          | JObj kvs =>
              String.eqb k "INPUT_OBJECT" &&
              match find_type s n with
              | Some ty =>
                  String.eqb (t_kind ty) "INPUT_OBJECT" &&
                  (* every given key is a known input field with an acceptable value *)
                  forallb (fun kv => let '(key, x) := kv in
                                     match find_ifield (t_inputs ty) key with
                                     | Some f => valid_value s x (if_type f)
                                     | None => negb strict
                                     end) kvs &&
                  (* every required input field is given *)
                  forallb (fun f => negb (is_nonnull (if_type f)) ||
                                    existsb (fun kv => String.eqb (fst kv) (if_name f)) kvs) (t_inputs ty)
              | None => false
              end
          | JArr _ => false
          | _ =>
              if String.eqb k "SCALAR" then scalar_ok n v
              else if String.eqb k "ENUM" then
                match v, find_type s n with
                | JStr e, Some ty => String.eqb (t_kind ty) "ENUM" && existsb (String.eqb e) (t_enums ty)
                | _, _ => false
                end
              else false
          end
      end.

  (** Arguments of one field selection: names known, values acceptable, required ones present
      (an explicit null does not satisfy a non-null argument). *)
  Definition valid_args (s : schema) (decl : list ifield) (args : list (string * json)) : bool :=
    forallb (fun kv => match find_ifield decl (fst kv) with
                       | Some f => valid_value s (snd kv) (if_type f)
                       | None => negb strict && match decl with [] => false | _ => true end
                       end) args &&
    forallb (fun f => negb (is_nonnull (if_type f)) ||
                      existsb (fun kv => String.eqb (fst kv) (if_name f)) args) decl.

  Definition is_leaf_kind (k : string) : bool := String.eqb k "SCALAR" || String.eqb k "ENUM".
  Definition is_composite_kind (k : string) : bool := String.eqb k "OBJECT" || String.eqb k "UNION".

  (** [valid_sels s ty sels]: the selection set [sels] is acceptable on the type named [ty]. *)
  Fixpoint valid_sel (s : schema) (ty : string) (q : sel) {struct q} : bool :=
    match find_type s ty with
    | None => false
    | Some t =>
        if String.eqb (t_kind t) "OBJECT" then
          match q with
          | SField _ name args subs =>
              if String.eqb name "__typename" then
                match args, subs with [], [] => true | _, _ => false end
              else
                match find_field (t_fields t) name with
                | None => false
                | Some f =>
                    valid_args s (f_args f) args &&
                    let '(k, n) := root_tref (f_type f) in
                    if is_leaf_kind k then match subs with [] => true | _ => false end
                    else if is_composite_kind k then
                      match subs with
                      | [] => false
                      | _ => forallb (valid_sel s n) subs
                      end
                    else false
                end
          | SFrag on subs =>
              (negb strict || String.eqb on ty) && forallb (valid_sel s ty) subs
          end
        else if String.eqb (t_kind t) "UNION" then
          match q with
          | SField _ name args subs =>
              String.eqb name "__typename" && match args, subs with [], [] => true | _, _ => false end
          | SFrag on subs =>
              if existsb (fun p => String.eqb (fst p) on) (t_possible t) then
                forallb (valid_sel s on) subs
              else negb strict
          end
        else false
    end.

  Definition valid_sels (s : schema) (ty : string) (l : list sel) : bool :=
    forallb (valid_sel s ty) l.

  (** A query (kind "query") is a non-empty selection set on the type named Query. *)
  Definition valid_query (s : schema) (q : list sel) : bool :=
    match q with [] => false | _ => valid_sels s "Query" q end.
End Valid.

(** * Well-formedness (what the introspection of a built schema always satisfies) *)
Fixpoint nodup_str (l : list string) : bool :=
  match l with
  | [] => true
  | x :: t => negb (existsb (String.eqb x) t) && nodup_str t
  end.

Definition wf_field (f : field) : bool := nodup_str (map if_name (f_args f)).
Definition wf_type (t : itype) : bool :=
  nodup_str (map f_name (t_fields t)) && forallb wf_field (t_fields t) &&
  nodup_str (map if_name (t_inputs t)) && nodup_str (map fst (t_possible t)) &&
  nodup_str (t_enums t) && nodup_str (map fst (t_interfaces t)).
Definition wf_schema (s : schema) : bool :=
  nodup_str (map t_name s) && forallb wf_type s.

(** Closed: every named type referenced by a field, argument, input field or union member is a
    type of the schema, with the kind the reference says. *)
Definition ref_ok (s : schema) (t : tref) : bool :=
  let '(k, n) := root_tref t in
  match find_type s n with Some ty => String.eqb (t_kind ty) k | None => false end.

Definition closed_type (s : schema) (t : itype) : bool :=
  forallb (fun f => ref_ok s (f_type f) && forallb (fun a => ref_ok s (if_type a)) (f_args f)) (t_fields t) &&
  forallb (fun a => ref_ok s (if_type a)) (t_inputs t) &&
  forallb (fun p => match find_type s (fst p) with Some ty => String.eqb (t_kind ty) (snd p) | None => false end)
          (t_possible t).

Definition closed (s : schema) : bool := forallb (closed_type s) s.

(** * Canonical JSON of a schema (what the harness prints for the implementation's output) *)
Fixpoint tref_json (t : tref) : json :=
  match t with
  | TNamed k n => JArr [JStr "N"; JStr k; JStr n]
  | TList t' => JArr [JStr "L"; tref_json t']
  | TNonNull t' => JArr [JStr "NN"; tref_json t']
  end.

Definition ifield_json (f : ifield) : json := JArr [JStr (if_name f); tref_json (if_type f)].
Definition field_json (f : field) : json :=
  JArr [JStr (f_name f); tref_json (f_type f); JArr (map ifield_json (f_args f))].
Definition pref_json (p : pref) : json := JArr [JStr (fst p); JStr (snd p)].
Definition itype_json (t : itype) : json :=
  JArr [JStr (t_name t); JStr (t_kind t); JArr (map field_json (t_fields t));
        JArr (map ifield_json (t_inputs t)); JArr (map pref_json (t_possible t));
        JArr (map JStr (t_enums t)); JArr (map pref_json (t_interfaces t))].
Definition schema_json (s : schema) : json := JArr (map itype_json s).

(** * Correspondence cases *)

(** Scalars as thunder's argument parsers accept them (graphql/schemabuilder/input.go): the harness
    only uses these names. *)
Definition thunder_scalar_ok (n : string) (v : json) : bool :=
  match v with
  | JNum _ => String.eqb n "int64" || String.eqb n "int32" || String.eqb n "int" || String.eqb n "float64"
  | JStr _ => String.eqb n "string"
  | JBool _ => String.eqb n "bool"
  | _ => false
  end.

Record case := mk_case {
  c_services : services;
  c_merged : option json;                          (* MergeIntrospectionSchemas: canonical JSON, None = error *)
  c_field_services : list (string * string * list string);  (* (type, field, sorted services) from ConvertVersionedSchemas *)
  c_queries : list (list sel * list (string * string * bool))
      (* query, and for (service, version) whether PrepareQuery on that version's built schema accepted it *);
  c_fedkeys : nat;  (* ConvertVersionedSchemas: 1 = accepted, 2 = refused with "Invalid federation key",
                       3 = refused with "... exists on another server and is not federated",
                       4 = refused, whatever the message (generated key configurations only), 0 = anything else *)
  c_repaired : bool;  (* which reading of mergeSchemaSlice the implementation under test shows on the fixed
                         three-version probe: false = plain fold (the code as it is), true = pairs checked first *)
  c_per_service : list (string * option json)
      (* per service: MergeIntrospectionSchemas of that service alone = the intersection of its versions *)
}.

Definition opt_json_eqb (a b : option json) : bool :=
  match a, b with
  | None, None => true
  | Some x, Some y => json_eqb x y
  | _, _ => false
  end.

Fixpoint list_str_eqb (a b : list string) : bool :=
  match a, b with
  | [], [] => true
  | x :: a', y :: b' => String.eqb x y && list_str_eqb a' b'
  | _, _ => false
  end.

Definition lookup_version (ss : services) (svc ver : string) : option schema :=
  match lookup svc ss with
  | Some vs => lookup ver vs
  | None => None
  end.

Definition check_case (c : case) : list nat :=
  let ss := c_services c in
  let rp := c_repaired c in
  (if opt_json_eqb (option_map schema_json (merge_all_r rp ss)) (c_merged c) then [] else [1]) ++
  (match process_versions_r rp ss with
   | None => []
   | Some per =>
       if forallb (fun e => let '(ty, f, svcs) := e in
                            list_str_eqb (field_services per ty f) svcs) (c_field_services c)
       then [] else [2]
   end) ++
  (if forallb (fun qe =>
       forallb (fun e => let '(svc, ver, ok) := e in
                         match lookup_version ss svc ver with
                         | Some s => Bool.eqb (valid_query thunder_scalar_ok false s (fst qe)) ok
                         | None => false
                         end) (snd qe)) (c_queries c)
   then [] else [3]) ++
  (match c_fedkeys c, process_versions_r rp ss with
   | 1, Some per => match slice_of rp Union (map snd per) with
                    | Some m => if fedobjs_ok per m && fedkeys_ok per m then [] else [4]
                    | None => []
                    end
   | 2, Some per => match slice_of rp Union (map snd per) with
                    | Some m => if fedobjs_ok per m && negb (fedkeys_ok per m) then [] else [4]
                    | None => []
                    end
   | 3, Some per => match slice_of rp Union (map snd per) with
                    | Some m => if fedobjs_ok per m then [4] else []
                    | None => []
                    end
   | 4, Some per => match slice_of rp Union (map snd per) with
                    | Some m => if fedobjs_ok per m && fedkeys_ok per m then [4] else []
                    | None => []
                    end
   | _, _ => []
   end) ++
  (if forallb (fun e => match lookup (fst e) ss with
                        | Some vs => opt_json_eqb (option_map schema_json (service_schema_r rp vs)) (snd e)
                        | None => false
                        end) (c_per_service c)
   then [] else [5]).

Fixpoint mismatches_from_sparse (_ : nat) (cs : list (nat * case)) : list (nat * list nat) :=
  match cs with
  | [] => []
  | (i, c) :: t => match check_case c with
                   | [] => mismatches_from_sparse 0 t
                   | l => (i, l) :: mismatches_from_sparse 0 t
                   end
  end.
