(** Validity of queries is preserved from a schema to any schema it [refines]; hence from the
    intersection of versions to every version (binary, then n-ary by induction over the fold). *)
From Coq Require Import List String Bool Arith Lia.
From Thunder Require Import Lib.Json Federation.Merge Federation.MergeProofsBase Federation.MergeProofsTref
  Federation.MergeProofs.
Import ListNotations.
Open Scope string_scope.
Open Scope list_scope.

Section Valid.
  Variable sok : string -> json -> bool.

  Lemma valid_value_eq : forall st s v t, valid_value sok st s v t =
    match t with
    | TNonNull t' => negb (is_null v) && valid_value sok st s v t'
    | TList t' =>
        match v with
        | JNull => true
        | JArr l => forallb (fun x => valid_value sok st s x t') l
        | _ => false
        end
    | TNamed k n =>
        match v with
        | JNull => true
        | JObj kvs =>
            String.eqb k "INPUT_OBJECT" &&
            match find_type s n with
            | Some ty =>
                String.eqb (t_kind ty) "INPUT_OBJECT" &&
                forallb (fun kv => let '(key, x) := kv in
                                   match find_ifield (t_inputs ty) key with
                                   | Some f => valid_value sok st s x (if_type f)
                                   | None => negb st
                                   end) kvs &&
                forallb (fun f => negb (is_nonnull (if_type f)) ||
                                  existsb (fun kv => String.eqb (fst kv) (if_name f)) kvs) (t_inputs ty)
            | None => false
            end
        | JArr _ => false
        | _ =>
            if String.eqb k "SCALAR" then sok n v
            else if String.eqb k "ENUM" then
              match v, find_type s n with
              | JStr e, Some ty => String.eqb (t_kind ty) "ENUM" && existsb (String.eqb e) (t_enums ty)
              | _, _ => false
              end
            else false
        end
    end.
  Proof. intros st s v t. destruct v, t; reflexivity. Qed.

  Section Refines.
    Variables m a : schema.
    Hypothesis R : refines m a.

    Definition vv_pres (v : json) : Prop :=
      forall mt ta, in_le mt ta -> valid_value sok true m v mt = true -> valid_value sok true a v ta = true.

    Lemma vv_scalarlike : forall v, (match v with JBool _ | JNum _ | JStr _ => True | _ => False end) -> vv_pres v.
    Proof.
      intros v Hv mt ta Hle.
      induction Hle as [k n|m0 a0 Hle IHHle|m0 a0 Hle IHHle|m0 a0 Hle IHHle];
        [ rewrite (valid_value_eq true m v (TNamed k n)), (valid_value_eq true a v (TNamed k n))
        | rewrite (valid_value_eq true m v (TList m0)), (valid_value_eq true a v (TList a0))
        | rewrite (valid_value_eq true m v (TNonNull m0)), (valid_value_eq true a v (TNonNull a0))
        | rewrite (valid_value_eq true m v (TNonNull m0)) ].
      - (* named *)
        destruct v; try contradiction; auto.
        (* JStr: enum lookup *)
        destruct (String.eqb k "SCALAR"); auto. destruct (String.eqb k "ENUM") eqn:Ek; auto.
        destruct (find_type m n) as [mty|] eqn:Em; [|discriminate].
        destruct (R n mty Em) as [aty [Ea [Hk [_ [_ [_ Hen]]]]]]. rewrite Ea, Hk.
        intros H. apply andb_prop in H as [H1 H2]. rewrite H1. simpl.
        apply String.eqb_eq in H1. apply existsb_eqb_In. apply (Hen H1). apply existsb_eqb_In. exact H2.
      - destruct v; try contradiction; auto.
      - intros H. apply andb_prop in H as [H1 H2]. rewrite H1. simpl. auto.
      - intros H. apply andb_prop in H as [H1 H2]. auto.
    Qed.

    Lemma vv_all : forall v, vv_pres v.
    Proof.
      induction v using json_ind'.
      - (* null *) intros mt ta Hle.
        induction Hle as [k n|m0 a0 Hle IHHle|m0 a0 Hle IHHle|m0 a0 Hle IHHle];
        [ rewrite (valid_value_eq true m _ (TNamed k n)), (valid_value_eq true a _ (TNamed k n))
        | rewrite (valid_value_eq true m _ (TList m0)), (valid_value_eq true a _ (TList a0))
        | rewrite (valid_value_eq true m _ (TNonNull m0)), (valid_value_eq true a _ (TNonNull a0))
        | rewrite (valid_value_eq true m _ (TNonNull m0)) ]; simpl; auto; discriminate.
      - apply vv_scalarlike; exact I.
      - apply vv_scalarlike; exact I.
      - apply vv_scalarlike; exact I.
      - (* array *)
        intros mt ta Hle.
        induction Hle as [k n|m0 a0 Hle IHHle|m0 a0 Hle IHHle|m0 a0 Hle IHHle];
        [ rewrite (valid_value_eq true m _ (TNamed k n)), (valid_value_eq true a _ (TNamed k n))
        | rewrite (valid_value_eq true m _ (TList m0)), (valid_value_eq true a _ (TList a0))
        | rewrite (valid_value_eq true m _ (TNonNull m0)), (valid_value_eq true a _ (TNonNull a0))
        | rewrite (valid_value_eq true m _ (TNonNull m0)) ]; auto.
        intros Hv. eapply forallb_Forall_impl; [exact H | | exact Hv]. intros x Px Hx. apply (Px m0 a0 Hle Hx).
      - (* object *)
        intros mt ta Hle.
        induction Hle as [k n|m0 a0 Hle IHHle|m0 a0 Hle IHHle|m0 a0 Hle IHHle];
        [ rewrite (valid_value_eq true m _ (TNamed k n)), (valid_value_eq true a _ (TNamed k n))
        | rewrite (valid_value_eq true m _ (TList m0)), (valid_value_eq true a _ (TList a0))
        | rewrite (valid_value_eq true m _ (TNonNull m0)), (valid_value_eq true a _ (TNonNull a0))
        | rewrite (valid_value_eq true m _ (TNonNull m0)) ]; auto.
        intros Hv. apply andb_prop in Hv as [Hk Hv]. rewrite Hk. simpl.
          destruct (find_type m n) as [mty|] eqn:Em; [|discriminate].
          destruct (R n mty Em) as [aty [Ea [Hkind [_ [Hin _]]]]]. rewrite Ea, Hkind.
          apply andb_prop in Hv as [Hv Hreq]. apply andb_prop in Hv as [Hki Hkeys]. rewrite Hki. simpl.
          apply String.eqb_eq in Hki. destruct (Hin Hki) as [S1 S2].
          apply andb_true_intro. split.
          * (* keys *)
            revert Hkeys. clear Hreq. induction H as [|[key x] rest Px _ IHrest]; simpl; auto.
            intros Hk2. apply andb_prop in Hk2 as [Hx Hrest]. rewrite (IHrest Hrest), andb_true_r.
            destruct (find_ifield (t_inputs mty) key) as [mi|] eqn:Emi; [|discriminate].
            apply find_some in Emi as [Imi Nmi]. apply String.eqb_eq in Nmi. subst key.
            destruct (S1 mi Imi) as [ai [Eai Hle']]. rewrite Eai. simpl in Px. apply (Px _ _ Hle' Hx).
          * (* required *)
            apply forallb_forall. intros ai Iai. destruct (is_nonnull (if_type ai)) eqn:Enn; auto. simpl.
            destruct (S2 ai Iai Enn) as [mi [Imi [Hn Hnn]]].
            eapply forallb_forall in Hreq; [|exact Imi]. rewrite Hnn, Hn in Hreq. exact Hreq.
    Qed.

    Lemma valid_args_pres : forall md ad args, sub_input md ad ->
      valid_args sok true m md args = true -> valid_args sok true a ad args = true.
    Proof.
      intros md ad args [S1 S2] H. unfold valid_args in *. apply andb_prop in H as [H1 H2].
      apply andb_true_intro. split.
      - eapply forallb_impl_in; [|exact H1]. intros kv _ Hkv. cbv beta in Hkv.
        destruct (find_ifield md (fst kv)) as [mi|] eqn:Emi; [|simpl in Hkv; discriminate].
        apply find_some in Emi as [Imi Nmi]. apply String.eqb_eq in Nmi.
        destruct (S1 mi Imi) as [ai [Eai Hle]]. rewrite Nmi in Eai. rewrite Eai. apply (vv_all _ _ _ Hle Hkv).
      - apply forallb_forall. intros ai Iai. destruct (is_nonnull (if_type ai)) eqn:Enn; auto. simpl.
        destruct (S2 ai Iai Enn) as [mi [Imi [Hn Hnn]]].
        eapply forallb_forall in H2; [|exact Imi]. rewrite Hnn, Hn in H2. exact H2.
    Qed.

    Theorem valid_sel_pres : forall q ty, valid_sel sok true m ty q = true -> valid_sel sok true a ty q = true.
    Proof.
      induction q using sel_ind'; intros ty Hv; simpl in Hv |- *;
        destruct (find_type m ty) as [mt|] eqn:Em; try discriminate;
        destruct (R ty mt Em) as [ta [Ea [Hk [Hobj [_ [Hun _]]]]]]; rewrite Ea, Hk.
      - destruct (String.eqb (t_kind mt) "OBJECT") eqn:Eo.
        + destruct (String.eqb n "__typename"); auto.
          destruct (find_field (t_fields mt) n) as [mf|] eqn:Ef; [|discriminate].
          apply find_some in Ef as [Imf Nmf]. apply String.eqb_eq in Nmf. apply String.eqb_eq in Eo.
          destruct (Hobj Eo mf Imf) as [af [Eaf [Hroot Hsub]]]. rewrite Nmf in Eaf. rewrite Eaf, Hroot.
          apply andb_prop in Hv as [Hargs Hrest]. rewrite (valid_args_pres _ _ _ Hsub Hargs). simpl.
          destruct (root_tref (f_type mf)) as [k rn].
          destruct (is_leaf_kind k); auto. destruct (is_composite_kind k); auto.
          destruct subs as [|s0 subs']; auto.
          eapply forallb_Forall_impl; [exact H | | exact Hrest]. intros x Px Hx. apply Px; exact Hx.
        + destruct (String.eqb (t_kind mt) "UNION"); auto.
      - destruct (String.eqb (t_kind mt) "OBJECT") eqn:Eo.
        + apply andb_prop in Hv as [H1 H2]. rewrite H1. simpl.
          eapply forallb_Forall_impl; [exact H | | exact H2]. intros x Px Hx. apply Px; exact Hx.
        + destruct (String.eqb (t_kind mt) "UNION") eqn:Eu; auto.
          apply String.eqb_eq in Eu.
          destruct (existsb (fun p => String.eqb (fst p) on) (t_possible mt)) eqn:Ex; [|discriminate].
          apply existsb_exists in Ex as [p [Ip Np]]. destruct (Hun Eu p Ip) as [p' [Ip' Np']].
          assert (Ex' : existsb (fun p => String.eqb (fst p) on) (t_possible ta) = true).
          { apply existsb_exists. exists p'. split; auto. rewrite Np'. exact Np. }
          rewrite Ex'. eapply forallb_Forall_impl; [exact H | | exact Hv]. intros x Px Hx. apply Px; exact Hx.
    Qed.

    Corollary valid_query_pres : forall q, valid_query sok true m q = true -> valid_query sok true a q = true.
    Proof.
      intros q H. unfold valid_query, valid_sels in *. destruct q; [discriminate|].
      eapply forallb_impl_in; [|exact H]. intros x _ Hx. apply valid_sel_pres; exact Hx.
    Qed.
  End Refines.
End Valid.

(** ** well-formedness is preserved by the merge (so the fold can be iterated) *)
Lemma nodup_str_of_NoDup : forall l, NoDup l -> nodup_str l = true.
Proof. intros l H. apply nodup_str_NoDup; exact H. Qed.

Lemma merge_input_fields_nodup : forall m a b r, NoDup (map if_name a) -> NoDup (map if_name b) ->
  merge_input_fields m a b = Some r -> NoDup (map if_name r).
Proof.
  intros m a b r Ha Hb H. rewrite merge_input_fields_unfold in H.
  eapply merge_by_name_nodup; [apply (ifield_single_name m) | apply ifield_pair_name | exact Ha | exact Hb | exact H].
Qed.

Lemma merge_prefs_nodup : forall m a b r, NoDup (map fst a) -> NoDup (map fst b) ->
  merge_prefs m a b = Some r -> NoDup (map fst r).
Proof.
  intros m a b r Ha Hb H. unfold merge_prefs in H.
  eapply (merge_by_name_nodup fst (keep_if_union m) (fun x _ => Some x)); [apply keep_if_union_name | | exact Ha | exact Hb | exact H].
  intros x y z Hz. inversion Hz; reflexivity.
Qed.

Lemma merge_enums_nodup : forall m a b r, NoDup a -> NoDup b -> merge_enums m a b = Some r -> NoDup r.
Proof.
  intros m a b r Ha Hb H. unfold merge_enums in H. rewrite <- (map_id r).
  eapply (merge_by_name_nodup (fun x : string => x) (keep_if_union m) (fun x _ => Some x));
    [apply (keep_if_union_name (fun x : string => x)) | | rewrite map_id; exact Ha | rewrite map_id; exact Hb | exact H].
  intros x y z Hz. inversion Hz; reflexivity.
Qed.

Lemma merge_fields_wf : forall m a b r,
  NoDup (map f_name a) -> NoDup (map f_name b) -> forallb wf_field a = true -> forallb wf_field b = true ->
  merge_fields m a b = Some r -> NoDup (map f_name r) /\ forallb wf_field r = true.
Proof.
  intros m a b r Ha Hb Wa Wb H. rewrite merge_fields_unfold in H. split.
  - eapply merge_by_name_nodup; [apply (keep_if_union_name f_name) | apply field_pair_name | exact Ha | exact Hb | exact H].
  - apply forallb_forall. intros z Hz.
    destruct (merged_origin f_name (keep_if_union m) (field_pair m) (keep_if_union_name f_name m) (field_pair_name m)
                a b r Ha Hb H z Hz) as [[x [y [Hx [Hy Hp]]]]|[[x [Hx [_ Hs]]]|[y [_ [Hy Hs]]]]].
    + apply findn_some in Hx as [Ix _]. apply findn_some in Hy as [Iy _].
      eapply forallb_forall in Wa; [|exact Ix]. eapply forallb_forall in Wb; [|exact Iy].
      unfold field_pair in Hp. destruct (merge_tref false (f_type x) (f_type y)); [|discriminate].
      destruct (merge_input_fields m (f_args x) (f_args y)) as [args|] eqn:E; [|discriminate].
      inversion Hp; subst z. unfold wf_field; simpl. apply nodup_str_of_NoDup.
      eapply merge_input_fields_nodup; [| |exact E]; apply nodup_str_NoDup; assumption.
    + apply findn_some in Hx as [Ix _]. destruct m; simpl in Hs; inversion Hs; subst z.
      eapply forallb_forall in Wa; eauto.
    + apply findn_some in Hy as [Iy _]. destruct m; simpl in Hs; inversion Hs; subst z.
      eapply forallb_forall in Wb; eauto.
Qed.

Lemma merge_types_wf : forall m x y z, wf_type x = true -> wf_type y = true ->
  merge_types m x y = Some z -> wf_type z = true.
Proof.
  intros m x y z Wx Wy H.
  destruct (wf_type_parts x Wx) as [Fx [Ax [Ix [Px [Ex Jx]]]]].
  destruct (wf_type_parts y Wy) as [Fy [Ay [Iy [Py [Ey Jy]]]]].
  assert (WFx : forallb wf_field (t_fields x) = true).
  { apply forallb_forall. intros f Hf. apply nodup_str_of_NoDup. auto. }
  assert (WFy : forallb wf_field (t_fields y) = true).
  { apply forallb_forall. intros f Hf. apply nodup_str_of_NoDup. auto. }
  unfold merge_types in H.
  destruct (negb (String.eqb (t_kind x) (t_kind y))); [discriminate|].
  destruct (String.eqb (t_kind x) "INPUT_OBJECT").
  { destruct (merge_input_fields m (t_inputs x) (t_inputs y)) as [r|] eqn:E; simpl in H; inversion H; subst z.
    unfold wf_type; simpl. rewrite (nodup_str_of_NoDup _ (merge_input_fields_nodup _ _ _ _ Ix Iy E)). reflexivity. }
  destruct (String.eqb (t_kind x) "OBJECT").
  { destruct (merge_fields m (t_fields x) (t_fields y)) as [r|] eqn:E; simpl in H; inversion H; subst z.
    destruct (merge_fields_wf _ _ _ _ Fx Fy WFx WFy E) as [N W].
    unfold wf_type; simpl. rewrite (nodup_str_of_NoDup _ N), W. reflexivity. }
  destruct (String.eqb (t_kind x) "UNION").
  { destruct (merge_prefs m (t_possible x) (t_possible y)) as [r|] eqn:E; simpl in H; inversion H; subst z.
    unfold wf_type; simpl. rewrite (nodup_str_of_NoDup _ (merge_prefs_nodup _ _ _ _ Px Py E)). reflexivity. }
  destruct (String.eqb (t_kind x) "INTERFACE").
  { destruct (merge_prefs m (t_interfaces x) (t_interfaces y)) as [r|] eqn:E; simpl in H; inversion H; subst z.
    unfold wf_type; simpl. rewrite (nodup_str_of_NoDup _ (merge_prefs_nodup _ _ _ _ Jx Jy E)). reflexivity. }
  destruct (String.eqb (t_kind x) "ENUM").
  { destruct (merge_enums m (t_enums x) (t_enums y)) as [r|] eqn:E; simpl in H; inversion H; subst z.
    unfold wf_type; simpl. rewrite (nodup_str_of_NoDup _ (merge_enums_nodup _ _ _ _ Ex Ey E)). reflexivity. }
  destruct (String.eqb (t_kind x) "SCALAR"); [|discriminate]. inversion H; subst z. reflexivity.
Qed.

Theorem merge_schemas_wf : forall m a b r, wf_schema a = true -> wf_schema b = true ->
  merge_schemas m a b = Some r -> wf_schema r = true.
Proof.
  intros m a b r Wa Wb H. pose proof (wf_schema_names a Wa) as Na. pose proof (wf_schema_names b Wb) as Nb.
  unfold wf_schema. apply andb_true_intro. split.
  - apply nodup_str_of_NoDup. unfold merge_schemas in H.
    eapply merge_by_name_nodup; [apply (keep_if_union_name t_name) | apply merge_types_name | exact Na | exact Nb | exact H].
  - apply forallb_forall. intros z Hz. unfold merge_schemas in H.
    destruct (merged_origin t_name (keep_if_union m) (merge_types m) (keep_if_union_name t_name m) (merge_types_name m)
                a b r Na Nb H z Hz) as [[x [y [Hx [Hy Hp]]]]|[[x [Hx [_ Hs]]]|[y [_ [Hy Hs]]]]].
    + apply findn_some in Hx as [Ix _]. apply findn_some in Hy as [Iy _].
      eapply merge_types_wf; [apply (wf_schema_type a x Wa Ix) | apply (wf_schema_type b y Wb Iy) | exact Hp].
    + apply findn_some in Hx as [Ix _]. destruct m; simpl in Hs; inversion Hs; subst z. apply (wf_schema_type a _ Wa Ix).
    + apply findn_some in Hy as [Iy _]. destruct m; simpl in Hs; inversion Hs; subst z. apply (wf_schema_type b _ Wb Iy).
Qed.

(** ** n-ary: the fold of mergeSchemaSlice *)
Lemma merge_fold_wf : forall m l acc r, wf_schema acc = true -> (forall v, In v l -> wf_schema v = true) ->
  merge_fold m acc l = Some r -> wf_schema r = true.
Proof.
  intros m l. induction l as [|s t IH]; simpl; intros acc r Wacc Wl H.
  - inversion H; subst; exact Wacc.
  - destruct (merge_schemas m acc s) as [acc'|] eqn:E; [|discriminate].
    eapply IH; [|intros v Hv; apply Wl; right; exact Hv|exact H].
    eapply merge_schemas_wf; [exact Wacc | apply Wl; left; reflexivity | exact E].
Qed.

Section Nary.
  Variable sok : string -> json -> bool.

  Lemma merge_fold_sound : forall l acc r q, wf_schema acc = true -> (forall v, In v l -> wf_schema v = true) ->
    merge_fold Intersection acc l = Some r -> valid_query sok true r q = true ->
    forall v, In v (acc :: l) -> valid_query sok true v q = true.
  Proof.
    induction l as [|s t IH]; simpl; intros acc r q Wacc Wl H Hq v Hv.
    - inversion H; subst. destruct Hv as [->|[]]. exact Hq.
    - destruct (merge_schemas Intersection acc s) as [acc'|] eqn:E; [|discriminate].
      assert (Ws : wf_schema s = true) by (apply Wl; left; reflexivity).
      assert (Wacc' : wf_schema acc' = true) by (apply (merge_schemas_wf _ _ _ _ Wacc Ws E)).
      destruct (intersection_refines _ _ _ Wacc Ws E) as [R1 R2].
      assert (Hacc' : valid_query sok true acc' q = true).
      { eapply (IH acc' r q Wacc'); [intros w Hw; apply Wl; right; exact Hw | exact H | exact Hq | left; reflexivity]. }
      destruct Hv as [->|[->|Hv]].
      + apply (valid_query_pres sok _ _ R1 _ Hacc').
      + apply (valid_query_pres sok _ _ R2 _ Hacc').
      + eapply (IH acc' r q Wacc'); [intros w Hw; apply Wl; right; exact Hw | exact H | exact Hq | right; exact Hv].
  Qed.

  (** Soundness of the version intersection: a query valid against what mergeSchemaSlice(versions,
      Intersection) returns is valid against every version. *)
  Theorem intersection_sound : forall vs m q, (forall v, In v vs -> wf_schema v = true) ->
    merge_slice Intersection vs = Some m -> valid_query sok true m q = true ->
    forall v, In v vs -> valid_query sok true v q = true.
  Proof.
    intros vs m q W H Hq v Hv. destruct vs as [|s t]; simpl in H; [discriminate|].
    eapply merge_fold_sound; [apply W; left; reflexivity | intros w Hw; apply W; right; exact Hw | exact H | exact Hq | exact Hv].
  Qed.
End Nary.
