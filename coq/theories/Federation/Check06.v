(** Correspondence cases for C06: the model's normalised query, plan and answer against what the gateway
    computed; the model's reference semantics against the harness' reference evaluator. *)
From Coq Require Import List String Bool Arith ZArith.
From Thunder Require Import Lib.Json Federation.Merge Federation.Normalize Federation.Planner Federation.Executor
  Federation.Premises.
Import ListNotations.
Open Scope string_scope.
Open Scope list_scope.

Fixpoint dirs_eqb (a b : list dir) : bool :=
  match a, b with
  | [], [] => true
  | (n, x) :: a', (m, y) :: b' => String.eqb n m && Bool.eqb x y && dirs_eqb a' b'
  | _, _ => false
  end.

(** equality of queries up to [argkey] (which Go does not carry) *)
Fixpoint node_eqb (a b : node) {struct a} : bool :=
  match a, b with
  | NField al nm args _ dirs hs subs, NField al' nm' args' _ dirs' hs' subs' =>
      String.eqb al al' && String.eqb nm nm' && args_eqb args args' && dirs_eqb dirs dirs' && Bool.eqb hs hs' &&
      (fix go (x y : list node) {struct x} : bool :=
         match x, y with
         | [], [] => true
         | p :: x', q :: y' => node_eqb p q && go x' y'
         | _, _ => false
         end) subs subs'
  | NFrag on dirs subs, NFrag on' dirs' subs' =>
      String.eqb on on' && dirs_eqb dirs dirs' &&
      (fix go (x y : list node) {struct x} : bool :=
         match x, y with
         | [], [] => true
         | p :: x', q :: y' => node_eqb p q && go x' y'
         | _, _ => false
         end) subs subs'
  | _, _ => false
  end.

Fixpoint nodes_eqb (x y : list node) : bool :=
  match x, y with
  | [], [] => true
  | p :: x', q :: y' => node_eqb p q && nodes_eqb x' y'
  | _, _ => false
  end.

Definition step_eqb (a b : step) : bool :=
  match a, b with
  | SField x, SField y => String.eqb x y
  | SType x, SType y => String.eqb x y
  | _, _ => false
  end.

Fixpoint steps_eqb (a b : list step) : bool :=
  match a, b with
  | [], [] => true
  | x :: a', y :: b' => step_eqb x y && steps_eqb a' b'
  | _, _ => false
  end.

Fixpoint plan_eqb (a b : plan) {struct a} : bool :=
  match a, b with
  | Plan pa sa ta la aa, Plan pb sb tb lb ab =>
      steps_eqb pa pb && String.eqb sa sb && String.eqb ta tb && nodes_eqb la lb &&
      (fix go (x y : list plan) {struct x} : bool :=
         match x, y with
         | [], [] => true
         | p :: x', q :: y' => plan_eqb p q && go x' y'
         | _, _ => false
         end) aa ab
  end.

Record case := mk_case {
  c_g : gschema;
  c_calls : list (string * Z * string * string * aval);
  c_orgs : list (string * Z * Z);
  c_query : list node;
  c_explicit : bool;              (* every choice among several owners is fixed by the selector: plans comparable *)
  c_flat : option (list node);    (* the gateway's normalised query; None = error *)
  c_plan : option plan;           (* the gateway's plan *)
  c_answer : option json;         (* the gateway's answer *)
  c_ref : option json;            (* the harness' reference answer *)
  c_all_federated : bool;         (* every object type of this federation is registered with FetchObjectFromKeys *)
  c_in_scope : bool               (* the harness' reading of the premises of Props/C06.federation_transparent:
                                     all objects federated, every union selection
                                     of the gateway's normalised query covers every member, the gateway answered *)
}.

Definition first_owner (l : list string) : option string := match l with x :: _ => Some x | [] => None end.

Lemma first_owner_sound : forall l s, first_owner l = Some s -> In s l.
Proof. intros [|x t] s Hs; simpl in Hs; inversion Hs; left; reflexivity. Qed.

Lemma first_owner_total : forall l, l <> [] -> exists s, first_owner l = Some s.
Proof. intros [|x t] H; [congruence|]. exists x. reflexivity. Qed.

Definition opt_nodes_eqb (a b : option (list node)) : bool :=
  match a, b with Some x, Some y => nodes_eqb x y | None, None => true | _, _ => false end.
Definition opt_plan_eqb (a b : option plan) : bool :=
  match a, b with Some x, Some y => plan_eqb x y | None, None => true | _, _ => false end.
Definition opt_json_eqb (a b : option json) : bool :=
  match a, b with Some x, Some y => json_eqb x y | None, None => true | _, _ => false end.

Definition check_case (c : case) : list nat :=
  let g := c_g c in
  let w := world_of (c_calls c) (c_orgs c) in
  let fuel := 2 * depth_list (c_query c) + 4 in
  let flat := match flatten fuel false g (RObj "Query") (Some (c_query c)) with
              | Some (Some f) => Some f
              | _ => None
              end in
  (* the model's gateway answer, evaluated once (components 3 and 6) *)
  let ans := option_map norm (fed_exec w g first_owner false true (c_query c)) in
  (if opt_nodes_eqb flat (c_flat c) then [] else [1]) ++
  (if c_explicit c then
     let p := match flat with Some f => plan_root g first_owner (2 * fuel + 2) f | None => None end in
     if opt_plan_eqb p (c_plan c) then [] else [2]
   else []) ++
  (if opt_json_eqb ans (c_answer c) then [] else [3]) ++
  (match c_ref c with
   | None => []
   | Some r => if opt_json_eqb (option_map norm (eval_ref w g false (2 * depth_list (c_query c) + 4) "Query" 0%Z (c_query c))) (Some r)
               then [] else [4]
   end) ++
  (* the premise of Props/C06.subquery_closed holds for this federation, and its conclusion holds of the plan
     the gateway actually made *)
  (if c_all_federated c then
     if fed_ok g && plain_ok g && match c_plan c with Some p => forallb (plan_closed g) (p_after p) | None => true end
     then [] else [5]
   else []) ++
  (* the premises of Props/C06.federation_transparent hold wherever the harness counts the case as covered by
     the theorem, and there the model's gateway answer and the model's reference answer (with __typename on
     union values) are the same map -- the instance of the theorem, recomputed *)
  (if c_in_scope c then
     if premises g (c_calls c) first_owner (c_query c) &&
        opt_json_eqb ans (option_map norm (eval_ref w g true fuel "Query" 0%Z (c_query c)))
     then [] else [6]
   else []).

Fixpoint mismatches_from_sparse (_ : nat) (cs : list (nat * case)) : list (nat * list nat) :=
  match cs with
  | [] => []
  | (i, c) :: t => match check_case c with
                   | [] => mismatches_from_sparse 0 t
                   | l => (i, l) :: mismatches_from_sparse 0 t
                   end
  end.
