(** mergeTypeRefs: shape, root, and the nullability lattice (binary and n-ary). *)
From Coq Require Import List String Bool Arith Lia.
From Thunder Require Import Lib.Json Federation.Merge.
Import ListNotations.
Open Scope string_scope.
Open Scope list_scope.

Lemma merge_tref_eq : forall i a b, merge_tref i a b =
  match a, b with
  | TNonNull a', TNonNull b' => wrap_nn true (merge_tref i a' b')
  | TNonNull a', _ => wrap_nn i (merge_tref i a' b)
  | _, TNonNull b' => wrap_nn i (merge_tref i a b')
  | TList a', TList b' => option_map TList (merge_tref i a' b')
  | TNamed ka na, TNamed kb nb =>
      if String.eqb ka kb && known_named_kind ka && String.eqb na nb then Some (TNamed ka na) else None
  | _, _ => None
  end.
Proof. intros i a b. destruct a, b; reflexivity. Qed.

Lemma wrap_nn_some : forall nn r c, wrap_nn nn r = Some c ->
  exists m, r = Some m /\ c = if nn then TNonNull m else m.
Proof. intros nn [m|] c H; simpl in H; [inversion H; eauto | discriminate]. Qed.

(** A double induction principle matching the recursion of mergeTypeRefs. *)
Lemma merge_tref_ind2 : forall (P : tref -> tref -> Prop),
  (forall ka na kb nb, P (TNamed ka na) (TNamed kb nb)) ->
  (forall ka na b, P (TNamed ka na) (TList b)) ->
  (forall a kb nb, P (TList a) (TNamed kb nb)) ->
  (forall a b, P a b -> P (TList a) (TList b)) ->
  (forall a b, P a b -> P (TNonNull a) (TNonNull b)) ->
  (forall a b, is_nonnull b = false -> P a b -> P (TNonNull a) b) ->
  (forall a b, is_nonnull a = false -> P a b -> P a (TNonNull b)) ->
  forall a b, P a b.
Proof.
  intros P H1 H2 H3 H4 H5 H6 H7. induction a as [ka na|a IHa|a IHa]; intros b; induction b as [kb nb|b IHb|b IHb]; auto.
Qed.

(** ** root and skeleton *)
Lemma merge_tref_root : forall i a b c, merge_tref i a b = Some c ->
  root_tref c = root_tref a /\ root_tref c = root_tref b.
Proof.
  intros i a b. pattern a, b. apply merge_tref_ind2; clear a b.
  - intros ka na kb nb c H. rewrite merge_tref_eq in H.
    destruct (String.eqb ka kb && known_named_kind ka && String.eqb na nb) eqn:E; [|discriminate].
    inversion H; subst c. apply andb_prop in E as [E1 E3]. apply andb_prop in E1 as [E1 E2].
    apply String.eqb_eq in E1, E3. subst. auto.
  - intros ka na b c H. rewrite merge_tref_eq in H. discriminate.
  - intros a kb nb c H. rewrite merge_tref_eq in H. discriminate.
  - intros a b IH c H. rewrite merge_tref_eq in H. destruct (merge_tref i a b) as [m|] eqn:E; [|discriminate].
    inversion H; subst c. simpl. auto.
  - intros a b IH c H. rewrite merge_tref_eq in H. apply wrap_nn_some in H as [m [Hm ->]]. simpl. auto.
  - intros a b Hb IH c H. rewrite merge_tref_eq in H.
    assert (H' : wrap_nn i (merge_tref i a b) = Some c) by (destruct b; simpl in Hb; try discriminate; exact H).
    apply wrap_nn_some in H' as [m [Hm ->]]. destruct i; simpl; auto.
  - intros a b Ha IH c H. rewrite merge_tref_eq in H.
    assert (H' : wrap_nn i (merge_tref i a b) = Some c) by (destruct a; simpl in Ha; try discriminate; exact H).
    apply wrap_nn_some in H' as [m [Hm ->]]. destruct i; simpl; auto.
Qed.

(** ** "at least as strict": [in_le m a] -- [a] is [m] with some NON_NULLs removed. *)
Inductive in_le : tref -> tref -> Prop :=
| le_named : forall k n, in_le (TNamed k n) (TNamed k n)
| le_list : forall m a, in_le m a -> in_le (TList m) (TList a)
| le_nn_both : forall m a, in_le m a -> in_le (TNonNull m) (TNonNull a)
| le_nn_left : forall m a, in_le m a -> in_le (TNonNull m) a.

Lemma merge_tref_input_le : forall a b c, merge_tref true a b = Some c -> in_le c a /\ in_le c b.
Proof.
  intros a b. pattern a, b. apply merge_tref_ind2; clear a b.
  - intros ka na kb nb c H. rewrite merge_tref_eq in H.
    destruct (String.eqb ka kb && known_named_kind ka && String.eqb na nb) eqn:E; [|discriminate].
    inversion H; subst c. apply andb_prop in E as [E1 E3]. apply andb_prop in E1 as [E1 E2].
    apply String.eqb_eq in E1, E3. subst. split; constructor.
  - intros ka na b c H. rewrite merge_tref_eq in H. discriminate.
  - intros a kb nb c H. rewrite merge_tref_eq in H. discriminate.
  - intros a b IH c H. rewrite merge_tref_eq in H. destruct (merge_tref true a b) as [m|] eqn:E; [|discriminate].
    inversion H; subst c. destruct (IH m eq_refl). split; constructor; auto.
  - intros a b IH c H. rewrite merge_tref_eq in H. apply wrap_nn_some in H as [m [Hm ->]].
    destruct (IH m Hm). split; apply le_nn_both; auto.
  - intros a b Hb IH c H. rewrite merge_tref_eq in H.
    assert (H' : wrap_nn true (merge_tref true a b) = Some c) by (destruct b; simpl in Hb; try discriminate; exact H).
    apply wrap_nn_some in H' as [m [Hm ->]]. destruct (IH m Hm). split; [apply le_nn_both | apply le_nn_left]; auto.
  - intros a b Ha IH c H. rewrite merge_tref_eq in H.
    assert (H' : wrap_nn true (merge_tref true a b) = Some c) by (destruct a; simpl in Ha; try discriminate; exact H).
    apply wrap_nn_some in H' as [m [Hm ->]]. destruct (IH m Hm). split; [apply le_nn_left | apply le_nn_both]; auto.
Qed.

Lemma in_le_nonnull : forall m a, in_le m a -> is_nonnull a = true -> is_nonnull m = true.
Proof. intros m a H. induction H; simpl; auto. Qed.

Lemma in_le_root : forall m a, in_le m a -> root_tref m = root_tref a.
Proof. intros m a H. induction H; simpl; auto. Qed.

(** ** the nullability lattice, level by level through the list nesting *)
(** [levels t]: for each nesting level (outermost first; the last entry is the named type itself) whether
    that position is NON_NULL. *)
Fixpoint levels (t : tref) : list bool :=
  match t with
  | TNamed _ _ => [false]
  | TList t' => false :: levels t'
  | TNonNull t' => true :: tl (levels t')
  end.

Definition nn_op (is_input : bool) : bool -> bool -> bool := if is_input then orb else andb.

Fixpoint zipb (f : bool -> bool -> bool) (l1 l2 : list bool) : list bool :=
  match l1, l2 with
  | x :: t1, y :: t2 => f x y :: zipb f t1 t2
  | _, _ => []
  end.

Lemma levels_cons : forall t, exists h r, levels t = h :: r /\ h = is_nonnull t.
Proof. destruct t; simpl; eauto. Qed.

Lemma tl_zipb : forall f l1 l2, tl (zipb f l1 l2) = zipb f (tl l1) (tl l2).
Proof.
  intros f l1 l2. destruct l1 as [|x t1], l2 as [|y t2]; simpl; auto.
  destruct t1; reflexivity.
Qed.

Lemma merge_tref_levels : forall i a b c, merge_tref i a b = Some c ->
  List.length (levels a) = List.length (levels b) /\ levels c = zipb (nn_op i) (levels a) (levels b).
Proof.
  intros i a b. pattern a, b. apply merge_tref_ind2; clear a b.
  - intros ka na kb nb c H. rewrite merge_tref_eq in H.
    destruct (String.eqb ka kb && known_named_kind ka && String.eqb na nb); [|discriminate].
    inversion H; subst c. simpl. destruct i; auto.
  - intros ka na b c H. rewrite merge_tref_eq in H. discriminate.
  - intros a kb nb c H. rewrite merge_tref_eq in H. discriminate.
  - intros a b IH c H. rewrite merge_tref_eq in H. destruct (merge_tref i a b) as [m|] eqn:E; [|discriminate].
    inversion H; subst c. destruct (IH m eq_refl) as [L Z]. simpl. rewrite Z. split; [lia|]. destruct i; reflexivity.
  - intros a b IH c H. rewrite merge_tref_eq in H. apply wrap_nn_some in H as [m [Hm ->]].
    destruct (IH m Hm) as [L Z]. simpl. rewrite Z, tl_zipb.
    destruct (levels_cons a) as [ha [ra [Ea _]]], (levels_cons b) as [hb [rb [Eb _]]].
    rewrite Ea, Eb in *. simpl in *. split; [lia|]. destruct i; reflexivity.
  - intros a b Hb IH c H. rewrite merge_tref_eq in H.
    assert (H' : wrap_nn i (merge_tref i a b) = Some c) by (destruct b; simpl in Hb; try discriminate; exact H).
    apply wrap_nn_some in H' as [m [Hm ->]]. destruct (IH m Hm) as [L Z].
    destruct (levels_cons a) as [ha [ra [Ea _]]], (levels_cons b) as [hb [rb [Eb Hhb]]].
    rewrite Hb in Hhb. subst hb. simpl. rewrite Ea, Eb in *. simpl in *. split; [lia|].
    destruct i; simpl; rewrite Z; simpl; [reflexivity|]. rewrite andb_false_r. reflexivity.
  - intros a b Ha IH c H. rewrite merge_tref_eq in H.
    assert (H' : wrap_nn i (merge_tref i a b) = Some c) by (destruct a; simpl in Ha; try discriminate; exact H).
    apply wrap_nn_some in H' as [m [Hm ->]]. destruct (IH m Hm) as [L Z].
    destruct (levels_cons a) as [ha [ra [Ea Hha]]], (levels_cons b) as [hb [rb [Eb _]]].
    rewrite Ha in Hha. subst ha. simpl. rewrite Ea, Eb in *. simpl in *. split; [lia|].
    destruct i; simpl; rewrite Z; simpl; reflexivity.
Qed.

Lemma nth_zipb : forall f l1 l2 k, List.length l1 = List.length l2 -> f false false = false ->
  nth k (zipb f l1 l2) false = f (nth k l1 false) (nth k l2 false).
Proof.
  intros f l1. induction l1 as [|x t1 IH]; intros l2 k L F; destruct l2 as [|y t2]; simpl in *; try lia.
  - destruct k; auto.
  - destruct k; auto.
Qed.

(** n-ary: folding mergeTypeRefs over any number of sides. *)
Fixpoint merge_trefs (i : bool) (acc : tref) (l : list tref) : option tref :=
  match l with
  | [] => Some acc
  | t :: r => match merge_tref i acc t with
              | Some acc' => merge_trefs i acc' r
              | None => None
              end
  end.

Lemma merge_trefs_levels : forall i l t c, merge_trefs i t l = Some c ->
  (forall x, In x l -> List.length (levels x) = List.length (levels t)) /\
  List.length (levels c) = List.length (levels t) /\
  forall k, nth k (levels c) false =
            if i then existsb (fun x => nth k (levels x) false) (t :: l)
            else forallb (fun x => nth k (levels x) false) (t :: l).
Proof.
  intros i l. induction l as [|x r IH]; intros t c H; simpl in H.
  - inversion H; subst c. split; [intros x []|]. split; auto. intros k. simpl.
    destruct i; rewrite ?orb_false_r, ?andb_true_r; reflexivity.
  - destruct (merge_tref i t x) as [m|] eqn:E; [|discriminate].
    destruct (merge_tref_levels _ _ _ _ E) as [L Z].
    destruct (IH m c H) as [IH1 [IH2 IH3]].
    assert (Lm : List.length (levels m) = List.length (levels t)).
    { rewrite Z. clear -L. revert L. generalize (levels t) (levels x). intros l. induction l as [|a l IHl]; intros [|b l0] L; simpl in *; try lia.
      rewrite IHl; auto. }
    split; [|split].
    + intros y [->|Hy]; [lia | rewrite IH1; auto].
    + lia.
    + intros k. rewrite IH3. simpl. rewrite Z, nth_zipb by (auto; destruct i; reflexivity).
      destruct i; simpl.
      * rewrite orb_assoc. reflexivity.
      * rewrite andb_assoc. reflexivity.
Qed.

(** ** mergeTypeRefs is commutative *)
Lemma merge_tref_comm : forall i a b, merge_tref i a b = merge_tref i b a.
Proof.
  intros i a b. pattern a, b. apply merge_tref_ind2; clear a b.
  - intros ka na kb nb. rewrite !merge_tref_eq.
    destruct (String.eqb ka kb) eqn:E1; destruct (String.eqb na nb) eqn:E2.
    + apply String.eqb_eq in E1, E2. subst. rewrite !String.eqb_refl. reflexivity.
    + rewrite (String.eqb_sym nb na), E2, !andb_false_r. reflexivity.
    + rewrite (String.eqb_sym kb ka), E1. reflexivity.
    + rewrite (String.eqb_sym kb ka), E1. reflexivity.
  - intros. rewrite !merge_tref_eq. reflexivity.
  - intros. rewrite !merge_tref_eq. reflexivity.
  - intros a b IH. rewrite (merge_tref_eq i (TList a)), (merge_tref_eq i (TList b)), IH. reflexivity.
  - intros a b IH. rewrite (merge_tref_eq i (TNonNull a)), (merge_tref_eq i (TNonNull b)), IH. reflexivity.
  - intros a b Hb IH. rewrite (merge_tref_eq i (TNonNull a) b), (merge_tref_eq i b (TNonNull a)), IH.
    destruct b; simpl in Hb; try discriminate; reflexivity.
  - intros a b Ha IH. rewrite (merge_tref_eq i a (TNonNull b)), (merge_tref_eq i (TNonNull b) a), IH.
    destruct a; simpl in Ha; try discriminate; reflexivity.
Qed.
