(** The meaning of what the planner produces: executing the sub-plans of a planned selection set, object by
    object, yields the combined server's answer for that selection set (up to [simv]). *)
From Coq Require Import List String Bool Arith ZArith Lia.
From Thunder Require Import Lib.Json Federation.Merge Federation.MergeProofsBase Federation.Normalize Federation.Planner
  Federation.PlannerProofs Federation.Executor Federation.ExecutorProofs Federation.NormalizeProofs Federation.FedBase
  Federation.FedSem Federation.Premises.
Import ListNotations.
Open Scope string_scope.
Open Scope list_scope.

Definition scalar_json (j : json) : Prop := match j with JArr _ | JObj _ => False | _ => True end.

(** scalars of the world are JSON scalars *)
Fixpoint scalars_ok (v : aval) : Prop :=
  match v with
  | AScalar j => scalar_json j
  | AList l => (fix all (l : list aval) : Prop := match l with [] => True | x :: t => scalars_ok x /\ all t end) l
  | _ => True
  end.

Section AvalInd.
  Variable P : aval -> Prop.
  Hypothesis H1 : P ANull.
  Hypothesis H2 : forall j, P (AScalar j).
  Hypothesis H3 : forall t i, P (ARef t i).
  Hypothesis H4 : forall t i, P (AURef t i).
  Hypothesis H5 : forall l, Forall P l -> P (AList l).
  Hypothesis H6 : forall v t, P (ALeaf v t).
  Fixpoint aval_ind' (v : aval) : P v :=
    match v with
    | ANull => H1 | AScalar j => H2 j | ARef t i => H3 t i | AURef t i => H4 t i | ALeaf x t => H6 x t
    | AList l => H5 l ((fix go (l : list aval) : Forall P l :=
                          match l with [] => Forall_nil _ | x :: t => Forall_cons _ (aval_ind' x) (go t) end) l)
    end.
End AvalInd.

Lemma vok_list : forall g rty l, vok g rty (AList l) <-> Forall (vok g rty) l.
Proof.
  intros g rty l. simpl. induction l as [|x t IH]; [split; constructor|].
  split; [intros [A B]; constructor; [exact A | apply IH; exact B] | intros H; inversion H; subst; split; [auto | apply IH; auto]].
Qed.

Lemma scalars_ok_list : forall l, scalars_ok (AList l) <-> Forall scalars_ok l.
Proof.
  intros l. simpl. induction l as [|x t IH]; [split; constructor|].
  split; [intros [A B]; constructor; [exact A | apply IH; exact B] | intros H; inversion H; subst; split; [auto | apply IH; auto]].
Qed.

(** ** similarity *)
Lemma simv_scalar_refl : forall j, scalar_json j -> simv j j.
Proof. intros j H. destruct j; simpl in H; try contradiction; constructor. Qed.

Lemma orel_none : forall {A} (R : A -> A -> Prop), orel R None None. Proof. constructor. Qed.

(** ** after1 on an object: stays an object, keeps the keys it had and their scalar values *)
Lemma graft_scalar : forall path j rs, scalar_json j -> graft path j rs = Some (j, rs).
Proof. intros path j rs H. destruct path as [|[a|t] r]; destruct j; simpl in H; try contradiction; reflexivity. Qed.

Lemma merge_result_prefix : forall r target res, merge_result target r = Some res ->
  exists ext, res = target ++ ext.
Proof.
  induction r as [|[k v] t IH]; intros target res H; simpl in H.
  - inversion H. exists []. rewrite app_nil_r. reflexivity.
  - destruct (lookup k target) as [v'|].
    + destruct (String.eqb k "__key" && json_eqb v v'); [|discriminate]. apply IH; exact H.
    + destruct (IH _ _ H) as [ext ->]. exists ((k, v) :: ext). rewrite <- app_assoc. reflexivity.
Qed.

Lemma graft_obj_keeps : forall path L rs x rest,
  graft path (JObj L) rs = Some (x, rest) ->
  exists L', x = JObj L' /\
    forall k v, lookup k L = Some v -> scalar_json v -> lookup k L' = Some v.
Proof.
  induction path as [|s restp IH]; intros L rs x rest H.
  - rewrite graft_nil_obj in H. destruct rs as [|[| | | | |r] rs']; try discriminate.
    destruct (merge_result L r) as [res|] eqn:E; [|discriminate]. inversion H; subst.
    destruct (merge_result_prefix _ _ _ E) as [ext ->]. exists (L ++ ext). split; auto.
    intros k v Hl _. rewrite lookup_app, Hl. reflexivity.
  - destruct s as [al|t].
    + rewrite graft_field_obj in H. destruct (lookup al L) as [next|] eqn:El; [|discriminate].
      destruct (graft restp next rs) as [[next' rs']|] eqn:Eg; [|discriminate]. inversion H; subst.
      exists (set_key al next' L). split; auto. intros k v Hl Hs.
      destruct (String.eqb al k) eqn:E.
      * apply String.eqb_eq in E. subst k. rewrite Hl in El. inversion El; subst next.
        rewrite (graft_scalar _ _ _ Hs) in Eg. inversion Eg; subst. apply lookup_set_key_same. congruence.
      * apply String.eqb_neq in E. rewrite lookup_set_key_other; auto.
    + rewrite graft_type_obj in H. destruct (lookup "__typename" L) as [[| | |s| |]|]; try discriminate.
      destruct (String.eqb s t); [eapply IH; eauto|]. inversion H; subst. exists L. auto.
Qed.

Lemma after1_obj_keeps : forall run path L x,
  after1 run path (JObj L) = Some x ->
  exists L', x = JObj L' /\ forall k v, lookup k L = Some v -> scalar_json v -> lookup k L' = Some v.
Proof.
  intros run path L x H. unfold after1 in H.
  destruct (extract_keys true path (JObj L)); [|discriminate]. destruct (run l); [|discriminate].
  destruct (negb (Nat.eqb (List.length l0) (List.length l))); [discriminate|].
  destruct (graft path (JObj L) l0) as [[x' [|]]|] eqn:E; try discriminate. inversion H; subst.
  eapply graft_obj_keeps; eauto.
Qed.

Section PlanSem.
  Variable w : world.
  Variable g : gschema.
  Variable pick : list string -> option string.
  Notation K := (keyed g).
  Notation EV := (ev w (keyed g)).
  Notation RA := (run_afters w g).

  (** sub-plans for union member [t], lifted: they act on objects of that member only *)
  Lemma RA_lift_type : forall t cafters L s,
    lookup "__typename" L = Some (JStr s) ->
    RA (map (push_step (SType t)) cafters) (JObj L) =
    if String.eqb s t then RA cafters (JObj L) else Some (JObj L).
  Proof.
    intros t cafters. induction cafters as [|c r IH]; intros L s Hl.
    - simpl map. rewrite !RA_nil. destruct (String.eqb s t); reflexivity.
    - simpl map. rewrite !RA_cons, path_push.
      rewrite (after1_ext _ (run_keys g (exec1 w g) c) _ _ (run_keys_push w g _ c)).
      rewrite (after1_type _ _ _ _ _ (run_keys_nil w g c) Hl).
      destruct (String.eqb s t) eqn:E.
      + destruct (after1 (run_keys g (exec1 w g) c) (p_path c) (JObj L)) as [x|] eqn:Ea; auto.
        destruct (after1_obj_keeps _ _ _ _ Ea) as [L' [-> Hk]].
        rewrite (IH L' s (Hk _ _ Hl I)), E. reflexivity.
      + rewrite (IH L s Hl), E. reflexivity.
  Qed.

  Hypothesis pick_sound : forall l s, pick l = Some s -> In s l.

  (** ** the choice of a service is stable: re-planning a selection at the service it was sent to keeps it there *)
  Lemma select_service_idem : forall ty cur f owners t,
    select_service g pick ty cur f owners = Some t -> select_service g pick ty t f owners = Some t.
  Proof.
    intros ty cur f owners t H. unfold select_service in *.
    destruct (selector_of g ty f) as [s|]; [exact H|].
    assert (Hin : In t owners).
    { destruct (existsb (String.eqb cur) owners) eqn:E; [inversion H; subst; apply existsb_eqb_In; exact E | apply pick_sound; exact H]. }
    apply (proj2 (existsb_eqb_In _ _)) in Hin. rewrite Hin. reflexivity.
  Qed.

  Definition local_all (svc obj : string) (sels : list node) : Prop :=
    forall n, In n sels -> target_of g pick obj svc n = Some (n, svc).

  Lemma target_of_idem : forall obj cur n n' t, target_of g pick obj cur n = Some (n', t) ->
    target_of g pick obj t n = Some (n, t) /\ n' = n.
  Proof.
    intros obj cur n n' t H. destruct n as [al nm args ak dirs hs subs|]; simpl in *; [|discriminate].
    destruct (String.eqb nm "__typename"); [inversion H; subst; auto|].
    destruct (find_gfield g obj nm) as [[rty owners]|]; [|discriminate].
    destruct (select_service g pick obj cur nm owners) as [t'|] eqn:E; [|discriminate].
    inversion H; subst. rewrite (select_service_idem _ _ _ _ _ E). auto.
  Qed.

  (** ** inversion of planObject *)
  Definition child_plan (fuel : nat) (obj svc : string) (n : node) : option (node * list plan) :=
    match n with
    | NField al nm args ak dirs hs subs =>
        if hs then
          let fty := if String.eqb nm "__typename" then Some RScalar
                     else option_map fst (find_gfield g obj nm) in
          match fty with
          | None => None
          | Some t =>
              match plan_ty g pick fuel t subs svc with
              | None => None
              | Some (cs, cafters) =>
                  Some (NField al nm args ak [] true cs, map (push_step (SField al)) cafters)
              end
          end
        else Some (NField al nm args ak [] false [], [])
    | NFrag _ _ _ => None
    end.

  Definition sels_for (tagged : list (node * string)) (o : string) : list node :=
    map fst (filter (fun p => String.eqb (snd p) o) tagged).

  Definition other_plan (fuel : nat) (obj : string) (tagged : list (node * string)) (o : string) : option plan :=
    match plan_ty g pick fuel (RObj obj) (sels_for tagged o) o with
    | Some (os, oafters) => Some (Plan [] o obj os oafters)
    | None => None
    end.

  Definition others_of (svc : string) (tagged : list (node * string)) : list string :=
    sorted_names (map snd (filter (fun p => negb (String.eqb (snd p) svc)) tagged)).

  Lemma plan_obj_inv : forall fuel obj sels svc ss afters,
    plan_ty g pick (S fuel) (RObj obj) sels svc = Some (ss, afters) ->
    exists tagged planned oplans,
      mapo (target_of g pick obj svc) (filter included sels) = Some tagged /\
      mapo (child_plan fuel obj svc) (sels_for tagged svc) = Some planned /\
      mapo (other_plan fuel obj tagged) (others_of svc tagged) = Some oplans /\
      ((others_of svc tagged = [] /\ ss = map fst planned /\ afters = List.concat (map snd planned)) \/
       (others_of svc tagged <> [] /\ existsb half_fed_sel (map fst planned) = false /\
        afters = List.concat (map snd planned) ++ oplans /\
        ((existsb is_fed_sel (map fst planned) = true /\ ss = map fst planned) \/
         (existsb is_fed_sel (map fst planned) = false /\
          ss = map fst planned ++ [key_selection g obj (others_of svc tagged)])))).
  Proof.
    intros fuel obj sels svc ss afters H. simpl in H.
    destruct (mapo (target_of g pick obj svc) (filter included sels)) as [tagged|] eqn:Et; [|discriminate].
    fold (sels_for tagged svc) in H. fold (others_of svc tagged) in H.
    fold (child_plan fuel obj svc) in H.
    destruct (mapo (child_plan fuel obj svc) (sels_for tagged svc)) as [planned|] eqn:Ep; [|discriminate].
    change (mapo (fun o : string =>
                    match plan_ty g pick fuel (RObj obj) (map fst (filter (fun p : node * string => String.eqb (snd p) o) tagged)) o with
                    | Some (os, oafters) => Some (Plan [] o obj os oafters)
                    | None => None
                    end) (others_of svc tagged))
      with (mapo (other_plan fuel obj tagged) (others_of svc tagged)) in H.
    destruct (mapo (other_plan fuel obj tagged) (others_of svc tagged)) as [oplans|] eqn:Eo; [|discriminate].
    exists tagged, planned, oplans. repeat split; auto.
    destruct (others_of svc tagged) as [|o1 orest] eqn:Eoth.
    - left. inversion H; subst. auto.
    - right. split; [discriminate|].
      destruct (existsb half_fed_sel (map fst planned)); [discriminate|]. split; auto.
      destruct (existsb is_fed_sel (map fst planned)); inversion H; subst; auto.
  Qed.
End PlanSem.

(** ** evaluation of field lists *)
Section EvalFacts.
  Variable w : world.
  Variable g : gschema.
  Notation K := (keyed g).
  Notation EV := (ev w (keyed g)).

  Definition all_fields (l : list node) : Prop := Forall (fun n => is_field n = true) l.

  Lemma node_ok_obj_field : forall ty n, node_ok g (RObj ty) n = true -> is_field n = true.
  Proof. intros ty n H. destruct n; [reflexivity | simpl in H; discriminate]. Qed.

  Lemma all_fields_ok : forall ty l, forallb (node_ok g (RObj ty)) l = true -> all_fields l.
  Proof.
    intros ty l H. apply Forall_forall. intros n Hn. eapply forallb_forall in H; eauto. eapply node_ok_obj_field; eauto.
  Qed.

  Lemma ev_nval : forall n ty id, is_field n = true -> EV n ty id = [(n_alias n, nval w g n ty id)].
  Proof. intros n ty id H. destruct n; [reflexivity | discriminate]. Qed.

  Lemma evs_keys : forall l ty id, all_fields l -> map fst (evs EV l ty id) = map n_alias l.
  Proof.
    intros l ty id H. induction H as [|n t Hn _ IH]; [reflexivity|].
    rewrite evs_cons, (ev_nval n ty id Hn). simpl. rewrite IH. reflexivity.
  Qed.

  Lemma lookup_evs : forall l ty id n, all_fields l -> NoDup (map n_alias l) -> In n l ->
    lookup (n_alias n) (evs EV l ty id) = Some (nval w g n ty id).
  Proof.
    intros l ty id n H. induction H as [|x t Hx _ IH]; intros Hnd Hin; [contradiction|].
    rewrite evs_cons, (ev_nval x ty id Hx). simpl. inversion Hnd as [|? ? Hn Hnd']; subst.
    destruct Hin as [->|Hin].
    - rewrite String.eqb_refl. reflexivity.
    - destruct (String.eqb (n_alias n) (n_alias x)) eqn:E.
      + apply String.eqb_eq in E. exfalso. apply Hn. rewrite <- E. apply in_map; exact Hin.
      + apply IH; auto.
  Qed.

  Lemma annot_alias : forall n, n_alias (annot n) = n_alias n.
  Proof. destruct n; reflexivity. Qed.

  Lemma annot_is_field : forall n, is_field (annot n) = is_field n.
  Proof. destruct n; reflexivity. Qed.

  Lemma map_annot_aliases : forall l, map n_alias (map annot l) = map n_alias l.
  Proof. intros l. rewrite map_map. apply map_ext. apply annot_alias. Qed.

  Lemma all_fields_annot : forall l, all_fields l -> all_fields (map annot l).
  Proof. intros l H. induction H; constructor; auto. rewrite annot_is_field; auto. Qed.

  Lemma has_frag_fields : forall l, all_fields l -> has_frag l = false.
  Proof. intros l H. induction H as [|n t Hn _ IH]; [reflexivity|]. simpl. rewrite Hn, IH. reflexivity. Qed.

  (** values of leaf selections are similar to themselves *)
  Lemma render_nil_refl : forall v, scalars_ok v -> simv (render_gen K EV [] v) (render_gen K EV [] v).
  Proof.
    induction v using aval_ind'; intros Hs; simpl.
    - constructor.
    - apply simv_scalar_refl; exact Hs.
    - unfold obj_gen. constructor.
      + intros k _. unfold key_kv. destruct (K t); simpl; [|constructor].
        destruct (String.eqb k "__key"); constructor. constructor.
      + unfold key_kv. destruct (K t); reflexivity.
    - unfold evs. cbn [flat_map]. rewrite !app_nil_r. constructor.
      + intros k _. unfold key_kv. destruct (K t); simpl; [|constructor].
        destruct (String.eqb k "__key"); constructor. constructor.
      + unfold key_kv. destruct (K t); reflexivity.
    - constructor. apply scalars_ok_list in Hs. induction H as [|x t Hx _ IH]; [constructor|].
      inversion Hs; subst. simpl. constructor; auto.
    - unfold leaf_obj. simpl. constructor; [intros; constructor | reflexivity].
  Qed.
End EvalFacts.

(** ** the semantic statements *)
Section Statements.
  Variable w : world.
  Variable g : gschema.
  Variable pick : list string -> option string.
  Notation K := (keyed g).
  Notation EV := (ev w (keyed g)).
  Notation RA := (run_afters w g).

  (** the selection set the combined server sees below a field *)
  Definition asubs (subs : list node) : list node :=
    if has_frag subs then tn_sel :: map annot subs else map annot subs.

  Lemma nval_annot : forall al nm args ak dirs hs subs ty id,
    nval w g (annot (NField al nm args ak dirs hs subs)) ty id = fval_gen w K EV (asubs subs) ty id nm ak.
  Proof. reflexivity. Qed.

  (** what the result object of an object-level plan looks like *)
  Definition post (obj : string) (id : Z) (sels : list node) (fed : bool) (kvs : list (string * json)) : Prop :=
    NoDup (map fst kvs) /\
    (forall k, In k (map fst kvs) <-> In k (map n_alias sels) \/ (fed = true /\ k = federation_field)) /\
    (forall n, In n sels -> exists v, lookup (n_alias n) kvs = Some v /\ simv v (nval w g (annot n) obj id)).

  Definition pre_ok (pre : list (string * json)) (obj : string) (id : Z) (sels : list node) : Prop :=
    (exists pre', pre = key_kv K obj id ++ pre') /\
    (forall k, In k (map fst pre) -> ~ In k (map n_alias sels) /\ k <> federation_field) /\
    Forall (fun kv => scalar_json (snd kv)) pre.

  Definition S_stmt (fuel : nat) : Prop :=
    forall obj sels svc ss afters,
      plan_ty g pick fuel (RObj obj) sels svc = Some (ss, afters) ->
      flat_ok g obj sels = true -> (obj <> "Query" \/ local_all g pick svc obj sels) -> obj <> "Leaf" ->
      forall id pre, pre_ok pre obj id sels ->
      exists kvs fed, RA afters (JObj (pre ++ evs EV ss obj id)) = Some (JObj (pre ++ kvs)) /\
                      post obj id sels fed kvs /\ (local_all g pick svc obj sels -> fed = false).

  (** selections below a field of result type [rty], as [node_ok] wants them *)
  Definition subs_ok (rty : rtype) (subs : list node) : Prop :=
    nodup_str (map n_alias subs) = true /\ forallb (node_ok g rty) subs = true /\
    match rty with
    | RUnion u => exists ms, union_members g u = Some ms /\ subs <> []
    | _ => True
    end.

  Definition V_stmt (fuel : nat) : Prop :=
    forall rty subs svc cs cafters,
      plan_ty g pick fuel rty subs svc = Some (cs, cafters) -> subs_ok rty subs -> rty <> RObj "Query" ->
      (forall u ms, rty = RUnion u -> union_members g u = Some ms -> ~ In "Query" ms) ->
      (rty = RObj "Leaf" -> local_all g pick svc "Leaf" subs) ->
      forall v, vok g rty v -> scalars_ok v ->
      exists x, RA cafters (render_gen K EV cs v) = Some x /\ simv x (render_gen K EV (asubs subs) v).

  Definition U_stmt (fuel : nat) : Prop :=
    forall u subs svc cs cafters,
      plan_ty g pick fuel (RUnion u) subs svc = Some (cs, cafters) -> subs_ok (RUnion u) subs ->
      (forall ms, union_members g u = Some ms -> ~ In "Query" ms) ->
      forall t i, (exists ms, union_members g u = Some ms /\ In t ms) ->
      exists x, RA cafters (pick_gen K EV cs t i cs) = Some x /\
                simv x (pick_gen K EV (tn_sel :: map annot subs) t i (tn_sel :: map annot subs)).

  (** ** from a [post] to similarity of the whole object *)
  Lemma post_simv : forall obj id sels fed kvs pre,
    post obj id sels fed kvs -> all_fields sels -> NoDup (map n_alias sels) ->
    (forall n, In n sels -> n_alias n <> federation_field) ->
    (forall k, In k (map fst pre) -> ~ In k (map n_alias sels) /\ k <> federation_field) ->
    Forall (fun kv => scalar_json (snd kv)) pre ->
    simv (JObj (pre ++ kvs)) (JObj (pre ++ evs EV (map annot sels) obj id)).
  Proof.
    intros obj id sels fed kvs pre [Hnd [Hkeys Hvals]] Hf Hnds Hnf Hpre Hsc. constructor.
    - intros k Hk. rewrite !lookup_app. destruct (lookup k pre) as [v|] eqn:Ep.
      + constructor. apply simv_scalar_refl. apply lookup_in in Ep. rewrite Forall_forall in Hsc. apply (Hsc _ Ep).
      + destruct (in_dec string_dec k (map n_alias sels)) as [Hin|Hnin].
        * apply in_map_iff in Hin as [n [Hn Hin]]. subst k. destruct (Hvals n Hin) as [v [Hl Hs]].
          rewrite Hl. rewrite <- (annot_alias n).
          rewrite (lookup_evs w g (map annot sels) obj id (annot n)).
          -- constructor. exact Hs.
          -- apply all_fields_annot; exact Hf.
          -- rewrite map_annot_aliases; exact Hnds.
          -- apply in_map; exact Hin.
        * assert (H1 : lookup k kvs = None).
          { apply lookup_none_notin. intros Hin. apply Hkeys in Hin as [Hin|[_ ->]]; [contradiction | congruence]. }
          assert (H2 : lookup k (evs EV (map annot sels) obj id) = None).
          { apply lookup_none_notin. rewrite evs_keys by (apply all_fields_annot; exact Hf). rewrite map_annot_aliases. exact Hnin. }
          rewrite H1, H2. constructor.
    - rewrite lookup_app.
      assert (H1 : lookup federation_field pre = None).
      { apply lookup_none_notin. intros Hin. apply Hpre in Hin as [_ Hne]. congruence. }
      rewrite H1. apply lookup_none_notin. rewrite evs_keys by (apply all_fields_annot; exact Hf).
      rewrite map_annot_aliases. intros Hin. apply in_map_iff in Hin as [n [Hn Hin]]. apply (Hnf n Hin). exact Hn.
  Qed.
End Statements.

Section Core.
  Variable w : world.
  Variable g : gschema.
  Variable pick : list string -> option string.
  Notation K := (keyed g).
  Notation EV := (ev w (keyed g)).
  Notation RA := (run_afters w g).

  Hypothesis pick_sound : forall l s, pick l = Some s -> In s l.
  Hypothesis Hok : fed_ok0 g = true.
  Hypothesis Hplain : plain_ok g = true.
  Hypothesis Hok2 : fed_ok2 g = true.
  Hypothesis Hw : world_ok w g.
  Hypothesis Hsc : forall ty id f ak, scalars_ok (w_value w ty id f ak).

  Lemma fed_ok2_parts :
    (forall ty f rty owners, find_gfield g ty f = Some (rty, owners) -> ty <> "Query" -> ty <> "Leaf" ->
       forall o, In o owners -> In "id" (fkeys_of g ty o)) /\
    (forall ty f rty owners, find_gfield g ty f = Some (rty, owners) -> ty <> "Query" ->
       (f = "id" \/ f = "org") -> rty = RScalar) /\
    K "Query" = false.
  Proof.
    unfold fed_ok2 in Hok2. apply andb_prop in Hok2 as [H1 H2]. split; [|split].
    - intros ty f rty owners Hf Hq Hnl o Ho. apply find_gfield_in in Hf. eapply forallb_forall in H1; [|exact Hf].
      cbv beta iota zeta in H1. apply andb_prop in H1 as [Ha _]. apply orb_prop in Ha as [Ha|Ha].
      + apply orb_prop in Ha as [Ha|Ha]; apply String.eqb_eq in Ha; contradiction.
      + eapply forallb_forall in Ha; [|exact Ho]. apply existsb_eqb_In in Ha. exact Ha.
    - intros ty f rty owners Hf Hq Hio. apply find_gfield_in in Hf. eapply forallb_forall in H1; [|exact Hf].
      cbv beta iota zeta in H1. apply andb_prop in H1 as [_ Hb].
      assert (Hn : String.eqb f "id" || String.eqb f "org" = true).
      { destruct Hio as [->| ->]; [rewrite String.eqb_refl; reflexivity | rewrite String.eqb_refl, orb_true_r; reflexivity]. }
      rewrite Hn in Hb. simpl in Hb. destruct (String.eqb ty "Query") eqn:E; [apply String.eqb_eq in E; contradiction|].
      simpl in Hb. destruct rty; try discriminate. reflexivity.
    - unfold keyed. apply negb_true_iff in H2. exact H2.
  Qed.

  (** the value of a selection that has sub-selections is the rendering of the world's value *)
  Lemma fval_composite : forall obj id nm ak rty owners s,
    find_gfield g obj nm = Some (rty, owners) -> rty <> RScalar ->
    String.eqb nm "__typename" = false -> String.eqb nm federation_field = false ->
    fval_gen w K EV s obj id nm ak = render_gen K EV s (w_value w obj id nm ak).
  Proof.
    intros obj id nm ak rty owners s Hf Hr Ht Hfed. unfold fval_gen. rewrite Ht, Hfed.
    destruct (String.eqb obj "Query") eqn:Eq; [reflexivity|].
    assert (Hq : obj <> "Query") by (intros ->; rewrite String.eqb_refl in Eq; discriminate).
    destruct fed_ok2_parts as [_ [Hb _]].
    destruct (String.eqb nm "id") eqn:E1; [apply String.eqb_eq in E1; exfalso; apply Hr; eapply Hb; eauto|].
    destruct (String.eqb nm "org") eqn:E2; [apply String.eqb_eq in E2; exfalso; apply Hr; eapply Hb; eauto|].
    reflexivity.
  Qed.

  Lemma fval_nil_refl : forall obj id nm ak, String.eqb nm federation_field = false ->
    simv (fval_gen w K EV [] obj id nm ak) (fval_gen w K EV [] obj id nm ak).
  Proof.
    intros obj id nm ak Hfed. unfold fval_gen. rewrite Hfed.
    destruct (String.eqb nm "__typename"); [constructor|].
    destruct (String.eqb obj "Query"); [apply render_nil_refl; apply Hsc|].
    destruct (String.eqb nm "id"); [constructor|]. destruct (String.eqb nm "org"); [constructor|].
    apply render_nil_refl; apply Hsc.
  Qed.

  Lemma alias_ok_parts : forall al nm, alias_ok al nm = true ->
    al <> federation_field /\ al <> "__key" /\ String.eqb nm federation_field = false /\
    (al = "__typename" <-> nm = "__typename").
  Proof.
    intros al nm H. unfold alias_ok in H. apply andb_prop in H as [H H4]. apply andb_prop in H as [H H3]. apply andb_prop in H as [H1 H2].
    apply negb_true_iff in H1, H2, H3. repeat split.
    - intros ->. rewrite String.eqb_refl in H1. discriminate.
    - intros ->. rewrite String.eqb_refl in H2. discriminate.
    - exact H3.
    - intros ->. rewrite String.eqb_refl in H4. apply eqb_prop in H4. symmetry in H4. apply String.eqb_eq in H4. exact H4.
    - intros ->. rewrite String.eqb_refl in H4. apply eqb_prop in H4. apply String.eqb_eq in H4. exact H4.
  Qed.

  (** the children of the local selections: every sub-plan of a selection rewrites the value of that
      selection into (something similar to) the combined server's value for it *)
  Lemma phase1 : forall fuel, V_stmt w g pick fuel -> forall obj svc id locs planned,
    Forall2 (fun n p => child_plan g pick fuel obj svc n = Some p) locs planned ->
    forallb (node_ok g (RObj obj)) locs = true -> NoDup (map n_alias locs) -> local_all g pick svc obj locs ->
    forall A B, (forall n, In n locs -> lookup (n_alias n) A = None) ->
    exists kvs1,
      RA (List.concat (map snd planned)) (JObj (A ++ evs EV (map fst planned) obj id ++ B)) = Some (JObj (A ++ kvs1 ++ B)) /\
      Forall2 (fun n kv => fst kv = n_alias n /\ simv (snd kv) (nval w g (annot n) obj id)) locs kvs1.
  Proof.
    intros fuel HV obj svc id locs planned HF. induction HF as [|n p locs planned Hc _ IH]; intros Hok' Hnd Hlocal A B HA.
    - exists []. simpl. split; [reflexivity | constructor].
    - simpl in Hok'. apply andb_prop in Hok' as [Hn Hrest]. inversion Hnd as [|? ? Hnotin Hnd']; subst.
      pose proof (Hlocal _ (or_introl eq_refl)) as Hloc_n.
      assert (Hlocal' : local_all g pick svc obj locs) by (intros m Hm; apply Hlocal; right; exact Hm).
      destruct n as [al nm args ak dirs hs subs|]; [|discriminate].
      cbn [node_ok] in Hn. apply andb_prop in Hn as [Hn1 Hn3]. apply andb_prop in Hn1 as [Hal Hdirs].
      destruct (alias_ok_parts _ _ Hal) as [Hal1 [Hal2 [Hfed Htn]]].
      cbn [child_plan] in Hc.
      assert (HAal : lookup al A = None) by (apply (HA (NField al nm args ak dirs hs subs) (or_introl eq_refl))).
      cbn [n_alias] in *.
      assert (HA' : forall v, forall n0, In n0 locs -> lookup (n_alias n0) (A ++ [(al, v)]) = None).
      { intros v n0 Hin. rewrite lookup_app, (HA n0 (or_intror Hin)). simpl.
        destruct (String.eqb (n_alias n0) al) eqn:E; auto. apply String.eqb_eq in E. exfalso. apply Hnotin.
        rewrite <- E. apply in_map; exact Hin. }
      destruct hs.
      + (* a selection with sub-selections *)
        destruct (String.eqb nm "__typename") eqn:Et; [simpl in Hn3; discriminate|].
        destruct (find_gfield g obj nm) as [[rty owners]|] eqn:Ef; [|discriminate].
        cbn [option_map fst] in Hc.
        destruct (plan_ty g pick fuel rty subs svc) as [[cs cafters]|] eqn:Ep; [|discriminate].
        inversion Hc; subst p. cbn [map fst snd List.concat].
        assert (Hrs : rty <> RScalar).
        { intros ->. destruct fuel; simpl in Ep; discriminate. }
        assert (Hsub : subs_ok g rty subs).
        { destruct rty as [|o|u]; [contradiction| |].
          - apply andb_prop in Hn3 as [Hx Hy]. apply andb_prop in Hx as [_ Hx]. repeat split; auto.
          - apply andb_prop in Hn3 as [Hx Hz]. apply andb_prop in Hx as [Hx Hne]. apply andb_prop in Hx as [Hx Hy]. apply andb_prop in Hx as [_ Hx].
            repeat split; auto. destruct (union_members g u) as [ms|]; [|discriminate]. exists ms. split; [reflexivity|].
            intros ->. discriminate. }
        assert (Hnq : rty <> RObj "Query").
        { intros ->. eapply (ok0_nothing_returns_query g Hok); eauto. }
        assert (Hnm : forall u ms, rty = RUnion u -> union_members g u = Some ms -> ~ In "Query" ms).
        { intros u ms _ Hu. eapply (ok0_no_query_member g Hok); eauto. }
        assert (Hleaf : rty = RObj "Leaf" -> local_all g pick svc "Leaf" subs).
        { intros ->. destruct (target_of_spec g pick pick_sound _ _ _ _ _ Hloc_n) as [_ [al' [nm' [args' [ak' [dirs' [hs' [subs' [Heq Hcase]]]]]]]]].
          inversion Heq; subst al' nm' args' ak' dirs' hs' subs'.
          destruct Hcase as [[Hx _]|[rty' [owners' [Hf' Hown]]]]; [subst nm; discriminate|].
          rewrite Ef in Hf'. inversion Hf'; subst rty' owners'.
          destruct Hsub as [_ [Hsok _]].
          intros m Hm. eapply forallb_forall in Hsok; [|exact Hm].
          destruct m as [al2 nm2 args2 ak2 dirs2 hs2 subs2|]; [|discriminate]. cbn [node_ok] in Hsok.
          apply andb_prop in Hsok as [_ Hsok]. unfold target_of.
          destruct (String.eqb nm2 "__typename"); [reflexivity|].
          destruct (find_gfield g "Leaf" nm2) as [[rty2 owners2]|] eqn:Ef2; [|discriminate].
          destruct (plain_fields g Hplain _ _ _ Ef2) as [_ Hnosel].
          pose proof (plain_served g Hplain _ _ _ _ Ef Hown _ _ _ Ef2) as Hin2.
          unfold select_service. rewrite Hnosel. apply (proj2 (existsb_eqb_In _ _)) in Hin2. rewrite Hin2. reflexivity. }
        destruct (HV rty subs svc cs cafters Ep Hsub Hnq Hnm Hleaf (w_value w obj id nm ak) (Hw _ _ _ _ _ _ Ef) (Hsc _ _ _ _))
          as [v' [Hrun Hsim]].
        rewrite evs_cons, ev_field. rewrite (fval_composite _ _ _ _ _ _ cs Ef Hrs Et Hfed).
        rewrite RA_app.
        set (v0 := render_gen K EV cs (w_value w obj id nm ak)) in *.
        rewrite (RA_lift_field w g al cafters _ v0).
        2:{ rewrite lookup_app, HAal. simpl. rewrite String.eqb_refl. reflexivity. }
        rewrite Hrun.
        rewrite set_key_app_right by exact HAal.
        simpl set_key. rewrite String.eqb_refl.
        destruct (IH Hrest Hnd' Hlocal' (A ++ [(al, v')]) B (HA' v')) as [kvs1 [Hr1 Hf1]].
        rewrite <- app_assoc in Hr1. simpl in Hr1. rewrite Hr1.
        exists ((al, v') :: kvs1). split; [rewrite <- app_assoc; reflexivity|].
        constructor; auto. split; [reflexivity|]. simpl snd.
        rewrite nval_annot, (fval_composite _ _ _ _ _ _ (asubs subs) Ef Hrs Et Hfed). exact Hsim.
      + (* a leaf selection *)
        inversion Hc; subst p. cbn [map fst snd List.concat app].
        assert (Hs0 : subs = []).
        { destruct (String.eqb nm "__typename").
          - simpl in Hn3. destruct subs; [reflexivity|discriminate].
          - destruct (find_gfield g obj nm) as [[[|o|u] owners]|]; try discriminate.
            simpl in Hn3. destruct subs; [reflexivity|discriminate]. }
        subst subs. rewrite evs_cons, ev_field.
        set (v0 := fval_gen w K EV [] obj id nm ak).
        destruct (IH Hrest Hnd' Hlocal' (A ++ [(al, v0)]) B (HA' v0)) as [kvs1 [Hr1 Hf1]].
        rewrite <- app_assoc in Hr1. simpl in Hr1. simpl app. rewrite Hr1.
        exists ((al, v0) :: kvs1). split; [rewrite <- app_assoc; reflexivity|].
        constructor; auto. split; [reflexivity|]. simpl snd. rewrite nval_annot. unfold asubs. simpl.
        apply fval_nil_refl; exact Hfed.
  Qed.

  (** ** facts about the split of a selection set by target service *)
  Lemma filter_included_all : forall obj sels, forallb (node_ok g (RObj obj)) sels = true -> filter included sels = sels.
  Proof.
    intros obj sels H. induction sels as [|n t IH]; [reflexivity|]. simpl in H. apply andb_prop in H as [Hn Ht].
    simpl. destruct n as [al nm args ak dirs hs subs|]; [|discriminate].
    cbn [node_ok] in Hn. apply andb_prop in Hn as [Hn _]. apply andb_prop in Hn as [_ Hd].
    cbn [included]. rewrite Hd, IH; auto.
  Qed.

  Lemma tagged_spec : forall obj svc sels tagged,
    mapo (target_of g pick obj svc) sels = Some tagged ->
    Forall2 (fun n p => fst p = n /\ target_of g pick obj svc n = Some p) sels tagged.
  Proof.
    intros obj svc sels tagged H. apply mapo_Forall2 in H. induction H as [|n [n' t] sels tagged Hn _ IH]; constructor; auto.
    destruct (target_of_idem g pick pick_sound _ _ _ _ _ Hn) as [_ ->]. auto.
  Qed.

  Lemma sels_for_in : forall obj svc sels tagged o n,
    mapo (target_of g pick obj svc) sels = Some tagged ->
    In n (sels_for tagged o) -> In n sels /\ target_of g pick obj svc n = Some (n, o).
  Proof.
    intros obj svc sels tagged o n H Hin. apply tagged_spec in H. unfold sels_for in Hin.
    apply in_map_iff in Hin as [[n' t] [Hn Hin]]. simpl in Hn. subst n'. apply filter_In in Hin as [Hin Ht]. simpl in Ht.
    apply String.eqb_eq in Ht. subst t.
    induction H as [|x p sels tagged [Hx1 Hx2] _ IH]; [contradiction|].
    destruct Hin as [->|Hin]; [simpl in Hx1; subst x; split; [left; reflexivity | exact Hx2] | destruct (IH Hin); split; [right|]; auto].
  Qed.

  Lemma in_sels_tagged : forall obj svc sels tagged n,
    mapo (target_of g pick obj svc) sels = Some tagged -> In n sels ->
    exists t, In (n, t) tagged /\ In n (sels_for tagged t).
  Proof.
    intros obj svc sels tagged n H Hin. apply tagged_spec in H.
    induction H as [|x [x' t] sels tagged [Hx1 Hx2] _ IH]; [contradiction|]. simpl in Hx1. subst x'.
    destruct Hin as [->|Hin].
    - exists t. split; [left; reflexivity|]. unfold sels_for. simpl. rewrite String.eqb_refl. left; reflexivity.
    - destruct (IH Hin) as [t' [A B]]. exists t'. split; [right; exact A|]. unfold sels_for in *. simpl.
      destruct (String.eqb t t'); [right|]; exact B.
  Qed.

  Lemma NoDup_map_filter : forall {A B} (f : A -> B) (p : A -> bool) l, NoDup (map f l) -> NoDup (map f (filter p l)).
  Proof.
    intros A B f p l H. induction l as [|x t IH]; [constructor|]. simpl in *. inversion H as [|? ? Hn Hnd]; subst.
    destruct (p x); [|auto]. simpl. constructor; auto. intros Hin. apply Hn. apply in_map_iff in Hin as [y [Hy Hin]].
    apply filter_In in Hin as [Hin _]. apply in_map_iff. exists y. auto.
  Qed.

  Lemma sels_for_nodup : forall obj svc sels tagged o,
    mapo (target_of g pick obj svc) sels = Some tagged -> NoDup (map n_alias sels) ->
    NoDup (map n_alias (sels_for tagged o)).
  Proof.
    intros obj svc sels tagged o H Hnd. apply tagged_spec in H.
    assert (Hm : map fst tagged = sels).
    { induction H as [|x p sels tagged [Hx _] _ IH]; [reflexivity|]. simpl. rewrite Hx, IH; auto. inversion Hnd; auto. }
    unfold sels_for. rewrite <- Hm in Hnd. rewrite map_map in Hnd. rewrite map_map.
    apply (NoDup_map_filter (fun x => n_alias (fst x))). exact Hnd.
  Qed.

  Lemma sels_for_local : forall obj svc sels tagged o,
    mapo (target_of g pick obj svc) sels = Some tagged -> local_all g pick o obj (sels_for tagged o).
  Proof.
    intros obj svc sels tagged o H n Hin. destruct (sels_for_in _ _ _ _ _ _ H Hin) as [_ Ht].
    apply (target_of_idem g pick pick_sound _ _ _ _ _ Ht).
  Qed.

  Lemma local_all_split : forall obj svc sels tagged,
    mapo (target_of g pick obj svc) sels = Some tagged -> local_all g pick svc obj sels ->
    others_of svc tagged = [] /\ sels_for tagged svc = sels.
  Proof.
    intros obj svc sels tagged H Hl. apply tagged_spec in H.
    assert (Hall : Forall (fun p => snd p = svc) tagged /\ map fst tagged = sels).
    { induction H as [|x [x' t] sels tagged [Hx1 Hx2] _ IH]; [split; constructor|].
      simpl in Hx1. subst x'. rewrite (Hl x (or_introl eq_refl)) in Hx2. inversion Hx2; subst t.
      destruct IH as [A B]; [intros n Hn; apply Hl; right; exact Hn|]. split; [constructor; auto | simpl; rewrite B; reflexivity]. }
    destruct Hall as [A B]. split.
    - unfold others_of. assert (Hf : filter (fun p : node * string => negb (String.eqb (snd p) svc)) tagged = []).
      { clear -A. induction A as [|p t Hp _ IH]; [reflexivity|]. simpl. rewrite Hp, String.eqb_refl. simpl. exact IH. }
      rewrite Hf. reflexivity.
    - unfold sels_for. assert (Hf : filter (fun p : node * string => String.eqb (snd p) svc) tagged = tagged).
      { clear -A. induction A as [|p t Hp _ IH]; [reflexivity|]. simpl. rewrite Hp, String.eqb_refl. rewrite IH. reflexivity. }
      rewrite Hf. exact B.
  Qed.

  Lemma forallb_sels_for : forall obj svc sels tagged o (f : node -> bool),
    mapo (target_of g pick obj svc) sels = Some tagged -> forallb f sels = true -> forallb f (sels_for tagged o) = true.
  Proof.
    intros obj svc sels tagged o f H Hf. apply forallb_forall. intros n Hin.
    destruct (sels_for_in _ _ _ _ _ _ H Hin) as [Hin' _]. eapply forallb_forall in Hf; eauto.
  Qed.

  Lemma flat_ok_sels_for : forall obj svc sels tagged o,
    mapo (target_of g pick obj svc) sels = Some tagged -> flat_ok g obj sels = true -> flat_ok g obj (sels_for tagged o) = true.
  Proof.
    intros obj svc sels tagged o H Hf. unfold flat_ok in *. apply andb_prop in Hf as [H1 H2].
    rewrite (forallb_sels_for _ _ _ _ _ _ H H2), andb_true_r. apply nodup_str_NoDup.
    eapply sels_for_nodup; eauto. apply nodup_str_NoDup; exact H1.
  Qed.

  (** two selections of one (duplicate-free) selection set with the same alias are the same selection *)
  Lemma alias_inj : forall sels n m, NoDup (map n_alias sels) -> In n sels -> In m sels -> n_alias n = n_alias m -> n = m.
  Proof.
    induction sels as [|x t IH]; intros n m Hnd Hn Hm He; [contradiction|]. simpl in Hnd. inversion Hnd as [|? ? Hx Hnd']; subst.
    destruct Hn as [->|Hn]; destruct Hm as [->|Hm]; auto.
    - exfalso. apply Hx. rewrite He. apply in_map; exact Hm.
    - exfalso. apply Hx. rewrite <- He. apply in_map; exact Hn.
  Qed.

  (** ** the _federation key selection and the key the other service receives *)
  Definition key_node (k : string) : node := NField k k (JObj []) "" [] false [].

  Lemma key_selection_eq : forall obj others,
    key_selection g obj others =
    NField federation_field federation_field (JObj []) "" [] true
           (map key_node (sorted_names (List.concat (map (fkeys_of g obj) others)))).
  Proof. reflexivity. Qed.

  Definition key_entries (obj : string) (id : Z) (ks : list string) : list (string * json) :=
    evs EV (map key_node ks) obj id.

  Lemma ev_key_selection : forall obj id others,
    EV (key_selection g obj others) obj id =
    [(federation_field, JObj (key_kv K obj id ++
        key_entries obj id (sorted_names (List.concat (map (fkeys_of g obj) others)))))].
  Proof. reflexivity. Qed.

  Lemma lookup_key_entries_id : forall obj id ks, obj <> "Query" -> In "id" ks ->
    lookup "id" (key_entries obj id ks) = Some (JNum id).
  Proof.
    intros obj id ks Hq Hin. unfold key_entries. induction ks as [|k t IH]; [contradiction|].
    simpl map. rewrite evs_cons. unfold key_node at 1. rewrite ev_field. simpl app.
    cbn [lookup]. destruct (String.eqb "id" k) eqn:E.
    - apply String.eqb_eq in E. subst k. unfold fval_gen.
      assert (Eq : String.eqb obj "Query" = false) by (apply String.eqb_neq; exact Hq). rewrite Eq. reflexivity.
    - destruct Hin as [->|Hin]; [rewrite String.eqb_refl in E; discriminate | apply IH; exact Hin].
  Qed.

  Lemma lookup_filter_key : forall (p : string * json -> bool) l k,
    (forall v, p (k, v) = true) -> lookup k (filter p l) = lookup k l.
  Proof.
    intros p l k Hp. induction l as [|[k' v] t IH]; [reflexivity|]. simpl.
    destruct (p (k', v)) eqn:E; simpl.
    - destruct (String.eqb k k'); auto.
    - destruct (String.eqb k k') eqn:E2; auto. apply String.eqb_eq in E2. subst k'. rewrite Hp in E. discriminate.
  Qed.

  Lemma kid_key : forall path o obj os oafters id ks,
    obj <> "Query" -> In "id" ks -> In "id" (fkeys_of g obj o) ->
    kid g (Plan path o obj os oafters) (JObj (key_kv K obj id ++ key_entries obj id ks)) = Some id.
  Proof.
    intros path o obj os oafters id ks Hq Hin Hfk. unfold kid, restrict_key, key_id. simpl p_type. simpl p_service.
    rewrite lookup_filter_key.
    - rewrite lookup_app. unfold key_kv. destruct (K obj); simpl; rewrite (lookup_key_entries_id _ _ _ Hq Hin); reflexivity.
    - intros v. cbn [fst]. apply (proj2 (existsb_eqb_In _ _)) in Hfk. rewrite Hfk. reflexivity.
  Qed.

  Lemma fresh_part_keyed : forall L obj id kvs,
    (K obj = true -> lookup "__key" L = Some (JNum id)) ->
    (forall k, In k (map fst kvs) -> lookup k L = None) ->
    fresh_part L (key_kv K obj id ++ kvs) = kvs.
  Proof.
    intros L obj id kvs Hk Hf. unfold fresh_part. rewrite filter_app.
    assert (H1 : filter (fun kv : string * json => negb (has_key (fst kv) L)) (key_kv K obj id) = []).
    { unfold key_kv. destruct (K obj); [|reflexivity]. simpl. unfold has_key. rewrite (Hk eq_refl). reflexivity. }
    rewrite H1. simpl. induction kvs as [|[k v] t IH]; [reflexivity|]. simpl.
    unfold has_key at 1. rewrite (Hf k (or_introl eq_refl)). simpl. f_equal. apply IH. intros k' Hk'. apply Hf. right; exact Hk'.
  Qed.

  (** ** one sub-plan for another service, run on the object and merged into it *)
  Lemma other_step : forall fuel, S_stmt w g pick fuel -> forall obj svc sels tagged o p id ks L,
    mapo (target_of g pick obj svc) sels = Some tagged -> flat_ok g obj sels = true ->
    other_plan g pick fuel obj tagged o = Some p ->
    obj <> "Query" -> obj <> "Leaf" -> In "id" ks -> In "id" (fkeys_of g obj o) ->
    lookup federation_field L = Some (JObj (key_kv K obj id ++ key_entries obj id ks)) ->
    (K obj = true -> lookup "__key" L = Some (JNum id)) ->
    (forall n, In n (sels_for tagged o) -> lookup (n_alias n) L = None) ->
    exists kvs_o, after1 (run_keys g (exec1 w g) p) (p_path p) (JObj L) = Some (JObj (L ++ kvs_o)) /\
                  post w g obj id (sels_for tagged o) false kvs_o.
  Proof.
    intros fuel HS obj svc sels tagged o p id ks L Ht Hflat Hp Hq Hnl Hid Hfk Hfed Hkey Hfresh.
    unfold other_plan in Hp.
    destruct (plan_ty g pick fuel (RObj obj) (sels_for tagged o) o) as [[os oafters]|] eqn:Epl; [|discriminate].
    inversion Hp; subst p. simpl p_path.
    pose proof (flat_ok_sels_for _ _ _ _ o Ht Hflat) as Hflat_o.
    pose proof (sels_for_local _ _ _ _ o Ht) as Hloc.
    assert (Hpre : pre_ok g (key_kv K obj id) obj id (sels_for tagged o)).
    { split; [exists []; rewrite app_nil_r; reflexivity|]. split.
      - intros k Hk. unfold key_kv in Hk. destruct (K obj); [|contradiction]. destruct Hk as [<-|[]].
        split; [|discriminate]. intros Hin. apply in_map_iff in Hin as [n [Hn Hin]].
        unfold flat_ok in Hflat_o. apply andb_prop in Hflat_o as [_ Hno]. eapply forallb_forall in Hno; [|exact Hin].
        destruct n as [al nm args ak dirs hs subs|]; [|discriminate]. cbn [node_ok] in Hno.
        apply andb_prop in Hno as [Hno _]. apply andb_prop in Hno as [Hal _].
        destruct (alias_ok_parts _ _ Hal) as [_ [H2 _]]. simpl in Hn. congruence.
      - unfold key_kv. destruct (K obj); constructor; [exact I | constructor]. }
    destruct (HS obj (sels_for tagged o) o os oafters Epl Hflat_o (or_intror Hloc) Hnl id _ Hpre) as [kvs_o [fed [Hrun [Hpost Hfedf]]]].
    specialize (Hfedf Hloc). subst fed. exists kvs_o. split; [|exact Hpost].
    unfold after1. rewrite extract_keys_nil_obj, Hfed.
    unfold run_keys. cbn [mapo].
    rewrite (kid_key [] o obj os oafters id ks Hq Hid Hfk).
    assert (He : exec1 w g (Plan [] o obj os oafters) id = Some (JObj (key_kv K obj id ++ kvs_o))).
    { cbn [exec1]. rewrite eval_obj_eq. exact Hrun. }
    cbn [mapo]. rewrite He. cbn [List.length Nat.eqb negb]. rewrite graft_nil_obj.
    destruct Hpost as [Hnd [Hkeys Hvals]].
    assert (Hkeys_o : forall k, In k (map fst kvs_o) -> lookup k L = None /\ k <> "__key").
    { intros k Hk. apply Hkeys in Hk as [Hk|[Hx _]]; [|discriminate]. apply in_map_iff in Hk as [n [Hn Hin]]. subst k.
      split; [apply Hfresh; exact Hin|].
      unfold flat_ok in Hflat_o. apply andb_prop in Hflat_o as [_ Hno]. eapply forallb_forall in Hno; [|exact Hin].
      destruct n as [al nm args ak dirs hs subs|]; [|discriminate]. cbn [node_ok] in Hno.
      apply andb_prop in Hno as [Hno _]. apply andb_prop in Hno as [Hal _].
      destruct (alias_ok_parts _ _ Hal) as [_ [H2 _]]. exact H2. }
    rewrite merge_result_ok.
    - rewrite (fresh_part_keyed L obj id kvs_o Hkey (fun k Hk => proj1 (Hkeys_o k Hk))). reflexivity.
    - split.
      + rewrite map_app. unfold key_kv. destruct (K obj); simpl; [|exact Hnd]. constructor; [|exact Hnd].
        intros Hin. apply (proj2 (Hkeys_o _ Hin)). reflexivity.
      + intros k v Hin. apply in_app_or in Hin as [Hin|Hin].
        * right. unfold key_kv in Hin. destruct (K obj) eqn:Ek; [|contradiction]. destruct Hin as [Heq|[]].
          inversion Heq; subst. split; [reflexivity | apply Hkey; reflexivity].
        * left. apply (proj1 (Hkeys_o k (in_map fst _ _ Hin))).
  Qed.

  Lemma NoDup_app_intro : forall {A} (a b : list A), NoDup a -> NoDup b -> (forall x, In x a -> ~ In x b) -> NoDup (a ++ b).
  Proof.
    intros A a b Ha Hb Hd. induction Ha as [|x t Hx Ht IH]; [exact Hb|]. simpl. constructor.
    - intros Hin. apply in_app_or in Hin as [Hin|Hin]; [contradiction | apply (Hd x (or_introl eq_refl) Hin)].
    - apply IH. intros y Hy. apply Hd. right; exact Hy.
  Qed.

  (** different groups of one selection set have different aliases *)
  Lemma groups_disjoint : forall obj svc sels tagged o1 o2 n m,
    mapo (target_of g pick obj svc) sels = Some tagged -> NoDup (map n_alias sels) -> o1 <> o2 ->
    In n (sels_for tagged o1) -> In m (sels_for tagged o2) -> n_alias n <> n_alias m.
  Proof.
    intros obj svc sels tagged o1 o2 n m Ht Hnd Hne Hn Hm He.
    destruct (sels_for_in _ _ _ _ _ _ Ht Hn) as [In1 T1]. destruct (sels_for_in _ _ _ _ _ _ Ht Hm) as [In2 T2].
    pose proof (alias_inj _ _ _ Hnd In1 In2 He) as Heq. subst m. rewrite T1 in T2. inversion T2. contradiction.
  Qed.

  (** ** all sub-plans for other services *)
  Lemma phase2 : forall fuel, S_stmt w g pick fuel -> forall obj svc sels tagged id ks,
    mapo (target_of g pick obj svc) sels = Some tagged -> flat_ok g obj sels = true ->
    obj <> "Query" -> obj <> "Leaf" -> In "id" ks ->
    forall others oplans, Forall2 (fun o p => other_plan g pick fuel obj tagged o = Some p) others oplans ->
    NoDup others -> (forall o, In o others -> In "id" (fkeys_of g obj o)) ->
    forall L, lookup federation_field L = Some (JObj (key_kv K obj id ++ key_entries obj id ks)) ->
    (K obj = true -> lookup "__key" L = Some (JNum id)) ->
    (forall o n, In o others -> In n (sels_for tagged o) -> lookup (n_alias n) L = None) ->
    exists exts, RA oplans (JObj L) = Some (JObj (L ++ List.concat exts)) /\
                 Forall2 (fun o kvs => post w g obj id (sels_for tagged o) false kvs) others exts.
  Proof.
    intros fuel HS obj svc sels tagged id ks Ht Hflat Hq Hnl Hid others oplans HF.
    assert (Hnds : NoDup (map n_alias sels)).
    { unfold flat_ok in Hflat. apply andb_prop in Hflat as [H1 _]. apply nodup_str_NoDup; exact H1. }
    induction HF as [|o p others oplans Hp _ IH]; intros Hnd Hfk L Hfed Hkey Hfresh.
    - exists []. cbn [List.concat]. rewrite RA_nil, app_nil_r. split; [reflexivity | constructor].
    - inversion Hnd as [|? ? Hno Hnd']; subst.
      destruct (other_step fuel HS obj svc sels tagged o p id ks L Ht Hflat Hp Hq Hnl Hid (Hfk o (or_introl eq_refl)) Hfed Hkey
                  (fun n Hn => Hfresh o n (or_introl eq_refl) Hn)) as [kvs_o [Hstep Hpost]].
      rewrite RA_cons, Hstep.
      destruct (IH Hnd' (fun o' Ho' => Hfk o' (or_intror Ho')) (L ++ kvs_o)) as [exts [Hrun HF2]].
      + rewrite lookup_app, Hfed. reflexivity.
      + intros Hk. rewrite lookup_app, (Hkey Hk). reflexivity.
      + intros o2 n Ho2 Hn. rewrite lookup_app, (Hfresh o2 n (or_intror Ho2) Hn).
        apply lookup_none_notin. intros Hin. destruct Hpost as [_ [Hkeys _]]. apply Hkeys in Hin as [Hin|[Hx _]]; [|discriminate].
        apply in_map_iff in Hin as [m [Hm Hin]].
        assert (Hne : o <> o2) by (intros ->; contradiction).
        apply (groups_disjoint _ _ _ _ _ _ _ _ Ht Hnds Hne Hin Hn). exact Hm.
      + exists (kvs_o :: exts). split; [|constructor; auto]. rewrite Hrun. simpl. rewrite <- app_assoc. reflexivity.
  Qed.

  (** ** assembling the result object of an object-level plan *)
  Lemma forall2_locs : forall obj id locs kvs1,
    Forall2 (fun n kv => fst kv = n_alias n /\ simv (snd kv) (nval w g (annot n) obj id)) locs kvs1 ->
    NoDup (map n_alias locs) ->
    map fst kvs1 = map n_alias locs /\
    forall n, In n locs -> exists v, lookup (n_alias n) kvs1 = Some v /\ simv v (nval w g (annot n) obj id).
  Proof.
    intros obj id locs kvs1 HF. induction HF as [|n [k v] locs kvs1 [Hk Hv] _ IH]; intros Hnd.
    - split; [reflexivity | intros n []].
    - simpl in Hk. subst k. inversion Hnd as [|? ? Hn Hnd']; subst. destruct (IH Hnd') as [IH1 IH2].
      split; [simpl; rewrite IH1; reflexivity|]. intros m [->|Hm].
      + exists v. simpl. rewrite String.eqb_refl. auto.
      + destruct (IH2 m Hm) as [v' [Hl Hs]]. exists v'. split; auto. simpl.
        destruct (String.eqb (n_alias m) (n_alias n)) eqn:E; auto. apply String.eqb_eq in E. exfalso. apply Hn.
        rewrite <- E. apply in_map; exact Hm.
  Qed.

  Lemma others_nil_all : forall obj svc sels tagged,
    mapo (target_of g pick obj svc) sels = Some tagged -> others_of svc tagged = [] -> sels_for tagged svc = sels.
  Proof.
    intros obj svc sels tagged Ht Ho. apply tagged_spec in Ht.
    assert (Hall : Forall (fun p => snd p = svc) tagged).
    { apply Forall_forall. intros [n t] Hin. simpl. destruct (String.eqb t svc) eqn:E; [apply String.eqb_eq; exact E|].
      exfalso. assert (Hin' : In t (others_of svc tagged)).
      { unfold others_of. apply sorted_names_In. apply in_map_iff. exists (n, t). split; auto.
        apply filter_In. split; auto. simpl. rewrite E. reflexivity. }
      rewrite Ho in Hin'. contradiction. }
    unfold sels_for.
    assert (Hf : filter (fun p : node * string => String.eqb (snd p) svc) tagged = tagged).
    { clear -Hall. induction Hall as [|p t Hp _ IH]; [reflexivity|]. simpl. rewrite Hp, String.eqb_refl, IH. reflexivity. }
    rewrite Hf. clear -Ht. induction Ht as [|x p sels tagged [Hx _] _ IH]; [reflexivity|]. simpl. rewrite Hx, IH. reflexivity.
  Qed.

  Lemma in_others : forall svc tagged n t, In (n, t) tagged -> t <> svc -> In t (others_of svc tagged).
  Proof.
    intros svc tagged n t Hin Hne. unfold others_of. apply sorted_names_In. apply in_map_iff. exists (n, t). split; auto.
    apply filter_In. split; auto. simpl. apply negb_true_iff. apply String.eqb_neq. exact Hne.
  Qed.

  Lemma others_not_svc : forall svc tagged o, In o (others_of svc tagged) -> o <> svc.
  Proof.
    intros svc tagged o Hin. unfold others_of in Hin. apply (proj1 (sorted_names_In _ _)) in Hin.
    apply in_map_iff in Hin as [[n t] [Ht Hin]]. simpl in Ht. subst t. apply filter_In in Hin as [_ Hne]. simpl in Hne.
    apply negb_true_iff in Hne. apply String.eqb_neq in Hne. exact Hne.
  Qed.

  Lemma others_fkeys : forall obj svc sels tagged o,
    mapo (target_of g pick obj svc) sels = Some tagged -> obj <> "Query" -> obj <> "Leaf" ->
    In o (others_of svc tagged) -> In "id" (fkeys_of g obj o).
  Proof.
    intros obj svc sels tagged o Ht Hq Hnl Hin. pose proof (others_not_svc _ _ _ Hin) as Hne.
    unfold others_of in Hin. apply (proj1 (sorted_names_In _ _)) in Hin.
    apply in_map_iff in Hin as [[n t] [Hto Hin]]. simpl in Hto. subst t. apply filter_In in Hin as [Hin _].
    assert (Hs : In n (sels_for tagged o)).
    { unfold sels_for. apply in_map_iff. exists (n, o). split; auto. apply filter_In. split; auto. simpl. apply String.eqb_refl. }
    destruct (sels_for_in _ _ _ _ _ _ Ht Hs) as [_ Htar].
    destruct (target_of_spec g pick pick_sound _ _ _ _ _ Htar) as [_ [al [nm [args [ak [dirs [hs [subs [-> Hcase]]]]]]]]].
    destruct Hcase as [[_ Hx]|[rty [owners [Hf Hown]]]]; [congruence|].
    destruct fed_ok2_parts as [Ha _]. eapply Ha; eauto.
  Qed.

  Lemma planned_aliases : forall fuel obj svc locs planned,
    Forall2 (fun n p => child_plan g pick fuel obj svc n = Some p) locs planned ->
    Forall2 (fun n p => exists al nm args ak dirs hs subs hs' cs,
               n = NField al nm args ak dirs hs subs /\ fst p = NField al nm args ak [] hs' cs) locs planned.
  Proof.
    intros fuel obj svc locs planned HF. induction HF as [|n p locs planned Hc _ IH]; constructor; auto.
    destruct n as [al nm args ak dirs hs subs|]; [|discriminate]. cbn [child_plan] in Hc.
    destruct hs.
    - destruct (if String.eqb nm "__typename" then Some RScalar else option_map fst (find_gfield g obj nm)) as [t|]; [|discriminate].
      destruct (plan_ty g pick fuel t subs svc) as [[cs cafters]|]; [|discriminate]. inversion Hc; subst p.
      exists al, nm, args, ak, dirs, true, subs, true, cs. auto.
    - inversion Hc; subst p. exists al, nm, args, ak, dirs, false, subs, false, []. auto.
  Qed.

  Lemma concat_exts_spec : forall obj svc sels tagged id others exts,
    mapo (target_of g pick obj svc) sels = Some tagged -> NoDup (map n_alias sels) -> NoDup others ->
    Forall2 (fun o kvs => post w g obj id (sels_for tagged o) false kvs) others exts ->
    NoDup (map fst (List.concat exts)) /\
    (forall k, In k (map fst (List.concat exts)) <-> exists o n, In o others /\ In n (sels_for tagged o) /\ n_alias n = k) /\
    (forall o n, In o others -> In n (sels_for tagged o) ->
       exists v, lookup (n_alias n) (List.concat exts) = Some v /\ simv v (nval w g (annot n) obj id)).
  Proof.
    intros obj svc sels tagged id others exts Ht Hnds Hnd HF.
    induction HF as [|o kvs others exts Hpost _ IH].
    - simpl. split; [constructor|]. split; [split; [intros [] | intros [o [n [[] _]]]] | intros o n []].
    - inversion Hnd as [|? ? Hno Hnd']; subst. destruct (IH Hnd') as [IH1 [IH2 IH3]].
      destruct Hpost as [P1 [P2 P3]]. simpl List.concat. rewrite map_app.
      assert (Hkeys_o : forall k, In k (map fst kvs) <-> exists n, In n (sels_for tagged o) /\ n_alias n = k).
      { intros k. rewrite P2. split.
        - intros [Hin|[Hx _]]; [|discriminate]. apply in_map_iff in Hin as [n [Hn Hin]]. eauto.
        - intros [n [Hin Hn]]. left. subst k. apply in_map; exact Hin. }
      split; [|split].
      + apply NoDup_app_intro; auto. intros k Hk Hk2. apply Hkeys_o in Hk as [n [Hn Hkn]]. apply IH2 in Hk2 as [o2 [m [Ho2 [Hm Hkm]]]].
        assert (Hne : o <> o2) by (intros ->; contradiction).
        apply (groups_disjoint _ _ _ _ _ _ _ _ Ht Hnds Hne Hn Hm). congruence.
      + intros k. rewrite in_app_iff, Hkeys_o, IH2. split.
        * intros [[n [Hn Hk]]|[o2 [n [Ho2 [Hn Hk]]]]]; [exists o, n | exists o2, n]; simpl; auto.
        * intros [o2 [n [[<-|Ho2] [Hn Hk]]]]; [left; eauto | right; eauto].
      + intros o2 n [<-|Ho2] Hn.
        * destruct (P3 n Hn) as [v [Hl Hs]]. exists v. split; auto. rewrite lookup_app, Hl. reflexivity.
        * destruct (IH3 o2 n Ho2 Hn) as [v [Hl Hs]]. exists v. split; auto. rewrite lookup_app.
          assert (Hnone : lookup (n_alias n) kvs = None).
          { apply lookup_none_notin. intros Hin. apply Hkeys_o in Hin as [m [Hm Hk]].
            assert (Hne : o <> o2) by (intros ->; contradiction).
            apply (groups_disjoint _ _ _ _ _ _ _ _ Ht Hnds Hne Hm Hn). exact Hk. }
          rewrite Hnone. exact Hl.
  Qed.

  Lemma node_alias_facts : forall obj sels n, forallb (node_ok g (RObj obj)) sels = true -> In n sels ->
    n_alias n <> federation_field /\ n_alias n <> "__key" /\ is_field n = true.
  Proof.
    intros obj sels n H Hin. eapply forallb_forall in H; [|exact Hin].
    destruct n as [al nm args ak dirs hs subs|]; [|discriminate]. cbn [node_ok] in H.
    apply andb_prop in H as [H _]. apply andb_prop in H as [Hal _].
    destruct (alias_ok_parts _ _ Hal) as [H1 [H2 _]]. auto.
  Qed.

  (** the object level: planObject's split, its key selection and its sub-plans reproduce the selection set *)
  Theorem S_step : forall fuel, V_stmt w g pick fuel -> S_stmt w g pick fuel -> S_stmt w g pick (S fuel).
  Proof.
    intros fuel HV HS obj sels svc ss afters Hpln Hflat Hloc Hnl id pre Hpre.
    destruct (plan_obj_inv g pick fuel obj sels svc ss afters Hpln) as [tagged [planned [oplans [Ht [Hp [Ho Hcase]]]]]].
    pose proof Hflat as Hflat'. unfold flat_ok in Hflat'. apply andb_prop in Hflat' as [Hnd0 Hnok].
    rewrite (filter_included_all obj sels Hnok) in Ht.
    assert (Hnds : NoDup (map n_alias sels)) by (apply nodup_str_NoDup; exact Hnd0).
    pose proof (mapo_Forall2 _ _ _ Hp) as Fp.
    pose proof (forallb_sels_for _ _ _ _ svc _ Ht Hnok) as Hlocs_ok.
    pose proof (sels_for_nodup _ _ _ _ svc Ht Hnds) as Hlocs_nd.
    pose proof (sels_for_local _ _ _ _ svc Ht) as Hlocs_local.
    destruct Hpre as [[pre' Hpre1] [Hpre2 Hpre3]].
    assert (Hpre_none : forall n, In n sels -> lookup (n_alias n) pre = None).
    { intros n Hn. apply lookup_none_notin. intros Hin. apply Hpre2 in Hin as [Hx _]. apply Hx. apply in_map; exact Hn. }
    assert (HA : forall n, In n (sels_for tagged svc) -> lookup (n_alias n) pre = None).
    { intros n Hn. apply Hpre_none. apply (sels_for_in _ _ _ _ _ _ Ht Hn). }
    destruct Hcase as [[Hoth [-> ->]]|[Hoth [Hhalf [-> Hfedsel]]]].
    - (* everything stays with this service *)
      destruct (phase1 fuel HV obj svc id _ _ Fp Hlocs_ok Hlocs_nd Hlocs_local pre [] HA) as [kvs1 [Hrun HF1]].
      rewrite !app_nil_r in Hrun. exists kvs1, false. split; [exact Hrun|]. split; [|auto].
      rewrite (others_nil_all _ _ _ _ Ht Hoth) in *.
      destruct (forall2_locs _ _ _ _ HF1 Hnds) as [Hk Hv].
      split; [rewrite Hk; exact Hnds|]. split; [|exact Hv].
      intros k. rewrite Hk. split; [auto | intros [H|[Hx _]]; [exact H | discriminate]].
    - (* some selections go to other services *)
      assert (Hq : obj <> "Query").
      { destruct Hloc as [Hq|Hl]; [exact Hq|]. exfalso. apply Hoth. apply (local_all_split _ _ _ _ Ht Hl). }
      (* the key selection is added *)
      assert (Hnofed : existsb is_fed_sel (map fst planned) = false).
      { pose proof (planned_aliases _ _ _ _ _ Fp) as Hpa. clear -Hpa Hlocs_ok.
        induction Hpa as [|n p locs planned Hn _ IH]; [reflexivity|]. simpl in Hlocs_ok. apply andb_prop in Hlocs_ok as [Hok1 Hok2'].
        simpl. rewrite (IH Hok2'), orb_false_r.
        destruct Hn as [al [nm [args [ak [dirs [hs [subs [hs' [cs [-> Hp]]]]]]]]]]. rewrite Hp. simpl.
        cbn [node_ok] in Hok1. apply andb_prop in Hok1 as [Hok1 _]. apply andb_prop in Hok1 as [Hal _].
        destruct (alias_ok_parts _ _ Hal) as [H1 _]. apply String.eqb_neq in H1. rewrite H1. reflexivity. }
      destruct Hfedsel as [[Hx _]|[_ ->]]; [congruence|].
      set (others := others_of svc tagged) in *.
      set (ks := sorted_names (List.concat (map (fkeys_of g obj) others))).
      set (Kobj := JObj (key_kv K obj id ++ key_entries obj id ks)).
      rewrite evs_app. change (evs EV [key_selection g obj others] obj id) with (EV (key_selection g obj others) obj id ++ []).
      rewrite ev_key_selection. fold ks. fold Kobj. rewrite app_nil_r.
      destruct (phase1 fuel HV obj svc id _ _ Fp Hlocs_ok Hlocs_nd Hlocs_local pre [(federation_field, Kobj)] HA) as [kvs1 [Hrun HF1]].
      rewrite RA_app, Hrun.
      destruct (forall2_locs _ _ _ _ HF1 Hlocs_nd) as [Hk1 Hv1].
      pose proof (mapo_Forall2 _ _ _ Ho) as Fo.
      assert (Hfk : forall o, In o others -> In "id" (fkeys_of g obj o)) by (intros o Hin; eapply others_fkeys; eauto).
      assert (Hid : In "id" ks).
      { destruct others as [|o1 orest] eqn:Eo; [contradiction|]. unfold ks. apply sorted_names_In. apply in_concat.
        exists (fkeys_of g obj o1). split; [left; reflexivity | apply Hfk; left; reflexivity]. }
      assert (Hfed_kvs1 : lookup federation_field kvs1 = None).
      { apply lookup_none_notin. rewrite Hk1. intros Hin. apply in_map_iff in Hin as [n [Hn Hin]].
        destruct (sels_for_in _ _ _ _ _ _ Ht Hin) as [Hin' _].
        destruct (node_alias_facts _ _ _ Hnok Hin') as [Hx _]. contradiction. }
      assert (Hfed_pre : lookup federation_field pre = None).
      { apply lookup_none_notin. intros Hin. apply Hpre2 in Hin as [_ Hx]. congruence. }
      destruct (phase2 fuel HS obj svc sels tagged id ks Ht Hflat Hq Hnl Hid others oplans Fo (sorted_names_NoDup _) Hfk
                  (pre ++ kvs1 ++ [(federation_field, Kobj)])) as [exts [Hrun2 HF2]].
      + rewrite !lookup_app, Hfed_pre, Hfed_kvs1. cbn [lookup]. rewrite String.eqb_refl. reflexivity.
      + intros Hk. rewrite Hpre1, <- app_assoc, lookup_app. unfold key_kv. rewrite Hk. reflexivity.
      + intros o n Ho' Hn. destruct (sels_for_in _ _ _ _ _ _ Ht Hn) as [Hin' _].
        rewrite !lookup_app, (Hpre_none n Hin').
        assert (H1 : lookup (n_alias n) kvs1 = None).
        { apply lookup_none_notin. rewrite Hk1. intros Hin. apply in_map_iff in Hin as [m [Hm Hin]].
          pose proof (others_not_svc _ _ _ Ho') as Hne.
          apply (groups_disjoint _ _ _ _ _ _ _ _ Ht Hnds Hne Hn Hin). congruence. }
        rewrite H1. cbn [lookup]. destruct (node_alias_facts _ _ _ Hnok Hin') as [Hx _].
        apply String.eqb_neq in Hx. rewrite Hx. reflexivity.
      + rewrite Hrun2. exists (kvs1 ++ [(federation_field, Kobj)] ++ List.concat exts), true.
        split; [rewrite <- !app_assoc; reflexivity|]. split; [|intros Hl; exfalso; apply Hoth; apply (local_all_split _ _ _ _ Ht Hl)].
        destruct (concat_exts_spec _ _ _ _ id _ _ Ht Hnds (sorted_names_NoDup _) HF2) as [E1 [E2 E3]].
        assert (Hgroup : forall n, In n sels -> In n (sels_for tagged svc) \/ exists o, In o others /\ In n (sels_for tagged o)).
        { intros n Hn. destruct (in_sels_tagged _ _ _ _ _ Ht Hn) as [t [Hin Hs]].
          destruct (string_dec t svc) as [->|Hne]; [left; exact Hs | right; exists t; split; [eapply in_others; eauto | exact Hs]]. }
        split; [|split].
        * (* distinct keys *)
          rewrite !map_app. apply NoDup_app_intro.
          -- rewrite Hk1; exact Hlocs_nd.
          -- simpl. constructor; [|exact E1]. intros Hin. apply E2 in Hin as [o [n [Ho' [Hn Hk]]]].
             destruct (sels_for_in _ _ _ _ _ _ Ht Hn) as [Hin' _]. destruct (node_alias_facts _ _ _ Hnok Hin') as [Hx _]. congruence.
          -- intros k Hk Hk2. rewrite Hk1 in Hk. apply in_map_iff in Hk as [m [Hm Hmin]]. simpl in Hk2. destruct Hk2 as [Hk2|Hk2].
             ++ subst k. destruct (sels_for_in _ _ _ _ _ _ Ht Hmin) as [Hin' _]. destruct (node_alias_facts _ _ _ Hnok Hin') as [Hx _]. congruence.
             ++ apply E2 in Hk2 as [o [n [Ho' [Hn Hkn]]]]. pose proof (others_not_svc _ _ _ Ho') as Hne.
                apply (groups_disjoint _ _ _ _ _ _ _ _ Ht Hnds Hne Hn Hmin). congruence.
        * (* the key set *)
          intros k. rewrite !map_app, !in_app_iff, Hk1. simpl. rewrite E2. split.
          -- intros [Hin|[[Hx|[]]|[o [n [Ho' [Hn Hk]]]]]].
             ++ left. apply in_map_iff in Hin as [n [Hn Hin]]. subst k. apply in_map. apply (sels_for_in _ _ _ _ _ _ Ht Hin).
             ++ right. auto.
             ++ left. subst k. apply in_map. apply (sels_for_in _ _ _ _ _ _ Ht Hn).
          -- intros [Hin|[_ ->]]; [|right; left; left; reflexivity].
             apply in_map_iff in Hin as [n [Hn Hin]]. subst k. destruct (Hgroup n Hin) as [Hl|[o [Ho' Hs]]].
             ++ left. apply in_map; exact Hl.
             ++ right. right. exists o, n. auto.
        * (* the values *)
          intros n Hn. destruct (Hgroup n Hn) as [Hl|[o [Ho' Hs]]].
          -- destruct (Hv1 n Hl) as [v [Hlk Hs]]. exists v. split; auto. rewrite lookup_app, Hlk. reflexivity.
          -- destruct (E3 o n Ho' Hs) as [v [Hlk Hsv]]. exists v. split; auto. rewrite !lookup_app.
             assert (H1 : lookup (n_alias n) kvs1 = None).
             { apply lookup_none_notin. rewrite Hk1. intros Hin. apply in_map_iff in Hin as [m [Hm Hin]].
               pose proof (others_not_svc _ _ _ Ho') as Hne.
               apply (groups_disjoint _ _ _ _ _ _ _ _ Ht Hnds Hne Hs Hin). congruence. }
             rewrite H1. cbn [lookup app]. destruct (node_alias_facts _ _ _ Hnok Hn) as [Hx _]. apply String.eqb_neq in Hx. rewrite Hx. exact Hlk.
  Qed.

  (** ** the union level *)
  Definition frag_plan (fuel : nat) (svc : string) (n : node) : option (node * list plan) :=
    match n with
    | NFrag on _ body =>
        match plan_ty g pick fuel (RObj on) body svc with
        | None => None
        | Some (cs, cafters) => Some (NFrag on [] cs, map (push_step (SType on)) cafters)
        end
    | NField _ _ _ _ _ _ _ => None
    end.

  Definition all_frags (l : list node) : Prop := Forall (fun n => is_field n = false) l.

  Lemma all_frags_ok : forall u l, forallb (node_ok g (RUnion u)) l = true -> all_frags l.
  Proof.
    intros u l H. apply Forall_forall. intros n Hn. eapply forallb_forall in H; eauto. destruct n; [simpl in H; discriminate | reflexivity].
  Qed.

  Lemma all_frags_filters : forall l, all_frags l -> fields_of l = [] /\ frags_of l = l.
  Proof.
    intros l H. induction H as [|n t Hn _ [IH1 IH2]]; [split; reflexivity|]. unfold fields_of, frags_of in *. simpl. rewrite Hn. simpl.
    rewrite IH1, IH2. split; reflexivity.
  Qed.

  Lemma plan_union_inv : forall fuel u sels svc cs cafters,
    plan_ty g pick (S fuel) (RUnion u) sels svc = Some (cs, cafters) -> all_frags sels ->
    exists planned, mapo (frag_plan fuel svc) sels = Some planned /\
                    cs = tn_sel :: map fst planned /\ cafters = List.concat (map snd planned).
  Proof.
    intros fuel u sels svc cs cafters H Hf. destruct (all_frags_filters _ Hf) as [F1 F2]. simpl in H.
    destruct (union_members g u) as [ms|]; [|discriminate].
    match type of H with (if ?c then _ else _) = _ => destruct c; [discriminate|] end.
    rewrite F1, F2 in H.
    destruct (negb (nodup_str (map n_alias sels))); [discriminate|].
    destruct (negb (forallb (fun n => existsb (String.eqb (n_alias n)) ms) sels)); [discriminate|].
    fold (frag_plan fuel svc) in H.
    destruct (mapo (frag_plan fuel svc) sels) as [planned|]; [|discriminate].
    exists planned. inversion H; subst. auto.
  Qed.

  Lemma pick_gen_skip : forall all t i l r,
    (forall n, In n l -> match n with NFrag on _ _ => on <> t | _ => True end) ->
    pick_gen K EV all t i (l ++ r) = pick_gen K EV all t i r.
  Proof.
    intros all t i l r H. induction l as [|n l' IH]; [reflexivity|]. simpl app.
    assert (IH' : pick_gen K EV all t i (l' ++ r) = pick_gen K EV all t i r) by (apply IH; intros m Hm; apply H; right; exact Hm).
    destruct n as [al nm args ak dirs hs subs|on dirs body]; cbn [pick_gen]; [exact IH'|].
    pose proof (H _ (or_introl eq_refl)) as Hne. simpl in Hne. apply String.eqb_neq in Hne. rewrite Hne. exact IH'.
  Qed.

  (** the blocks of sub-plans of the other members leave an object of member [t] alone *)
  Lemma RA_other_members : forall fuel svc t l planned L,
    Forall2 (fun n p => frag_plan fuel svc n = Some p) l planned ->
    (forall n, In n l -> n_alias n <> t) ->
    lookup "__typename" L = Some (JStr t) ->
    RA (List.concat (map snd planned)) (JObj L) = Some (JObj L).
  Proof.
    intros fuel svc t l planned L HF. induction HF as [|n p l planned Hp _ IH]; intros Hne Hl; [reflexivity|].
    simpl. rewrite RA_app.
    destruct n as [|on dirs body]; [discriminate|]. cbn [frag_plan] in Hp.
    destruct (plan_ty g pick fuel (RObj on) body svc) as [[cs cafters]|]; [|discriminate]. inversion Hp; subst p. cbn [snd].
    rewrite (RA_lift_type w g on cafters L t Hl).
    assert (E : String.eqb t on = false).
    { apply String.eqb_neq. intros ->. apply (Hne _ (or_introl eq_refl)). reflexivity. }
    rewrite E. apply IH; auto. intros m Hm. apply Hne. right; exact Hm.
  Qed.

  Lemma pushed_eval : forall (body : list node) t i rest,
    Forall (fun n => is_field n = false) rest ->
    flat_map (fun x => if is_field x && negb (existsb (String.eqb (n_alias x)) (map n_alias body)) then EV x t i else [])
             (tn_sel :: rest) =
    if existsb (String.eqb "__typename") (map n_alias body) then [] else [("__typename", JStr t)].
  Proof.
    intros body t i rest Hr. cbn [flat_map].
    assert (H0 : flat_map (fun x => if is_field x && negb (existsb (String.eqb (n_alias x)) (map n_alias body)) then EV x t i else []) rest = []).
    { induction Hr as [|n r Hn _ IH]; [reflexivity|]. simpl. rewrite Hn. simpl. exact IH. }
    rewrite H0, app_nil_r. unfold tn_sel. cbn [is_field n_alias andb].
    destruct (existsb (String.eqb "__typename") (map n_alias body)); reflexivity.
  Qed.

  Lemma planned_fst_aliases : forall fuel obj svc locs planned,
    Forall2 (fun n p => child_plan g pick fuel obj svc n = Some p) locs planned ->
    map n_alias (map fst planned) = map n_alias locs /\ all_fields (map fst planned).
  Proof.
    intros fuel obj svc locs planned HF. apply planned_aliases in HF.
    induction HF as [|n p locs planned Hn _ [IH1 IH2]]; [split; [reflexivity | constructor]|].
    destruct Hn as [al [nm [args [ak [dirs [hs [subs [hs' [cs [-> Hp]]]]]]]]]]. simpl. rewrite Hp, IH1. simpl.
    split; [reflexivity | constructor; [reflexivity | exact IH2]].
  Qed.

  (** a __typename selection always stays with the service that is being planned for, so the planned
      selection set answers alias "__typename" iff the selection set does -- with the type name *)
  Lemma typename_local : forall fuel obj body svc cs cafters id,
    plan_ty g pick fuel (RObj obj) body svc = Some (cs, cafters) -> flat_ok g obj body = true ->
    existsb (String.eqb "__typename") (map n_alias cs) = existsb (String.eqb "__typename") (map n_alias body) /\
    (existsb (String.eqb "__typename") (map n_alias body) = true ->
     lookup "__typename" (evs EV cs obj id) = Some (JStr obj)).
  Proof.
    intros fuel obj body svc cs cafters id Hpl Hflat. destruct fuel as [|fuel]; [discriminate|].
    destruct (plan_obj_inv g pick fuel obj body svc cs cafters Hpl) as [tagged [planned [oplans [Ht [Hp [Ho Hcase]]]]]].
    pose proof Hflat as Hflat'. unfold flat_ok in Hflat'. apply andb_prop in Hflat' as [Hnd0 Hnok].
    rewrite (filter_included_all obj body Hnok) in Ht.
    assert (Hnds : NoDup (map n_alias body)) by (apply nodup_str_NoDup; exact Hnd0).
    pose proof (mapo_Forall2 _ _ _ Hp) as Fp.
    destruct (planned_fst_aliases _ _ _ _ _ Fp) as [Hal Hfields].
    pose proof (sels_for_nodup _ _ _ _ svc Ht Hnds) as Hlocs_nd.
    (* the aliases of cs: those of the local selections, plus possibly _federation *)
    assert (Hcs : exists tail, cs = map fst planned ++ tail /\
                               (tail = [] \/ tail = [key_selection g obj (others_of svc tagged)])).
    { destruct Hcase as [[_ [-> _]]|[_ [_ [_ [[_ ->]|[_ ->]]]]]].
      - exists []. rewrite app_nil_r. auto.
      - exists []. rewrite app_nil_r. auto.
      - exists [key_selection g obj (others_of svc tagged)]. auto. }
    destruct Hcs as [tail [-> Htail]].
    assert (Htn_tail : existsb (String.eqb "__typename") (map n_alias tail) = false /\ lookup "__typename" (evs EV tail obj id) = None).
    { destruct Htail as [->| ->]; [split; reflexivity|]. split; reflexivity. }
    destruct Htn_tail as [Htt1 Htt2].
    (* a selection with alias __typename is the __typename field, a leaf, and is local *)
    assert (Hloc_tn : forall n, In n body -> n_alias n = "__typename" ->
                      In n (sels_for tagged svc) /\
                      exists args ak dirs, n = NField "__typename" "__typename" args ak dirs false []).
    { intros n Hn Ha. eapply forallb_forall in Hnok as Hno; [|exact Hn].
      destruct n as [al nm args ak dirs hs subs|]; [|discriminate]. simpl in Ha. subst al. cbn [node_ok] in Hno.
      apply andb_prop in Hno as [Hno Hno3]. apply andb_prop in Hno as [Halok Hd].
      destruct (alias_ok_parts _ _ Halok) as [_ [_ [_ Htn]]]. pose proof (proj1 Htn eq_refl) as Hnm. subst nm.
      rewrite String.eqb_refl in Hno3. apply andb_prop in Hno3 as [Hhs Hsubs]. apply negb_true_iff in Hhs. subst hs.
      destruct subs; [|discriminate].
      destruct (in_sels_tagged _ _ _ _ _ Ht Hn) as [t0 [Hin Hs]].
      destruct (sels_for_in _ _ _ _ _ _ Ht Hs) as [_ Htar]. simpl in Htar. inversion Htar; subst t0. split; [exact Hs|].
      exists args, ak, dirs. reflexivity. }
    split.
    - rewrite map_app, existsb_app, Htt1, orb_false_r, Hal.
      destruct (existsb (String.eqb "__typename") (map n_alias body)) eqn:E.
      + apply existsb_eqb_In in E. apply in_map_iff in E as [n [Ha Hn]]. destruct (Hloc_tn n Hn Ha) as [Hs _].
        apply existsb_eqb_In. rewrite <- Ha. apply in_map; exact Hs.
      + destruct (existsb (String.eqb "__typename") (map n_alias (sels_for tagged svc))) eqn:E2; [|reflexivity].
        apply existsb_eqb_In in E2. apply in_map_iff in E2 as [n [Ha Hn]].
        destruct (sels_for_in _ _ _ _ _ _ Ht Hn) as [Hn' _].
        assert (Hc : existsb (String.eqb "__typename") (map n_alias body) = true).
        { apply existsb_eqb_In. rewrite <- Ha. apply in_map; exact Hn'. }
        congruence.
    - intros E. apply existsb_eqb_In in E. apply in_map_iff in E as [n [Ha Hn]].
      destruct (Hloc_tn n Hn Ha) as [Hs [args [ak [dirs ->]]]].
      rewrite evs_app, lookup_app.
      set (n' := NField "__typename" "__typename" args ak [] false []).
      assert (Hin' : In n' (map fst planned)).
      { clear -Fp Hs. induction Fp as [|m p locs planned Hm _ IH]; [contradiction|]. destruct Hs as [->|Hs].
        - cbn [child_plan] in Hm. inversion Hm; subst p. left; reflexivity.
        - right. apply IH; exact Hs. }
      change "__typename" with (n_alias n').
      rewrite (lookup_evs w g (map fst planned) obj id n' Hfields); [reflexivity | rewrite Hal; exact Hlocs_nd | exact Hin'].
  Qed.

  Lemma frag_plan_shape : forall fuel svc l planned,
    Forall2 (fun n p => frag_plan fuel svc n = Some p) l planned ->
    all_frags (map fst planned) /\
    forall q, In q (map fst planned) -> exists n cs, In n l /\ q = NFrag (n_alias n) [] cs.
  Proof.
    intros fuel svc l planned HF. induction HF as [|n p l planned Hp _ [IH1 IH2]]; [split; [constructor | intros q []]|].
    destruct n as [|on dirs body]; [discriminate|]. cbn [frag_plan] in Hp.
    destruct (plan_ty g pick fuel (RObj on) body svc) as [[cs cafters]|]; [|discriminate]. inversion Hp; subst p. simpl.
    split; [constructor; [reflexivity | exact IH1]|]. intros q [<-|Hq].
    - exists (NFrag on dirs body), cs. split; [left; reflexivity | reflexivity].
    - destruct (IH2 q Hq) as [n [cs' [Hn Hq']]]. exists n, cs'. split; [right; exact Hn | exact Hq'].
  Qed.

  Lemma simv_str_inv : forall v s, simv v (JStr s) -> v = JStr s.
  Proof. intros v s H. inversion H; reflexivity. Qed.

  Lemma simv_scalar_obj : forall L, Forall (fun kv : string * json => scalar_json (snd kv)) L ->
    lookup federation_field L = None -> simv (JObj L) (JObj L).
  Proof.
    intros L Hs Hn. constructor; [|exact Hn]. intros k _. destruct (lookup k L) as [v|] eqn:El; constructor.
    apply simv_scalar_refl. apply lookup_in in El. rewrite Forall_forall in Hs. apply (Hs _ El).
  Qed.

  (** an object of a member for which the selection has no fragment: the union-level __typename alone *)
  Lemma pick_gen_uncovered : forall rest t i,
    Forall (fun n => is_field n = false) rest -> (forall n, In n rest -> n_alias n <> t) ->
    pick_gen K EV (tn_sel :: rest) t i (tn_sel :: rest) = JObj (key_kv K t i ++ [("__typename", JStr t)]).
  Proof.
    intros rest t i Hr Hne.
    assert (Hsk : pick_gen K EV (tn_sel :: rest) t i ((tn_sel :: rest) ++ []) = pick_gen K EV (tn_sel :: rest) t i []).
    { apply pick_gen_skip. intros n [<-|Hn]; [exact I|]. rewrite Forall_forall in Hr. pose proof (Hr n Hn) as Hf.
      destruct n as [|on dirs body]; [discriminate|]. simpl. apply (Hne _ Hn). }
    rewrite app_nil_r in Hsk. rewrite Hsk. cbn [pick_gen]. rewrite (pushed_eval [] t i rest Hr). cbn [map existsb].
    unfold evs. cbn [flat_map]. rewrite app_nil_r. reflexivity.
  Qed.

  Theorem U_step : forall fuel, S_stmt w g pick fuel -> U_stmt w g pick (S fuel).
  Proof.
    intros fuel HS u subs svc cs cafters Hpl [Hnd [Hok' [ms [Hu Hsne]]]] Hnoq t i [ms' [Hu' Hin]].
    rewrite Hu in Hu'. inversion Hu'; subst ms'. clear Hu'.
    pose proof (all_frags_ok _ _ Hok') as Hfr.
    destruct (plan_union_inv fuel u subs svc cs cafters Hpl Hfr) as [planned [Hp [-> ->]]].
    pose proof (mapo_Forall2 _ _ _ Hp) as Fp.
    destruct (existsb (fun x => String.eqb (n_alias x) t) subs) eqn:Hcov.
    2:{ (* no fragment for member t: both sides render the union-level __typename alone; no sub-plan touches it *)
      assert (Hne : forall n, In n subs -> n_alias n <> t).
      { intros n Hn He. assert (existsb (fun x => String.eqb (n_alias x) t) subs = true); [|congruence].
        apply existsb_exists. exists n. split; [exact Hn | apply String.eqb_eq; exact He]. }
      destruct (frag_plan_shape _ _ _ _ Fp) as [Fr Sh].
      rewrite (pick_gen_uncovered (map fst planned) t i Fr).
      2:{ intros n Hn. destruct (Sh n Hn) as [m [cs' [Hm ->]]]. simpl. apply Hne; exact Hm. }
      rewrite (pick_gen_uncovered (map annot subs) t i).
      2:{ apply Forall_forall. intros n Hn. apply in_map_iff in Hn as [m [<- Hm]]. rewrite annot_is_field.
          unfold all_frags in Hfr. rewrite Forall_forall in Hfr. apply Hfr; exact Hm. }
      2:{ intros n Hn. apply in_map_iff in Hn as [m [<- Hm]]. rewrite annot_alias. apply Hne; exact Hm. }
      assert (Hk0 : lookup "__typename" (key_kv K t i) = None) by (unfold key_kv; destruct (K t); reflexivity).
      rewrite (RA_other_members fuel svc t subs planned _ Fp Hne).
      2:{ rewrite lookup_app, Hk0. reflexivity. }
      eexists. split; [reflexivity|]. apply simv_scalar_obj.
      - apply Forall_app. split; [unfold key_kv; destruct (K t); constructor; [exact I | constructor] | constructor; [exact I | constructor]].
      - rewrite lookup_app. unfold key_kv. destruct (K t); reflexivity. }
    (* the fragment of member t *)
    apply existsb_exists in Hcov as [x [Hx Hxt]]. apply String.eqb_eq in Hxt.
    pose proof Hx as Hx0. unfold all_frags in Hfr. rewrite Forall_forall in Hfr. pose proof (Hfr x Hx) as Hxf.
    destruct x as [|on dirs body]; [discriminate|]. simpl in Hxt. subst on.
    apply in_split in Hx as [l1 [l2 Hsplit]]. subst subs.
    apply Forall2_app_inv_l in Fp as [p1 [p2' [F1 [F2 ->]]]]. inversion F2 as [|? pt ? p2 Hpt F3]; subst. clear F2.
    assert (Hnd' : NoDup (map n_alias (l1 ++ NFrag t dirs body :: l2))) by (apply nodup_str_NoDup; exact Hnd).
    rewrite map_app in Hnd'. simpl in Hnd'.
    assert (Hne1 : forall n, In n l1 -> n_alias n <> t).
    { intros n Hn He. apply NoDup_remove_2 in Hnd'. apply Hnd'. apply in_or_app. left. rewrite <- He. apply in_map; exact Hn. }
    assert (Hne2 : forall n, In n l2 -> n_alias n <> t).
    { intros n Hn He. apply NoDup_remove_2 in Hnd'. apply Hnd'. apply in_or_app. right. rewrite <- He. apply in_map; exact Hn. }
    (* its plan *)
    cbn [frag_plan] in Hpt. destruct (plan_ty g pick fuel (RObj t) body svc) as [[cs_t cafters_t]|] eqn:Ept; [|discriminate].
    inversion Hpt; subst pt. clear Hpt.
    eapply forallb_forall in Hok' as Hxok; [|exact Hx0]. cbn [node_ok] in Hxok. rewrite Hu in Hxok.
    apply andb_prop in Hxok as [Hxok Hbok]. apply andb_prop in Hxok as [Hxok Hbnd]. apply andb_prop in Hxok as [Hxok Hbne].
    apply andb_prop in Hxok as [Hd _]. destruct dirs; [|discriminate].
    assert (Hflat : flat_ok g t body = true) by (unfold flat_ok; rewrite Hbnd, Hbok; reflexivity).
    assert (Htq : t <> "Query") by (intros ->; apply (Hnoq ms Hu Hin)).
    destruct (typename_local fuel t body svc cs_t cafters_t i Ept Hflat) as [Htn1 Htn2].
    (* the object of member t, on both sides *)
    destruct (frag_plan_shape _ _ _ _ F1) as [Fr1 Sh1]. destruct (frag_plan_shape _ _ _ _ F3) as [Fr3 Sh3].
    set (pushed := if existsb (String.eqb "__typename") (map n_alias body) then [] else [("__typename", JStr t)]).
    set (pre := key_kv K t i ++ pushed).
    assert (Hlhs : pick_gen K EV (tn_sel :: map fst (p1 ++ (NFrag t [] cs_t, map (push_step (SType t)) cafters_t) :: p2)) t i
                     (tn_sel :: map fst (p1 ++ (NFrag t [] cs_t, map (push_step (SType t)) cafters_t) :: p2)) =
                   JObj (pre ++ evs EV cs_t t i)).
    { set (all := tn_sel :: map fst (p1 ++ (NFrag t [] cs_t, map (push_step (SType t)) cafters_t) :: p2)).
      assert (Hall : all = (tn_sel :: map fst p1) ++ (NFrag t [] cs_t :: map fst p2)) by (unfold all; rewrite map_app; reflexivity).
      rewrite Hall at 2. rewrite pick_gen_skip.
      - cbn [pick_gen]. rewrite String.eqb_refl. unfold all. rewrite pushed_eval.
        + rewrite Htn1. unfold pre, pushed. rewrite <- app_assoc. reflexivity.
        + rewrite map_app. apply Forall_app. split; [exact Fr1 | constructor; [reflexivity | exact Fr3]].
      - intros n [<-|Hn]; [exact I|]. destruct (Sh1 n Hn) as [m [cs' [Hm ->]]]. apply Hne1; exact Hm. }
    assert (Hrhs : pick_gen K EV (tn_sel :: map annot (l1 ++ NFrag t [] body :: l2)) t i
                     (tn_sel :: map annot (l1 ++ NFrag t [] body :: l2)) =
                   JObj (pre ++ evs EV (map annot body) t i)).
    { set (all := tn_sel :: map annot (l1 ++ NFrag t [] body :: l2)).
      assert (Hall : all = (tn_sel :: map annot l1) ++ (NFrag t [] (map annot body) :: map annot l2)) by (unfold all; rewrite map_app; reflexivity).
      rewrite Hall at 2. rewrite pick_gen_skip.
      - cbn [pick_gen]. rewrite String.eqb_refl. unfold all. rewrite pushed_eval.
        + rewrite map_annot_aliases. unfold pre, pushed. rewrite <- app_assoc. reflexivity.
        + apply Forall_forall. intros n Hn. apply in_map_iff in Hn as [m [<- Hm]]. rewrite annot_is_field. apply Hfr.
          apply in_app_or in Hm as [Hm|[<-|Hm]]; apply in_or_app; [left | right; left | right; right]; auto.
      - intros n [<-|Hn]; [exact I|]. apply in_map_iff in Hn as [m [<- Hm]]. pose proof (Hne1 m Hm) as Hne.
        destruct m as [|on' d' b']; [exact I|]. simpl. exact Hne. }
    rewrite Hlhs, Hrhs.
    (* run the sub-plans: other members' blocks do nothing, member t's block is the object-level statement *)
    assert (Hpre : pre_ok g pre t i body).
    { split; [exists pushed; reflexivity|]. split.
      - intros k Hk. unfold pre in Hk. rewrite map_app in Hk. apply in_app_or in Hk as [Hk|Hk].
        + unfold key_kv in Hk. destruct (K t); [|contradiction]. destruct Hk as [<-|[]]. split; [|discriminate].
          intros Hi. apply in_map_iff in Hi as [n [Hn Hi]]. destruct (node_alias_facts _ _ _ Hbok Hi) as [_ [H2 _]]. simpl in Hn. congruence.
        + unfold pushed in Hk. destruct (existsb (String.eqb "__typename") (map n_alias body)) eqn:E; [contradiction|].
          destruct Hk as [<-|[]]. split; [|discriminate]. intros Hi. apply (proj2 (existsb_eqb_In _ _)) in Hi. simpl fst in Hi. congruence.
      - unfold pre, pushed, key_kv. apply Forall_app. split.
        + destruct (K t); constructor; [exact I | constructor].
        + destruct (existsb (String.eqb "__typename") (map n_alias body)); constructor; [exact I | constructor]. }
    assert (Htl : t <> "Leaf") by (intros ->; apply (plain_not_member g Hplain u ms Hu Hin)).
    destruct (HS t body svc cs_t cafters_t Ept Hflat (or_introl Htq) Htl i pre Hpre) as [kvs [fed [Hrun [Hpost _]]]].
    assert (Htn_init : lookup "__typename" (pre ++ evs EV cs_t t i) = Some (JStr t)).
    { unfold pre, pushed. rewrite <- app_assoc, !lookup_app.
      assert (Hk : lookup "__typename" (key_kv K t i) = None) by (unfold key_kv; destruct (K t); reflexivity).
      rewrite Hk. destruct (existsb (String.eqb "__typename") (map n_alias body)) eqn:E; [|reflexivity].
      simpl. apply Htn2; reflexivity. }
    assert (Htn_fin : lookup "__typename" (pre ++ kvs) = Some (JStr t)).
    { unfold pre, pushed. rewrite <- app_assoc, !lookup_app.
      assert (Hk : lookup "__typename" (key_kv K t i) = None) by (unfold key_kv; destruct (K t); reflexivity).
      rewrite Hk. destruct (existsb (String.eqb "__typename") (map n_alias body)) eqn:E; [|reflexivity].
      simpl. apply existsb_eqb_In in E. apply in_map_iff in E as [n [Ha Hn]].
      destruct Hpost as [_ [_ Hvals]]. destruct (Hvals n Hn) as [v [Hl Hs]]. rewrite Ha in Hl. rewrite Hl. f_equal.
      apply simv_str_inv.
      eapply forallb_forall in Hbok as Hno; [|exact Hn]. destruct n as [al nm args ak dirs hs sb|]; [|discriminate].
      simpl in Ha. subst al. cbn [node_ok] in Hno. apply andb_prop in Hno as [Hno _]. apply andb_prop in Hno as [Halok _].
      destruct (alias_ok_parts _ _ Halok) as [_ [_ [_ Htn]]]. pose proof (proj1 Htn eq_refl) as Hnm. subst nm.
      rewrite nval_annot in Hs. unfold fval_gen in Hs. rewrite String.eqb_refl in Hs. exact Hs. }
    rewrite map_app. cbn [map snd]. rewrite concat_app. cbn [List.concat]. rewrite !RA_app.
    rewrite (RA_other_members fuel svc t l1 p1 _ F1 Hne1 Htn_init). rewrite RA_app.
    rewrite (RA_lift_type w g t cafters_t _ t Htn_init), String.eqb_refl, Hrun.
    rewrite (RA_other_members fuel svc t l2 p2 _ F3 Hne2 Htn_fin).
    eexists. split; [reflexivity|].
    destruct Hpre as [_ [Hp2 Hp3]].
    apply (post_simv w g t i body fed kvs pre Hpost (all_fields_ok g _ _ Hbok) (proj1 (nodup_str_NoDup _) Hbnd)); auto.
    intros n Hn. apply (node_alias_facts _ _ _ Hbok Hn).
  Qed.

  (** values: null, lists, objects (the object statement) and union members (the union statement) *)
  (** the plain object: the entries of its rendering depend on (alias, name) of the selections only *)
  Definition al_nm (n : node) : string * string :=
    match n with NField al nm _ _ _ _ _ => (al, nm) | NFrag on _ _ => (on, "") end.

  Lemma leaf_obj_ext : forall val tag a b, map al_nm a = map al_nm b -> leaf_obj val tag a = leaf_obj val tag b.
  Proof.
    intros val tag a. induction a as [|x a IH]; intros [|y b] H; simpl in H; try discriminate; [reflexivity|].
    inversion H as [[Hxy Hrest]]. unfold leaf_obj in *. cbn [map List.concat]. f_equal. f_equal.
    - destruct x as [al nm ? ? ? ? ?|]; destruct y as [al' nm' ? ? ? ? ?|]; simpl in Hxy; inversion Hxy; subst; try reflexivity.
    - specialize (IH b Hrest). inversion IH. reflexivity.
  Qed.

  Lemma leaf_obj_simv : forall val tag sels, (forall n, In n sels -> n_alias n <> federation_field) ->
    simv (leaf_obj val tag sels) (leaf_obj val tag sels).
  Proof.
    intros val tag sels Hnf. unfold leaf_obj. constructor.
    - intros k. destruct (lookup k _) as [v|] eqn:El; [|constructor]. constructor. apply simv_scalar_refl.
      apply lookup_in in El. apply in_concat in El as [l [Hl Hin]]. apply in_map_iff in Hl as [n [<- Hn]].
      destruct n as [al nm ? ? ? ? ?|]; [|contradiction].
      destruct (String.eqb nm "val"); [destruct Hin as [He|[]]; inversion He; exact I|].
      destruct (String.eqb nm "tag"); [destruct Hin as [He|[]]; inversion He; exact I|].
      destruct (String.eqb nm "__typename"); [destruct Hin as [He|[]]; inversion He; exact I | contradiction].
    - apply lookup_none_notin. intros Hin. apply in_map_iff in Hin as [[k v] [Hk Hin]]. simpl in Hk. subst k.
      apply in_concat in Hin as [l [Hl Hin]]. apply in_map_iff in Hl as [n [<- Hn]].
      destruct n as [al nm ? ? ? ? ?|]; [|contradiction]. specialize (Hnf _ Hn). simpl in Hnf.
      destruct (String.eqb nm "val"); [destruct Hin as [He|[]]; inversion He; congruence|].
      destruct (String.eqb nm "tag"); [destruct Hin as [He|[]]; inversion He; congruence|].
      destruct (String.eqb nm "__typename"); [destruct Hin as [He|[]]; inversion He; congruence | contradiction].
  Qed.

  (** planObject on the plain object, all of whose fields the service serves: the selections, no sub-plan *)
  Lemma leaf_plan : forall fuel subs svc cs cafters,
    plan_ty g pick fuel (RObj "Leaf") subs svc = Some (cs, cafters) ->
    forallb (node_ok g (RObj "Leaf")) subs = true -> local_all g pick svc "Leaf" subs ->
    cafters = [] /\ map al_nm cs = map al_nm subs.
  Proof.
    intros fuel subs svc cs cafters Hpl Hok' Hloc. destruct fuel as [|fuel]; [discriminate|].
    destruct (plan_obj_inv g pick fuel "Leaf" subs svc cs cafters Hpl) as [tagged [planned [oplans [Ht [Hp [Ho Hcase]]]]]].
    rewrite (filter_included_all "Leaf" subs Hok') in Ht.
    destruct (local_all_split _ _ _ _ Ht Hloc) as [Hoth Hsf]. rewrite Hsf in Hp.
    destruct Hcase as [[_ [-> ->]]|[Hne _]]; [|contradiction].
    apply mapo_Forall2 in Hp. clear -Hp Hok' Hplain.
    induction Hp as [|n p subs planned Hn _ IH]; [split; reflexivity|].
    simpl in Hok'. apply andb_prop in Hok' as [Hn1 Hrest]. destruct (IH Hrest) as [I1 I2].
    destruct n as [al nm args ak dirs hs ss|]; [|discriminate]. cbn [node_ok] in Hn1.
    apply andb_prop in Hn1 as [_ Hn1].
    assert (Hhs : hs = false).
    { destruct (String.eqb nm "__typename"); [apply andb_prop in Hn1 as [Hx _]; destruct hs; [discriminate|reflexivity]|].
      destruct (find_gfield g "Leaf" nm) as [[rty owners]|] eqn:Ef; [|discriminate].
      destruct (plain_fields g Hplain _ _ _ Ef) as [-> _]. apply andb_prop in Hn1 as [Hx _]. destruct hs; [discriminate|reflexivity]. }
    subst hs. cbn [child_plan] in Hn. inversion Hn; subst p. simpl. rewrite I1, I2. split; reflexivity.
  Qed.

  Theorem V_from : forall fuel, S_stmt w g pick fuel -> U_stmt w g pick fuel -> V_stmt w g pick fuel.
  Proof.
    intros fuel HS HU rty subs svc cs cafters Hpl Hsub Hnq Hnqu Hleaf v. induction v using aval_ind'; intros Hv Hsv.
    - exists JNull. split; [apply RA_null | constructor].
    - destruct rty; simpl in Hv; try contradiction. destruct fuel; discriminate.
    - (* an object *)
      destruct rty as [|o|u]; simpl in Hv; try contradiction; [destruct fuel; discriminate|]. destruct Hv as [-> Hol].
      destruct Hsub as [Hnd [Hok' _]].
      assert (Hoq : o <> "Query") by (intros ->; apply Hnq; reflexivity).
      assert (Hflat : flat_ok g o subs = true) by (unfold flat_ok; rewrite Hnd, Hok'; reflexivity).
      assert (Hpre : pre_ok g (key_kv K o i) o i subs).
      { split; [exists []; rewrite app_nil_r; reflexivity|]. split.
        - intros k Hk. unfold key_kv in Hk. destruct (K o); [|contradiction]. destruct Hk as [<-|[]]. split; [|discriminate].
          intros Hi. apply in_map_iff in Hi as [n [Hn Hi]]. destruct (node_alias_facts _ _ _ Hok' Hi) as [_ [H2 _]].
          simpl in Hn. congruence.
        - unfold key_kv. destruct (K o); constructor; [exact I | constructor]. }
      destruct (HS o subs svc cs cafters Hpl Hflat (or_introl Hoq) Hol i _ Hpre) as [kvs [fed [Hrun [Hpost _]]]].
      cbn [render_gen]. unfold obj_gen. rewrite Hrun. eexists. split; [reflexivity|].
      unfold asubs. rewrite (has_frag_fields _ (all_fields_ok g _ _ Hok')).
      destruct Hpre as [_ [Hp2 Hp3]].
      apply (post_simv w g o i subs fed kvs _ Hpost (all_fields_ok g _ _ Hok') (proj1 (nodup_str_NoDup _) Hnd)); auto.
      intros n Hn. apply (node_alias_facts _ _ _ Hok' Hn).
    - (* a union member *)
      destruct rty as [|o|u]; simpl in Hv; try contradiction; [destruct fuel; discriminate|].
      destruct Hv as [ms [Hu Hin]].
      assert (Hhf : has_frag subs = true).
      { destruct Hsub as [_ [Hok' [ms' [Hu' Hsne]]]].
        pose proof (all_frags_ok _ _ Hok') as Hfr. unfold all_frags in Hfr. rewrite Forall_forall in Hfr.
        destruct subs as [|x rest]; [congruence|].
        unfold has_frag. apply existsb_exists. exists x. split; [left; reflexivity | rewrite (Hfr x (or_introl eq_refl)); reflexivity]. }
      unfold asubs. rewrite Hhf. cbn [render_gen].
      apply (HU u subs svc cs cafters Hpl Hsub (fun ms => Hnqu u ms eq_refl) t i). exists ms. auto.
    - (* a list *)
      apply scalars_ok_list in Hsv.
      assert (Hvl : Forall (vok g rty) l).
      { clear -Hv. simpl in Hv. induction l as [|x r IH]; constructor; [apply Hv | apply IH; apply Hv]. }
      assert (Hex : exists ys, Forall2 (fun x y => RA cafters x = Some y) (map (render_gen K EV cs) l) ys /\
                               Forall2 simv ys (map (render_gen K EV (asubs subs)) l)).
      { clear Hv. induction l as [|x r IH]; [exists []; split; constructor|].
        inversion H; subst. inversion Hsv; subst. inversion Hvl; subst.
        destruct (IH H3 H5 H7) as [ys [A B]]. destruct (H2 H6 H4) as [y [Hy Hs]].
        exists (y :: ys). split; constructor; auto. }
      destruct Hex as [ys [A B]]. cbn [render_gen]. exists (JArr ys). split; [apply RA_arr; exact A | constructor; exact B].
    - (* the plain object: every selection stays with the service, no sub-plan below it *)
      destruct rty as [|o|u]; simpl in Hv; try contradiction; [destruct fuel; discriminate|]. subst o.
      destruct Hsub as [Hnd [Hok' _]]. specialize (Hleaf eq_refl).
      destruct (leaf_plan fuel subs svc cs cafters Hpl Hok' Hleaf) as [-> Hcs].
      rewrite RA_nil. eexists. split; [reflexivity|]. cbn [render_gen].
      unfold asubs. rewrite (has_frag_fields _ (all_fields_ok g _ _ Hok')).
      rewrite (leaf_obj_ext v t cs (map annot subs)).
      + apply leaf_obj_simv. intros n Hn. apply in_map_iff in Hn as [m [<- Hm]]. rewrite annot_alias.
        apply (node_alias_facts _ _ _ Hok' Hm).
      + rewrite Hcs. rewrite map_map. apply map_ext. intros [al nm args ak dirs hs ss|on dirs ss]; reflexivity.
  Qed.

  Theorem plan_sem : forall fuel, S_stmt w g pick fuel /\ U_stmt w g pick fuel /\ V_stmt w g pick fuel.
  Proof.
    induction fuel as [|fuel [IS [IU IV]]].
    - assert (HS0 : S_stmt w g pick 0) by (intros obj sels svc ss afters H; discriminate).
      assert (HU0 : U_stmt w g pick 0) by (intros u subs svc cs cafters H; discriminate).
      split; [exact HS0 | split; [exact HU0 | apply V_from; assumption]].
    - pose proof (S_step fuel IV IS) as HS. pose proof (U_step fuel IS) as HU.
      split; [exact HS | split; [exact HU | apply V_from; assumption]].
  Qed.

  (** ** no plan below the root runs on the coordinator *)
  Lemma owner_not_coord : forall obj nm rty owners s,
    find_gfield g obj nm = Some (rty, owners) -> In s owners -> s <> coordinator.
  Proof.
    intros obj nm rty owners s Hf Hin ->. pose proof (ok0_coordinator g Hok obj nm) as H. unfold owns in H. rewrite Hf in H.
    apply (proj2 (existsb_eqb_In _ _)) in Hin. congruence.
  Qed.

  Lemma others_not_coord : forall obj svc sels tagged o,
    mapo (target_of g pick obj svc) sels = Some tagged -> In o (others_of svc tagged) -> o <> coordinator.
  Proof.
    intros obj svc sels tagged o Ht Hin. pose proof (others_not_svc _ _ _ Hin) as Hne.
    unfold others_of in Hin. apply (proj1 (sorted_names_In _ _)) in Hin.
    apply in_map_iff in Hin as [[n t] [Hto Hin]]. simpl in Hto. subst t. apply filter_In in Hin as [Hin _].
    assert (Hs : In n (sels_for tagged o)).
    { unfold sels_for. apply in_map_iff. exists (n, o). split; auto. apply filter_In. split; auto. simpl. apply String.eqb_refl. }
    destruct (sels_for_in _ _ _ _ _ _ Ht Hs) as [_ Htar].
    destruct (target_of_spec g pick pick_sound _ _ _ _ _ Htar) as [_ [al [nm [args [ak [dirs [hs [subs [-> Hcase]]]]]]]]].
    destruct Hcase as [[_ Hx]|[rty [owners [Hf Hown]]]]; [congruence|]. eapply owner_not_coord; eauto.
  Qed.

  Lemma no_coord_push : forall s p, no_coord (push_step s p) = no_coord p.
  Proof. intros s [path svc ty sels after]. reflexivity. Qed.

  Lemma forallb_no_coord_push : forall s l, forallb no_coord (map (push_step s) l) = forallb no_coord l.
  Proof. intros s l. induction l as [|p t IH]; [reflexivity|]. simpl map. cbn [forallb]. rewrite no_coord_push, IH. reflexivity. Qed.

  Lemma plan_no_coord : forall fuel rty sels svc cs afters,
    plan_ty g pick fuel rty sels svc = Some (cs, afters) -> svc <> coordinator -> forallb no_coord afters = true.
  Proof.
    induction fuel as [|fuel IH]; intros rty sels svc cs afters H Hs; [discriminate|].
    destruct rty as [|obj|u]; [discriminate| |].
    - destruct (plan_obj_inv g pick fuel obj sels svc cs afters H) as [tagged [planned [oplans [Ht [Hp [Ho Hcase]]]]]].
      assert (H1 : forallb no_coord (List.concat (map snd planned)) = true).
      { apply mapo_Forall2 in Hp. clear Hcase Ho. induction Hp as [|n p locs planned Hn _ IHp]; [reflexivity|].
        simpl. rewrite forallb_app, IHp, andb_true_r.
        destruct n as [al nm args ak dirs hs subs|]; [|discriminate]. cbn [child_plan] in Hn. destruct hs.
        - destruct (if String.eqb nm "__typename" then Some RScalar else option_map fst (find_gfield g obj nm)) as [t|]; [|discriminate].
          destruct (plan_ty g pick fuel t subs svc) as [[cs' cafters]|] eqn:E; [|discriminate]. inversion Hn; subst p. cbn [snd].
          rewrite forallb_no_coord_push. apply (IH _ _ _ _ _ E Hs).
        - inversion Hn; subst p. reflexivity. }
      assert (H2 : forallb no_coord oplans = true).
      { apply mapo_Forall2 in Ho.
        assert (Hall : forall o, In o (others_of svc tagged) -> o <> coordinator) by (intros o Hin; eapply others_not_coord; eauto).
        remember (others_of svc tagged) as others eqn:Eo. clear Eo Hcase H1 Hp.
        induction Ho as [|o p others oplans Hp' _ IHo]; [reflexivity|].
        cbn [forallb]. rewrite IHo by (intros o' Ho'; apply Hall; right; exact Ho'). rewrite andb_true_r.
        unfold other_plan in Hp'. destruct (plan_ty g pick fuel (RObj obj) (sels_for tagged o) o) as [[os oafters]|] eqn:E; [|discriminate].
        inversion Hp'; subst p. rewrite no_coord_eq.
        assert (Hoc : o <> coordinator) by (apply Hall; left; reflexivity).
        apply String.eqb_neq in Hoc as Hoc'. rewrite Hoc'. simpl. apply (IH _ _ _ _ _ E Hoc). }
      destruct Hcase as [[_ [_ ->]]|[_ [_ [-> _]]]]; [exact H1 | rewrite forallb_app, H1, H2; reflexivity].
    - simpl in H. destruct (union_members g u) as [ms|]; [|discriminate].
      match type of H with (if ?c then _ else _) = _ => destruct c; [discriminate|] end.
      destruct (negb (nodup_str (map n_alias (frags_of sels)))); [discriminate|].
      destruct (negb (forallb (fun n => existsb (String.eqb (n_alias n)) ms) (frags_of sels))); [discriminate|].
      fold (frag_plan fuel svc) in H.
      destruct (mapo (frag_plan fuel svc) (frags_of sels)) as [planned|] eqn:Ep; [|discriminate].
      inversion H; subst. clear H. apply mapo_Forall2 in Ep.
      induction Ep as [|n p l planned Hn _ IHp]; [reflexivity|].
      simpl. rewrite forallb_app, IHp, andb_true_r.
      destruct n as [|on dirs body]; [discriminate|]. cbn [frag_plan] in Hn.
      destruct (plan_ty g pick fuel (RObj on) body svc) as [[cs' cafters]|] eqn:E; [|discriminate]. inversion Hn; subst p. cbn [snd].
      rewrite forallb_no_coord_push. apply (IH _ _ _ _ _ E Hs).
  Qed.

  (** ** the root: the coordinator keeps the __typename selections and merges the answers of the services *)
  Definition tn_entries (ty : string) (l : list node) : list (string * json) := map (fun n => (n_alias n, JStr ty)) l.

  Lemma coord_locs : forall sels tagged n,
    mapo (target_of g pick "Query" coordinator) sels = Some tagged ->
    forallb (node_ok g (RObj "Query")) sels = true -> In n (sels_for tagged coordinator) ->
    exists al args ak dirs, n = NField al "__typename" args ak dirs false [].
  Proof.
    intros sels tagged n Ht Hnok Hn. destruct (sels_for_in _ _ _ _ _ _ Ht Hn) as [Hin Htar].
    destruct (target_of_spec g pick pick_sound _ _ _ _ _ Htar) as [_ [al [nm [args [ak [dirs [hs [subs [-> Hcase]]]]]]]]].
    destruct Hcase as [[-> _]|[rty [owners [Hf Hown]]]]; [|exfalso; eapply owner_not_coord; eauto].
    eapply forallb_forall in Hnok; [|exact Hin]. cbn [node_ok] in Hnok.
    apply andb_prop in Hnok as [Hno Hno3]. apply andb_prop in Hno as [_ Hd].
    rewrite String.eqb_refl in Hno3. apply andb_prop in Hno3 as [Hhs Hsubs]. apply negb_true_iff in Hhs. subst hs.
    destruct subs; [|discriminate]. exists al, args, ak, dirs. reflexivity.
  Qed.

  Lemma coord_planned : forall fuel locs planned,
    (forall n, In n locs -> exists al args ak dirs, n = NField al "__typename" args ak dirs false []) ->
    Forall2 (fun n p => child_plan g pick fuel "Query" coordinator n = Some p) locs planned ->
    List.concat (map snd planned) = [] /\
    root_typenames "Query" (map fst planned) = tn_entries "Query" locs.
  Proof.
    intros fuel locs planned Hall HF. induction HF as [|n p locs planned Hn _ IH]; [auto|].
    destruct IH as [I2 I3]; [intros m Hm; apply Hall; right; exact Hm|].
    destruct (Hall n (or_introl eq_refl)) as [al [args [ak [dirs ->]]]]. cbn [child_plan] in Hn. inversion Hn; subst p.
    simpl. rewrite I2. split; [reflexivity|].
    unfold root_typenames in *. cbn [flat_map]. rewrite I3. reflexivity.
  Qed.

  Lemma key_kv_query : key_kv K "Query" 0%Z = [].
  Proof. destruct fed_ok2_parts as [_ [_ HK]]. unfold key_kv. rewrite HK. reflexivity. Qed.

  Lemma root_others : forall fuel, S_stmt w g pick fuel -> forall sels tagged,
    mapo (target_of g pick "Query" coordinator) sels = Some tagged -> flat_ok g "Query" sels = true ->
    forall others oplans, Forall2 (fun o p => other_plan g pick fuel "Query" tagged o = Some p) others oplans ->
    NoDup others -> (forall o, In o others -> o <> coordinator) ->
    forall L, (forall o n, In o others -> In n (sels_for tagged o) -> lookup (n_alias n) L = None) ->
    exists exts, exec_go w g true oplans [JObj L] = Some [JObj (L ++ List.concat exts)] /\
                 Forall2 (fun o kvs => post w g "Query" 0%Z (sels_for tagged o) false kvs) others exts.
  Proof.
    intros fuel HS sels tagged Ht Hflat others oplans HF.
    assert (Hnds : NoDup (map n_alias sels)).
    { unfold flat_ok in Hflat. apply andb_prop in Hflat as [H1 _]. apply nodup_str_NoDup; exact H1. }
    induction HF as [|o p others oplans Hp _ IH]; intros Hnd Hnc L Hfresh.
    - exists []. cbn [List.concat]. rewrite app_nil_r. split; [reflexivity | constructor].
    - inversion Hnd as [|? ? Hno Hnd']; subst.
      unfold other_plan in Hp.
      destruct (plan_ty g pick fuel (RObj "Query") (sels_for tagged o) o) as [[os oafters]|] eqn:Epl; [|discriminate].
      inversion Hp; subst p.
      pose proof (flat_ok_sels_for _ _ _ _ o Ht Hflat) as Hflat_o.
      pose proof (sels_for_local _ _ _ _ o Ht) as Hloc.
      assert (Hpre : pre_ok g [] "Query" 0%Z (sels_for tagged o)).
      { split; [exists []; rewrite key_kv_query; reflexivity|]. split; [intros k [] | constructor]. }
      assert (Hql : "Query" <> "Leaf") by discriminate.
      destruct (HS "Query" (sels_for tagged o) o os oafters Epl Hflat_o (or_intror Hloc) Hql 0%Z [] Hpre) as [kvs_o [fed [Hrun [Hpost Hfedf]]]].
      specialize (Hfedf Hloc). subst fed. cbn [app] in Hrun.
      assert (Hoc : o <> coordinator) by (apply Hnc; left; reflexivity).
      assert (Hex : exec_plan w g true (Plan [] o "Query" os oafters) None = Some [JObj kvs_o]).
      { apply exec_root_plan.
        - rewrite no_coord_eq. apply String.eqb_neq in Hoc as Hoc'. rewrite Hoc'. simpl. apply (plan_no_coord _ _ _ _ _ _ Epl Hoc).
        - reflexivity.
        - cbn [exec1]. rewrite eval_obj_eq, key_kv_query. exact Hrun. }
      change (exec_go w g true (Plan [] o "Query" os oafters :: oplans) [JObj L]) with
        (match stitch true (exec_plan w g true (Plan [] o "Query" os oafters)) true [] [JObj L] with
         | Some cur' => exec_go w g true oplans cur'
         | None => None
         end).
      unfold stitch. rewrite Hex.
      destruct Hpost as [Hndk [Hkeys Hvals]].
      assert (Hkeys_o : forall k, In k (map fst kvs_o) -> lookup k L = None).
      { intros k Hk. apply Hkeys in Hk as [Hk|[Hx _]]; [|discriminate]. apply in_map_iff in Hk as [n [Hn Hin]]. subst k.
        apply (Hfresh o n (or_introl eq_refl) Hin). }
      rewrite merge_result_ok.
      + assert (Hfp : fresh_part L kvs_o = kvs_o).
        { rewrite <- (fresh_part_keyed L "Query" 0%Z kvs_o) at 2; [rewrite key_kv_query; reflexivity | | exact Hkeys_o].
          destruct fed_ok2_parts as [_ [_ HK]]. rewrite HK. discriminate. }
        rewrite Hfp.
        destruct (IH Hnd' (fun o' Ho' => Hnc o' (or_intror Ho')) (L ++ kvs_o)) as [exts [Hrun2 HF2]].
        * intros o2 n Ho2 Hn. rewrite lookup_app, (Hfresh o2 n (or_intror Ho2) Hn).
          apply lookup_none_notin. intros Hin. apply Hkeys in Hin as [Hin|[Hx _]]; [|discriminate].
          apply in_map_iff in Hin as [m [Hm Hin]].
          assert (Hne : o <> o2) by (intros ->; contradiction).
          apply (groups_disjoint _ _ _ _ _ _ _ _ Ht Hnds Hne Hin Hn). exact Hm.
        * exists (kvs_o :: exts). split; [|constructor; [split; [exact Hndk | split; [exact Hkeys | exact Hvals]] | exact HF2]].
          rewrite Hrun2. simpl. rewrite <- app_assoc. reflexivity.
      + split; [exact Hndk|]. intros k v Hin. left. apply Hkeys_o. apply (in_map fst _ _ Hin).
  Qed.

  Lemma root_typenames_app : forall ty a b, root_typenames ty (a ++ b) = root_typenames ty a ++ root_typenames ty b.
  Proof. intros. unfold root_typenames. apply flat_map_app. Qed.

  (** planner + executor on a normalised query: the gateway's (undeleted) answer is similar to the combined
      server's answer to the same query with __typename asked on every union selection *)
  Theorem root_sem : forall fuel flat p,
    plan_root g pick fuel flat = Some p -> flat_ok g "Query" flat = true ->
    exists L, exec_plan w g true p None = Some [JObj L] /\
              simv (JObj L) (eval_obj w K "Query" 0%Z (map annot flat)).
  Proof.
    intros fuel flat p Hroot Hflat. unfold plan_root in Hroot.
    destruct (plan_ty g pick fuel (RObj "Query") flat coordinator) as [[ss afters]|] eqn:Hpl; [|discriminate].
    inversion Hroot; subst p. clear Hroot. destruct fuel as [|fuel]; [discriminate|].
    destruct (plan_sem fuel) as [HS _].
    destruct (plan_obj_inv g pick fuel "Query" flat coordinator ss afters Hpl) as [tagged [planned [oplans [Ht [Hp [Ho Hcase]]]]]].
    pose proof Hflat as Hflat'. unfold flat_ok in Hflat'. apply andb_prop in Hflat' as [Hnd0 Hnok].
    rewrite (filter_included_all "Query" flat Hnok) in Ht.
    assert (Hnds : NoDup (map n_alias flat)) by (apply nodup_str_NoDup; exact Hnd0).
    pose proof (mapo_Forall2 _ _ _ Hp) as Fp. pose proof (mapo_Forall2 _ _ _ Ho) as Fo.
    set (locs := sels_for tagged coordinator) in *. set (others := others_of coordinator tagged) in *.
    assert (Hlocs : forall n, In n locs -> exists al args ak dirs, n = NField al "__typename" args ak dirs false [])
      by (intros n Hn; eapply coord_locs; eauto).
    destruct (coord_planned fuel locs planned Hlocs Fp) as [Hsnd Hrt].
    assert (Hshape : afters = oplans /\ root_typenames "Query" ss = tn_entries "Query" locs).
    { destruct Hcase as [[Hoth [-> ->]]|[Hoth [_ [-> Hfedsel]]]].
      - rewrite Hoth in Fo. inversion Fo; subst. rewrite Hsnd. auto.
      - rewrite Hsnd. split; [reflexivity|]. destruct Hfedsel as [[_ ->]|[_ ->]]; rewrite ?root_typenames_app, Hrt; [reflexivity|].
        rewrite key_selection_eq. cbn. apply app_nil_r. }
    destruct Hshape as [-> Hss].
    rewrite exec_plan_eq, String.eqb_refl, Hss.
    assert (Hk0 : map fst (tn_entries "Query" locs) = map n_alias locs) by (unfold tn_entries; rewrite map_map; reflexivity).
    destruct (root_others fuel HS flat tagged Ht Hflat others oplans Fo (sorted_names_NoDup _)
                (fun o Hin => others_not_coord _ _ _ _ _ Ht Hin) (tn_entries "Query" locs)) as [exts [Hrun HF2]].
    { intros o n Ho' Hn. apply lookup_none_notin. rewrite Hk0. intros Hin. apply in_map_iff in Hin as [m [Hm Hin]].
      pose proof (others_not_svc _ _ _ Ho') as Hne.
      apply (groups_disjoint _ _ _ _ _ _ _ _ Ht Hnds Hne Hn Hin). congruence. }
    rewrite Hrun. eexists. split; [reflexivity|].
    destruct (concat_exts_spec _ _ _ _ 0%Z _ _ Ht Hnds (sorted_names_NoDup _) HF2) as [E1 [E2 E3]].
    assert (Hgroup : forall n, In n flat -> In n locs \/ exists o, In o others /\ In n (sels_for tagged o)).
    { intros n Hn. destruct (in_sels_tagged _ _ _ _ _ Ht Hn) as [t [Hin Hs]].
      destruct (string_dec t coordinator) as [->|Hne]; [left; exact Hs | right; exists t; split; [eapply in_others; eauto | exact Hs]]. }
    pose proof (sels_for_nodup _ _ _ _ coordinator Ht Hnds) as Hlocs_nd. fold locs in Hlocs_nd.
    assert (Hpost : post w g "Query" 0%Z flat false (tn_entries "Query" locs ++ List.concat exts)).
    { split; [|split].
      - rewrite map_app. apply NoDup_app_intro; [rewrite Hk0; exact Hlocs_nd | exact E1|].
        intros k Hk Hk2. rewrite Hk0 in Hk. apply in_map_iff in Hk as [m [Hm Hmin]].
        apply E2 in Hk2 as [o [n [Ho' [Hn Hkn]]]]. pose proof (others_not_svc _ _ _ Ho') as Hne.
        apply (groups_disjoint _ _ _ _ _ _ _ _ Ht Hnds Hne Hn Hmin). congruence.
      - intros k. rewrite map_app, in_app_iff, Hk0, E2. split.
        + intros [Hin|[o [n [Ho' [Hn Hk]]]]].
          * left. apply in_map_iff in Hin as [n [Hn Hin]]. subst k. apply in_map. apply (sels_for_in _ _ _ _ _ _ Ht Hin).
          * left. subst k. apply in_map. apply (sels_for_in _ _ _ _ _ _ Ht Hn).
        + intros [Hin|[Hx _]]; [|discriminate].
          apply in_map_iff in Hin as [n [Hn Hin]]. subst k. destruct (Hgroup n Hin) as [Hl|[o [Ho' Hs]]].
          * left. apply in_map; exact Hl.
          * right. exists o, n. auto.
      - intros n Hn. destruct (Hgroup n Hn) as [Hl|[o [Ho' Hs]]].
        + destruct (Hlocs n Hl) as [al [args [ak [dirs ->]]]]. exists (JStr "Query"). split; [|rewrite nval_annot; unfold fval_gen; rewrite String.eqb_refl; constructor].
          rewrite lookup_app.
          assert (Hl1 : lookup al (tn_entries "Query" locs) = Some (JStr "Query")).
          { clear -Hl. induction locs as [|x r IHl]; [contradiction|]. simpl. destruct Hl as [->|Hl].
            - simpl. rewrite String.eqb_refl. reflexivity.
            - destruct (String.eqb al (n_alias x)); [reflexivity | apply IHl; exact Hl]. }
          cbn [n_alias]. rewrite Hl1. reflexivity.
        + destruct (E3 o n Ho' Hs) as [v [Hlk Hsv]]. exists v. split; auto. rewrite lookup_app.
          assert (H1 : lookup (n_alias n) (tn_entries "Query" locs) = None).
          { apply lookup_none_notin. rewrite Hk0. intros Hin. apply in_map_iff in Hin as [m [Hm Hin]].
            pose proof (others_not_svc _ _ _ Ho') as Hne.
            apply (groups_disjoint _ _ _ _ _ _ _ _ Ht Hnds Hne Hs Hin). congruence. }
          rewrite H1. exact Hlk. }
    rewrite eval_obj_eq, key_kv_query.
    apply (post_simv w g "Query" 0%Z flat false _ [] Hpost (all_fields_ok g _ _ Hnok) Hnds).
    - intros n Hn. apply (node_alias_facts _ _ _ Hnok Hn).
    - intros k [].
    - constructor.
  Qed.
End Core.
