(** n-ary facts about the group-by-name merge, generic in the element type:
    - [findn n] is a homomorphism from (lists, merge_by_name) to (option A, [step_find]);
    - the result of a successful left fold is, name by name, the fold of the pair merge over the ORIGINAL
      elements of that name, in order ([ofold_step_val]);
    - lifting of "permutation-invariant on success" from the pair merge to the by-name merge ([mrg_perm_inv]);
    - lifting of "compatibility is preserved by merging" ([mrg_closed]), from which a pairwise compatible
      list folds successfully in every order ([ofold_succeeds]). *)
From Coq Require Import List String Bool Arith Lia Permutation.
From Thunder Require Import Lib.Json Federation.Merge Federation.MergeProofsBase Federation.MergeProofsComm.
Import ListNotations.
Open Scope string_scope.
Open Scope list_scope.

(** ** folds of a partial binary operation *)
Section OFold.
  Context {T : Type}.
  Variable op : T -> T -> option T.

  Fixpoint ofold (acc : T) (l : list T) : option T :=
    match l with
    | [] => Some acc
    | x :: t => match op acc x with Some a => ofold a t | None => None end
    end.

  Definition oslice (l : list T) : option T :=
    match l with [] => None | x :: t => ofold x t end.

  Lemma ofold_last_step : forall l acc x r, ofold acc (x :: l) = Some r -> exists a b, op a b = Some r.
  Proof.
    induction l as [|y l IH]; intros acc x r H; simpl in H.
    - destruct (op acc x) as [a|] eqn:E; [|discriminate]. inversion H; subst. eauto.
    - destruct (op acc x) as [a|] eqn:E; [|discriminate]. apply (IH a y r). exact H.
  Qed.

  Definition compat (a b : T) : Prop := op a b <> None.
End OFold.

Fixpoint allpairs {T} (P : T -> T -> Prop) (l : list T) : Prop :=
  match l with
  | [] => True
  | x :: t => Forall (P x) t /\ allpairs P t
  end.

Lemma allpairs_perm : forall {T} (P : T -> T -> Prop) (D : T -> Prop),
  (forall a b, D a -> D b -> P a b -> P b a) ->
  forall l l', Permutation l l' -> Forall D l -> allpairs P l -> allpairs P l'.
Proof.
  intros T P D Hsym l l' HP. induction HP as [|x l l' HP IH|x y l|l l' l'' HP1 IH1 HP2 IH2]; intros HD H; simpl in *.
  - exact I.
  - destruct H as [H1 H2]. inversion HD; subst. split; [eapply Permutation_Forall; eauto | auto].
  - destruct H as [H1 [H2 H3]]. inversion H1; subst. inversion HD as [|? ? Dy HD']; subst. inversion HD' as [|? ? Dx HD'']; subst.
    split; [constructor; auto|]. split; auto.
  - apply IH2; [eapply Permutation_Forall; eauto | apply IH1; auto].
Qed.

Lemma allpairs_in : forall {T} (P : T -> T -> Prop) l, allpairs P l ->
  forall l1 a l2 b l3, l = l1 ++ a :: l2 ++ b :: l3 -> P a b.
Proof.
  intros T P l. induction l as [|x t IH]; intros H l1 a l2 b l3 E.
  - destruct l1; discriminate.
  - destruct H as [H1 H2]. destruct l1 as [|y l1]; simpl in E; inversion E; subst.
    + rewrite Forall_forall in H1. apply H1. apply in_or_app. right. left. reflexivity.
    + eapply IH; eauto.
Qed.

(** "permutation-invariant on success" and "compatibility is preserved by merging" *)
Definition perm_inv {T} (op : T -> T -> option T) (G : T -> Prop) : Prop :=
  forall X X' y y', Forall G X -> Permutation X X' -> oslice op X = Some y -> oslice op X' = Some y' -> y = y'.

Definition closedP {T} (op : T -> T -> option T) (G : T -> Prop) : Prop :=
  forall a y z, G a -> G y -> op a y = Some z ->
    G z /\ forall c, G c -> compat op a c -> compat op y c -> compat op z c.

Lemma ofold_succeeds : forall {T} (op : T -> T -> option T) (G : T -> Prop), closedP op G ->
  forall xs x, G x -> Forall G xs -> allpairs (compat op) (x :: xs) -> exists r, ofold op x xs = Some r /\ G r.
Proof.
  intros T op G HC xs. induction xs as [|y t IH]; intros x Gx Gxs HP; simpl.
  - eauto.
  - destruct HP as [H1 [H2 H3]]. inversion H1 as [|? ? Cxy H1']; subst. inversion Gxs as [|? ? Gy Gt]; subst.
    destruct (op x y) as [z|] eqn:E; [|exfalso; apply Cxy; exact E].
    destruct (HC x y z Gx Gy E) as [Gz Hz]. apply IH; auto. simpl. split; auto.
    rewrite Forall_forall in *. intros c Hc. apply Hz; auto.
Qed.

Lemma oslice_succeeds : forall {T} (op : T -> T -> option T) (G : T -> Prop), closedP op G ->
  forall X, X <> [] -> Forall G X -> allpairs (compat op) X -> exists r, oslice op X = Some r /\ G r.
Proof.
  intros T op G HC [|x xs] Hne HG HP; [congruence|]. inversion HG; subst. apply (ofold_succeeds op G HC); auto.
Qed.

(** a homomorphism commutes with the fold *)
Section Hom.
  Context {T U : Type}.
  Variables (op : T -> T -> option T) (op' : U -> U -> option U) (h : T -> U) (Inv : T -> Prop).
  Hypothesis Hh : forall a b c, Inv a -> Inv b -> op a b = Some c -> op' (h a) (h b) = Some (h c) /\ Inv c.

  Lemma ofold_hom : forall l acc r, Inv acc -> Forall Inv l -> ofold op acc l = Some r ->
    ofold op' (h acc) (map h l) = Some (h r) /\ Inv r.
  Proof.
    induction l as [|x t IH]; intros acc r Ia Il H; simpl in *.
    - inversion H; subst. auto.
    - inversion Il; subst. destruct (op acc x) as [a|] eqn:E; [|discriminate].
      destruct (Hh acc x a Ia H2 E) as [E' Ia']. rewrite E'. apply IH; auto.
  Qed.
End Hom.

(** ** present elements of a column *)
Definition is_some {B} (o : option B) : bool := match o with Some _ => true | None => false end.

Fixpoint somes {B} (l : list (option B)) : list B :=
  match l with
  | [] => []
  | Some x :: t => x :: somes t
  | None :: t => somes t
  end.

Lemma somes_perm : forall {B} (X X' : list (option B)), Permutation X X' -> Permutation (somes X) (somes X').
Proof.
  intros B X X' H. induction H as [|o l l' HP IH|o1 o2 l|l l' l'' _ IH1 _ IH2]; simpl; auto.
  - destruct o; auto.
  - destruct o1, o2; auto using perm_swap.
  - eapply perm_trans; eauto.
Qed.

Lemma forallb_perm' : forall {B} (f : B -> bool) l l', Permutation l l' -> forallb f l = forallb f l'.
Proof.
  intros B f l l' H. induction H as [|x l l' _ IH|x y l|l l' l'' _ IH1 _ IH2]; simpl; auto.
  - rewrite IH. reflexivity.
  - rewrite !andb_assoc, (andb_comm (f y)). reflexivity.
  - congruence.
Qed.

Lemma Forall_somes : forall {B} (P : B -> Prop) (X : list (option B)),
  Forall (fun o => forall x, o = Some x -> P x) X -> Forall P (somes X).
Proof.
  intros B P X H. induction H as [|o l Ho _ IH]; simpl; auto. destruct o; auto.
Qed.

Lemma in_somes : forall {B} (x : B) X, In x (somes X) <-> In (Some x) X.
Proof.
  intros B x X. induction X as [|o t IH]; simpl; [tauto|].
  destruct o as [y|]; simpl; rewrite IH; intuition congruence.
Qed.

(** ** the by-name merge, n-ary *)
Section ByNameNary.
  Context {A : Type}.
  Variable name : A -> string.
  (** [bad x]: a lone [x] is an error (NON_NULL input field known to one side only) *)
  Variable bad : A -> bool.
  Variable pair : A -> A -> option A.
  Variable md : mode.
  Hypothesis pair_name : forall x y z, pair x y = Some z -> name z = name x.

  Definition bsingle (x : A) : option (option A) := if bad x then None else keep_if_union md x.
  Definition mrg : list A -> list A -> option (list A) := merge_by_name name bsingle pair.
  Definition keep (x : A) : option A := match md with Union => Some x | Intersection => None end.

  Lemma bsingle_eq : forall x, bsingle x = if bad x then None else Some (keep x).
  Proof. intros x. unfold bsingle, keep. destruct (bad x), md; reflexivity. Qed.

  Lemma bsingle_name : forall x y, bsingle x = Some (Some y) -> name y = name x.
  Proof.
    intros x y H. rewrite bsingle_eq in H. destruct (bad x); [discriminate|]. unfold keep in H.
    destruct md; inversion H; reflexivity.
  Qed.

  (** what one merge does to the entry of name [n] *)
  Definition step_find (oa ob : option A) : option (option A) :=
    match oa, ob with
    | Some x, Some y => option_map Some (pair x y)
    | Some x, None => if bad x then None else Some (keep x)
    | None, Some y => if bad y then None else Some (keep y)
    | None, None => Some None
    end.

  Lemma merge_find : forall a b r, NoDup (map name a) -> NoDup (map name b) -> mrg a b = Some r ->
    forall n, step_find (findn name n a) (findn name n b) = Some (findn name n r).
  Proof.
    intros a b r Ha Hb Hm n.
    pose proof (merge_by_name_nodup name bsingle pair bsingle_name pair_name a b r Ha Hb Hm) as Hr.
    pose proof (merged_origin name bsingle pair bsingle_name pair_name a b r Ha Hb Hm) as Horig.
    destruct (findn name n a) as [x|] eqn:Ex; destruct (findn name n b) as [y|] eqn:Ey; simpl.
    - destruct (merged_both name bsingle pair pair_name a b r Ha Hb Hm n x y Ex Ey) as [z [Hp [Hz Hn]]].
      rewrite Hp. simpl. rewrite (findn_in name n r z Hr Hz Hn). reflexivity.
    - destruct (merged_left_only name bsingle pair bsingle_name a b r Ha Hb Hm n x Ex Ey) as [Hs|[z [Hs [Hz Hn]]]];
        rewrite bsingle_eq in Hs; destruct (bad x); try discriminate; inversion Hs as [Hk]; rewrite Hk; f_equal.
      + destruct (findn name n r) as [z|] eqn:Er; auto. apply findn_some in Er as [Hz Hnz].
        destruct (Horig z Hz) as [[x' [y' [Hx' [Hy' _]]]]|[[x' [Hx' [Hy' Hs']]]|[y' [Hx' _]]]]; rewrite Hnz in *; try congruence.
        rewrite Ex in Hx'. inversion Hx'; subst x'. rewrite bsingle_eq in Hs'. destruct (bad x); congruence.
      + assert (z = x) by (unfold keep in Hk; destruct md; congruence). subst z.
        symmetry. apply findn_in; auto.
    - destruct (merged_right_only name bsingle pair bsingle_name a b r Ha Hb Hm n y Ex Ey) as [Hs|[z [Hs [Hz Hn]]]];
        rewrite bsingle_eq in Hs; destruct (bad y); try discriminate; inversion Hs as [Hk]; rewrite Hk; f_equal.
      + destruct (findn name n r) as [z|] eqn:Er; auto. apply findn_some in Er as [Hz Hnz].
        destruct (Horig z Hz) as [[x' [y' [Hx' [Hy' _]]]]|[[x' [Hx' [Hy' Hs']]]|[y' [Hx' [Hy' Hs']]]]]; rewrite Hnz in *; try congruence.
        rewrite Ey in Hy'. inversion Hy'; subst y'. rewrite bsingle_eq in Hs'. destruct (bad y); congruence.
      + assert (z = y) by (unfold keep in Hk; destruct md; congruence). subst z.
        symmetry. apply findn_in; auto.
    - f_equal. destruct (findn name n r) as [z|] eqn:Er; auto. apply findn_some in Er as [Hz Hnz].
      destruct (Horig z Hz) as [[x' [y' [Hx' _]]]|[[x' [Hx' _]]|[y' [_ [Hy' _]]]]]; rewrite Hnz in *; congruence.
  Qed.

  Lemma merge_names_total : forall all ns, (forall n, merge_one name bsingle pair all n <> None) ->
    exists r, merge_names name bsingle pair all ns = Some r.
  Proof.
    intros all ns H. induction ns as [|n t [r IH]]; simpl; eauto.
    destruct (merge_one name bsingle pair all n) as [l|] eqn:E; [|exfalso; eapply H; eauto].
    rewrite IH. eauto.
  Qed.

  Lemma merge_succeeds : forall a b, NoDup (map name a) -> NoDup (map name b) ->
    (forall n, step_find (findn name n a) (findn name n b) <> None) -> exists r, mrg a b = Some r.
  Proof.
    intros a b Ha Hb H. unfold mrg, merge_by_name. apply merge_names_total. intros n.
    rewrite merge_one_spec by assumption. specialize (H n).
    destruct (findn name n a) as [x|]; destruct (findn name n b) as [y|]; simpl in H |- *; try discriminate.
    - destruct (pair x y); simpl in *; congruence.
    - unfold single_res. rewrite bsingle_eq. destruct (bad x); [congruence|]. destruct (keep x); discriminate.
    - unfold single_res. rewrite bsingle_eq. destruct (bad y); [congruence|]. destruct (keep y); discriminate.
  Qed.

  Lemma compat_mrg_iff : forall a b, NoDup (map name a) -> NoDup (map name b) ->
    (compat mrg a b <-> forall n, step_find (findn name n a) (findn name n b) <> None).
  Proof.
    intros a b Ha Hb. unfold compat. split.
    - intros H n. destruct (mrg a b) as [r|] eqn:E; [|congruence].
      rewrite (merge_find a b r Ha Hb E n). discriminate.
    - intros H. destruct (merge_succeeds a b Ha Hb H) as [r E]. rewrite E. discriminate.
  Qed.

  (** the result is sorted by name *)
  Lemma merge_one_names : forall a b n l z, NoDup (map name a) -> NoDup (map name b) ->
    merge_one name bsingle pair (a ++ b) n = Some l -> In z l -> name z = n.
  Proof.
    intros a b n l z Ha Hb Hl Hin. rewrite merge_one_spec in Hl by assumption.
    destruct (findn name n a) as [x|] eqn:Ex; destruct (findn name n b) as [y|] eqn:Ey.
    - destruct (pair x y) as [z'|] eqn:E; [|discriminate]. inversion Hl; subst l. destruct Hin as [->|[]].
      apply pair_name in E. apply findn_some in Ex as [_ Ex]. congruence.
    - unfold single_res in Hl. destruct (bsingle x) as [[z'|]|] eqn:E; try discriminate; inversion Hl; subst l; [|contradiction].
      destruct Hin as [->|[]]. apply bsingle_name in E. apply findn_some in Ex as [_ Ex]. congruence.
    - unfold single_res in Hl. destruct (bsingle y) as [[z'|]|] eqn:E; try discriminate; inversion Hl; subst l; [|contradiction].
      destruct Hin as [->|[]]. apply bsingle_name in E. apply findn_some in Ey as [_ Ey]. congruence.
    - inversion Hl; subst l. contradiction.
  Qed.

  Lemma merge_one_len : forall a b n l, NoDup (map name a) -> NoDup (map name b) ->
    merge_one name bsingle pair (a ++ b) n = Some l -> List.length l <= 1.
  Proof.
    intros a b n l Ha Hb Hl. rewrite merge_one_spec in Hl by assumption.
    destruct (findn name n a) as [x|]; destruct (findn name n b) as [y|].
    - destruct (pair x y); inversion Hl; subst; simpl; lia.
    - unfold single_res in Hl. destruct (bsingle x) as [[?|]|]; inversion Hl; subst; simpl; lia.
    - unfold single_res in Hl. destruct (bsingle y) as [[?|]|]; inversion Hl; subst; simpl; lia.
    - inversion Hl; subst; simpl; lia.
  Qed.

  Lemma merge_names_sorted : forall all ns r,
    (forall n l z, merge_one name bsingle pair all n = Some l -> In z l -> name z = n) ->
    (forall n l, merge_one name bsingle pair all n = Some l -> List.length l <= 1) ->
    ssorted ns -> merge_names name bsingle pair all ns = Some r ->
    ssorted (map name r) /\ forall z, In z r -> In (name z) ns.
  Proof.
    intros all ns. induction ns as [|m t IH]; simpl; intros r Hname Hlen Hs H.
    - inversion H; subst. split; [constructor | intros z []].
    - destruct (merge_one name bsingle pair all m) as [l1|] eqn:E1; [|discriminate].
      destruct (merge_names name bsingle pair all t) as [l2|] eqn:E2; [|discriminate].
      inversion H; subst r. inversion Hs as [|? ? Hlt Hs']; subst.
      destruct (IH l2 Hname Hlen Hs' eq_refl) as [IH1 IH2].
      pose proof (Hlen m l1 E1) as Hl. split.
      + rewrite map_app. destruct l1 as [|z [|z' l1']]; simpl in *; try lia; auto.
        rewrite (Hname m [z] z E1) by (left; reflexivity). constructor; auto.
        intros y Hy. apply in_map_iff in Hy as [w [Hw Hi]]. subst y. apply Hlt. apply IH2. exact Hi.
      + intros z Hz. apply in_app_or in Hz as [Hz|Hz].
        * left. symmetry. eapply Hname; eauto.
        * right. apply IH2; exact Hz.
  Qed.

  Lemma merge_sorted : forall a b r, NoDup (map name a) -> NoDup (map name b) -> mrg a b = Some r ->
    ssorted (map name r).
  Proof.
    intros a b r Ha Hb Hm. unfold mrg, merge_by_name in Hm.
    eapply (merge_names_sorted (a ++ b) _ r); [| | |exact Hm].
    - intros n l z. apply merge_one_names; assumption.
    - intros n l. apply merge_one_len; assumption.
    - unfold sorted_names. apply sort_str_sorted, dedupe_NoDup.
  Qed.

  Lemma ssorted_NoDup : forall l, ssorted l -> NoDup l.
  Proof.
    intros l H. induction H as [|x l Hx _ IH]; constructor; auto.
    intros Hin. specialize (Hx x Hin). rewrite ltb_irrefl in Hx. discriminate.
  Qed.

  Lemma findn_not_none : forall n l, In n (map name l) -> findn name n l <> None.
  Proof. intros n l Hin H. apply findn_none in H. contradiction. Qed.

  Lemma names_findn_ext : forall r r', map name r = map name r' -> NoDup (map name r) ->
    (forall n, findn name n r = findn name n r') -> r = r'.
  Proof.
    induction r as [|x t IH]; intros [|y t'] Hn Hnd Hf; simpl in Hn; try discriminate; auto.
    inversion Hn as [[Hxy Ht]]. inversion Hnd as [|? ? Hnot Hnd']; subst.
    assert (x = y).
    { specialize (Hf (name x)). unfold findn in Hf. simpl in Hf. rewrite <- Hxy, String.eqb_refl in Hf. congruence. }
    subst y. f_equal. apply IH; auto. intros n. specialize (Hf n). unfold findn in *. simpl in Hf.
    destruct (String.eqb (name x) n) eqn:E; auto. apply String.eqb_eq in E. subst n.
    destruct (find (fun x0 => String.eqb (name x0) (name x)) t) as [z|] eqn:E1.
    { exfalso. apply Hnot. apply find_some in E1 as [I1 I2]. apply String.eqb_eq in I2. rewrite <- I2. apply in_map; auto. }
    destruct (find (fun x0 => String.eqb (name x0) (name x)) t') as [z|] eqn:E2; auto.
    exfalso. apply Hnot. rewrite Ht. apply find_some in E2 as [I1 I2]. apply String.eqb_eq in I2. rewrite <- I2. apply in_map; auto.
  Qed.

  Lemma sorted_findn_ext : forall r r', ssorted (map name r) -> ssorted (map name r') ->
    (forall n, findn name n r = findn name n r') -> r = r'.
  Proof.
    intros r r' Hs Hs' Hf. apply names_findn_ext; auto; [|apply ssorted_NoDup; exact Hs].
    apply ssorted_unique; auto. intros n. split; intros Hin.
    - apply findn_not_none in Hin. rewrite Hf in Hin. destruct (findn name n r') as [z|] eqn:E; [|congruence].
      apply findn_some in E as [I1 I2]. subst n. apply in_map; exact I1.
    - apply findn_not_none in Hin. rewrite <- Hf in Hin. destruct (findn name n r) as [z|] eqn:E; [|congruence].
      apply findn_some in E as [I1 I2]. subst n. apply in_map; exact I1.
  Qed.

  (** the fold of merges, seen through [findn n] *)
  Definition NDn (l : list A) : Prop := NoDup (map name l).

  Lemma mrg_hom : forall n a b c, NDn a -> NDn b -> mrg a b = Some c ->
    step_find (findn name n a) (findn name n b) = Some (findn name n c) /\ NDn c.
  Proof.
    intros n a b c Ha Hb H. split; [apply merge_find; auto|].
    apply (merge_by_name_nodup name bsingle pair bsingle_name pair_name a b c Ha Hb H).
  Qed.

  Lemma fold_find : forall n l acc r, NDn acc -> Forall NDn l -> ofold mrg acc l = Some r ->
    ofold step_find (findn name n acc) (map (findn name n) l) = Some (findn name n r) /\ NDn r.
  Proof. intros n. apply (ofold_hom mrg step_find (findn name n) NDn (mrg_hom n)). Qed.

  Lemma fold_sorted : forall l acc x r, NDn acc -> Forall NDn (x :: l) -> ofold mrg acc (x :: l) = Some r ->
    ssorted (map name r).
  Proof.
    induction l as [|y l IH]; intros acc x r Ha Hl H; simpl in H; inversion Hl as [|? ? Hx Hl']; subst.
    - destruct (mrg acc x) as [a|] eqn:E; [|discriminate]. inversion H; subst. exact (merge_sorted acc x r Ha Hx E).
    - destruct (mrg acc x) as [a|] eqn:E; [|discriminate]. apply (IH a y r); auto.
      apply (mrg_hom "" acc x a Ha Hx E).
  Qed.

  (** the value of name [n] in the result, in terms of the column of original entries *)
  Definition pres (X : list (option A)) : bool :=
    match md with
    | Union => match somes X with [] => false | _ => true end
    | Intersection => forallb is_some X
    end.

  Lemma pres_perm : forall X X', Permutation X X' -> pres X = pres X'.
  Proof.
    intros X X' H. unfold pres. destruct md.
    - apply somes_perm in H. destruct (somes X) as [|x xs], (somes X') as [|x' xs']; auto.
      + apply Permutation_nil in H. discriminate.
      + apply Permutation_sym, Permutation_nil in H. discriminate.
    - apply forallb_perm'; exact H.
  Qed.

  Lemma ofold_step_val : forall os o v, ofold step_find o os = Some v ->
    if pres (o :: os)
    then exists x xs z, somes (o :: os) = x :: xs /\ ofold pair x xs = Some z /\ v = Some z
    else v = None.
  Proof.
    induction os as [|ob t IH]; intros o v H.
    - simpl in H. inversion H; subst v. unfold pres. destruct o as [a|]; destruct md; simpl; auto; exists a, [], a; auto.
    - simpl in H. destruct (step_find o ob) as [o'|] eqn:E; [|discriminate]. specialize (IH o' v H).
      destruct o as [a|]; destruct ob as [y|]; simpl in E.
      + destruct (pair a y) as [z'|] eqn:Ep; [|discriminate]. inversion E; subst o'.
        assert (Hp : pres (Some a :: Some y :: t) = pres (Some z' :: t)) by (unfold pres; destruct md; reflexivity).
        rewrite Hp. destruct (pres (Some z' :: t)); auto.
        destruct IH as [x [xs [z [Hs [Hf Hv]]]]]. simpl in Hs. inversion Hs; subst x xs.
        exists a, (y :: somes t), z. simpl. rewrite Ep. auto.
      + destruct (bad a); [discriminate|]. inversion E; subst o'. unfold keep in IH. unfold pres in *.
        destruct md; simpl in *; auto.
      + destruct (bad y); [discriminate|]. inversion E; subst o'. unfold keep in IH. unfold pres in *.
        destruct md; simpl in *; auto.
      + inversion E; subst o'. unfold pres in *. destruct md; simpl in *; auto.
  Qed.

  (** *** lifting of permutation invariance *)
  Section LiftPerm.
    Variable G : A -> Prop.
    Hypothesis pair_perm : forall n, perm_inv pair (fun x => G x /\ name x = n).

    Lemma step_perm_inv : forall n X X' v v',
      Forall (fun o => forall x, o = Some x -> G x /\ name x = n) X -> Permutation X X' ->
      oslice step_find X = Some v -> oslice step_find X' = Some v' -> v = v'.
    Proof.
      intros n X X' v v' HG HP H H'.
      destruct X as [|o os]; [discriminate|]. destruct X' as [|o' os']; [discriminate|]. simpl in H, H'.
      apply ofold_step_val in H. apply ofold_step_val in H'. rewrite <- (pres_perm _ _ HP) in H'.
      destruct (pres (o :: os)); [|congruence].
      destruct H as [x [xs [z [Hs [Hf Hv]]]]]. destruct H' as [x' [xs' [z' [Hs' [Hf' Hv']]]]]. subst v v'. f_equal.
      apply (pair_perm n (x :: xs) (x' :: xs') z z'); auto.
      - rewrite <- Hs. apply Forall_somes. exact HG.
      - rewrite <- Hs, <- Hs'. apply somes_perm. exact HP.
    Qed.

    Definition GL (l : list A) : Prop := NoDup (map name l) /\ Forall G l.

    Theorem mrg_perm_inv : perm_inv mrg GL.
    Proof.
      intros X X' r r' HG HP H H'.
      assert (HG' : Forall GL X') by (eapply Permutation_Forall; eauto).
      assert (ND : forall Y, Forall GL Y -> Forall NDn Y).
      { intros Y HY. eapply Forall_impl; [|exact HY]. intros l [Hl _]. exact Hl. }
      destruct X as [|l0 [|l1 ls]]; [discriminate| |].
      { apply Permutation_length_1_inv in HP. subst X'. simpl in *. congruence. }
      destruct X' as [|l0' [|l1' ls']]; [discriminate| |].
      { apply Permutation_sym, Permutation_length_1_inv in HP. discriminate. }
      simpl oslice in H, H'.
      pose proof (ND _ HG) as N1. pose proof (ND _ HG') as N2.
      inversion N1 as [|? ? Nl0 N1']; subst. inversion N2 as [|? ? Nl0' N2']; subst.
      apply sorted_findn_ext.
      - eapply fold_sorted; [| |exact H]; auto.
      - eapply fold_sorted; [| |exact H']; auto.
      - intros n.
        destruct (fold_find n _ _ _ Nl0 N1' H) as [F _]. destruct (fold_find n _ _ _ Nl0' N2' H') as [F' _].
        apply (step_perm_inv n (map (findn name n) (l0 :: l1 :: ls)) (map (findn name n) (l0' :: l1' :: ls'))); auto.
        + apply Forall_forall. intros o Ho x Hx. apply in_map_iff in Ho as [l [Hl Il]]. subst o.
          apply findn_some in Hx as [I1 I2]. split; auto.
          rewrite Forall_forall in HG. destruct (HG l Il) as [_ Gl]. rewrite Forall_forall in Gl. auto.
        + apply Permutation_map. exact HP.
    Qed.
  End LiftPerm.

  (** *** lifting of "compatibility is preserved by merging" *)
  Section LiftClosed.
    Variable G : A -> Prop.
    Hypothesis pair_closed : forall n, closedP pair (fun x => G x /\ name x = n).
    Hypothesis bad_mono : forall a y z, G a -> G y -> name a = name y -> pair a y = Some z ->
      bad z = true -> bad a = true \/ bad y = true.

    Theorem mrg_closed : closedP mrg (GL G).
    Proof.
      intros a y z [Na Ga] [Ny Gy] Hm.
      pose proof (merge_by_name_nodup name bsingle pair bsingle_name pair_name a y z Na Ny Hm) as Nz.
      pose proof (merged_origin name bsingle pair bsingle_name pair_name a y z Na Ny Hm) as Horig.
      rewrite Forall_forall in Ga, Gy.
      split; [split; auto|].
      - apply Forall_forall. intros w Hw.
        destruct (Horig w Hw) as [[x' [y' [Hx' [Hy' Hp]]]]|[[x' [Hx' [_ Hs]]]|[y' [_ [Hy' Hs]]]]].
        + apply findn_some in Hx' as [I1 I2]. apply findn_some in Hy' as [J1 J2].
          destruct (pair_closed (name w) x' y' w) as [[Gw _] _]; auto.
        + rewrite bsingle_eq in Hs. destruct (bad x'); [discriminate|]. unfold keep in Hs.
          destruct md; inversion Hs; subst. apply findn_some in Hx' as [I1 _]. auto.
        + rewrite bsingle_eq in Hs. destruct (bad y'); [discriminate|]. unfold keep in Hs.
          destruct md; inversion Hs; subst. apply findn_some in Hy' as [I1 _]. auto.
      - intros c [Nc Gc] Cac Cyc. rewrite Forall_forall in Gc.
        apply (compat_mrg_iff z c Nz Nc). intros n.
        pose proof (proj1 (compat_mrg_iff a c Na Nc) Cac n) as Sa.
        pose proof (proj1 (compat_mrg_iff y c Ny Nc) Cyc n) as Sy.
        pose proof (merge_find a y z Na Ny Hm n) as Hz.
        destruct (findn name n a) as [xa|] eqn:Ea; destruct (findn name n y) as [xy|] eqn:Ey;
          destruct (findn name n c) as [xc|] eqn:Ec; simpl in Hz, Sa, Sy.
        + destruct (pair xa xy) as [z0|] eqn:Ep; [|discriminate]. inversion Hz as [Hz']. simpl.
          apply findn_some in Ea as [I1 I2]. apply findn_some in Ey as [J1 J2]. apply findn_some in Ec as [K1 K2].
          destruct (pair_closed n xa xy z0) as [_ Hc]; auto.
          assert (C : compat pair z0 xc).
          { apply Hc; auto; unfold compat.
            - destruct (pair xa xc); [discriminate | exfalso; apply Sa; reflexivity].
            - destruct (pair xy xc); [discriminate | exfalso; apply Sy; reflexivity]. }
          unfold compat in C. destruct (pair z0 xc); [discriminate | congruence].
        + destruct (pair xa xy) as [z0|] eqn:Ep; [|discriminate]. inversion Hz as [Hz']. simpl.
          apply findn_some in Ea as [I1 I2]. apply findn_some in Ey as [J1 J2].
          destruct (bad z0) eqn:Bz; [|discriminate].
          destruct (bad_mono xa xy z0) as [B|B]; auto; try congruence; rewrite B in *; congruence.
        + destruct (bad xa) eqn:Bx; [discriminate|]. inversion Hz as [Hz']. unfold keep. destruct md; simpl; auto.
        + destruct (bad xa) eqn:Bx; [discriminate|]. inversion Hz as [Hz']. unfold keep. destruct md; simpl; [|discriminate].
          rewrite Bx. discriminate.
        + destruct (bad xy) eqn:Bx; [discriminate|]. inversion Hz as [Hz']. unfold keep. destruct md; simpl; auto.
        + destruct (bad xy) eqn:Bx; [discriminate|]. inversion Hz as [Hz']. unfold keep. destruct md; simpl; [|discriminate].
          rewrite Bx. discriminate.
        + inversion Hz as [Hz']. simpl. exact Sa.
        + inversion Hz as [Hz']. simpl. discriminate.
    Qed.
  End LiftClosed.
End ByNameNary.
