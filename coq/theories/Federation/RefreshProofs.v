(** A request uses one snapshot of (schema, planner) throughout, whatever refreshes and other requests are
    interleaved with it (model: Federation/Refresh.v).

    Technique: the VIEW of a request (its in-flight record and its delivered answer) evolves by a local
    transition function that reads the installed snapshot in one case only -- the request's own [LBegin] --
    when [reread = false]; an invariant on the view says that completing the execution from the phase reached,
    with the captured snapshot, yields [fed_exec] of the captured snapshot.  All statements are over all label
    lists (all interleavings of any number of requests and refreshes), by induction over the trace. *)
From Coq Require Import List String Bool Arith ZArith Lia.
From Thunder Require Import Lib.Json Federation.Normalize Federation.Planner Federation.Executor
  Federation.ExecutorProofs Federation.FedBase Federation.Refresh.
Import ListNotations.
Open Scope string_scope.
Open Scope list_scope.

(** ** association lists keyed by request id *)
Lemma nlookup_nremove_same : forall {A} k (l : list (nat * A)), nlookup k (nremove k l) = None.
Proof.
  intros A k l. induction l as [|[k' v] t IH]; simpl; [reflexivity|].
  destruct (Nat.eqb k k') eqn:E; [exact IH | simpl; rewrite E; exact IH].
Qed.

Lemma nlookup_nremove_other : forall {A} k k' (l : list (nat * A)), k <> k' -> nlookup k' (nremove k l) = nlookup k' l.
Proof.
  intros A k k' l Hne. induction l as [|[k2 v] t IH]; simpl; [reflexivity|].
  destruct (Nat.eqb k k2) eqn:E.
  - apply Nat.eqb_eq in E. subst k2. destruct (Nat.eqb k' k) eqn:E2; [apply Nat.eqb_eq in E2; congruence | exact IH].
  - simpl. rewrite IH. reflexivity.
Qed.

Lemma nlookup_nset_same : forall {A} k (v : A) l, nlookup k (nset k v l) = Some v.
Proof. intros A k v l. unfold nset. simpl. rewrite Nat.eqb_refl. reflexivity. Qed.

Lemma nlookup_nset_other : forall {A} k k' (v : A) l, k <> k' -> nlookup k' (nset k v l) = nlookup k' l.
Proof.
  intros A k k' v l Hne. unfold nset. simpl. destruct (Nat.eqb k' k) eqn:E.
  - apply Nat.eqb_eq in E. congruence.
  - apply nlookup_nremove_other; exact Hne.
Qed.

(** ** completing an execution *)
Section Proofs.
  Variable w : world.
  Variable pick : list string -> option string.

  (** the rest of the loop over the root's sub-plans, all with planner [g] *)
  Definition stitch_steps (g : gschema) (coord : bool) :=
    fix go (l : list plan) (cur : list json) {struct l} : option (list json) :=
      match l with
      | [] => Some cur
      | sub :: t =>
          match stitch true (exec_plan w g true sub) coord (p_path sub) cur with
          | Some cur' => go t cur'
          | None => None
          end
      end.

  (** what the request answers if everything still to do is done with planner [g] *)
  Definition finish (g : gschema) (ph : phase) : option json :=
    match ph with
    | PFailed => None
    | PRunning coord todo cur =>
        match stitch_steps g coord todo cur with
        | Some [r] => Some (delete_key federation_field r)
        | _ => None
        end
    end.

  (** Execute = begin, then the steps: [fed_exec] is the small-step execution run to its end *)
  Lemma finish_begin : forall g q, finish g (begin_phase w pick g q) = fed_exec w g pick false true q.
  Proof.
    intros g q. unfold fed_exec, fed_exec_gen, begin_phase, plan_phase, plan_fuel, norm_fuel.
    destruct (flatten_gen true (2 * depth_list q + 4) false g (RObj "Query") (Some q)) as [[flat|]|]; try reflexivity.
    destruct (plan_root g pick (2 * (2 * depth_list q + 4) + 2) flat) as [[path svc ty sels after]|]; [|reflexivity].
    cbn [exec_plan].
    destruct (if String.eqb svc coordinator then Some [JObj (root_typenames ty sels)]
              else run_on_service w g svc ty sels None) as [res|]; reflexivity.
  Qed.

  Lemma finish_step : forall g ph, finish g (step_phase w g ph) = finish g ph.
  Proof.
    intros g [|coord [|sub t] cur]; try reflexivity. simpl.
    destruct (stitch true (exec_plan w g true sub) coord (p_path sub) cur); reflexivity.
  Qed.

  Lemma answer_finish : forall g ph a, answer_phase ph = Some a -> a = finish g ph.
  Proof.
    intros g [|coord [|sub t] cur] a H; simpl in H; try discriminate.
    - inversion H; reflexivity.
    - simpl. destruct cur as [|r [|r2 cur]]; inversion H; reflexivity.
  Qed.

  Definition todo_len (ph : phase) : nat := match ph with PFailed => 0 | PRunning _ todo _ => List.length todo end.

  (** [k] steps with planner [g] *)
  Fixpoint steps (g : gschema) (k : nat) (ph : phase) {struct k} : phase :=
    match k with O => ph | S k' => steps g k' (step_phase w g ph) end.

  Lemma answer_after_steps : forall g k ph, todo_len ph <= k ->
    answer_phase (steps g k ph) = Some (finish g ph).
  Proof.
    intros g k. induction k as [|k IH]; intros ph Hl.
    - simpl. destruct ph as [|coord [|sub t] cur]; simpl in *; try lia; try reflexivity.
      destruct cur as [|r [|r2 cur]]; reflexivity.
    - simpl steps. rewrite IH, finish_step; [reflexivity|].
      destruct ph as [|coord [|sub t] cur]; simpl in *; try lia.
      destruct (stitch true (exec_plan w g true sub) coord (p_path sub) cur); simpl; lia.
  Qed.

  (** ** the view of one request and its local transition function *)
  Definition view := (option request * option (option json))%type.

  Definition view_of (rid : nat) (s : gateway) : view := (nlookup rid (gw_reqs s), nlookup rid (gw_out s)).

  Section Local.
    Variable reread : bool.

    Definition local_step (rid : nat) (cur : gschema) (v : view) (l : label) : view :=
      if concerns rid l then
        match l, v with
        | LBegin _ q, (None, None) => (Some (mk_request cur q (begin_phase w pick cur q)), None)
        | LStep _, (Some r, o) =>
            (Some (mk_request (rq_snap r) (rq_query r)
                              (step_phase w (if reread then cur else rq_snap r) (rq_phase r))), o)
        | LEnd _, (Some r, o) =>
            match answer_phase (rq_phase r) with
            | Some a => (None, Some a)
            | None => v
            end
        | _, _ => v
        end
      else v.

    Definition next_installed (cur : gschema) (l : label) : gschema :=
      match l with LRefresh g' => g' | _ => cur end.

    Fixpoint local_run (rid : nat) (cur : gschema) (v : view) (ls : list label) {struct ls} : view :=
      match ls with
      | [] => v
      | l :: t => local_run rid (next_installed cur l) (local_step rid cur v l) t
      end.

    Lemma view_step : forall rid s l,
      view_of rid (gw_step w pick reread s l) = local_step rid (gw_cur s) (view_of rid s) l.
    Proof.
      intros rid s l. unfold view_of, local_step. destruct l as [g'|r q|r|r]; unfold gw_step, concerns; cbn [gw_reqs gw_out gw_cur].
      - reflexivity.
      - destruct (Nat.eqb r rid) eqn:E.
        + apply Nat.eqb_eq in E. subst r.
          destruct (nlookup rid (gw_reqs s)) as [x|] eqn:E1; [rewrite E1; reflexivity|].
          destruct (nlookup rid (gw_out s)) as [y|] eqn:E2; cbn [gw_reqs gw_out gw_cur].
          * rewrite E1, E2. reflexivity.
          * rewrite nlookup_nset_same, E2. reflexivity.
        + apply Nat.eqb_neq in E.
          destruct (nlookup r (gw_reqs s)); [reflexivity|]. destruct (nlookup r (gw_out s)); [reflexivity|].
          cbn [gw_reqs gw_out gw_cur rq_phase rq_snap rq_query]. rewrite nlookup_nset_other by exact E. reflexivity.
      - destruct (Nat.eqb r rid) eqn:E.
        + apply Nat.eqb_eq in E. subst r. destruct (nlookup rid (gw_reqs s)) as [x|] eqn:E1; [|rewrite E1; reflexivity].
          cbn [gw_reqs gw_out gw_cur rq_phase rq_snap rq_query]. rewrite nlookup_nset_same. reflexivity.
        + apply Nat.eqb_neq in E. destruct (nlookup r (gw_reqs s)); [|reflexivity].
          cbn [gw_reqs gw_out gw_cur rq_phase rq_snap rq_query]. rewrite nlookup_nset_other by exact E. reflexivity.
      - destruct (Nat.eqb r rid) eqn:E.
        + apply Nat.eqb_eq in E. subst r. destruct (nlookup rid (gw_reqs s)) as [x|] eqn:E1; [|rewrite E1; reflexivity].
          destruct (answer_phase (rq_phase x)); [|rewrite E1; reflexivity].
          cbn [gw_reqs gw_out gw_cur rq_phase rq_snap rq_query]. rewrite nlookup_nremove_same, nlookup_nset_same. reflexivity.
        + apply Nat.eqb_neq in E. destruct (nlookup r (gw_reqs s)) as [x|]; [|reflexivity].
          destruct (answer_phase (rq_phase x)); [|reflexivity].
          cbn [gw_reqs gw_out gw_cur rq_phase rq_snap rq_query]. rewrite nlookup_nremove_other, nlookup_nset_other by exact E. reflexivity.
    Qed.

    Lemma cur_step : forall s l, gw_cur (gw_step w pick reread s l) = next_installed (gw_cur s) l.
    Proof.
      intros s l. destruct l as [g'|r q|r|r]; simpl; try reflexivity.
      - destruct (nlookup r (gw_reqs s)); [reflexivity|]. destruct (nlookup r (gw_out s)); reflexivity.
      - destruct (nlookup r (gw_reqs s)); reflexivity.
      - destruct (nlookup r (gw_reqs s)) as [x|]; [|reflexivity]. destruct (answer_phase (rq_phase x)); reflexivity.
    Qed.

    Lemma view_run : forall rid ls s,
      view_of rid (gw_run w pick reread ls s) = local_run rid (gw_cur s) (view_of rid s) ls.
    Proof.
      intros rid ls. induction ls as [|l t IH]; intros s; [reflexivity|].
      unfold gw_run in *. simpl. rewrite IH, view_step, cur_step. reflexivity.
    Qed.

    Lemma cur_run : forall ls s, gw_cur (gw_run w pick reread ls s) = installed (gw_cur s) ls.
    Proof.
      induction ls as [|l t IH]; intros s; [reflexivity|]. unfold gw_run in *. simpl. rewrite IH, cur_step.
      destruct l; reflexivity.
    Qed.

    Lemma local_run_app : forall rid a b cur v,
      local_run rid cur v (a ++ b) = local_run rid (installed cur a) (local_run rid cur v a) b.
    Proof.
      intros rid a. induction a as [|l t IH]; intros b cur v; [reflexivity|]. simpl. rewrite IH.
      destruct l; reflexivity.
    Qed.

    (** before its [LBegin] a request has no view *)
    Lemma local_run_fresh : forall rid ls cur, fresh rid ls = true -> local_run rid cur (None, None) ls = (None, None).
    Proof.
      intros rid ls. induction ls as [|l t IH]; intros cur Hf; [reflexivity|]. simpl in Hf.
      apply andb_prop in Hf as [Hl Ht]. simpl.
      assert (E : local_step rid cur (None, None) l = (None, None)).
      { unfold local_step. destruct l as [g'|r q|r|r]; simpl; try reflexivity.
        - apply negb_true_iff in Hl. rewrite Hl. reflexivity.
        - destruct (Nat.eqb r rid); reflexivity.
        - destruct (Nat.eqb r rid); reflexivity. }
      rewrite E. apply IH; exact Ht.
    Qed.
  End Local.

  (** ** the code as it is ([reread = false]): after its begin, the view of a request does not depend on the
      installed snapshot, nor on labels that are not its own *)
  Definition began (v : view) : Prop := v <> (None, None).

  Lemma local_step_other : forall reread rid cur v l, concerns rid l = false -> local_step reread rid cur v l = v.
  Proof. intros reread rid cur v l H. unfold local_step. rewrite H. reflexivity. Qed.

  Lemma local_step_began : forall reread rid cur v l, began v -> began (local_step reread rid cur v l).
  Proof.
    intros reread rid cur [[r|] [o|]] l Hb; unfold local_step; destruct (concerns rid l); try exact Hb;
      destruct l; try exact Hb; try (intros X; discriminate);
      try (destruct (answer_phase (rq_phase r)); intros X; discriminate).
  Qed.

  Lemma local_step_ignores_installed : forall rid cur cur' v l, began v ->
    local_step false rid cur v l = local_step false rid cur' v l.
  Proof.
    intros rid cur cur' [[r|] [o|]] l Hb; unfold local_step; destruct (concerns rid l); try reflexivity;
      destruct l; try reflexivity. exfalso; apply Hb; reflexivity.
  Qed.

  Lemma local_run_proj : forall rid ls cur cur' v, began v ->
    local_run false rid cur v ls = local_run false rid cur' v (proj rid ls).
  Proof.
    intros rid ls. induction ls as [|l t IH]; intros cur cur' v Hb; [reflexivity|].
    unfold proj in *. simpl. destruct (concerns rid l) eqn:E.
    - simpl. rewrite (local_step_ignores_installed rid cur cur' v l Hb).
      apply IH. apply local_step_began; exact Hb.
    - rewrite local_step_other by exact E. apply IH; exact Hb.
  Qed.

  (** the view right after the request's [LBegin] *)
  Lemma view_after_begin : forall reread g0 ls1 rid q, fresh rid ls1 = true ->
    view_of rid (gw_run w pick reread (ls1 ++ [LBegin rid q]) (gw_init g0)) =
    (Some (mk_request (installed g0 ls1) q (begin_phase w pick (installed g0 ls1) q)), None) /\
    gw_cur (gw_run w pick reread (ls1 ++ [LBegin rid q]) (gw_init g0)) = installed g0 ls1.
  Proof.
    intros reread g0 ls1 rid q Hf. split.
    - rewrite view_run, local_run_app. simpl gw_cur. unfold view_of at 1. simpl gw_reqs. simpl gw_out. simpl nlookup.
      rewrite (local_run_fresh reread rid ls1 g0 Hf). simpl. unfold local_step. simpl. rewrite Nat.eqb_refl. reflexivity.
    - rewrite cur_run. simpl. clear Hf. revert g0. induction ls1 as [|l t IH]; intros g0; [reflexivity|].
      destruct l; simpl; apply IH.
  Qed.

  Lemma gw_run_app : forall reread a b s,
    gw_run w pick reread (a ++ b) s = gw_run w pick reread b (gw_run w pick reread a s).
  Proof. intros reread a b s. unfold gw_run. apply fold_left_app. Qed.

  Lemma run_split : forall reread ls1 l ls2 s,
    gw_run w pick reread (ls1 ++ l :: ls2) s = gw_run w pick reread ls2 (gw_run w pick reread (ls1 ++ [l]) s).
  Proof.
    intros reread ls1 l ls2 s. change (ls1 ++ l :: ls2) with (ls1 ++ [l] ++ ls2).
    rewrite app_assoc. apply gw_run_app.
  Qed.

  (** ** (i) the invariant: completing the request with ITS snapshot gives [fed_exec] of that snapshot *)
  Definition view_inv (g : gschema) (q : list node) (v : view) : Prop :=
    match v with
    | (Some r, None) => rq_snap r = g /\ rq_query r = q /\ finish g (rq_phase r) = fed_exec w g pick false true q
    | (None, Some a) => a = fed_exec w g pick false true q
    | _ => False
    end.

  Lemma view_inv_step : forall g q rid cur v l, view_inv g q v -> view_inv g q (local_step false rid cur v l).
  Proof.
    intros g q rid cur [[r|] [o|]] l Hi; simpl in Hi; try contradiction; unfold local_step;
      destruct (concerns rid l); try exact Hi; destruct l; try exact Hi.
    - destruct Hi as [Hs [Hq Hf]]. simpl. repeat split; auto. rewrite Hs, finish_step. exact Hf.
    - destruct Hi as [Hs [Hq Hf]]. destruct (answer_phase (rq_phase r)) as [a|] eqn:Ea; [|simpl; auto].
      simpl. rewrite (answer_finish g _ _ Ea). exact Hf.
  Qed.

  Lemma view_inv_run : forall g q rid ls cur v, view_inv g q v -> view_inv g q (local_run false rid cur v ls).
  Proof.
    intros g q rid ls. induction ls as [|l t IH]; intros cur v Hi; [exact Hi|]. simpl.
    apply IH. apply view_inv_step. exact Hi.
  Qed.

  Theorem request_uses_one_snapshot : forall g0 ls1 rid q ls2 ans,
    fresh rid ls1 = true ->
    delivered rid (gw_run w pick false (ls1 ++ LBegin rid q :: ls2) (gw_init g0)) = Some ans ->
    ans = fed_exec w (installed g0 ls1) pick false true q.
  Proof.
    intros g0 ls1 rid q ls2 ans Hf Hd.
    rewrite run_split in Hd.
    destruct (view_after_begin false g0 ls1 rid q Hf) as [Hv Hc].
    assert (Hi : view_inv (installed g0 ls1) q
                   (view_of rid (gw_run w pick false ls2 (gw_run w pick false (ls1 ++ [LBegin rid q]) (gw_init g0))))).
    { rewrite view_run. apply view_inv_run. rewrite Hv. simpl. repeat split; auto. apply finish_begin. }
    unfold delivered in Hd. unfold view_of in Hi. rewrite Hd in Hi.
    destruct (nlookup rid (gw_reqs _)); simpl in Hi; [contradiction | exact Hi].
  Qed.

  (** ** (ii), (iv): the answer of a request is a function of the snapshot installed at its begin and of its
      own labels -- refreshes after its begin and other requests' labels do not matter *)
  Theorem answer_depends_on_snapshot_and_own_labels : forall g0 g0' ls1 ls1' rid q ls2 ls2',
    fresh rid ls1 = true -> fresh rid ls1' = true ->
    installed g0 ls1 = installed g0' ls1' ->
    proj rid ls2 = proj rid ls2' ->
    delivered rid (gw_run w pick false (ls1 ++ LBegin rid q :: ls2) (gw_init g0)) =
    delivered rid (gw_run w pick false (ls1' ++ LBegin rid q :: ls2') (gw_init g0')).
  Proof.
    intros g0 g0' ls1 ls1' rid q ls2 ls2' Hf Hf' Hg Hp.
    rewrite (run_split false ls1 (LBegin rid q) ls2), (run_split false ls1' (LBegin rid q) ls2').
    destruct (view_after_begin false g0 ls1 rid q Hf) as [Hv Hc].
    destruct (view_after_begin false g0' ls1' rid q Hf') as [Hv' Hc'].
    assert (E : view_of rid (gw_run w pick false ls2 (gw_run w pick false (ls1 ++ [LBegin rid q]) (gw_init g0))) =
                view_of rid (gw_run w pick false ls2' (gw_run w pick false (ls1' ++ [LBegin rid q]) (gw_init g0')))).
    { rewrite (view_run false rid ls2), (view_run false rid ls2'), Hv, Hv', Hc, Hc', <- Hg.
      rewrite (local_run_proj rid ls2 _ (installed g0 ls1)) by (intros X; discriminate).
      rewrite (local_run_proj rid ls2' _ (installed g0 ls1)) by (intros X; discriminate).
      rewrite Hp. reflexivity. }
    unfold delivered. unfold view_of in E. apply (f_equal snd) in E. exact E.
  Qed.

  Lemma proj_without_refreshes : forall rid ls, proj rid (without_refreshes ls) = proj rid ls.
  Proof.
    intros rid ls. unfold proj, without_refreshes. induction ls as [|l t IH]; [reflexivity|].
    destruct l; simpl; try exact IH; destruct (Nat.eqb _ rid); simpl; rewrite IH; reflexivity.
  Qed.

  Corollary refresh_between_steps_is_invisible : forall g0 ls1 rid q ls2 ls2',
    fresh rid ls1 = true ->
    without_refreshes ls2 = without_refreshes ls2' ->
    delivered rid (gw_run w pick false (ls1 ++ LBegin rid q :: ls2) (gw_init g0)) =
    delivered rid (gw_run w pick false (ls1 ++ LBegin rid q :: ls2') (gw_init g0)).
  Proof.
    intros g0 ls1 rid q ls2 ls2' Hf Hw. apply answer_depends_on_snapshot_and_own_labels; auto.
    rewrite <- (proj_without_refreshes rid ls2), Hw. apply proj_without_refreshes.
  Qed.

  (** the request alone, on a gateway that never refreshes *)
  Corollary request_as_if_alone : forall g0 ls1 rid q ls2,
    fresh rid ls1 = true ->
    delivered rid (gw_run w pick false (ls1 ++ LBegin rid q :: ls2) (gw_init g0)) =
    delivered rid (gw_run w pick false (LBegin rid q :: proj rid ls2) (gw_init (installed g0 ls1))).
  Proof.
    intros g0 ls1 rid q ls2 Hf.
    apply (answer_depends_on_snapshot_and_own_labels g0 (installed g0 ls1) ls1 [] rid q ls2 (proj rid ls2)); auto.
    unfold proj. symmetry.
    induction ls2 as [|l t IH]; [reflexivity|]. simpl. destruct (concerns rid l) eqn:E; simpl; [rewrite E; f_equal|]; exact IH.
  Qed.

  (** ** every request that is stepped often enough and then ended is answered, with [fed_exec] *)
  Definition steps_needed (g : gschema) (q : list node) : nat := todo_len (begin_phase w pick g q).

  Lemma local_run_steps : forall rid cur k r,
    local_run false rid cur (Some r, None) (repeat (LStep rid) k) =
    (Some (mk_request (rq_snap r) (rq_query r) (steps (rq_snap r) k (rq_phase r))), None).
  Proof.
    intros rid cur k. induction k as [|k IH]; intros r.
    - simpl. destruct r; reflexivity.
    - simpl repeat. simpl local_run. unfold local_step at 1. simpl. rewrite Nat.eqb_refl. rewrite IH. simpl.
      reflexivity.
  Qed.

  Lemma local_run_done : forall rid ls cur a, local_run false rid cur (None, Some a) ls = (None, Some a).
  Proof.
    intros rid ls. induction ls as [|l t IH]; intros cur a; [reflexivity|]. simpl.
    assert (E : local_step false rid cur (None, Some a) l = (None, Some a))
      by (unfold local_step; destruct (concerns rid l); destruct l; reflexivity).
    rewrite E. apply IH.
  Qed.

  Theorem request_completes : forall g0 ls1 rid q ls2 k more,
    fresh rid ls1 = true ->
    proj rid ls2 = repeat (LStep rid) k ++ LEnd rid :: more ->
    steps_needed (installed g0 ls1) q <= k ->
    delivered rid (gw_run w pick false (ls1 ++ LBegin rid q :: ls2) (gw_init g0)) =
    Some (fed_exec w (installed g0 ls1) pick false true q).
  Proof.
    intros g0 ls1 rid q ls2 k more Hf Hp Hk.
    rewrite run_split.
    destruct (view_after_begin false g0 ls1 rid q Hf) as [Hv Hc].
    set (s1 := gw_run w pick false (ls1 ++ [LBegin rid q]) (gw_init g0)) in *.
    assert (E : view_of rid (gw_run w pick false ls2 s1) = (None, Some (fed_exec w (installed g0 ls1) pick false true q))).
    { rewrite view_run, Hv, Hc.
      rewrite (local_run_proj rid ls2 _ (installed g0 ls1)) by (intros X; discriminate).
      rewrite Hp, local_run_app, local_run_steps. simpl rq_snap. simpl rq_query. simpl rq_phase.
      simpl local_run. unfold local_step at 1. simpl concerns. rewrite Nat.eqb_refl. simpl rq_phase.
      rewrite (answer_after_steps _ _ _ Hk), finish_begin. apply local_run_done. }
    unfold delivered. unfold view_of in E. apply (f_equal snd) in E. exact E.
  Qed.

  (** ** only [LBegin] reads the installed snapshot: whatever finer atomic steps [LStep] is cut into, a
      refresh between them finds nothing that looks at what it writes *)
  Theorem only_begin_reads_installed : forall c c' reqs out l,
    (forall r q, l <> LBegin r q) -> (forall g', l <> LRefresh g') ->
    gw_reqs (gw_step w pick false (mk_gateway c reqs out) l) = gw_reqs (gw_step w pick false (mk_gateway c' reqs out) l) /\
    gw_out (gw_step w pick false (mk_gateway c reqs out) l) = gw_out (gw_step w pick false (mk_gateway c' reqs out) l).
  Proof.
    intros c c' reqs out l Hb Hr. destruct l as [g'|r q|r|r]; simpl.
    - exfalso. eapply Hr. reflexivity.
    - exfalso. eapply Hb. reflexivity.
    - destruct (nlookup r reqs); split; reflexivity.
    - destruct (nlookup r reqs) as [x|]; [|split; reflexivity]. destruct (answer_phase (rq_phase x)); split; reflexivity.
  Qed.
End Proofs.

(** the correspondence trace (Refresh.refresh_trace: Begin, Refresh, one Step per root sub-plan, End) delivers
    [fed_exec] of the snapshot installed at the begin, whatever the refresh installs *)
Lemma proj_steps_end : forall rid k, proj rid (repeat (LStep rid) k ++ [LEnd rid]) = repeat (LStep rid) k ++ [LEnd rid].
Proof.
  intros rid k. unfold proj. induction k as [|k IH]; simpl; rewrite Nat.eqb_refl; [reflexivity|]. rewrite IH. reflexivity.
Qed.

Theorem refresh_trace_delivers_fed_exec : forall c,
  steps_needed (rc_world c) rpick (rc_g c) (rc_query c) <= rc_steps c ->
  delivered 0 (gw_run (rc_world c) rpick false (refresh_trace c) (gw_init (rc_g c))) =
  Some (fed_exec (rc_world c) (rc_g c) rpick false true (rc_query c)).
Proof.
  intros c Hk. unfold refresh_trace.
  apply (request_completes (rc_world c) rpick (rc_g c) [] 0 (rc_query c)
           (LRefresh (rc_other c) :: repeat (LStep 0) (rc_steps c) ++ [LEnd 0]) (rc_steps c) []).
  - reflexivity.
  - change (proj 0 (LRefresh (rc_other c) :: repeat (LStep 0) (rc_steps c) ++ [LEnd 0]))
      with (proj 0 (repeat (LStep 0) (rc_steps c) ++ [LEnd 0])). apply proj_steps_end.
  - exact Hk.
Qed.

(** * Examples and the refutation of the re-reading variant *)

(** two requests and three refreshes interleaved; each request is answered as [fed_exec] of the snapshot that
    was installed at ITS begin (request 1: rg0; request 2: rg0 again, installed by the third refresh... here
    the second request begins under rg0 after a refresh to rg1 and back) *)
Definition trace_ok : list label :=
  [LBegin 1 rq1; LRefresh rg1; LBegin 2 rq2; LStep 1; LRefresh rg0; LStep 2; LRefresh rg1; LStep 2; LEnd 1; LEnd 2].

Example one_snapshot_nonvacuous :
  delivered 1 (gw_run rw rpick false trace_ok (gw_init rg0)) = Some (fed_exec rw rg0 rpick false true rq1) /\
  option_map (option_map norm) (delivered 1 (gw_run rw rpick false trace_ok (gw_init rg0))) =
    Some (Some (JObj [("self", JObj [("p", JNum 17%Z); ("q", JNum 27%Z)])])) /\
  delivered 2 (gw_run rw rpick false trace_ok (gw_init rg0)) = Some (fed_exec rw rg1 rpick false true rq2) /\
  steps_needed rw rpick rg0 rq1 = 1 /\ steps_needed rw rpick rg1 rq2 = 2.
Proof. vm_compute. repeat split; reflexivity. Qed.

(** (iii) the re-reading variant is refuted: a refresh between begin and step to a version set in which s2
    identifies an A by another key makes the request fail (the plan in hand fetched the old key only), where
    the code as it is answers as if there had been no refresh *)
Definition trace_bad : list label := [LBegin 0 rq1; LRefresh rg1; LStep 0; LEnd 0].

Theorem reread_refuted :
  exists w pick g0 ls rid q a,
    ls = LBegin rid q :: tl ls /\
    delivered rid (gw_run w pick true ls (gw_init g0)) = Some a /\
    a <> fed_exec w g0 pick false true q /\
    delivered rid (gw_run w pick false ls (gw_init g0)) = Some (fed_exec w g0 pick false true q).
Proof.
  exists rw, rpick, rg0, trace_bad, 0, rq1, None. vm_compute. repeat split; try reflexivity. discriminate.
Qed.
