(** The poller (Executor.poll, executor.go:124-138) as a transition system: schema versions are deployed, a fetch
    reads the version deployed when it STARTS and installs it when it completes (FetchPlannerAndSchema +
    setPlanner).  [concurrent = false] is the code as it is: the loop fetches and installs inside one iteration,
    so a fetch starts only when none is pending.  [concurrent = true] is the variant that starts every tick's
    fetch in its own goroutine.  Definitions, theorems and the refutation of the variant. *)
From Coq Require Import List Arith Lia Bool.
Import ListNotations.

Record pstate := mk_pstate {
  ps_deployed : nat;          (* newest deployed schema version *)
  ps_installed : nat;         (* version of the installed planner *)
  ps_pending : list nat       (* fetches under way: the version each one read at its start, oldest first *)
}.

Inductive plabel := PDeploy | PFetchStart | PInstall (k : nat).   (* [PInstall k]: the k-th pending fetch completes *)

Fixpoint remove_nth {A} (k : nat) (l : list A) : list A :=
  match l, k with
  | [], _ => []
  | _ :: t, O => t
  | x :: t, S k' => x :: remove_nth k' t
  end.

Definition pstep (concurrent : bool) (s : pstate) (l : plabel) : option pstate :=
  match l with
  | PDeploy => Some (mk_pstate (S (ps_deployed s)) (ps_installed s) (ps_pending s))
  | PFetchStart =>
      match ps_pending s with
      | [] => Some (mk_pstate (ps_deployed s) (ps_installed s) [ps_deployed s])
      | _ => if concurrent then Some (mk_pstate (ps_deployed s) (ps_installed s) (ps_pending s ++ [ps_deployed s]))
             else None      (* the loop is still inside the previous iteration *)
      end
  | PInstall k =>
      match nth_error (ps_pending s) k with
      | Some v => Some (mk_pstate (ps_deployed s) v (remove_nth k (ps_pending s)))
      | None => None
      end
  end.

Fixpoint prun (concurrent : bool) (s : pstate) (ls : list plabel) : option pstate :=
  match ls with
  | [] => Some s
  | l :: t => match pstep concurrent s l with Some s' => prun concurrent s' t | None => None end
  end.

(** every installed version the trace goes through, in order *)
Fixpoint installs (concurrent : bool) (s : pstate) (ls : list plabel) : list nat :=
  match ls with
  | [] => []
  | l :: t => match pstep concurrent s l with
              | Some s' => match l with PInstall _ => [ps_installed s'] | _ => [] end ++ installs concurrent s' t
              | None => []
              end
  end.

(** the invariant of the sequential poller: what is installed is not newer than what a pending fetch read, which
    is not newer than what is deployed; at most one fetch is pending *)
Definition pinv (s : pstate) : Prop :=
  ps_installed s <= ps_deployed s /\
  match ps_pending s with
  | [] => True
  | [v] => ps_installed s <= v /\ v <= ps_deployed s
  | _ => False
  end.

Lemma pstep_inv : forall s l s', pinv s -> pstep false s l = Some s' -> pinv s' /\ ps_installed s <= ps_installed s'.
Proof.
  intros [d i p] l s' [H1 H2] H. destruct l as [| |k]; simpl in *.
  - inversion H; subst. unfold pinv; simpl. split; [|lia]. split; [lia|].
    destruct p as [|v [|w t]]; auto. lia.
  - destruct p as [|v t]; [|discriminate]. inversion H; subst. unfold pinv; simpl. split; [|lia]. split; [lia|]. lia.
  - destruct p as [|v [|w t]]; try contradiction.
    + destruct k; discriminate.
    + destruct k as [|k]; simpl in H; [|destruct k; discriminate]. inversion H; subst. unfold pinv; simpl.
      split; [|lia]. split; [lia | exact I].
Qed.

(** The installed planner never goes back to an older schema: along every trace of the sequential poller, from
    any state satisfying the invariant (the initial state does), the installed version only grows. *)
Theorem installed_never_older : forall ls s s',
  pinv s -> prun false s ls = Some s' -> pinv s' /\ ps_installed s <= ps_installed s'.
Proof.
  induction ls as [|l t IH]; intros s s' Hi H; simpl in H.
  - inversion H; subst. split; [exact Hi | lia].
  - destruct (pstep false s l) as [s1|] eqn:E; [|discriminate].
    destruct (pstep_inv _ _ _ Hi E) as [Hi1 Hle]. destruct (IH _ _ Hi1 H) as [Hi' Hle']. split; [exact Hi' | lia].
Qed.

(** ... and once a fetch that started after a deployment has been installed, that deployment is served for good *)
Theorem newest_fetched_stays : forall ls1 ls2 s s1 s2,
  pinv s -> prun false s ls1 = Some s1 -> prun false s1 ls2 = Some s2 -> ps_installed s1 <= ps_installed s2.
Proof.
  intros ls1 ls2 s s1 s2 Hi H1 H2. destruct (installed_never_older _ _ _ Hi H1) as [Hi1 _].
  apply (installed_never_older _ _ _ Hi1 H2).
Qed.

Definition pinit : pstate := mk_pstate 1 1 [].

Lemma pinit_inv : pinv pinit.
Proof. unfold pinv, pinit; simpl. split; [lia | exact I]. Qed.

(** The concurrent variant is refuted: fetch (old) -- deployment -- fetch (new) -- the new one installs -- the old
    one installs: the gateway ends up serving version 1 although version 2 had been installed.  The sequential
    poller cannot even take this trace (the second fetch does not start while the first is pending). *)
Theorem concurrent_poller_refuted :
  let tr := [PFetchStart; PDeploy; PFetchStart; PInstall 1; PInstall 0] in
  installs true pinit tr = [2; 1] /\
  option_map ps_installed (prun true pinit tr) = Some 1 /\
  prun false pinit tr = None.
Proof. vm_compute. repeat split; reflexivity. Qed.

(** non-vacuity of the sequential theorem: two deployments, three refreshes *)
Example sequential_poller_nonvacuous :
  let tr := [PFetchStart; PDeploy; PInstall 0; PFetchStart; PDeploy; PInstall 0; PFetchStart; PInstall 0] in
  installs false pinit tr = [1; 2; 3] /\ option_map ps_installed (prun false pinit tr) = Some 3.
Proof. vm_compute. split; reflexivity. Qed.
