(** What a planned, normalised query means: definitions shared by the statement of the transparency theorem
    ([annot], [flat_ok], [vok]) and the lemmas about sub-plans lifted through a field or a union member. *)
From Coq Require Import List String Bool Arith ZArith Lia.
From Thunder Require Import Lib.Json Federation.Merge Federation.MergeProofsBase Federation.Normalize Federation.Planner
  Federation.Executor Federation.ExecutorProofs Federation.NormalizeProofs Federation.PlannerProofs Federation.FedBase Federation.Premises.
Import ListNotations.
Open Scope string_scope.
Open Scope list_scope.

(** the __typename selection planUnion puts on every union selection *)
Definition tn_sel : node := NField "__typename" "__typename" (JObj []) "" [] false [].

Definition has_frag (l : list node) : bool := existsb (fun n => negb (is_field n)) l.

(** [annot]: the normalised query with __typename asked on every union selection -- what the gateway's
    answer is compared with *)
Fixpoint annot (n : node) : node :=
  match n with
  | NField al nm args ak dirs hs subs =>
      NField al nm args ak dirs hs (if has_frag subs then tn_sel :: map annot subs else map annot subs)
  | NFrag on dirs subs => NFrag on dirs (map annot subs)
  end.

(** ** well-typed worlds: an object-typed field yields (lists of, or null) objects of that type, a union-typed
    field members of that union *)
Fixpoint vok (g : gschema) (rty : rtype) (v : aval) {struct v} : Prop :=
  match v with
  | ANull => True
  | AList l => (fix all (l : list aval) : Prop := match l with [] => True | x :: t => vok g rty x /\ all t end) l
  | ARef t _ => match rty with RObj o => t = o /\ o <> "Leaf" | RScalar => True | RUnion _ => False end
  | AURef t _ => match rty with
                 | RUnion u => exists ms, union_members g u = Some ms /\ In t ms
                 | RScalar => True
                 | RObj _ => False
                 end
  | AScalar _ => match rty with RScalar => True | _ => False end
  | ALeaf _ _ => match rty with RScalar => True | RObj o => o = "Leaf" | RUnion _ => False end
  end.

Definition world_ok (w : world) (g : gschema) : Prop :=
  forall ty id f ak rty owners, find_gfield g ty f = Some (rty, owners) -> vok g rty (w_value w ty id f ak).

Section Sem.
  Variable w : world.
  Variable g : gschema.
  Notation K := (keyed g).
  Notation EV := (ev w (keyed g)).

  Definition nval (n : node) (ty : string) (id : Z) : json :=
    match n with
    | NField _ nm _ ak _ _ subs => fval_gen w K EV subs ty id nm ak
    | NFrag _ _ _ => JNull
    end.

  Lemma ev_field : forall al nm args ak dirs hs subs ty id,
    EV (NField al nm args ak dirs hs subs) ty id = [(al, fval_gen w K EV subs ty id nm ak)].
  Proof. reflexivity. Qed.

  Lemma evs_cons : forall n l ty id, evs EV (n :: l) ty id = EV n ty id ++ evs EV l ty id.
  Proof. reflexivity. Qed.

  Lemma evs_app : forall l1 l2 ty id, evs EV (l1 ++ l2) ty id = evs EV l1 ty id ++ evs EV l2 ty id.
  Proof. intros. unfold evs. apply flat_map_app. Qed.

  Lemma eval_obj_eq : forall ty id sels, eval_obj w K ty id sels = JObj (key_kv K ty id ++ evs EV sels ty id).
  Proof. reflexivity. Qed.

  (** ** exec1 ignores the path; lifted sub-plans *)
  Lemma exec1_push : forall s c id, exec1 w g (push_step s c) id = exec1 w g c id.
  Proof. intros s [path svc ty sels after] id. reflexivity. Qed.

  Lemma kid_push : forall s c k, kid g (push_step s c) k = kid g c k.
  Proof. intros s [path svc ty sels after] k. reflexivity. Qed.

  Lemma path_push : forall s c, p_path (push_step s c) = s :: p_path c.
  Proof. intros s [path svc ty sels after]. reflexivity. Qed.

  Lemma run_keys_push : forall s c ks, run_keys g (exec1 w g) (push_step s c) ks = run_keys g (exec1 w g) c ks.
  Proof.
    intros s c ks. unfold run_keys.
    assert (H1 : mapo (kid g (push_step s c)) ks = mapo (kid g c) ks).
    { induction ks as [|k t IH]; simpl; auto. rewrite kid_push, IH. reflexivity. }
    rewrite H1. clear H1. destruct (mapo (kid g c) ks) as [ids|]; auto.
    induction ids as [|i t IH]; simpl; auto. rewrite exec1_push, IH. reflexivity.
  Qed.

  Lemma after1_ext : forall run run' path x, (forall ks, run ks = run' ks) -> after1 run path x = after1 run' path x.
  Proof. intros run run' path x H. unfold after1. destruct (extract_keys true path x); auto. rewrite H. reflexivity. Qed.

  (** a sub-plan under field [al] of an object works on the value of that field *)
  Lemma after1_field : forall run al path L v,
    lookup al L = Some v ->
    after1 run (SField al :: path) (JObj L) =
    match after1 run path v with Some v' => Some (JObj (set_key al v' L)) | None => None end.
  Proof.
    intros run al path L v Hl. unfold after1. rewrite extract_keys_field_obj, Hl.
    destruct (extract_keys true path v) as [ks|]; auto.
    destruct (run ks) as [rs|]; auto.
    destruct (negb (Nat.eqb (List.length rs) (List.length ks))); auto.
    rewrite graft_field_obj, Hl. destruct (graft path v rs) as [[v' [|]]|]; auto.
  Qed.

  (** a sub-plan for union member [t] works on objects of that member only *)
  Lemma after1_type : forall run t path L s,
    run [] = Some [] -> lookup "__typename" L = Some (JStr s) ->
    after1 run (SType t :: path) (JObj L) =
    if String.eqb s t then after1 run path (JObj L) else Some (JObj L).
  Proof.
    intros run t path L s Hr Hl. unfold after1. rewrite extract_keys_type_obj, Hl.
    destruct (String.eqb s t) eqn:E.
    - destruct (extract_keys true path (JObj L)) as [ks|]; auto.
      destruct (run ks) as [rs|]; auto.
      destruct (negb (Nat.eqb (List.length rs) (List.length ks))); auto.
      rewrite graft_type_obj, Hl, E. reflexivity.
    - rewrite Hr. cbn [List.length Nat.eqb negb]. rewrite graft_type_obj, Hl, E. reflexivity.
  Qed.

  Lemma after1_null : forall run path, run [] = Some [] -> after1 run path JNull = Some JNull.
  Proof.
    intros run path Hr. unfold after1. destruct path as [|[a|t] rest]; simpl; rewrite Hr; reflexivity.
  Qed.

  Lemma run_keys_nil : forall sub, run_keys g (exec1 w g) sub [] = Some [].
  Proof. reflexivity. Qed.

  Notation RA := (run_afters w g).

  Lemma RA_nil : forall x, RA [] x = Some x.
  Proof. reflexivity. Qed.

  Lemma RA_cons : forall sub t x, RA (sub :: t) x =
    match after1 (run_keys g (exec1 w g) sub) (p_path sub) x with Some x' => RA t x' | None => None end.
  Proof. reflexivity. Qed.

  Lemma RA_app : forall l1 l2 x, RA (l1 ++ l2) x = match RA l1 x with Some y => RA l2 y | None => None end.
  Proof.
    induction l1 as [|s t IH]; intros l2 x; [reflexivity|].
    simpl app. rewrite !RA_cons. destruct (after1 _ _ x); auto.
  Qed.

  Lemma RA_null : forall l, RA l JNull = Some JNull.
  Proof.
    induction l as [|s t IH]; [reflexivity|]. rewrite RA_cons, after1_null; [exact IH | apply run_keys_nil].
  Qed.

  Lemma RA_arr : forall l xs ys, Forall2 (fun x y => RA l x = Some y) xs ys -> RA l (JArr xs) = Some (JArr ys).
  Proof.
    induction l as [|s t IH]; intros xs ys H.
    - rewrite RA_nil. f_equal. f_equal. induction H as [|x y xs ys Hxy _ IHl]; auto. rewrite RA_nil in Hxy. inversion Hxy; subst. f_equal; auto.
    - rewrite RA_cons.
      assert (Hex : exists zs, Forall2 (fun x z => after1 (run_keys g (exec1 w g) s) (p_path s) x = Some z) xs zs /\
                               Forall2 (fun z y => RA t z = Some y) zs ys).
      { induction H as [|x y xs ys Hxy _ IHl].
        - exists []. split; constructor.
        - destruct IHl as [zs [A B]]. rewrite RA_cons in Hxy.
          destruct (after1 (run_keys g (exec1 w g) s) (p_path s) x) as [z|] eqn:E; [|discriminate].
          exists (z :: zs). split; constructor; auto. }
      destruct Hex as [zs [A B]].
      rewrite (after1_arr _ _ _ _ (run_keys_distributes g (exec1 w g) s) A). apply IH; exact B.
  Qed.

  (** the sub-plans of one field, lifted: they rewrite that field's value and nothing else *)
  Lemma RA_lift_field : forall al cafters L v,
    lookup al L = Some v ->
    RA (map (push_step (SField al)) cafters) (JObj L) =
    match RA cafters v with Some v' => Some (JObj (set_key al v' L)) | None => None end.
  Proof.
    intros al cafters. induction cafters as [|c t IH]; intros L v Hl.
    - simpl map. rewrite !RA_nil. f_equal. f_equal. clear -Hl. induction L as [|[k x] r IHL]; simpl in *; [discriminate|].
      destruct (String.eqb al k) eqn:E; [apply String.eqb_eq in E; subst; inversion Hl; reflexivity | f_equal; auto].
    - simpl map. rewrite !RA_cons, path_push.
      rewrite (after1_ext _ (run_keys g (exec1 w g) c) _ _ (run_keys_push _ c)).
      rewrite (after1_field _ _ _ _ _ Hl).
      destruct (after1 (run_keys g (exec1 w g) c) (p_path c) v) as [v1|]; auto.
      rewrite (IH (set_key al v1 L) v1).
      + destruct (RA t v1); auto. rewrite set_key_twice. reflexivity.
      + apply lookup_set_key_same. congruence.
  Qed.
End Sem.

(** ** what [fed_ok0] and [plain_ok] say, as propositions *)
Section FromBool0.
  Variable g : gschema.
  Hypothesis Hok : fed_ok0 g = true.

  Lemma ok0_nothing_returns_query : forall ty f o owners, find_gfield g ty f = Some (RObj o, owners) -> o <> "Query".
  Proof.
    intros ty f o owners E. unfold fed_ok0 in Hok. apply andb_prop in Hok as [H _]. apply andb_prop in H as [H _].
    apply find_gfield_in in E. eapply forallb_forall in H; [|exact E]. cbv beta iota zeta in H.
    apply negb_true_iff in H. intros ->. rewrite String.eqb_refl in H. discriminate.
  Qed.

  Lemma ok0_no_query_member : forall u ms, union_members g u = Some ms -> ~ In "Query" ms.
  Proof.
    intros u ms Hu. unfold fed_ok0 in Hok. apply andb_prop in Hok as [H _]. apply andb_prop in H as [_ H].
    apply union_members_in in Hu. eapply forallb_forall in H; [|exact Hu]. change (snd (u, ms)) with ms in H.
    apply negb_true_iff in H. intros Hq. apply (proj2 (existsb_eqb_In _ _)) in Hq. congruence.
  Qed.

  Lemma ok0_coordinator : forall ty f, owns g coordinator ty f = false.
  Proof.
    intros ty f. unfold owns. destruct (find_gfield g ty f) as [[rty owners]|] eqn:E; auto.
    destruct (existsb (String.eqb coordinator) owners) eqn:Ex; auto.
    apply existsb_eqb_In in Ex. pose proof (owner_in_services _ _ _ _ _ _ (find_gfield_in _ _ _ _ _ E) Ex) as Hin.
    unfold fed_ok0 in Hok. apply andb_prop in Hok as [_ H]. apply negb_true_iff in H.
    apply (proj2 (existsb_eqb_In _ _)) in Hin. congruence.
  Qed.
End FromBool0.

Lemma fed_ok_ok0 : forall g, fed_ok g = true -> fed_ok0 g = true.
Proof.
  intros g H. destruct (fed_ok_parts g H) as [P1 [_ [P3 [_ P5]]]]. unfold fed_ok0.
  apply andb_true_intro. split; [apply andb_true_intro; split|].
  - apply forallb_forall. intros [[[ty f] rty] owners] Hin. destruct (P1 _ _ _ _ Hin) as [_ [Hb _]].
    destruct rty as [|o|u]; auto. apply negb_true_iff. apply String.eqb_neq. apply Hb. reflexivity.
  - apply forallb_forall. intros [u ms] Hin. simpl. apply negb_true_iff.
    destruct (existsb (String.eqb "Query") ms) eqn:E; auto. exfalso. apply (P3 u ms Hin). apply existsb_eqb_In; exact E.
  - apply negb_true_iff. destruct (existsb (String.eqb coordinator) (services_of g)) eqn:E; auto.
    exfalso. apply P5. apply existsb_eqb_In; exact E.
Qed.

