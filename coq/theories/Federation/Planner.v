(** Executable model of federation/planner.go (selectService, planObject, planUnion, plan, planRoot) and
    planner_helpers.go (getFederatedSelectionsForObject for scalar key fields).  Definitions only. *)
From Coq Require Import List String Bool Arith ZArith.
From Thunder Require Import Lib.Json Federation.Merge Federation.Normalize.
Import ListNotations.
Open Scope string_scope.
Open Scope list_scope.

Inductive step := SField (alias : string) | SType (ty : string).

(** Plan (planner.go:53-60); the path is in the order the executor walks it. *)
Inductive plan : Type :=
| Plan (path : list step) (service : string) (ty : string) (sels : list node) (after : list plan).

Definition p_path (p : plan) := match p with Plan x _ _ _ _ => x end.
Definition p_service (p : plan) := match p with Plan _ x _ _ _ => x end.
Definition p_type (p : plan) := match p with Plan _ _ x _ _ => x end.
Definition p_sels (p : plan) := match p with Plan _ _ _ x _ => x end.
Definition p_after (p : plan) := match p with Plan _ _ _ _ x => x end.

Definition coordinator := "gateway-coordinator-service".
Definition federation_field := "_federation".

Definition push_step (s : step) (p : plan) : plan :=
  match p with Plan path svc ty sels after => Plan (s :: path) svc ty sels after end.

(** selectService (planner.go:150-178).  Without a selector entry: the current service if it serves the
    field, else "some" service that does -- Go iterates a map there; [pick] resolves that choice (the harness
    gives a selector entry to every field with several owners when it compares plans). *)
Definition selector_of (g : gschema) (ty f : string) : option string :=
  match find (fun e => let '(t, n, _) := e in String.eqb t ty && String.eqb n f) (g_selector g) with
  | Some (_, _, s) => Some s
  | None => None
  end.

Definition select_service (g : gschema) (pick : list string -> option string) (ty cur f : string)
           (owners : list string) : option string :=
  match selector_of g ty f with
  | Some s => if existsb (String.eqb s) owners then Some s else None
  | None => if existsb (String.eqb cur) owners then Some cur else pick owners
  end.

(** group selections by target service, keeping order; association list service -> selections *)
Fixpoint add_to (svc : string) (n : node) (m : list (string * list node)) : list (string * list node) :=
  match m with
  | [] => [(svc, [n])]
  | (s, l) :: t => if String.eqb s svc then (s, l ++ [n]) :: t else (s, l) :: add_to svc n t
  end.

Definition fkeys_of (g : gschema) (ty svc : string) : list string :=
  match find (fun e => let '(t, s, _) := e in String.eqb t ty && String.eqb s svc) (g_fkeys g) with
  | Some (_, _, ks) => ks
  | None => []
  end.

(** key fields to fetch under _federation: the (sorted, distinct) federated keys of the services that get
    selections (getFederatedSelectionsForObject, planner_helpers.go:46-107; scalar keys) *)
Definition key_selection (g : gschema) (ty : string) (others : list string) : node :=
  let ks := sorted_names (List.concat (map (fkeys_of g ty) others)) in
  NField federation_field federation_field (JObj []) "" [] true
         (map (fun k => NField k k (JObj []) "" [] false []) ks).

Definition is_fed_sel (n : node) : bool :=
  match n with NField a nm _ _ _ _ _ => String.eqb a federation_field && String.eqb nm federation_field | _ => false end.
Definition half_fed_sel (n : node) : bool :=
  match n with
  | NField a nm _ _ _ _ _ => negb (String.eqb a federation_field && String.eqb nm federation_field) &&
                             (String.eqb a federation_field || String.eqb nm federation_field)
  | _ => false
  end.

Section Planner.
  Variable g : gschema.
  Variable pick : list string -> option string.

  Definition included (n : node) : bool :=
    match n with NField _ _ _ _ dirs _ _ => should_include dirs | NFrag _ _ _ => true end.

  (** the service that resolves selection [n] of object [obj] when the plan is at service [cur];
      __typename stays where it is; a fragment is an error (the query is flattened) *)
  Definition target_of (obj cur : string) (n : node) : option (node * string) :=
    match n with
    | NField _ nm _ _ _ _ _ =>
        if String.eqb nm "__typename" then Some (n, cur)
        else match find_gfield g obj nm with
             | None => None
             | Some (_, owners) => option_map (pair n) (select_service g pick obj cur nm owners)
             end
    | NFrag _ _ _ => None
    end.

  (** [plan_ty fuel ty sels svc] = (selections for [svc], sub-plans); planObject / planUnion / plan *)
  Fixpoint plan_ty (fuel : nat) (ty : rtype) (sels : list node) (svc : string) {struct fuel}
    : option (list node * list plan) :=
    match fuel with
    | O => None
    | S fuel' =>
        match ty with
        | RScalar => None
        | RObj obj =>
            (* every included selection with the service that will resolve it *)
            match mapo (target_of obj svc) (filter included sels) with
            | None => None
            | Some tagged =>
                let loc := map fst (filter (fun p => String.eqb (snd p) svc) tagged) in
                let other_names := sorted_names (map snd (filter (fun p => negb (String.eqb (snd p) svc)) tagged)) in
                (* local selections, planned recursively *)
                match mapo (fun n =>
                        match n with
                        | NField al nm args ak dirs hs subs =>
                            if hs then
                              let fty := if String.eqb nm "__typename" then Some RScalar
                                         else option_map fst (find_gfield g obj nm) in
                              match fty with
                              | None => None
                              | Some t =>
                                  match plan_ty fuel' t subs svc with
                                  | None => None
                                  | Some (cs, cafters) =>
                                      Some (NField al nm args ak [] true cs, map (push_step (SField al)) cafters)
                                  end
                              end
                            else Some (NField al nm args ak [] false [], [])
                        | NFrag _ _ _ => None
                        end) loc with
                | None => None
                | Some planned =>
                    let ss := map fst planned in
                    let afters := List.concat (map snd planned) in
                    match mapo (fun o =>
                            match plan_ty fuel' (RObj obj) (map fst (filter (fun p => String.eqb (snd p) o) tagged)) o with
                            | Some (os, oafters) => Some (Plan [] o obj os oafters)
                            | None => None
                            end) other_names with
                    | None => None
                    | Some oplans =>
                        match other_names with
                        | [] => Some (ss, afters)
                        | _ =>
                            if existsb half_fed_sel ss then None
                            else if existsb is_fed_sel ss then Some (ss, afters ++ oplans)
                            else Some (ss ++ [key_selection g obj other_names], afters ++ oplans)
                        end
                    end
                end
            end
        | RUnion u =>
            match union_members g u with
            | None => None
            | Some ms =>
                if existsb (fun n => match n with NField _ nm _ _ _ _ _ => negb (String.eqb nm "__typename") | _ => false end) sels
                then None else
                let tn := NField "__typename" "__typename" (JObj []) "" [] false [] in
                let frs := frags_of sels in
                if negb (nodup_str (map n_alias frs)) then None
                else if negb (forallb (fun n => existsb (String.eqb (n_alias n)) ms) frs) then None
                else
                  match mapo (fun n =>
                          match n with
                          | NFrag on _ body =>
                              match plan_ty fuel' (RObj on) body svc with
                              | None => None
                              | Some (cs, cafters) => Some (NFrag on [] cs, map (push_step (SType on)) cafters)
                              end
                          | NField _ _ _ _ _ _ _ => None
                          end) frs with
                  | None => None
                  | Some planned => Some (tn :: fields_of sels ++ map fst planned, List.concat (map snd planned))
                  end
            end
        end
    end.

  (** planRoot for a query (planner.go:427-461) on an already flattened selection set *)
  Definition plan_root (fuel : nat) (flat : list node) : option plan :=
    match plan_ty fuel (RObj "Query") flat coordinator with
    | Some (ss, afters) => Some (Plan [] coordinator "Query" ss afters)
    | None => None
    end.
End Planner.

(** Paths: Go appends a step while returning from each enclosing local selection and reverses the slice at
    the end (reversePaths); [push_step] conses on the way out, which gives the same outermost-first order. *)

(** * Closedness of plans (statement side of subquery_closed; proofs in PlannerProofs.v) *)
Definition owns (g : gschema) (svc ty f : string) : bool :=
  match find_gfield g ty f with
  | Some (_, owners) => existsb (String.eqb svc) owners
  | None => false
  end.

(** [closed_node g svc ctx n]: selection [n], made on a value of type [ctx], only uses fields [svc] serves. *)
Fixpoint closed_node (g : gschema) (svc : string) (ctx : rtype) (n : node) {struct n} : bool :=
  match ctx, n with
  | RObj ty, NField _ nm _ _ _ _ subs =>
      String.eqb nm "__typename" ||
      match find_gfield g ty nm with
      | Some (rty, owners) => existsb (String.eqb svc) owners && forallb (closed_node g svc rty) subs
      | None => false
      end
  | RUnion _, NField _ nm _ _ _ _ _ => String.eqb nm "__typename"
  | RUnion _, NFrag on _ body => forallb (closed_node g svc (RObj on)) body
  | _, _ => false
  end.

Fixpoint plan_closed (g : gschema) (p : plan) {struct p} : bool :=
  match p with
  | Plan _ svc ty sels after =>
      forallb (closed_node g svc (RObj ty)) sels &&
      (fix go (l : list plan) : bool := match l with [] => true | x :: t => plan_closed g x && go t end) after
  end.


(** ** the non-federated object.  The world has one plain object type, "Leaf" ([ALeaf val tag]: fields val, tag):
    it is registered without a key and without _federation by every service whose fields return it, so the
    gateway can never hop below it. *)
Definition is_leaf (o : string) : bool := String.eqb o "Leaf".

(** [svc] serves every field of the plain object *)
Definition serves_leaf (g : gschema) (svc : string) : bool :=
  forallb (fun e => let '(ty, _, _, owners) := e in negb (is_leaf ty) || existsb (String.eqb svc) owners) (g_fields g).

Definition plain_ok (g : gschema) : bool :=
  (* the fields of the plain object are scalars and not subject to the ServiceSelector *)
  forallb (fun e => let '(ty, f, rty, _) := e in
     negb (is_leaf ty) ||
     (match rty with RScalar => true | _ => false end &&
      match selector_of g ty f with None => true | Some _ => false end)) (g_fields g) &&
  (* whoever serves a field that returns the plain object serves all of its fields (it registered the object) *)
  forallb (fun e => let '(_, _, rty, owners) := e in
     match rty with RObj o => negb (is_leaf o) || forallb (serves_leaf g) owners | _ => true end) (g_fields g) &&
  (* it is not a member of a union *)
  forallb (fun e => negb (existsb is_leaf (snd e))) (g_unions g).

(** ** the hypotheses as one decidable condition on the federation (evaluated by the harness on every
    generated federation) *)
Definition not_fed (n : node) : bool :=
  match n with NField _ nm _ _ _ _ _ => negb (String.eqb nm federation_field) | NFrag _ _ _ => true end.

Definition services_of (g : gschema) : list string :=
  dedupe (List.concat (map (fun e => let '(_, _, _, o) := e in o) (g_fields g))).

Definition fed_ok (g : gschema) : bool :=
  (* a service that serves a field of a type has _federation on that type and on the objects the field returns
     -- except for the plain object, which has none ([plain_ok] says what holds for it instead) *)
  forallb (fun e => let '(ty, f, rty, owners) := e in
     forallb (fun svc =>
        (is_leaf ty || owns g svc ty federation_field) &&
        ((String.eqb ty "Query" && String.eqb f federation_field) ||
         match rty with
         | RScalar => true
         | RObj o => is_leaf o || owns g svc o federation_field
         | RUnion u => match union_members g u with
                       | Some ms => forallb (fun m => owns g svc m federation_field) ms
                       | None => false
                       end
         end)) owners &&
     (* nothing returns the Query object *)
     match rty with RObj o => negb (String.eqb o "Query") | _ => true end &&
     (* _federation on an object returns that object (on Query it returns the Federation plumbing object) *)
     (negb (String.eqb f federation_field) || String.eqb ty "Query" ||
      match rty with RObj o => String.eqb o ty | _ => false end))
    (g_fields g) &&
  forallb (fun e => let '(ty, _, _) := e in negb (String.eqb ty "Query")) (g_fkeys g) &&
  forallb (fun e => negb (existsb (String.eqb "Query") (snd e))) (g_unions g) &&
  (* whoever has _federation on a type serves every field any service uses as a federated key of it *)
  forallb (fun e => let '(ty, _, ks) := e in
     forallb (fun svc => negb (owns g svc ty federation_field) || forallb (owns g svc ty) ks) (services_of g))
    (g_fkeys g) &&
  negb (existsb (String.eqb coordinator) (services_of g)).

