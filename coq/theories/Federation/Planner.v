(** Executable model of federation/planner.go (selectService, planObject, planUnion, plan, planRoot) and
    planner_helpers.go (getFederatedSelectionsForObject for scalar key fields).  Definitions only. *)
From Coq Require Import List String Bool Arith ZArith.
From Thunder Require Import Lib.Json Federation.Merge Federation.Normalize.
Import ListNotations.
Open Scope string_scope.
Open Scope list_scope.

Inductive step := SField (alias : string) | SType (ty : string).

(** Plan (planner.go:53-60); the path is in the order the executor walks it. *)
Inductive plan : Type :=
| Plan (path : list step) (service : string) (ty : string) (sels : list node) (after : list plan).

Definition p_path (p : plan) := match p with Plan x _ _ _ _ => x end.
Definition p_service (p : plan) := match p with Plan _ x _ _ _ => x end.
Definition p_type (p : plan) := match p with Plan _ _ x _ _ => x end.
Definition p_sels (p : plan) := match p with Plan _ _ _ x _ => x end.
Definition p_after (p : plan) := match p with Plan _ _ _ _ x => x end.

Definition coordinator := "gateway-coordinator-service".
Definition federation_field := "_federation".

Definition push_step (s : step) (p : plan) : plan :=
  match p with Plan path svc ty sels after => Plan (s :: path) svc ty sels after end.

(** selectService (planner.go:150-178).  Without a selector entry: the current service if it serves the
    field, else "some" service that does -- Go iterates a map there; [pick] resolves that choice (the harness
    gives a selector entry to every field with several owners when it compares plans). *)
Definition selector_of (g : gschema) (ty f : string) : option string :=
  match find (fun e => let '(t, n, _) := e in String.eqb t ty && String.eqb n f) (g_selector g) with
  | Some (_, _, s) => Some s
  | None => None
  end.

Definition select_service (g : gschema) (pick : list string -> option string) (ty cur f : string)
           (owners : list string) : option string :=
  match selector_of g ty f with
  | Some s => if existsb (String.eqb s) owners then Some s else None
  | None => if existsb (String.eqb cur) owners then Some cur else pick owners
  end.

(** group selections by target service, keeping order; association list service -> selections *)
Fixpoint add_to (svc : string) (n : node) (m : list (string * list node)) : list (string * list node) :=
  match m with
  | [] => [(svc, [n])]
  | (s, l) :: t => if String.eqb s svc then (s, l ++ [n]) :: t else (s, l) :: add_to svc n t
  end.

Definition fkeys_of (g : gschema) (ty svc : string) : list string :=
  match find (fun e => let '(t, s, _) := e in String.eqb t ty && String.eqb s svc) (g_fkeys g) with
  | Some (_, _, ks) => ks
  | None => []
  end.

(** key fields to fetch under _federation: the (sorted, distinct) federated keys of the services that get
    selections (getFederatedSelectionsForObject, planner_helpers.go:46-107; scalar keys) *)
Definition key_selection (g : gschema) (ty : string) (others : list string) : node :=
  let ks := sorted_names (List.concat (map (fkeys_of g ty) others)) in
  NField federation_field federation_field (JObj []) "" [] true
         (map (fun k => NField k k (JObj []) "" [] false []) ks).

Definition is_fed_sel (n : node) : bool :=
  match n with NField a nm _ _ _ _ _ => String.eqb a federation_field && String.eqb nm federation_field | _ => false end.
Definition half_fed_sel (n : node) : bool :=
  match n with
  | NField a nm _ _ _ _ _ => negb (String.eqb a federation_field && String.eqb nm federation_field) &&
                             (String.eqb a federation_field || String.eqb nm federation_field)
  | _ => false
  end.

Section Planner.
  Variable g : gschema.
  Variable pick : list string -> option string.

  (** [plan_ty fuel ty sels svc] = (selections for [svc], sub-plans); planObject / planUnion / plan *)
  Fixpoint plan_ty (fuel : nat) (ty : rtype) (sels : list node) (svc : string) {struct fuel}
    : option (list node * list plan) :=
    match fuel with
    | O => None
    | S fuel' =>
        match ty with
        | RScalar => None
        | RObj obj =>
            if existsb (fun n => negb (is_field n)) sels then None else
            (* split: local selections and selections for other services *)
            let split :=
              fold_left (fun acc n =>
                match acc with
                | None => None
                | Some (loc, others) =>
                    match n with
                    | NField al nm args ak dirs hs subs =>
                        if negb (should_include dirs) then Some (loc, others)
                        else if String.eqb nm "__typename" then Some (loc ++ [n], others)
                        else match find_gfield g obj nm with
                             | None => None
                             | Some (_, owners) =>
                                 match select_service g pick obj svc nm owners with
                                 | None => None
                                 | Some target =>
                                     if String.eqb target svc then Some (loc ++ [n], others)
                                     else Some (loc, add_to target n others)
                                 end
                             end
                    | NFrag _ _ _ => None
                    end
                end) sels (Some ([], [])) in
            match split with
            | None => None
            | Some (loc, others) =>
                (* local selections, planned recursively *)
                let local :=
                  fold_left (fun acc n =>
                    match acc, n with
                    | Some (ss, afters), NField al nm args ak dirs hs subs =>
                        if hs then
                          let fty := if String.eqb nm "__typename" then Some RScalar
                                     else option_map fst (find_gfield g obj nm) in
                          match fty with
                          | None => None
                          | Some t =>
                              match plan_ty fuel' t subs svc with
                              | None => None
                              | Some (cs, cafters) =>
                                  Some (ss ++ [NField al nm args ak [] true cs],
                                        afters ++ map (push_step (SField al)) cafters)
                              end
                          end
                        else Some (ss ++ [NField al nm args ak [] false []], afters)
                    | _, _ => None
                    end) loc (Some ([], [])) in
                match local with
                | None => None
                | Some (ss, afters) =>
                    let other_names := sort_str (map fst others) in
                    match mapo (fun o =>
                            match lookup o others with
                            | None => None
                            | Some osels =>
                                match plan_ty fuel' (RObj obj) osels o with
                                | Some (os, oafters) => Some (Plan [] o obj os oafters)
                                | None => None
                                end
                            end) other_names with
                    | None => None
                    | Some oplans =>
                        match other_names with
                        | [] => Some (ss, afters)
                        | _ =>
                            if existsb half_fed_sel ss then None
                            else if existsb is_fed_sel ss then Some (ss, afters ++ oplans)
                            else Some (ss ++ [key_selection g obj other_names], afters ++ oplans)
                        end
                    end
                end
            end
        | RUnion u =>
            match union_members g u with
            | None => None
            | Some ms =>
                if existsb (fun n => match n with NField _ nm _ _ _ _ _ => negb (String.eqb nm "__typename") | _ => false end) sels
                then None else
                let tn := NField "__typename" "__typename" (JObj []) "" [] false [] in
                let frs := frags_of sels in
                match fold_left (fun acc n =>
                        match acc, n with
                        | Some (seen, fs, afters), NFrag on _ body =>
                            if existsb (String.eqb on) seen then None
                            else if negb (existsb (String.eqb on) ms) then None
                            else match plan_ty fuel' (RObj on) body svc with
                                 | None => None
                                 | Some (cs, cafters) =>
                                     Some (on :: seen, fs ++ [NFrag on [] cs], afters ++ map (push_step (SType on)) cafters)
                                 end
                        | _, _ => None
                        end) frs (Some ([], [], [])) with
                | None => None
                | Some (_, fs, afters) => Some (tn :: fields_of sels ++ fs, afters)
                end
            end
        end
    end.

  (** planRoot for a query (planner.go:427-461) on an already flattened selection set *)
  Definition plan_root (fuel : nat) (flat : list node) : option plan :=
    match plan_ty fuel (RObj "Query") flat coordinator with
    | Some (ss, afters) => Some (Plan [] coordinator "Query" ss afters)
    | None => None
    end.
End Planner.

(** Paths: Go appends a step while returning from each enclosing local selection and reverses the slice at
    the end (reversePaths); [push_step] conses on the way out, which gives the same outermost-first order. *)
