(** Federation is transparent: planner + executor on the normalised query ([FedPlanSem.root_sem]) composed
    with normalisation against the reference semantics ([NormSem.norm_sem]). *)
From Coq Require Import List String Bool Arith ZArith Lia.
From Thunder Require Import Lib.Json Federation.Merge Federation.MergeProofsBase Federation.Normalize Federation.Planner
  Federation.Executor Federation.ExecutorProofs Federation.NormalizeProofs Federation.PlannerProofs Federation.FedBase
  Federation.FedSem Federation.FedPlanSem Federation.Premises Federation.NormSem Federation.PlannerTotal.
Import ListNotations.
Open Scope string_scope.
Open Scope list_scope.

Lemma jeq_sym : forall a b, jeq a b -> jeq b a.
Proof.
  induction a using json_ind'; intros y Hab; inversion Hab; subst; try constructor.
  - clear Hab. induction H1 as [|x y' l l2 Hxy _ IH]; constructor.
    + inversion H; subst. auto.
    + inversion H; subst. auto.
  - intros k. pose proof (H1 k) as A. destruct (lookup k l) as [x|] eqn:E1; inversion A; subst; constructor.
    apply lookup_in in E1. rewrite Forall_forall in H. apply (H _ E1). assumption.
Qed.

(** ** the boolean conditions on the table of resolver results give the typing premises *)
Lemma scalar_jsonb_ok : forall j, scalar_jsonb j = true -> scalar_json j.
Proof. intros j H. destruct j; simpl in *; auto; discriminate. Qed.

Lemma scalars_okb_ok : forall v, scalars_okb v = true -> scalars_ok v.
Proof.
  induction v using aval_ind'; intros Hb; simpl in *; auto.
  - apply scalar_jsonb_ok; exact Hb.
  - induction H as [|x t Hx _ IH]; [exact I|]. simpl in Hb. apply andb_prop in Hb as [H1 H2]. split; [apply Hx; exact H1 | apply IH; exact H2].
Qed.

Lemma svalb_ok : forall v, svalb v = true -> sval v.
Proof.
  induction v using aval_ind'; intros Hb; simpl in *; auto; try discriminate.
  - apply scalar_jsonb_ok; exact Hb.
  - induction H as [|x t Hx _ IH]; [exact I|]. simpl in Hb. apply andb_prop in Hb as [H1 H2]. split; [apply Hx; exact H1 | apply IH; exact H2].
Qed.

Lemma vokb_ok : forall g rty v, vokb g rty v = true -> vok g rty v.
Proof.
  intros g rty. induction v using aval_ind'; intros Hb; simpl in *; auto.
  - destruct rty; auto; discriminate.
  - destruct rty; auto; try discriminate. apply andb_prop in Hb as [H1 H2]. apply String.eqb_eq in H1. split; [exact H1|].
    apply negb_true_iff in H2. unfold is_leaf in H2. intros ->. rewrite String.eqb_refl in H2. discriminate.
  - destruct rty; auto; try discriminate. destruct (union_members g n) as [ms|]; [|discriminate].
    exists ms. split; [reflexivity | apply existsb_eqb_In; exact Hb].
  - induction H as [|x t Hx _ IH]; [exact I|]. simpl in Hb. apply andb_prop in Hb as [H1 H2]. split; [apply Hx; exact H1 | apply IH; exact H2].
  - destruct rty; auto; try discriminate. unfold is_leaf in Hb. apply String.eqb_eq in Hb. exact Hb.
Qed.

Lemma calls_ok_world : forall g calls orgs, calls_ok g calls = true ->
  world_ok (world_of calls orgs) g /\
  (forall ty id f ak, scalars_ok (w_value (world_of calls orgs) ty id f ak)) /\
  (forall ty id f ak owners, find_gfield g ty f = Some (RScalar, owners) -> sval (w_value (world_of calls orgs) ty id f ak)).
Proof.
  intros g calls orgs H.
  assert (Hent : forall ty id f ak,
            w_value (world_of calls orgs) ty id f ak = ANull \/
            exists v, w_value (world_of calls orgs) ty id f ak = v /\ In (ty, id, f, ak, v) calls).
  { intros ty id f ak. simpl.
    destruct (find (fun e => let '(t, i, n, a, _) := e in
                             String.eqb t ty && Z.eqb i id && String.eqb n f && String.eqb a ak) calls)
      as [[[[[t i] n] a] v]|] eqn:E; [|left; reflexivity].
    right. exists v. split; [reflexivity|]. apply find_some in E as [Hin Hp].
    apply andb_prop in Hp as [Hp H4]. apply andb_prop in Hp as [Hp H3]. apply andb_prop in Hp as [H1 H2].
    apply String.eqb_eq in H1, H3, H4. apply Z.eqb_eq in H2. subst. exact Hin. }
  unfold calls_ok in H. rewrite forallb_forall in H. split; [|split].
  - intros ty id f ak rty owners Hf. destruct (Hent ty id f ak) as [->|[v [-> Hin]]]; [exact I|].
    specialize (H _ Hin). cbv beta iota zeta in H. apply andb_prop in H as [_ H]. rewrite Hf in H.
    apply andb_prop in H as [H _]. apply vokb_ok; exact H.
  - intros ty id f ak. destruct (Hent ty id f ak) as [->|[v [-> Hin]]]; [exact I|].
    specialize (H _ Hin). cbv beta iota zeta in H. apply andb_prop in H as [H _]. apply scalars_okb_ok; exact H.
  - intros ty id f ak owners Hf. destruct (Hent ty id f ak) as [->|[v [-> Hin]]]; [exact I|].
    specialize (H _ Hin). cbv beta iota zeta in H. apply andb_prop in H as [_ H]. rewrite Hf in H.
    apply andb_prop in H as [_ H]. apply svalb_ok; exact H.
Qed.

(** ** the main theorem *)
Definition pick_total (pick : list string -> option string) : Prop := forall l, l <> [] -> exists s, pick l = Some s.

Theorem fed_transparent : forall w g pick q flat,
  (forall l s, pick l = Some s -> In s l) -> pick_total pick ->
  fed_ok0 g = true -> plain_ok g = true -> fed_ok2 g = true -> sel_ok g = true ->
  world_ok w g -> (forall ty id f ak, scalars_ok (w_value w ty id f ak)) ->
  (forall ty id f ak owners, find_gfield g ty f = Some (RScalar, owners) -> sval (w_value w ty id f ak)) ->
  forallb qwf q = true ->
  flatten (2 * depth_list q + 4) false g (RObj "Query") (Some q) = Some (Some flat) ->
  flat_ok g "Query" flat = true ->
  exists a r, fed_exec w g pick false true q = Some a /\
              eval_ref w g true (2 * depth_list q + 4) "Query" 0%Z q = Some r /\ jeq a r.
Proof.
  intros w g pick q flat Hpick Hpt Hok Hpl Hok2 Hsel Hw Hsc Hsv Hq Hfl Hflat.
  destruct (plan_root_total_flatten g pick true false _ q flat Hpick Hpt Hsel Hfl Hflat) as [p Hplan].
  destruct (root_sem w g pick Hpick Hok Hpl Hok2 Hw Hsc _ flat p Hplan Hflat) as [L [Hex Hsim]].
  assert (Hqs : Forall qwfP q) by (apply Forall_forall; intros x Hx; eapply forallb_forall in Hq; eauto).
  destruct (norm_sem w g Hw Hsv _ "Query" 0%Z q flat Hfl Hqs Hflat) as [r [Hr Hj]].
  exists (delete_key federation_field (JObj L)), r. split; [|split; [exact Hr|]].
  - unfold fed_exec, fed_exec_gen. cbv zeta. change (flatten_gen true) with flatten. rewrite Hfl, Hplan, Hex. reflexivity.
  - eapply jeq_trans; [apply simv_delete_jeq; exact Hsim | exact Hj].
Qed.

(** the same on a case of the correspondence check: one boolean premise *)
Theorem fed_transparent_on_case : forall g calls orgs pick q,
  (forall l s, pick l = Some s -> In s l) -> pick_total pick -> premises g calls pick q = true ->
  exists a r, fed_exec (world_of calls orgs) g pick false true q = Some a /\
              eval_ref (world_of calls orgs) g true (2 * depth_list q + 4) "Query" 0%Z q = Some r /\ jeq a r.
Proof.
  intros g calls orgs pick q Hpick Hpt H. unfold premises in H. cbv zeta in H.
  destruct (flatten (2 * depth_list q + 4) false g (RObj "Query") (Some q)) as [[flat|]|] eqn:Hfl;
    try (rewrite andb_false_r in H; discriminate).
  apply andb_prop in H as [H H5]. apply andb_prop in H as [H H4]. apply andb_prop in H as [H H3].
  apply andb_prop in H as [H Hs]. apply andb_prop in H as [H H2]. apply andb_prop in H as [H1 Hp].
  destruct (calls_ok_world g calls orgs H3) as [Hw [Hsc Hsv]].
  exact (fed_transparent _ g pick q flat Hpick Hpt H1 Hp H2 Hs Hw Hsc Hsv H4 Hfl H5).
Qed.

(** the answer does not depend on how the choice among several services that serve a field is resolved *)
Theorem fed_choice_independent : forall w g pick1 pick2 q flat,
  (forall l s, pick1 l = Some s -> In s l) -> (forall l s, pick2 l = Some s -> In s l) ->
  pick_total pick1 -> pick_total pick2 ->
  fed_ok0 g = true -> plain_ok g = true -> fed_ok2 g = true -> sel_ok g = true ->
  world_ok w g -> (forall ty id f ak, scalars_ok (w_value w ty id f ak)) ->
  (forall ty id f ak owners, find_gfield g ty f = Some (RScalar, owners) -> sval (w_value w ty id f ak)) ->
  forallb qwf q = true ->
  flatten (2 * depth_list q + 4) false g (RObj "Query") (Some q) = Some (Some flat) ->
  flat_ok g "Query" flat = true ->
  exists a1 a2, fed_exec w g pick1 false true q = Some a1 /\ fed_exec w g pick2 false true q = Some a2 /\ jeq a1 a2.
Proof.
  intros w g pick1 pick2 q flat Hp1 Hp2 Ht1 Ht2 Hok Hpl Hok2 Hsel Hw Hsc Hsv Hq Hfl Hflat.
  destruct (fed_transparent w g pick1 q flat Hp1 Ht1 Hok Hpl Hok2 Hsel Hw Hsc Hsv Hq Hfl Hflat) as [a1 [r1 [A1 [R1 J1]]]].
  destruct (fed_transparent w g pick2 q flat Hp2 Ht2 Hok Hpl Hok2 Hsel Hw Hsc Hsv Hq Hfl Hflat) as [a2 [r2 [A2 [R2 J2]]]].
  rewrite R1 in R2. inversion R2; subst r2.
  exists a1, a2. split; [exact A1 | split; [exact A2|]]. eapply jeq_trans; [exact J1 | apply jeq_sym; exact J2].
Qed.
