(** C19's [prune] (Gql/Query.v, on the query as the client wrote it) and the federation model's [fprune]
    (Gql/FedPrune.v, on the gateway's view of the parsed query) are one and the same textual deletion:
    [to_fed] reads a source query the way the gateway receives it from graphql.Parse - directive
    conditions evaluated, spreads replaced by the fragment they name - and commutes with pruning. *)
From Coq Require Import List String Bool Arith ZArith.
From Thunder Require Import Lib.Json Gql.Value Gql.Query Federation.Normalize Federation.Executor Gql.FedPrune.
Import ListNotations.
Open Scope string_scope.
Open Scope list_scope.

Definition fdir_of (vs : vars) (d : sdir) : list dir :=
  match d with
  | SDir n c =>
      if String.eqb n "skip" || String.eqb n "include"
      then match cond_value vs c with Some (JBool b) => [(n, b)] | _ => [] end
      else []
  end.
Definition fdirs (vs : vars) (ds : list sdir) : list dir := flat_map (fdir_of vs) ds.

(** fragment name -> (type condition, body as the gateway sees it) *)
Definition fedtab := list (string * (string * list node)).

Fixpoint to_fed_nodes (vs : vars) (ft : fedtab) (nodes : snodes) {struct nodes} : list node :=
  match nodes with
  | SNil => []
  | SCons n rest =>
      match n with
      | SField alias name key dirs sub =>
          [NField alias name (JObj []) key (fdirs vs dirs)
                  (match sub with Some _ => true | None => false end)
                  (match sub with Some (_, body) => to_fed_nodes vs ft body | None => [] end)]
      | SInline on dirs _ body => [NFrag on (fdirs vs dirs) (to_fed_nodes vs ft body)]
      | SSpread f dirs _ =>
          match lookup f ft with
          | Some (on, body) => [NFrag on (fdirs vs dirs) body]
          | None => []
          end
      end ++ to_fed_nodes vs ft rest
  end.

Fixpoint to_fed_frags (vs : vars) (ft : fedtab) (defs : list fragdef) : fedtab :=
  match defs with
  | [] => ft
  | d :: rest => to_fed_frags vs (ft ++ [(fd_name d, (fd_on d, to_fed_nodes vs ft (fd_body d)))]) rest
  end.

Definition to_fed (vs : vars) (q : squery) : list node :=
  to_fed_nodes vs (to_fed_frags vs [] (sq_frags q)) (sq_body q).

Definition prune_tab (ft : fedtab) : fedtab := map (fun e => (fst e, (fst (snd e), fprune (snd (snd e))))) ft.

Lemma lookup_prune_tab : forall f ft,
  lookup f (prune_tab ft) = option_map (fun x : string * list node => (fst x, fprune (snd x))) (lookup f ft).
Proof.
  induction ft as [|[k [on b]] t IH]; simpl; auto. destruct (String.eqb f k); auto.
Qed.

(** the two readings of "every directive allows the node" *)
Lemma allowed_fallowed : forall vs ds, forallb (dir_wf vs) ds = true -> allowed vs ds = fallowed (fdirs vs ds).
Proof.
  intros vs. induction ds as [|[n c] t IH]; [reflexivity|]. simpl. intros H. apply andb_prop in H as [Hd Ht].
  unfold allowed in *. cbn [forallb]. rewrite (IH Ht). unfold fallowed, fdirs. cbn [flat_map].
  rewrite forallb_app. f_equal. unfold dir_allows, fdir_of, dir_wf in *.
  destruct (String.eqb n "skip") eqn:E1.
  - simpl in *. destruct (cond_value vs c) as [[| | | | |]|]; try discriminate. simpl. unfold fdir_allows. simpl. rewrite E1. now rewrite andb_true_r.
  - destruct (String.eqb n "include") eqn:E2; simpl in *; [|reflexivity].
    destruct (cond_value vs c) as [[| | | | |]|]; try discriminate. simpl. unfold fdir_allows. simpl. rewrite E1, E2. now rewrite andb_true_r.
Qed.

Lemma fdirs_nil : forall vs, fdirs vs [] = [].
Proof. reflexivity. Qed.

Fixpoint nsz (nodes : snodes) : nat :=
  match nodes with
  | SNil => 0
  | SCons n rest =>
      Datatypes.S (match n with
                   | SField _ _ _ _ (Some (_, body)) => nsz body
                   | SInline _ _ _ body => nsz body
                   | _ => 0
                   end + nsz rest)
  end.

Lemma to_fed_prune_nodes : forall vs ft nodes, nodes_wf vs nodes = true ->
  to_fed_nodes vs (prune_tab ft) (prune_nodes vs nodes) = fprune (to_fed_nodes vs ft nodes).
Proof.
  intros vs ft nodes. remember (nsz nodes) as k eqn:Ek. assert (Hk : nsz nodes <= k) by (subst; auto). clear Ek.
  revert nodes Hk. induction k as [|k IH]; intros nodes Hk H.
  - destruct nodes; [reflexivity|simpl in Hk; inversion Hk].
  - destruct nodes as [|n rest]; [reflexivity|]. cbn [nsz] in Hk.
    assert (Hrest : nodes_wf vs rest = true ->
              to_fed_nodes vs (prune_tab ft) (prune_nodes vs rest) = fprune (to_fed_nodes vs ft rest)).
    { apply IH. destruct n as [a nm ky ds [[i b]|]|on ds i b|f ds w]; simpl in Hk; apply le_S_n in Hk;
        eauto using Nat.le_trans, Nat.le_add_l. }
    destruct n as [alias name key dirs sub|on dirs iid body|f dirs w].
    + cbn [nodes_wf] in H. apply andb_prop in H as [H Hr]. apply andb_prop in H as [Hd Hs].
      unfold dirs_wf in Hd. apply andb_prop in Hd as [Hd _].
      cbn [prune_nodes to_fed_nodes]. rewrite fprune_app. cbn [fprune flat_map fprune_node]. rewrite app_nil_r.
      rewrite <- (allowed_fallowed vs dirs Hd). destruct (allowed vs dirs); cbn [to_fed_nodes app]; [|now apply Hrest].
      rewrite (Hrest Hr). f_equal. destruct sub as [[i body]|]; [|reflexivity].
      f_equal. fold (fprune (to_fed_nodes vs ft body)). apply IH; [|exact Hs].
      simpl in Hk. apply le_S_n in Hk. eauto using Nat.le_trans, Nat.le_add_r.
    + cbn [nodes_wf] in H. apply andb_prop in H as [H Hr]. apply andb_prop in H as [Hd Hs].
      unfold dirs_wf in Hd. apply andb_prop in Hd as [Hd _].
      cbn [prune_nodes to_fed_nodes]. rewrite fprune_app. cbn [fprune flat_map fprune_node]. rewrite app_nil_r.
      rewrite <- (allowed_fallowed vs dirs Hd). destruct (allowed vs dirs); cbn [to_fed_nodes app]; [|now apply Hrest].
      rewrite (Hrest Hr). f_equal. f_equal. fold (fprune (to_fed_nodes vs ft body)). apply IH; [|exact Hs].
      simpl in Hk. apply le_S_n in Hk. eauto using Nat.le_trans, Nat.le_add_r.
    + cbn [nodes_wf] in H. apply andb_prop in H as [Hd Hr].
      unfold dirs_wf in Hd. apply andb_prop in Hd as [Hd _].
      cbn [prune_nodes to_fed_nodes]. rewrite fprune_app.
      destruct (lookup f ft) as [[on body]|] eqn:El.
      * cbn [fprune flat_map fprune_node]. rewrite app_nil_r.
        rewrite <- (allowed_fallowed vs dirs Hd). destruct (allowed vs dirs); cbn [to_fed_nodes app]; [|now apply Hrest].
        rewrite lookup_prune_tab, El. cbn [option_map fst snd app]. now rewrite (Hrest Hr).
      * destruct (allowed vs dirs); cbn [to_fed_nodes app fprune flat_map]; [|now apply Hrest].
        rewrite lookup_prune_tab, El. cbn [option_map app]. now apply Hrest.
Qed.

Lemma to_fed_frags_prune : forall vs defs ft,
  forallb (fun d => nodes_wf vs (fd_body d)) defs = true ->
  to_fed_frags vs (prune_tab ft) (map (fun d => mk_fragdef (fd_name d) (fd_on d) (fd_id d) (prune_nodes vs (fd_body d))) defs)
  = prune_tab (to_fed_frags vs ft defs).
Proof.
  intros vs. induction defs as [|d rest IH]; intros ft H; [reflexivity|]. simpl in H. apply andb_prop in H as [Hd Hr].
  cbn [map to_fed_frags fd_name fd_on fd_body]. rewrite (to_fed_prune_nodes vs ft (fd_body d) Hd).
  rewrite <- (IH _ Hr). f_equal. unfold prune_tab. rewrite map_app. reflexivity.
Qed.

(** Reading the pruned source query = pruning the gateway's reading of the source query. *)
Theorem to_fed_prune : forall vs q, directives_wellformed vs q = true ->
  to_fed vs (prune vs q) = fprune (to_fed vs q).
Proof.
  intros vs q H. unfold directives_wellformed in H. apply andb_prop in H as [Hb Hf].
  unfold to_fed, prune. cbn [sq_frags sq_body].
  change (@nil (string * (string * list node))) with (prune_tab []).
  rewrite (to_fed_frags_prune vs (sq_frags q) [] Hf). now apply to_fed_prune_nodes.
Qed.

(** ... and a well-formed source query reads as a well-formed gateway query. *)
Lemma nodup_fdirs : forall vs ds, nodup_keys (map sdir_name ds) = true -> nodup_keys (map fst (fdirs vs ds)) = true.
Proof.
  intros vs. induction ds as [|[n c] t IH]; [reflexivity|]. simpl. intros H. apply andb_prop in H as [Hn Ht].
  unfold fdirs. cbn [flat_map]. fold (fdirs vs t). specialize (IH Ht).
  assert (Hsub : forall x, In x (map fst (fdirs vs t)) -> In x (map sdir_name t)).
  { clear. induction t as [|[n c] t IH]; simpl; [auto|]. intros x. unfold fdirs. cbn [flat_map]. fold (fdirs vs t).
    rewrite map_app, in_app_iff. intros [H|H]; [|right; auto]. left.
    destruct (String.eqb n "skip" || String.eqb n "include"); [|contradiction].
    destruct (cond_value vs c) as [[| | | | |]|]; try contradiction. destruct H as [<-|[]]. reflexivity. }
  destruct (String.eqb n "skip" || String.eqb n "include"); [|exact IH].
  destruct (cond_value vs c) as [[| | | | |]|]; try exact IH. cbn [app map fst nodup_keys]. rewrite IH, andb_true_r.
  apply negb_true_iff. apply negb_true_iff in Hn. destruct (existsb (String.eqb n) (map fst (fdirs vs t))) eqn:E; auto.
  apply existsb_exists in E as [x [Hx Ex]]. rewrite <- Hn. symmetry. apply existsb_exists. exists x. split; auto.
Qed.

Definition tab_wf (ft : fedtab) : Prop := forall f on body, lookup f ft = Some (on, body) -> fwf body = true.

Lemma to_fed_nodes_wf : forall vs ft nodes, tab_wf ft -> nodes_wf vs nodes = true -> fwf (to_fed_nodes vs ft nodes) = true.
Proof.
  intros vs ft nodes Hft. remember (nsz nodes) as k eqn:Ek. assert (Hk : nsz nodes <= k) by (subst; auto). clear Ek.
  revert nodes Hk. induction k as [|k IH]; intros nodes Hk H.
  - destruct nodes; [reflexivity|simpl in Hk; inversion Hk].
  - destruct nodes as [|n rest]; [reflexivity|]. cbn [nsz] in Hk.
    assert (Hrest : nodes_wf vs rest = true -> fwf (to_fed_nodes vs ft rest) = true).
    { apply IH. destruct n as [a nm ky ds [[i b]|]|on ds i b|f ds w]; simpl in Hk; apply le_S_n in Hk;
        eauto using Nat.le_trans, Nat.le_add_l. }
    cbn [to_fed_nodes]. rewrite fwf_app.
    destruct n as [alias name key dirs sub|on dirs iid body|f dirs w]; cbn [nodes_wf] in H.
    + apply andb_prop in H as [H Hr]. apply andb_prop in H as [Hd Hs]. rewrite (Hrest Hr), andb_true_r.
      unfold dirs_wf in Hd. apply andb_prop in Hd as [_ Hd]. cbn [fwf forallb fwf_node]. rewrite (nodup_fdirs vs dirs Hd). simpl.
      rewrite andb_true_r. destruct sub as [[i body]|]; [|reflexivity]. apply IH; [|exact Hs].
      simpl in Hk. apply le_S_n in Hk. eauto using Nat.le_trans, Nat.le_add_r.
    + apply andb_prop in H as [H Hr]. apply andb_prop in H as [Hd Hs]. rewrite (Hrest Hr), andb_true_r.
      unfold dirs_wf in Hd. apply andb_prop in Hd as [_ Hd]. cbn [fwf forallb fwf_node]. rewrite (nodup_fdirs vs dirs Hd). simpl.
      rewrite andb_true_r. apply IH; [|exact Hs].
      simpl in Hk. apply le_S_n in Hk. eauto using Nat.le_trans, Nat.le_add_r.
    + apply andb_prop in H as [Hd Hr]. rewrite (Hrest Hr), andb_true_r.
      unfold dirs_wf in Hd. apply andb_prop in Hd as [_ Hd].
      destruct (lookup f ft) as [[on body]|] eqn:El; [|reflexivity].
      cbn [fwf forallb fwf_node]. rewrite (nodup_fdirs vs dirs Hd). simpl. rewrite andb_true_r. exact (Hft f on body El).
Qed.

Lemma to_fed_frags_wf : forall vs defs ft, tab_wf ft ->
  forallb (fun d => nodes_wf vs (fd_body d)) defs = true -> tab_wf (to_fed_frags vs ft defs).
Proof.
  intros vs. induction defs as [|d rest IH]; intros ft Hft H; [exact Hft|]. simpl in H. apply andb_prop in H as [Hd Hr].
  cbn [to_fed_frags]. apply IH; [|exact Hr].
  intros f on body Hl.
  assert (G : forall (l : fedtab) x, lookup f (l ++ [x]) = match lookup f l with Some v => Some v | None => if String.eqb f (fst x) then Some (snd x) else None end).
  { induction l as [|[k v] t IHl]; intros [k' v']; simpl.
    - destruct (String.eqb f k'); reflexivity.
    - destruct (String.eqb f k); [reflexivity|apply (IHl (k', v'))]. }
  rewrite G in Hl. destruct (lookup f ft) as [[on' body']|] eqn:E.
  - inversion Hl; subst. eapply Hft; eauto.
  - cbn [fst snd] in Hl. destruct (String.eqb f (fd_name d)); [|discriminate]. inversion Hl; subst.
    now apply to_fed_nodes_wf.
Qed.

Theorem to_fed_wf : forall vs q, directives_wellformed vs q = true -> fwf (to_fed vs q) = true.
Proof.
  intros vs q H. unfold directives_wellformed in H. apply andb_prop in H as [Hb Hf]. unfold to_fed.
  apply to_fed_nodes_wf; [|exact Hb]. apply to_fed_frags_wf; [|exact Hf]. intros f on body Hl. discriminate.
Qed.

(** C19 through the gateway, stated on the query as the client wrote it: for every well-formed source
    query, whenever the gateway is transparent (C06) on its reading of the query and on its reading of
    the pruned query, it answers both, and both answers equal the combined server's answer to the
    annotated query. *)
Theorem gateway_prune_source : forall w g pick vs q,
  directives_wellformed vs q = true ->
  transparent_on w g pick (to_fed vs q) -> transparent_on w g pick (to_fed vs (prune vs q)) ->
  exists a a', fed_exec w g pick false true (to_fed vs q) = Some a /\
               fed_exec w g pick false true (to_fed vs (prune vs q)) = Some a' /\
               (forall r, eval_ref w g true (2 * depth_list (to_fed vs q) + 4) "Query" 0%Z (to_fed vs q) = Some r ->
                          jeq a r /\ jeq a' r).
Proof.
  intros w g pick vs q H T1 T2. rewrite (to_fed_prune vs q H) in *.
  apply gateway_prune; auto. now apply to_fed_wf.
Qed.
