(** Facts about Flatten as repaired: the flattened selections carry no directives any more (they were
    applied while grouping). *)
From Coq Require Import List String Bool Arith.
From Thunder Require Import Lib.Json Gql.Value Gql.Query.
Import ListNotations.
Open Scope list_scope.

Section SelsetInd.
  Variable P : selset -> Prop.
  Hypothesis Hss : forall id sels frags,
    Forall (fun it : item => match snd it with Some s => P s | None => True end) sels ->
    Forall (fun f : fragh * selset => P (snd f)) frags ->
    P (SelSet id sels frags).

  Fixpoint selset_ind' (s : selset) : P s :=
    match s with
    | SelSet id sels frags =>
        Hss id sels frags
          ((fix go (l : list item) : Forall (fun it : item => match snd it with Some s => P s | None => True end) l :=
              match l with
              | [] => Forall_nil _
              | (h, None) :: t => Forall_cons (h, None) I (go t)
              | (h, Some s') :: t => Forall_cons (h, Some s') (selset_ind' s') (go t)
              end) sels)
          ((fix go (l : list (fragh * selset)) : Forall (fun f : fragh * selset => P (snd f)) l :=
              match l with
              | [] => Forall_nil _
              | (h, b) :: t => Forall_cons (h, b) (selset_ind' b) (go t)
              end) frags)
    end.
End SelsetInd.

Definition nodirs (it : item) : Prop := s_dirs (fst it) = [].

Lemma keep_sels_nodirs : forall l l', keep_sels fixed l = Ok l' -> Forall nodirs l'.
Proof.
  induction l as [|[h s] t IH]; simpl; intros l' H.
  - inversion H. constructor.
  - destruct (should_include fixed (s_dirs h)) as [b|e]; [|discriminate].
    destruct (keep_sels fixed t) as [t'|e]; [|discriminate].
    inversion H; subst. destruct b; [constructor; [reflexivity|]|]; now apply IH.
Qed.

Lemma visit_nodirs : forall s seen acc seen' acc',
  Forall nodirs acc -> visit fixed s seen acc = Ok (seen', acc') -> Forall nodirs acc'.
Proof.
  induction s as [id sels frags _ IHf] using selset_ind'. intros seen acc seen' acc' Hacc H.
  cbn [visit] in H. destruct (existsb (Nat.eqb id) seen); [inversion H; subst; exact Hacc|].
  destruct (keep_sels fixed sels) as [kept|e] eqn:Ek; [|discriminate].
  apply keep_sels_nodirs in Ek.
  assert (Hacc2 : Forall nodirs (acc ++ kept)) by (apply Forall_app; auto).
  destruct (visit_frags (fun b sn ac => visit fixed b sn ac) fixed frags seen (acc ++ kept)) as [[seen1 acc1]|e] eqn:Ev; [|discriminate].
  inversion H; subst. clear H Hacc Ek.
  revert seen Hacc2 Ev. generalize (acc ++ kept). clear kept acc.
  induction IHf as [|[h b] t Hb _ IHt]; intros acc seen Hacc Ev; cbn [visit_frags] in Ev.
  - inversion Ev; subst. exact Hacc.
  - destruct (should_include fixed (fr_dirs h)) as [[|]|e]; try discriminate.
    + destruct (visit fixed b seen acc) as [[seen2 acc2]|e] eqn:Evb; [|discriminate].
      eapply (IHt acc2 seen2); [|exact Ev]. eapply Hb; eauto.
    + eapply IHt; eauto.
Qed.

Lemma add_group_heads : forall it gs,
  nodirs it -> Forall (fun g : selh * list (option selset) => s_dirs (fst g) = []) gs ->
  Forall (fun g : selh * list (option selset) => s_dirs (fst g) = []) (add_group it gs).
Proof.
  intros it gs Hit. induction gs as [|[h subs] t IH]; simpl; intros H.
  - constructor; auto.
  - inversion H; subst. destruct (String.eqb (s_alias h) (s_alias (fst it))); constructor; auto.
Qed.

Lemma group_items_heads : forall l,
  Forall nodirs l -> Forall (fun g : selh * list (option selset) => s_dirs (fst g) = []) (group_items l).
Proof.
  intros l. unfold group_items.
  assert (G : forall gs, Forall (fun g : selh * list (option selset) => s_dirs (fst g) = []) gs -> Forall nodirs l ->
                         Forall (fun g : selh * list (option selset) => s_dirs (fst g) = []) (fold_left (fun gs it => add_group it gs) l gs)).
  { induction l as [|it t IH]; simpl; intros gs Hgs Hl; auto.
    inversion Hl; subst. apply IH; auto. now apply add_group_heads. }
  intros Hl. apply G; auto.
Qed.

Lemma flatten_nodirs : forall s items, flatten fixed s = Ok items -> Forall nodirs items.
Proof.
  intros s items H. unfold flatten in H.
  destruct (visit fixed s [] []) as [[seen acc]|e] eqn:Ev; [|discriminate].
  inversion H; subst. apply visit_nodirs in Ev; [|constructor].
  apply group_items_heads in Ev. clear -Ev.
  induction Ev as [|g t Hg _ IH]; simpl; constructor; auto.
Qed.

Lemma should_include_nil : forall Q, should_include Q [] = Ok true.
Proof. reflexivity. Qed.
