(** Witnesses for the behaviours of the code before the repairs (quirks [original]): each is a query
    on which the original code breaks the property, found by reading, replayed on the real code through
    corpus/C19/*.json and corpus/C01/*.json. *)
From Coq Require Import List String Bool Arith ZArith.
From Thunder Require Import Lib.Json Gql.Types Gql.Value Gql.Query Gql.Ref Gql.Exec.
Import ListNotations.
Open Scope string_scope.
Open Scope list_scope.

(** Execute under the scheduler that always takes the first pending unit. *)
Definition exec_fifo (Q : quirks) (S : schema) (vs : vars) (q : squery) (root : value) : option result :=
  match parse_q Q vs q with
  | None => None
  | Some ss =>
      match init Q S ss root with
      | inr e => Some (RErr e)
      | inl st => finish 40 (run_fifo Q S 40 200 st)
      end
  end.

Definition norm_result (r : option result) : option result :=
  match r with Some (ROk j) => Some (ROk (norm j)) | x => x end.

Definition fplain n t := mk_field n t false false true false None.
Definition fstruct n t := mk_field n t false false false false None.

Definition w_schema : schema :=
  mk_schema
    [mk_object "Query" [fplain "r1" (TObject "T1"); fplain "r2" (TList (TUnion "UAB"))] None;
     mk_object "T1" [fstruct "s0" (TNonNull (TScalar "int64")); fplain "f0" (TNonNull (TScalar "int64"));
                     fplain "f1" (TObject "T1")] None;
     mk_object "MA" [fstruct "name" (TNonNull (TScalar "string")); fplain "m0" (TNonNull (TScalar "int64"))] None;
     mk_object "MB" [fstruct "label" (TNonNull (TScalar "string"))] None]
    [mk_union "UAB" ["MA"; "MB"]] "Query".

Definition w_t1 (k f : Z) (sub : value) :=
  VObj "T1" [("s0", OOk (VLeaf (LNum k))); ("f0", OOk (VLeaf (LNum f))); ("f1", OOk sub)].
Definition w_root : value :=
  VObj "Query"
    [("r1", OOk (w_t1 20 9 (w_t1 21 3 VNull)));
     ("r2", OOk (VList [VObj "MA" [("name", OOk (VLeaf (LStr "bob"))); ("m0", OOk (VLeaf (LNum 1%Z)))];
                        VObj "MB" [("label", OOk (VLeaf (LStr "x")))]; VNull]))].

Definition fld a n ds sub := SField a n n ds sub.
Definition lit b := CLit (JBool b).

(** F7: a: r1 { ...F @skip(if: true) s0 }  b: r1 { ...F }   fragment F on T1 { f0 } *)
Definition w_f7 : squery :=
  mk_squery "" 1
    (SCons (fld "a" "r1" [] (Some (2, SCons (SSpread "F" [SDir "skip" (lit true)] 10) (SCons (fld "s0" "s0" [] None) SNil))))
    (SCons (fld "b" "r1" [] (Some (3, SCons (SSpread "F" [] 11) SNil))) SNil))
    [mk_fragdef "F" "T1" 4 (SCons (fld "f0" "f0" [] None) SNil)].
(** the same with the condition of the first spread negated *)
Definition w_f7' : squery :=
  mk_squery "" 1
    (SCons (fld "a" "r1" [] (Some (2, SCons (SSpread "F" [SDir "skip" (lit false)] 10) (SCons (fld "s0" "s0" [] None) SNil))))
    (SCons (fld "b" "r1" [] (Some (3, SCons (SSpread "F" [] 11) SNil))) SNil))
    [mk_fragdef "F" "T1" 4 (SCons (fld "f0" "f0" [] None) SNil)].

(** F9: r1 { f0 @skip(if: true) f0 } *)
Definition w_f9 : squery :=
  mk_squery "" 1
    (SCons (fld "r1" "r1" [] (Some (2, SCons (fld "f0" "f0" [SDir "skip" (lit true)] None) (SCons (fld "f0" "f0" [] None) SNil)))) SNil) [].

(** F9: r1 { f1 @skip(if: true) { f0 } f1 { s0 } } *)
Definition w_f9b : squery :=
  mk_squery "" 1
    (SCons (fld "r1" "r1" [] (Some (2,
       SCons (fld "f1" "f1" [SDir "skip" (lit true)] (Some (3, SCons (fld "f0" "f0" [] None) SNil)))
      (SCons (fld "f1" "f1" [] (Some (4, SCons (fld "s0" "s0" [] None) SNil))) SNil)))) SNil) [].

(** F8: r2 { ... on MA @skip(if: true) { name } ... on MB { label } } *)
Definition w_f8 : squery :=
  mk_squery "" 1
    (SCons (fld "r2" "r2" [] (Some (2,
       SCons (SInline "MA" [SDir "skip" (lit true)] 3 (SCons (fld "name" "name" [] None) SNil))
      (SCons (SInline "MB" [] 4 (SCons (fld "label" "label" [] None) SNil)) SNil)))) SNil) [].

(** F4: r2 { ... on MA { name } ... on MA { m0 } }   F5: the MB element has no fragment *)
Definition w_f4 : squery :=
  mk_squery "" 1
    (SCons (fld "r2" "r2" [] (Some (2,
       SCons (SInline "MA" [] 3 (SCons (fld "name" "name" [] None) SNil))
      (SCons (SInline "MA" [] 4 (SCons (fld "m0" "m0" [] None) SNil)) SNil)))) SNil) [].

(** inline fragments without type condition:
    r1 { s0 ... @include(if: true) { f0 @include(if: false) } ... @skip(if: false) { f1 @skip(if: true) { s0 } } } *)
Definition w_untyped : squery :=
  mk_squery "" 1
    (SCons (fld "r1" "r1" [] (Some (2,
       SCons (fld "s0" "s0" [] None)
      (SCons (SInline "" [SDir "include" (lit true)] 3 (SCons (fld "f0" "f0" [SDir "include" (lit false)] None) SNil))
      (SCons (SInline "" [SDir "skip" (lit false)] 4
                (SCons (fld "f1" "f1" [SDir "skip" (lit true)] (Some (5, SCons (fld "s0" "s0" [] None) SNil))) SNil)) SNil))))) SNil) [].

Definition ref_result_of (S : schema) (vs : vars) (q : squery) (root : value) : option result :=
  match parse vs q with
  | None => None
  | Some ss => let r := eval_ref S 40 ss root in
               match snd r with [] => Some (ROk (norm (fst r))) | e :: _ => Some (RErr e) end
  end.

Definition result_field (k : string) (r : option result) : option json :=
  match r with
  | Some (ROk (JObj l)) => lookup k l
  | _ => None
  end.
