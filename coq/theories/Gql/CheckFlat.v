(** An intermediate observable for C01 / C19: graphql.Flatten on the real parsed query.  The harness
    walks the parsed query along the schema the way the executor does - Flatten of the selection set of
    every object-typed selection; under a union-typed one, for every member, Flatten of the union-level
    selections plus the fragments on that member (resolveUnionBatch) - and writes the tree of flattened
    selections (alias, field, data key), sorted by alias since Flatten iterates a Go map.  [flat_tree]
    is the same walk with the model's [flatten]. *)
From Coq Require Import List String Bool Arith.
From Thunder Require Import Lib.Json Gql.Types Gql.Value Gql.Query Gql.Ref Gql.Exec Gql.Check.
Import ListNotations.
Open Scope string_scope.
Open Scope list_scope.

Inductive ftree : Type := FT (alias name key : string) (has_sub : bool) (sub : list ftree).

Fixpoint ftree_eqb (a b : ftree) {struct a} : bool :=
  match a, b with
  | FT al nm k hs sub, FT al' nm' k' hs' sub' =>
      String.eqb al al' && String.eqb nm nm' && String.eqb k k' && Bool.eqb hs hs' &&
      (fix go (l l' : list ftree) : bool :=
         match l, l' with
         | [], [] => true
         | x :: t, y :: t' => ftree_eqb x y && go t t'
         | _, _ => false
         end) sub sub'
  end.

Fixpoint ftrees_eqb (l l' : list ftree) : bool :=
  match l, l' with
  | [], [] => true
  | x :: t, y :: t' => ftree_eqb x y && ftrees_eqb t t'
  | _, _ => false
  end.

Fixpoint insert_item (it : item) (l : list item) : list item :=
  match l with
  | [] => [it]
  | x :: t => if str_ltb (s_alias (fst x)) (s_alias (fst it)) then x :: insert_item it t else it :: l
  end.
Definition sort_items (l : list item) : list item := fold_right insert_item [] l.

Fixpoint insert_s (s : string) (l : list string) : list string :=
  match l with
  | [] => [s]
  | x :: t => if str_ltb x s then x :: insert_s s t else s :: l
  end.

Section Mapo.
  Context {A B : Type}.
  Variable f : A -> option B.
  Fixpoint mapo' (l : list A) : option (list B) :=
    match l with
    | [] => Some []
    | x :: t => match f x, mapo' t with Some y, Some r => Some (y :: r) | _, _ => None end
    end.
End Mapo.

Section Flat.
  Variable S : schema.

  Definition members_of (u : string) : list string :=
    match find (fun x => String.eqb (u_name x) u) (s_unions S) with
    | Some x => fold_right insert_s [] (u_members x)
    | None => []
    end.

  Fixpoint flat_tree (fuel : nat) (t : gtype) (ss : option selset) {struct fuel} : option (list ftree) :=
    match fuel with
    | 0 => None
    | Datatypes.S f =>
        let flat_obj (oname : string) (s : selset) : option (list ftree) :=
          match flatten fixed s, find_object oname (s_objects S) with
          | Ok items, Some o =>
              mapo' (fun it : item =>
                       let h := fst it in
                       let hs := match snd it with Some _ => true | None => false end in
                       if String.eqb (s_name h) "__typename" then Some (FT (s_alias h) (s_name h) (s_key h) hs [])
                       else match find_field (s_name h) (o_fields o) with
                            | None => None
                            | Some fld =>
                                match flat_tree f (f_type fld) (snd it) with
                                | Some sub => Some (FT (s_alias h) (s_name h) (s_key h) hs sub)
                                | None => None
                                end
                            end) (sort_items items)
          | _, _ => None
          end in
        match t with
        | TScalar _ | TEnum _ => match ss with None => Some [] | Some _ => None end
        | TNonNull t' | TList t' => flat_tree f t' ss
        | TObject n => match ss with Some s => flat_obj n s | None => None end
        | TUnion u =>
            match ss with
            | Some s =>
                mapo' (fun m => match flat_obj m (union_member_set m s) with
                                | Some sub => Some (FT m "" "" true sub)
                                | None => None
                                end) (members_of u)
            | None => None
            end
        end
    end.
End Flat.

Definition opt_trees_eqb (a b : option (list ftree)) : bool :=
  match a, b with
  | None, None => true
  | Some x, Some y => ftrees_eqb x y
  | _, _ => false
  end.

(** Code 11: the tree of flattened selections of the parsed query differs from the model's. *)
Definition check_flat (c : gcase) (obs : option (option (list ftree))) : list nat :=
  match obs, g_schemas c, g_queries c with
  | Some o, sch :: _, q :: _ =>
      match parse (g_vars c) q with
      | None => []
      | Some ss => if opt_trees_eqb (flat_tree sch FUEL (TObject (s_query sch)) (Some ss)) o then [] else [11]
      end
  | _, _, _ => []
  end.

Fixpoint mismatches01_from_sparse (_ : nat) (cs : list (nat * (gcase * option (option (list ftree))))) : list (nat * list nat) :=
  match cs with
  | [] => []
  | (i, (c, o)) :: t => match dedup (check_case c ++ check_flat c o) with
                        | [] => mismatches01_from_sparse 0 t
                        | l => (i, l) :: mismatches01_from_sparse 0 t
                        end
  end.
