(** Correspondence evaluator shared by C19, C01 and C16: the harness writes schemas (as built by
    schemabuilder), data, queries, schedules and what the implementation returned; [check_case] lists
    the components on which the model disagrees. *)
From Coq Require Import List String Bool Arith.
From Thunder Require Import Lib.Json Gql.Types Gql.Value Gql.Query Gql.Ref Gql.Exec.
Import ListNotations.
Open Scope string_scope.
Open Scope list_scope.

Inductive obs : Type :=
| OJson (j : json)                                   (* Execute returned data; keys sorted *)
| OErr (c : eclass) (text : string) (p : path).      (* Execute returned an error *)

Record grun : Type := mk_grun {
  r_schema : nat;          (* index into g_schemas: the execution-mode assignment *)
  r_query : nat;           (* index into g_queries *)
  r_sched : list nat;      (* choices of the scripted scheduler; [] for the other schedulers *)
  r_obs : obs
}.

Record gcase : Type := mk_gcase {
  g_schemas : list schema;
  g_root : value;
  g_vars : vars;
  g_queries : list squery;
  g_runs : list grun
}.

Definition FUEL := 40.

(** Paths compared up to list indices: a failing batch resolver is reported at the first destination
    of its unit. *)
Definition pseg_sim (a b : pseg) : bool :=
  match a, b with
  | PKey x, PKey y => String.eqb x y
  | PIdx _, PIdx _ => true
  | _, _ => false
  end.
Fixpoint path_sim (a b : path) : bool :=
  match a, b with
  | [], [] => true
  | x :: a', y :: b' => pseg_sim x y && path_sim a' b'
  | _, _ => false
  end.

Definition perr_sim (a b : perr) : bool := err_eqb (pe_err a) (pe_err b) && path_sim (pe_path a) (pe_path b).

Definition is_model_err (e : perr) : bool :=
  err_eqb (pe_err e) err_invalid || err_eqb (pe_err e) err_fuel.

(** An observed error against a needed failure: the same class, the same text - except for client errors
    raised by thunder itself (bad directive), whose wording is thunder's own business - and the same
    path up to list indices. *)
Definition obs_err_sim (c : eclass) (t : string) (p : path) (f : perr) : bool :=
  eclass_eqb c (e_class (pe_err f)) &&
  (match c with EClient => true | _ => String.eqb t (e_text (pe_err f)) end) &&
  path_sim p (pe_path f).

(** No field of the schema is run as a batch (every other mode - plain, Expensive, the fallback of a
    batch field, NumParallelInvocations - is allowed): then an error is located exactly (theorem
    failing_resolver_fails_query_exact), and the observation is held to that. *)
Definition no_batch_fields (S : schema) : bool :=
  forallb (fun o => forallb (fun f => negb (should_use_batch f)) (o_fields o)) (s_objects S).

Definition obs_err_exact (c : eclass) (t : string) (p : path) (f : perr) : bool :=
  obs_err_sim c t p f && path_eqb p (pe_path f).

(** Does the observation agree with the reference semantics [r]? *)
Definition obs_matches_ref (exact : bool) (r : eres) (o : obs) : bool :=
  match o, snd r with
  | OJson j, [] => json_eqb (norm (fst r)) j
  | OErr c t p, (_ :: _) as fs => existsb (if exact then obs_err_exact c t p else obs_err_sim c t p) fs
  | _, _ => false
  end.

(** Does the observation agree with the machine's result under the same choices? The identity of the
    recorded failure depends on Go's map iteration order, so for errors only membership is compared. *)
Definition obs_matches_run (r : eres) (m : option result) (o : obs) : bool :=
  match m, o with
  | Some (ROk j), OJson j' => json_eqb (norm j) j'
  | Some (RErr e), OErr _ _ _ => existsb (perr_sim e) (snd r)
  | _, _ => false
  end.

Definition check_run (c : gcase) (r : grun) : list nat :=
  match nth_error (g_schemas c) (r_schema r), nth_error (g_queries c) (r_query r) with
  | Some sch, Some q =>
      match parse (g_vars c) q with
      | None => [3]
      | Some ss =>
          let ref := eval_ref sch FUEL ss (g_root c) in
          if existsb is_model_err (snd ref) then [3]
          else
            let m := match init fixed sch ss (g_root c) with
                     | inr e => Some (RErr e)
                     | inl st => finish FUEL (run_fifo fixed sch FUEL 4000 (run_sched fixed sch FUEL (r_sched r) st))
                     end in
            (if obs_matches_run ref m (r_obs r) then [] else [1]) ++
            (if obs_matches_ref (no_batch_fields sch) ref (r_obs r) then [] else [2])
      end
  | _, _ => [3]
  end.

Fixpoint dedup (l : list nat) : list nat :=
  match l with
  | [] => []
  | x :: t => if existsb (Nat.eqb x) t then dedup t else x :: dedup t
  end.

(** C19 in the model, as an executable test next to the theorem: the reference results of a query and
    of its pruned form coincide (code 4); the identifiers the harness assigned satisfy the theorem's
    hypothesis [ids_wf] (code 6). *)
Definition check_prune (c : gcase) : list nat :=
  match g_schemas c, g_queries c with
  | sch :: _, q :: _ =>
      if directives_wellformed (g_vars c) q then
        if negb (ids_wf q) then [6] else
        match parse (g_vars c) q, parse (g_vars c) (prune (g_vars c) q) with
        | Some a, Some b =>
            let ra := eval_ref sch FUEL a (g_root c) in
            let rb := eval_ref sch FUEL b (g_root c) in
            if json_eqb (norm (fst ra)) (norm (fst rb)) && Nat.eqb (List.length (snd ra)) (List.length (snd rb))
            then [] else [4]
        | _, _ => [4]
        end
      else []
  | _, _ => []
  end.

Definition check_case (c : gcase) : list nat :=
  dedup (flat_map (check_run c) (g_runs c) ++ check_prune c).

Fixpoint mismatches_from_sparse (_ : nat) (cs : list (nat * gcase)) : list (nat * list nat) :=
  match cs with
  | [] => []
  | (i, c) :: t => match check_case c with
                   | [] => mismatches_from_sparse 0 t
                   | l => (i, l) :: mismatches_from_sparse 0 t
                   end
  end.
