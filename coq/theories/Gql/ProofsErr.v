(** Small facts about errors: Execute's result is data or one error, the recorder keeps the first
    failure, nestPathError leaves sanitized errors alone, the socket only carries safe text. *)
From Coq Require Import List String Bool Arith.
From Thunder Require Import Lib.Json Gql.Types Gql.Value Gql.Query Gql.Ref Gql.Exec Gql.Check Gql.Envelope.
Import ListNotations.
Open Scope string_scope.
Open Scope list_scope.

Lemma finish_exclusive : forall rf st r,
  finish rf st = Some r ->
  match r with
  | ROk j => st_err st = None /\ complete st = true
  | RErr e => st_err st = Some e /\ complete st = true
  end.
Proof.
  intros rf st r. unfold finish. destruct (complete st); [|discriminate].
  destruct (st_err st); intros H; inversion H; auto.
Qed.

Lemma nest_safe : forall p e, safe e = true -> nest p e = mk_perr e [].
Proof. intros p e H. unfold nest. now rewrite H. Qed.
Lemma nest_unsafe : forall p e, safe e = false -> nest p e = mk_perr e p.
Proof. intros p e H. unfold nest. now rewrite H. Qed.

Lemma sanitize_spec : forall e,
  sanitize e = if safe (pe_err e) then e_text (pe_err e) else "Internal server error".
Proof. reflexivity. Qed.

Lemma subscribe_initial_error : forall id e,
  subscribe_initial id (RErr e) = [WError id (sanitize e); WClosed id].
Proof. reflexivity. Qed.

Lemma subscribe_initial_messages : forall id r id' m,
  In (WError id' m) (subscribe_initial id r) ->
  exists e, r = RErr e /\ id' = id /\
            m = if safe (pe_err e) then e_text (pe_err e) else "Internal server error".
Proof.
  intros id r id' m H. destruct r as [j|e]; simpl in H.
  - destruct H as [H|[]]; discriminate.
  - destruct H as [H|[H|[]]]; [|discriminate]. inversion H; subst. exists e. auto.
Qed.

(** Only an error that is itself a SanitizedError is passed on: an ordinary error that merely wraps a
    safe one keeps its response path and reaches the client as the generic message. *)
Lemma only_sanitized_forwarded : forall e, sanitize e <> "Internal server error" -> safe (pe_err e) = true.
Proof. intros e H. unfold sanitize in H. destruct (safe (pe_err e)); auto. Qed.

Lemma wraps_safe_not_forwarded : forall p t,
  nest p (mk_err EWrapsSafe t) = mk_perr (mk_err EWrapsSafe t) p /\
  sanitize (nest p (mk_err EWrapsSafe t)) = "Internal server error".
Proof. intros p t. split; reflexivity. Qed.

(** A user-defined SanitizedError is handed on without a path, and the client sees its SanitizedError()
    text ([e_text]), whatever its Error() text says. *)
Lemma custom_sanitized_forwarded : forall p t,
  nest p (mk_err ECustom t) = mk_perr (mk_err ECustom t) [] /\ sanitize (nest p (mk_err ECustom t)) = t.
Proof. intros p t. split; reflexivity. Qed.
