(** Parsing a query and parsing its textually pruned form give selection sets related by [PS]; hence
    (ProofsPrune) the same reference result, and (ProofsMain) the same result of Execute. *)
From Coq Require Import List String Bool Arith Permutation Lia.
From Thunder Require Import Lib.Json Gql.Types Gql.Value Gql.Query Gql.Ref Gql.Exec
  Gql.ProofsDirective Gql.ProofsFlatten Gql.ProofsPrune Gql.ProofsRef Gql.ProofsMain.
Import ListNotations.
Open Scope list_scope.

Lemma nodup_nat_fun : forall (l : list (nat * nat)) w a b,
  nodup_nat (map fst l) = true -> In (w, a) l -> In (w, b) l -> a = b.
Proof.
  induction l as [|[w0 c] t IH]; simpl; intros w a b Hnd Ha Hb; [contradiction|].
  apply andb_prop in Hnd as [Hn Ht]. apply negb_true_iff in Hn.
  assert (Hfresh : forall x, In (w0, x) t -> False).
  { intros x Hx. assert (E : existsb (Nat.eqb w0) (map fst t) = true).
    { apply existsb_exists. exists w0. split; [|apply Nat.eqb_refl]. apply in_map_iff. exists (w0, x). auto. }
    congruence. }
  destruct Ha as [Ha|Ha], Hb as [Hb|Hb].
  - congruence.
  - inversion Ha; subst. exfalso. eauto.
  - inversion Hb; subst. exfalso. eauto.
  - eauto.
Qed.

Fixpoint nsize (nodes : snodes) : nat :=
  match nodes with
  | SNil => 0
  | SCons n rest =>
      Datatypes.S (match n with
                   | SField _ _ _ _ (Some (_, body)) => nsize body
                   | SInline _ _ _ body => nsize body
                   | _ => 0
                   end + nsize rest)
  end.

Lemma parse_nodes_id : forall vs ft id nodes s, parse_nodes vs ft id nodes = Some s -> ss_id s = id.
Proof.
  intros vs ft id nodes s H. destruct nodes as [|n rest]; simpl in H; [inversion H; reflexivity|].
  destruct (parse_nodes vs ft id rest) as [[i sels frags]|]; [|discriminate].
  destruct n as [a nm k ds [[sid body]|]|on ds iid body|f ds w].
  - destruct (parse_nodes vs ft sid body); inversion H; reflexivity.
  - inversion H; reflexivity.
  - destruct (parse_nodes vs ft iid body); inversion H; reflexivity.
  - destruct (lookup f ft) as [[on body]|]; [|discriminate]. destruct ds; inversion H; reflexivity.
Qed.

Section ParsePrune.
  Variable vs : vars.
  Variable WT : list (nat * nat).
  Variable tab : list (string * nat).

  Notation PSw := (PS WT).

  Definition FtRel (ft ft' : ftab) : Prop :=
    Forall2 (fun a b => fst a = fst b /\ fst (snd a) = fst (snd b) /\ PSw (snd (snd a)) (snd (snd b))) ft ft'.
  Definition TabOk (ft : ftab) : Prop :=
    forall f on body, lookup f ft = Some (on, body) -> lookup f tab = Some (ss_id body).

  Lemma FtRel_lookup : forall ft ft' f on body, FtRel ft ft' -> lookup f ft = Some (on, body) ->
    exists body', lookup f ft' = Some (on, body') /\ PSw body body'.
  Proof.
    intros ft ft' f on body H. induction H as [|[n [o b]] [n' [o' b']] t t' [E1 [E2 E3]] _ IH]; simpl; intros Hl; [discriminate|].
    simpl in E1, E2, E3. subst n' o'. destruct (String.eqb f n).
    - inversion Hl; subst. eauto.
    - now apply IH.
  Qed.

  Lemma allowed_include : forall ds, dirs_wf vs ds = true ->
    should_include fixed (parse_dirs vs ds) = Ok (allowed vs ds).
  Proof. intros. now apply should_include_textual. Qed.

  Definition NodesOk (nodes : snodes) : Prop :=
    nodes_wf vs nodes = true ->
    forall ft ft' id s,
      FtRel ft ft' -> TabOk ft ->
      (forall i, In i (id :: set_ids nodes) -> is_wid WT i = false) ->
      incl (wt_nodes tab nodes) WT ->
      parse_nodes vs ft id nodes = Some s ->
      exists s', parse_nodes vs ft' id (prune_nodes vs nodes) = Some s' /\ PSw s s'.

  Lemma parse_prune_nodes : forall k nodes, nsize nodes <= k -> NodesOk nodes.
  Proof.
    induction k as [|k IH]; intros nodes Hk.
    - destruct nodes; [|simpl in Hk; lia].
      intros _ ft ft' id s _ _ Hid _ Hp. simpl in Hp. inversion Hp; subst.
      exists (SelSet id [] []). split; [reflexivity|]. constructor; [apply Hid; now left|constructor|constructor].
    - destruct nodes as [|n rest].
      { intros _ ft ft' id s _ _ Hid _ Hp. simpl in Hp. inversion Hp; subst.
        exists (SelSet id [] []). split; [reflexivity|]. constructor; [apply Hid; now left|constructor|constructor]. }
      intros Hwf ft ft' id s HF HT Hid Hwt Hp.
      cbn [parse_nodes] in Hp.
      destruct (parse_nodes vs ft id rest) as [[ir sels frags]|] eqn:Er; [|discriminate].
      assert (Eir : ir = id) by (apply parse_nodes_id in Er; exact Er). subst ir.
      (* the rest of the list *)
      assert (Hrest : exists sels' frags', parse_nodes vs ft' id (prune_nodes vs rest) = Some (SelSet id sels' frags') /\
                                           PSels WT sels sels' /\ PFrags WT frags frags').
      { assert (Hsz : nsize rest <= k) by (simpl in Hk; lia).
        assert (Hwr : nodes_wf vs rest = true).
        { destruct n as [a nm kk ds sub|on ds iid body|f ds w]; simpl in Hwf;
            repeat (apply andb_prop in Hwf as [Hwf ?]); auto. }
        assert (Hidr : forall i, In i (id :: set_ids rest) -> is_wid WT i = false).
        { intros i [<-|Hi]; [apply Hid; now left|]. apply Hid. right.
          destruct n as [a nm kk ds [[sid body]|]|on ds iid body|f ds w]; simpl; auto.
          + right. apply in_or_app. now right.
          + right. apply in_or_app. now right. }
        assert (Hwtr : incl (wt_nodes tab rest) WT).
        { intros x Hx. apply Hwt.
          destruct n as [a nm kk ds [[sid body]|]|on ds iid body|f [|d ds] w]; simpl; auto.
          + apply in_or_app. now right.
          + apply in_or_app. now right.
          + destruct (lookup f tab); [now right|auto]. }
        destruct (IH rest Hsz Hwr ft ft' id _ HF HT Hidr Hwtr Er) as [sr' [Er' Hps]].
        inversion Hps; subst. eauto. }
      destruct Hrest as [sels' [frags' [Er' [Hsels Hfrags]]]].
      assert (Hidn : is_wid WT id = false) by (apply Hid; now left).
      destruct n as [a nm kk ds sub|on ds iid body|f ds w].
      + (* field *)
        simpl in Hwf. apply andb_prop in Hwf as [Hwf Hwr]. apply andb_prop in Hwf as [Hds Hwsub].
        pose proof (allowed_include ds Hds) as Hinc.
        destruct sub as [[sid body]|].
        * destruct (parse_nodes vs ft sid body) as [sb|] eqn:Eb; [|discriminate]. inversion Hp; subst s. clear Hp.
          cbn [prune_nodes]. destruct (allowed vs ds) eqn:Eal.
          -- assert (Hsz : nsize body <= k) by (simpl in Hk; lia).
             assert (Hidb : forall i, In i (sid :: set_ids body) -> is_wid WT i = false).
             { intros i Hi. apply Hid. right. simpl. destruct Hi as [<-|Hi]; [now left|right; apply in_or_app; now left]. }
             assert (Hwtb : incl (wt_nodes tab body) WT).
             { intros x Hx. apply Hwt. simpl. apply in_or_app. now left. }
             destruct (IH body Hsz Hwsub ft ft' sid _ HF HT Hidb Hwtb Eb) as [sb' [Eb' Hpb]].
             cbn [parse_nodes]. rewrite Er', Eb'. eexists. split; [reflexivity|].
             constructor; auto.
             apply (PSels_keep WT (mk_selh a nm kk (parse_dirs vs ds)) (Some sb) (Some sb')); auto. now constructor.
          -- rewrite Er'. eexists. split; [reflexivity|]. constructor; auto. now apply PSels_drop.
        * inversion Hp; subst s. clear Hp. cbn [prune_nodes]. destruct (allowed vs ds) eqn:Eal.
          -- cbn [parse_nodes]. rewrite Er'. eexists. split; [reflexivity|]. constructor; auto.
             apply (PSels_keep WT (mk_selh a nm kk (parse_dirs vs ds)) None None); auto. constructor.
          -- rewrite Er'. eexists. split; [reflexivity|]. constructor; auto. now apply PSels_drop.
      + (* inline fragment *)
        simpl in Hwf. apply andb_prop in Hwf as [Hwf Hwr]. apply andb_prop in Hwf as [Hds Hwb].
        pose proof (allowed_include ds Hds) as Hinc.
        destruct (parse_nodes vs ft iid body) as [sb|] eqn:Eb; [|discriminate]. inversion Hp; subst s. clear Hp.
        cbn [prune_nodes]. destruct (allowed vs ds) eqn:Eal.
        * assert (Hsz : nsize body <= k) by (simpl in Hk; lia).
          assert (Hidb : forall i, In i (iid :: set_ids body) -> is_wid WT i = false).
          { intros i Hi. apply Hid. right. simpl. destruct Hi as [<-|Hi]; [now left|right; apply in_or_app; now left]. }
          assert (Hwtb : incl (wt_nodes tab body) WT).
          { intros x Hx. apply Hwt. simpl. apply in_or_app. now left. }
          destruct (IH body Hsz Hwb ft ft' iid _ HF HT Hidb Hwtb Eb) as [sb' [Eb' Hpb]].
          cbn [parse_nodes]. rewrite Er', Eb'. eexists. split; [reflexivity|]. constructor; auto.
          apply (PFrags_keep WT (mk_fragh None on (parse_dirs vs ds)) sb sb'); auto.
        * rewrite Er'. eexists. split; [reflexivity|]. constructor; auto. now apply PFrags_drop.
      + (* spread *)
        simpl in Hwf. apply andb_prop in Hwf as [Hds Hwr].
        pose proof (allowed_include ds Hds) as Hinc.
        destruct (lookup f ft) as [[on body]|] eqn:El; [|discriminate].
        destruct (FtRel_lookup ft ft' f on body HF El) as [body' [El' Hpb]].
        cbn [prune_nodes].
        destruct ds as [|d ds].
        * inversion Hp; subst s. clear Hp. cbn [allowed forallb]. cbn [parse_nodes]. rewrite Er', El'.
          eexists. split; [reflexivity|]. constructor; auto.
          apply (PFrags_keep WT (mk_fragh (Some f) on []) body body'); auto.
        * inversion Hp; subst s. clear Hp. destruct (allowed vs (d :: ds)) eqn:Eal.
          -- cbn [parse_nodes]. rewrite Er', El'. eexists. split; [reflexivity|]. constructor; auto.
             apply (PFrags_wrap WT (mk_fragh (Some f) on (parse_dirs vs (d :: ds))) (mk_fragh (Some f) on []) w body body'); auto.
             apply Hwt. simpl. rewrite (HT f on body El). now left.
          -- rewrite Er'. eexists. split; [reflexivity|]. constructor; auto. now apply PFrags_drop.
  Qed.
End ParsePrune.

(** * Whole queries *)
Lemma lookup_app : forall {A} (k : string) (a b : list (string * A)),
  lookup k (a ++ b) = match lookup k a with Some x => Some x | None => lookup k b end.
Proof.
  induction a as [|[k' v] t IH]; simpl; intros b; auto. destruct (String.eqb k k'); auto.
Qed.

Lemma parse_frags_prune : forall vs WT tab defs ft ft' ftr,
  forallb (fun d => nodes_wf vs (fd_body d)) defs = true ->
  FtRel WT ft ft' ->
  map (fun e : string * (string * selset) => (fst e, ss_id (snd (snd e)))) ft ++ idtab defs = tab ->
  (forall i, In i (flat_map (fun d => fd_id d :: set_ids (fd_body d)) defs) -> is_wid WT i = false) ->
  incl (flat_map (fun d => wt_nodes tab (fd_body d)) defs) WT ->
  parse_frags vs ft defs = Some ftr ->
  exists ftr', parse_frags vs ft' (map (fun d => mk_fragdef (fd_name d) (fd_on d) (fd_id d) (prune_nodes vs (fd_body d))) defs) = Some ftr' /\
               FtRel WT ftr ftr' /\
               (forall f on body, lookup f ftr = Some (on, body) -> lookup f tab = Some (ss_id body)).
Proof.
  intros vs WT tab. induction defs as [|d rest IH]; intros ft ft' ftr Hwf HF Htab Hid Hwt Hp.
  - simpl in Hp. inversion Hp; subst ftr. exists ft'. split; [reflexivity|]. split; [exact HF|].
    cbn [idtab map] in Htab. rewrite app_nil_r in Htab. subst tab. intros f on body Hl.
    clear -Hl. induction ft as [|[n [o b]] t IHt]; simpl in *; [discriminate|].
    destruct (String.eqb f n); [inversion Hl; subst; reflexivity|auto].
  - cbn [parse_frags map] in *. apply andb_prop in Hwf as [Hwd Hwr].
    destruct (parse_nodes vs ft (fd_id d) (fd_body d)) as [s|] eqn:Es; [|discriminate].
    assert (HT : TabOk tab ft).
    { intros f on body Hl. subst tab. rewrite lookup_app.
      assert (E : lookup f (map (fun e : string * (string * selset) => (fst e, ss_id (snd (snd e)))) ft) = Some (ss_id body)).
      { clear -Hl. induction ft as [|[n [o b]] t IHt]; simpl in *; [discriminate|].
        destruct (String.eqb f n); [inversion Hl; subst; reflexivity|auto]. }
      now rewrite E. }
    destruct (parse_prune_nodes vs WT tab (nsize (fd_body d)) (fd_body d) (le_n _) Hwd ft ft' (fd_id d) s HF HT) as [s' [Es' Hps]]; auto.
    + intros i Hi. apply Hid. simpl. destruct Hi as [<-|Hi]; [now left|right; apply in_or_app; now left].
    + intros x Hx. apply Hwt. simpl. apply in_or_app. now left.
    + cbn [fd_id fd_body fd_name fd_on]. rewrite Es'.
      apply (IH (ft ++ [(fd_name d, (fd_on d, s))]) (ft' ++ [(fd_name d, (fd_on d, s'))]) ftr); auto.
      * apply Forall2_app; auto.
      * rewrite map_app. cbn [map fst snd]. rewrite (parse_nodes_id _ _ _ _ _ Es). rewrite <- app_assoc. exact Htab.
      * intros i Hi. apply Hid. simpl. right. apply in_or_app. now right.
      * intros x Hx. apply Hwt. simpl. apply in_or_app. now right.
Qed.

Lemma ids_wf_spec : forall q, ids_wf q = true ->
  (forall w a b, In (w, a) (wt_of q) -> In (w, b) (wt_of q) -> a = b) /\
  (forall i, In i (all_set_ids q) -> is_wid (wt_of q) i = false).
Proof.
  intros q H. unfold ids_wf in H. apply andb_prop in H as [H1 H2]. split.
  - intros w a b. now apply nodup_nat_fun.
  - intros i Hi. rewrite forallb_forall in H2. apply H2 in Hi. now apply negb_true_iff in Hi.
Qed.

(** The pruned query parses whenever the query does, to a selection set related by [PS]. *)
Theorem parse_prune : forall vs q s,
  directives_wellformed vs q = true -> ids_wf q = true ->
  parse vs q = Some s ->
  exists s', parse vs (prune vs q) = Some s' /\ PS (wt_of q) s s'.
Proof.
  intros vs q s Hwf Hids Hp. destruct (ids_wf_spec q Hids) as [_ Hnw].
  unfold directives_wellformed in Hwf. apply andb_prop in Hwf as [Hwb Hwd].
  unfold parse in *. cbn [sq_frags sq_body sq_id prune].
  destruct (parse_frags vs [] (sq_frags q)) as [ft|] eqn:Ef; [|discriminate].
  destruct (parse_frags_prune vs (wt_of q) (idtab (sq_frags q)) (sq_frags q) [] [] ft Hwd) as [ft' [Ef' [HF HT]]]; auto.
  - constructor.
  - intros i Hi. apply Hnw. unfold all_set_ids. right. right. apply in_or_app. now right.
  - intros x Hx. unfold wt_of. apply in_or_app. now right.
  - rewrite Ef'.
    apply (parse_prune_nodes vs (wt_of q) (idtab (sq_frags q)) (nsize (sq_body q)) (sq_body q) (le_n _) Hwb ft ft' (sq_id q) s HF HT); auto.
    + intros i Hi. apply Hnw. unfold all_set_ids. right. destruct Hi as [<-|Hi]; [now left|right; apply in_or_app; now left].
    + intros x Hx. unfold wt_of. apply in_or_app. now left.
Qed.

(** C19 for the reference semantics. *)
Theorem prune_preserves_reference : forall S vs q fuel root s,
  directives_wellformed vs q = true -> ids_wf q = true ->
  parse vs q = Some s ->
  exists s', parse vs (prune vs q) = Some s' /\ eval_ref S fuel s root = eval_ref S fuel s' root.
Proof.
  intros S vs q fuel root s Hwf Hids Hp.
  destruct (parse_prune vs q s Hwf Hids Hp) as [s' [Hp' Hps]].
  exists s'. split; auto. destruct (ids_wf_spec q Hids) as [Hfun Hnw].
  apply (eval_ref_sim (wt_of q) Hfun); auto. apply Hnw. now left.
Qed.

(** Spread independence (and more): the result depends on the directives only through the verdict
    "kept or deleted" of the node that carries them, whatever other nodes - other spreads of the same
    fragment included - carry. *)
Theorem same_pruned_form_same_reference : forall S vs q q' fuel root s s',
  directives_wellformed vs q = true -> ids_wf q = true ->
  directives_wellformed vs q' = true -> ids_wf q' = true ->
  prune vs q = prune vs q' ->
  parse vs q = Some s -> parse vs q' = Some s' ->
  eval_ref S fuel s root = eval_ref S fuel s' root.
Proof.
  intros S vs q q' fuel root s s' Hwf Hids Hwf' Hids' Epr Hp Hp'.
  destruct (prune_preserves_reference S vs q fuel root s Hwf Hids Hp) as [t [Ht Et]].
  destruct (prune_preserves_reference S vs q' fuel root s' Hwf' Hids' Hp') as [t' [Ht' Et']].
  rewrite Epr in Ht. rewrite Ht in Ht'. inversion Ht'; subst. now rewrite Et, Et'.
Qed.

(** C19 for Execute: under every pair of schedules, the annotated query and the pruned query return
    the same data. *)
Theorem prune_preserves_execution : forall S vs q fuel rf root s sched sched',
  directives_wellformed vs q = true -> ids_wf q = true ->
  parse vs q = Some s ->
  snd (eval_ref S fuel s root) = [] ->
  NoDup (map fst (ent [] (fst (eval_ref S fuel s root)))) ->
  jdepth (fst (eval_ref S fuel s root)) <= Datatypes.S rf ->
  exists s' st0 st0',
    parse vs (prune vs q) = Some s' /\
    init fixed S s root = inl st0 /\ init fixed S s' root = inl st0' /\
    (complete (run_sched fixed S fuel sched st0) = true ->
     complete (run_sched fixed S fuel sched' st0') = true ->
     finish rf (run_sched fixed S fuel sched st0) = finish rf (run_sched fixed S fuel sched' st0') /\
     finish rf (run_sched fixed S fuel sched st0) = Some (ROk (fst (eval_ref S fuel s root)))).
Proof.
  intros S vs q fuel rf root s sched sched' Hwf Hids Hp Herr Hnd Hdep.
  destruct (prune_preserves_reference S vs q fuel root s Hwf Hids Hp) as [s' [Hp' Heq]].
  destruct (execution_equals_reference S fuel rf s root sched Herr Hnd Hdep) as [st0 [Ei Hrun]].
  rewrite Heq in Herr, Hnd, Hdep.
  destruct (execution_equals_reference S fuel rf s' root sched' Herr Hnd Hdep) as [st0' [Ei' Hrun']].
  exists s', st0, st0'. split; [exact Hp'|]. split; [exact Ei|]. split; [exact Ei'|].
  intros H H0. split.
  - rewrite (Hrun H), (Hrun' H0). now rewrite Heq.
  - now apply Hrun.
Qed.
