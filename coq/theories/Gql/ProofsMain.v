(** Execution equals the reference semantics, for every schedule and every execution-mode assignment. *)
From Coq Require Import List String Bool Arith Permutation Lia ZifyBool ZifyNat.
From Thunder Require Import Lib.Json Gql.Types Gql.Value Gql.Query Gql.Ref Gql.Exec
  Gql.ProofsSched Gql.ProofsSplit Gql.ProofsFlatten Gql.ProofsRef.
Import ListNotations.
Open Scope list_scope.

(** Nesting depth of a JSON value (what [render] needs as fuel). *)
Fixpoint jdepth (j : json) : nat :=
  match j with
  | JArr l => Datatypes.S (fold_right (fun x n => Nat.max (jdepth x) n) 0 l)
  | JObj l => Datatypes.S ((fix go (l : list (string * json)) : nat :=
                              match l with [] => 0 | kv :: t => Nat.max (jdepth (snd kv)) (go t) end) l)
  | _ => 1
  end.

Definition agrees (H : heap) (h : heap) : Prop := forall q n, In (q, n) h -> heap_get q H = Some n.

Lemma agrees_app : forall H a b, agrees H (a ++ b) -> agrees H a /\ agrees H b.
Proof. intros H a b Hab. split; intros q n Hin; apply Hab; apply in_or_app; auto. Qed.

(** Rendering a heap that holds the nodes of [j] at [p] gives back [j]. *)
Lemma render_ent : forall j rf H p, jdepth j <= rf -> agrees H (ent p j) -> render rf H p = j.
Proof.
  induction j as [|b|z|s|l IH|l IH] using json_ind'; intros rf H p Hd Hag.
  1,2,3,4: (destruct rf as [|f]; [simpl in Hd; lia|]; cbn [render];
            rewrite (Hag p _ (or_introl eq_refl)); reflexivity).
  - (* arrays *)
    destruct rf as [|f]; [simpl in Hd; lia|]. rewrite ent_arr in Hag. cbn [render].
    rewrite (Hag p _ (or_introl eq_refl)). f_equal.
    assert (Hag' : agrees H (flat_map ent_at (index_items p l 0))).
    { intros q n Hin. apply Hag. now right. }
    assert (Hd' : fold_right (fun x n => Nat.max (jdepth x) n) 0 l <= f).
    { change (jdepth (JArr l)) with (Datatypes.S (fold_right (fun x n => Nat.max (jdepth x) n) 0 l)) in Hd. apply le_S_n. exact Hd. }
    clear Hag Hd. revert Hag'. generalize 0 as i0. revert Hd'.
    induction IH as [|x t Hx _ IHt]; intros Hd i0 Hag; [reflexivity|].
    cbn [List.length seq map]. simpl in Hag. cbn [fold_right] in Hd.
    apply Nat.max_lub_iff in Hd as [Hd1 Hd2]. apply agrees_app in Hag as [Ha Hb].
    f_equal.
    + apply Hx; [exact Hd1|exact Ha].
    + apply IHt; [exact Hd2|exact Hb].
  - (* objects *)
    destruct rf as [|f]; [simpl in Hd; lia|]. rewrite ent_obj in Hag. cbn [render].
    rewrite (Hag p _ (or_introl eq_refl)). f_equal.
    assert (Hag' : agrees H (flat_map (fun kv => ent (p ++ [PKey (fst kv)]) (snd kv)) l)).
    { intros q n Hin. apply Hag. now right. }
    assert (Hd' : (fix go (l : list (string * json)) : nat :=
                     match l with [] => 0 | kv :: t => Nat.max (jdepth (snd kv)) (go t) end) l <= f).
    { change (jdepth (JObj l)) with (Datatypes.S ((fix go (l : list (string * json)) : nat :=
                     match l with [] => 0 | kv :: t => Nat.max (jdepth (snd kv)) (go t) end) l)) in Hd. apply le_S_n. exact Hd. }
    clear Hag Hd. revert Hag' Hd'.
    induction IH as [|[k v] t Hx _ IHt]; intros Hag Hd; [reflexivity|].
    cbn [map fst]. simpl in Hag.
    apply Nat.max_lub_iff in Hd as [Hd1 Hd2]. apply agrees_app in Hag as [Ha Hb].
    f_equal.
    + f_equal. apply Hx; [exact Hd1|exact Ha].
    + apply IHt; [exact Hb|exact Hd2].
Qed.

Section Main.
  Variable S : schema.

  Lemma eval_field_top_unit : forall fr f it o root tn fs,
    root = VObj tn fs ->
    find_field (s_name (fst it)) (o_fields o) = Some f ->
    let u := mk_unit f (fst it) (snd it) [(root, [PKey (s_alias (fst it))])] false (o_name o) in
    eval_field S true (eval_obj S fr) o fs [] it
    = ((s_alias (fst it), fst (unit_ref S fr u (root, [PKey (s_alias (fst it))]))),
       snd (unit_ref S fr u (root, [PKey (s_alias (fst it))]))).
  Proof.
    intros fr f it o root tn fs Hr Hf u. unfold eval_field. cbn [negb andb]. rewrite Hf.
    unfold unit_ref, field_ref, u. cbn [fst snd u_field u_sel u_sub]. rewrite Hr. cbn [app].
    destruct (lookup (s_key (fst it)) fs) as [[v|e]|]; reflexivity.
  Qed.

  Definition top_unit (o : object) (root : value) (it : item) (f : field) : wunit :=
    mk_unit f (fst it) (snd it) [(root, [PKey (s_alias (fst it))])] false (o_name o).

  Lemma init_fold : forall o root items us tops,
    Forall nodirs items ->
    (forall it, In it items -> exists f, find_field (s_name (fst it)) (o_fields o) = Some f) ->
    exists us', Forall2 (fun it u => exists f, find_field (s_name (fst it)) (o_fields o) = Some f /\ u = top_unit o root it f) items us' /\
      fold_left (init_sel fixed o root) items (Ok (us, tops))
      = Ok (rev us' ++ us, rev (map (fun it : item => s_alias (fst it)) items) ++ tops).
  Proof.
    intros o root. induction items as [|it t IH]; intros us tops Hnd Hf.
    - exists []. split; [constructor|reflexivity].
    - inversion Hnd as [|? ? Hit Ht]; subst.
      destruct (Hf it (or_introl eq_refl)) as [f Ef].
      destruct (IH (top_unit o root it f :: us) (s_alias (fst it) :: tops) Ht (fun it' Hin => Hf it' (or_intror Hin)))
        as [us' [HF Efold]].
      exists (top_unit o root it f :: us'). split.
      + constructor; eauto.
      + cbn [fold_left]. unfold init_sel at 2. unfold nodirs in Hit. rewrite Hit. cbn [should_include find_dir include_part].
        rewrite Ef. fold (top_unit o root it f). rewrite Efold. cbn [rev map]. rewrite <- !app_assoc. reflexivity.
  Qed.

  (** ** The initial state: its units' forests fill the nodes of the reference result *)
  Lemma initial_forest : forall fuel q root,
    snd (eval_ref S fuel q root) = [] ->
    exists st0 rs l,
      init fixed S q root = inl st0 /\ st_heap st0 = [] /\ st_err st0 = None /\
      Forall2 (P fixed S fuel) (st_pending st0) rs /\ errs rs = [] /\
      fst (eval_ref S fuel q root) = JObj l /\ st_top st0 = map fst l /\
      Permutation (heaps rs) (flat_map (fun kv => ent [PKey (fst kv)] (snd kv)) l).
  Proof.
    intros fuel q root Herr.
    destruct fuel as [|fuel']; [discriminate|].
    unfold eval_ref in *.
    destruct (flatten fixed q) as [items|e] eqn:Efl; [|discriminate].
    destruct (find_object (s_query S) (s_objects S)) as [o|] eqn:Eo; [|discriminate].
    destruct root as [| |?|tn fs] eqn:Eroot; try discriminate.
    rewrite <- Eroot in *.
    set (rsref := map (eval_field S true (eval_obj S fuel') o fs []) items) in *.
    cbn [fst snd] in *.
    pose proof (flatten_nodirs q items Efl) as Hnodirs.
    assert (Hfield : forall it, In it items -> snd (eval_field S true (eval_obj S fuel') o fs [] it) = []).
    { intros it Hit. unfold rsref in Herr. rewrite flat_map_map in Herr.
      apply (flat_map_nil_inv (fun it => snd (eval_field S true (eval_obj S fuel') o fs [] it)) items Herr it Hit). }
    assert (Hff : forall it, In it items -> exists f, find_field (s_name (fst it)) (o_fields o) = Some f).
    { intros it Hit. pose proof (Hfield it Hit) as Hp. unfold eval_field in Hp. cbn [negb andb] in Hp.
      destruct (find_field (s_name (fst it)) (o_fields o)) as [f|]; eauto.
      simpl in Hp. discriminate. }
    destruct (init_fold o root items [] [] Hnodirs Hff) as [us [HFus Efold]].
    unfold init. rewrite Efl, Eo, Efold. rewrite !app_nil_r, !rev_involutive.
    destruct (units_compute_reference S (Datatypes.S fuel') fuel') as [_ HU].
    assert (Hunits : exists rs, Forall2 (P fixed S (Datatypes.S fuel')) us rs /\ errs rs = [] /\
              Permutation (heaps rs)
                (flat_map (fun it => ent [PKey (s_alias (fst it))]
                                         (snd (fst (eval_field S true (eval_obj S fuel') o fs [] it)))) items)).
    { clear Efold. revert Hfield. clear -HFus HU Eroot. induction HFus as [|it u items us [f [Ef Eu]] _ IH]; intros Hfield.
      - exists []. repeat split; constructor.
      - destruct (IH (fun it' Hin => Hfield it' (or_intror Hin))) as [rs [HF [He Hp]]].
        subst u.
        pose proof (eval_field_top_unit fuel' f it o root tn fs Eroot Ef) as Hev. cbv zeta in Hev.
        fold (top_unit o root it f) in Hev. set (u := top_unit o root it f) in *.
        destruct (HU (Datatypes.S fuel') u (le_n _) (le_n _)) as [H [[rsu [Fu [Eu' [Xu Pu]]]] Hpu]].
        { intros it' Hit'. destruct Hit' as [<-|[]].
          pose proof (Hfield it (or_introl eq_refl)) as Hs. rewrite Hev in Hs. exact Hs. }
        exists ((x_heap (exec_unit fixed S (Datatypes.S fuel') u) ++ heaps rsu,
                 x_errs (exec_unit fixed S (Datatypes.S fuel') u) ++ errs rsu) :: rs).
        split; [constructor; [constructor; exact Fu|exact HF]|]. split.
        + change (errs ((x_heap (exec_unit fixed S (Datatypes.S fuel') u) ++ heaps rsu,
                         x_errs (exec_unit fixed S (Datatypes.S fuel') u) ++ errs rsu) :: rs))
            with ((x_errs (exec_unit fixed S (Datatypes.S fuel') u) ++ errs rsu) ++ errs rs).
          rewrite Xu, Eu', He. reflexivity.
        + change (heaps ((x_heap (exec_unit fixed S (Datatypes.S fuel') u) ++ heaps rsu,
                          x_errs (exec_unit fixed S (Datatypes.S fuel') u) ++ errs rsu) :: rs))
            with ((x_heap (exec_unit fixed S (Datatypes.S fuel') u) ++ heaps rsu) ++ heaps rs).
          cbn [flat_map]. apply Permutation_app; [|exact Hp].
          eapply perm_trans; [apply Permutation_sym; exact Pu|]. eapply perm_trans; [exact Hpu|].
          unfold u at 2. cbn [u_items top_unit flat_map snd fst]. rewrite app_nil_r.
          rewrite Hev. cbn [fst snd]. apply Permutation_refl. }
    destruct Hunits as [rs [HF [He Hp]]].
    eexists. exists rs, (map fst rsref).
    split; [reflexivity|]. cbn [st_heap st_err st_pending st_top].
    repeat split; auto.
    - unfold rsref. rewrite !map_map. apply map_ext. intros it. now rewrite eval_field_alias.
    - eapply perm_trans; [exact Hp|]. unfold rsref. rewrite map_map, flat_map_map.
      apply flat_map_perm_ext. intros it _. cbn [fst snd]. rewrite eval_field_alias. apply Permutation_refl.
  Qed.

  (** ** The theorem *)
  Theorem execution_equals_reference : forall fuel rf q root sched,
    snd (eval_ref S fuel q root) = [] ->
    NoDup (map fst (ent [] (fst (eval_ref S fuel q root)))) ->
    jdepth (fst (eval_ref S fuel q root)) <= Datatypes.S rf ->
    exists st0, init fixed S q root = inl st0 /\
      (complete (run_sched fixed S fuel sched st0) = true ->
       finish rf (run_sched fixed S fuel sched st0) = Some (ROk (fst (eval_ref S fuel q root)))).
  Proof.
    intros fuel rf q root sched Herr Hnd Hdep.
    destruct (initial_forest fuel q root Herr) as [st0 [rs [l [Ei [Eh [Ee [HF [He [El [Et Hp]]]]]]]]]].
    exists st0. split; [exact Ei|]. intros Hc.
    rewrite El in *. rewrite ent_obj in Hnd. cbn [map] in Hnd. apply NoDup_cons_iff in Hnd as [_ Hnd].
    cbn [app] in Hnd.
    assert (Hnd' : NoDup (map fst (st_heap st0 ++ heaps rs))).
    { rewrite Eh. cbn [app]. eapply Permutation_NoDup; [apply Permutation_map; apply Permutation_sym; exact Hp|exact Hnd]. }
    pose proof (result_independent_of_schedule fixed S fuel rf st0 rs HF Ee Hnd' sched Hc) as Hres.
    rewrite He in Hres. rewrite Hres. rewrite Eh, Et. cbn [app]. f_equal. f_equal. f_equal.
    rewrite map_map.
    rewrite <- (map_id l) at 2. apply map_ext_in. intros [k j] Hin. cbn [fst]. f_equal.
    apply render_ent.
    - clear -Hdep Hin.
      change (jdepth (JObj l)) with (Datatypes.S ((fix go (l : list (string * json)) : nat :=
                match l with [] => 0 | kv :: t => Nat.max (jdepth (snd kv)) (go t) end) l)) in Hdep.
      apply le_S_n in Hdep. induction l as [|kv t IH]; [contradiction|].
      apply Nat.max_lub_iff in Hdep as [H1 H2]. destruct Hin as [->|Hin]; [exact H1|]. now apply IH.
    - intros qp n Hqn. apply heap_get_nodup; [rewrite Eh in Hnd'; exact Hnd'|].
      eapply Permutation_in; [apply Permutation_sym; exact Hp|].
      apply in_flat_map. exists (k, j). split; auto.
  Qed.

  (** Every schedule that is long enough is complete. *)
  Theorem execution_terminates : forall fuel q root,
    snd (eval_ref S fuel q root) = [] ->
    exists st0 n, init fixed S q root = inl st0 /\
      forall sched, n <= List.length sched -> complete (run_sched fixed S fuel sched st0) = true.
  Proof.
    intros fuel q root Herr.
    destruct (initial_forest fuel q root Herr) as [st0 [rs [l [Ei [_ [_ [HF _]]]]]]].
    destruct (termination fixed S fuel st0 rs HF) as [n Hn].
    exists st0, n. split; auto.
  Qed.
End Main.
