(** C16 (i), the list indices of a whole-batch failure.  A batch resolver returns ONE error for all of
    its sources (schemabuilder/batch.go: func(ctx, map[batch.Index]*T) (map[batch.Index]R, error));
    executeBatchWorkUnit then fails every destination of the unit with it, and the error recorder keeps
    the first: the path of the unit's FIRST destination.  So the index reported is exact in this sense -
    destination 0 of the failing invocation - and differs from the index of the source the harness's
    batch resolver stumbled over whenever that is not the first one. *)
From Coq Require Import List String Bool Arith ZArith.
From Thunder Require Import Lib.Json Gql.Types Gql.Value Gql.Query Gql.Ref Gql.Exec Gql.Check Gql.Witness.
Import ListNotations.
Open Scope string_scope.
Open Scope list_scope.

Theorem whole_batch_failure_at_first_destination : forall S fuel u it0 rest e p,
  f_batch (u_field u) && u_batch u = true ->
  u_items u = it0 :: rest ->
  first_failure (map (fun it : value * path => (outcome_of u (fst it), snd it)) (u_items u)) = Some (e, p) ->
  exec_unit fixed S (Datatypes.S fuel) u = mk_xres [] [] (map (fun it : value * path => nest (snd it) e) (u_items u)) /\
  record None (x_errs (exec_unit fixed S (Datatypes.S fuel) u)) = Some (nest (snd it0) e).
Proof.
  intros S fuel u it0 rest e p Hb Hi Hf.
  assert (E : exec_unit fixed S (Datatypes.S fuel) u = mk_xres [] [] (map (fun it : value * path => nest (snd it) e) (u_items u))).
  { cbn [exec_unit]. rewrite Hb, Hf. reflexivity. }
  split; [exact E|]. rewrite E. cbn [x_errs]. rewrite Hi. reflexivity.
Qed.

(** Witness: as { x } over three objects, x run as one batch, the resolver failing at the second. *)
Definition bf_schema (batch : bool) : schema :=
  mk_schema
    [mk_object "Query" [mk_field "as" (TList (TObject "A")) false false true false None] None;
     mk_object "A" [mk_field "x" (TScalar "int64") batch false true batch None] None]
    [] "Query".
Definition bf_a (x : outcome value) := VObj "A" [("x", x)].
Definition bf_root := VObj "Query" [("as", OOk (VList [bf_a (OOk (VLeaf (LNum 1%Z))); bf_a (OFail (mk_err EPlain "boom")); bf_a (OOk (VLeaf (LNum 3%Z)))]))].
Definition bf_q : squery :=
  mk_squery "" 1 (SCons (SField "as" "as" "as" [] (Some (2, SCons (SField "x" "x" "x" [] None) SNil))) SNil) [].

(** The exact form of clause (i) - "the error returned IS one of the needed failures" - is false when a
    field is run as a batch: Execute returns the error at as.0.x, the reference locates the failing
    source at as.1.x (the same error value; the paths agree up to that list index); with the same field
    run one object at a time the two coincide.  Replayed on the code by
    corpus/C16/batch-failure-at-first-destination.json. *)
Theorem exact_path_refuted_for_whole_batch_failure :
  exists ss,
    parse [] bf_q = Some ss /\
    needed_failures (bf_schema true) 40 ss bf_root = [nest [PKey "as"; PIdx 1; PKey "x"] (mk_err EPlain "boom")] /\
    exec_fifo fixed (bf_schema true) [] bf_q bf_root = Some (RErr (nest [PKey "as"; PIdx 0; PKey "x"] (mk_err EPlain "boom"))) /\
    exec_fifo fixed (bf_schema false) [] bf_q bf_root = Some (RErr (nest [PKey "as"; PIdx 1; PKey "x"] (mk_err EPlain "boom"))).
Proof. eexists. split; [vm_compute; reflexivity|]. repeat split; vm_compute; reflexivity. Qed.
