(** Independence of the schedule.  Running a unit does not read the machine state, so whatever the
    scheduler does, a completed run has executed exactly the forest of units that hangs under the
    initial ones: the nodes filled are a permutation of the forest's, and the recorded error is one
    the forest raises. *)
From Coq Require Import List String Bool Arith Permutation Lia ZifyBool ZifyNat.
From Thunder Require Import Lib.Json Gql.Types Gql.Value Gql.Query Gql.Ref Gql.Exec.
Import ListNotations.
Open Scope list_scope.

Section Sched.
  Variable Q : quirks.
  Variable S : schema.
  Variable fuel : nat.

  Definition tres := (heap * list perr)%type.

  Fixpoint totals (f : wunit -> option tres) (us : list wunit) : option tres :=
    match us with
    | [] => Some ([], [])
    | u :: r =>
        match f u, totals f r with
        | Some (h1, e1), Some (h2, e2) => Some (h1 ++ h2, e1 ++ e2)
        | _, _ => None
        end
    end.

  (** Everything the forest under [u] fills and raises, depth first; [None] if deeper than [d]. *)
  Fixpoint total (d : nat) (u : wunit) : option tres :=
    match d with
    | 0 => None
    | Datatypes.S d' =>
        let x := exec_unit Q S fuel u in
        match totals (total d') (x_units x) with
        | Some (h, e) => Some (x_heap x ++ h, x_errs x ++ e)
        | None => None
        end
    end.

  Definition heaps (rs : list tres) : heap := List.concat (map fst rs).
  Definition errs (rs : list tres) : list perr := List.concat (map snd rs).

  (** [P u r]: the forest of units under [u] (u, the units it schedules, the units they schedule, ...)
      is finite and fills / raises [r]. *)
  Inductive P : wunit -> tres -> Prop :=
  | P_intro : forall u rs,
      Forall2 P (x_units (exec_unit Q S fuel u)) rs ->
      P u (x_heap (exec_unit Q S fuel u) ++ heaps rs, x_errs (exec_unit Q S fuel u) ++ errs rs).

  Lemma totals_spec : forall f us h e,
    totals f us = Some (h, e) ->
    exists rs, Forall2 (fun u r => f u = Some r) us rs /\ h = heaps rs /\ e = errs rs.
  Proof.
    induction us as [|u r IH]; simpl; intros h e H.
    - inversion H. exists []. repeat split; constructor.
    - destruct (f u) as [[h1 e1]|] eqn:E1; [|discriminate].
      destruct (totals f r) as [[h2 e2]|] eqn:E2; [|discriminate].
      inversion H; subst. destruct (IH _ _ eq_refl) as [rs [HF [Hh He]]].
      exists ((h1, e1) :: rs). repeat split.
      + constructor; auto.
      + unfold heaps; simpl. now rewrite Hh.
      + unfold errs; simpl. now rewrite He.
  Qed.

  (** The depth-bounded computation [total] establishes [P] (used for concrete states). *)
  Lemma total_P : forall d u r, total d u = Some r -> P u r.
  Proof.
    induction d as [|d IH]; intros u r H; [discriminate|]. simpl in H.
    destruct (totals (total d) (x_units (exec_unit Q S fuel u))) as [[h e]|] eqn:E; [|discriminate].
    destruct (totals_spec _ _ _ _ E) as [rs [HF [Hh He]]]. inversion H; subst.
    constructor. clear -HF IH. induction HF; constructor; auto.
  Qed.

  Lemma P_unfold : forall u r, P u r ->
    exists rs, Forall2 P (x_units (exec_unit Q S fuel u)) rs /\
               r = (x_heap (exec_unit Q S fuel u) ++ heaps rs, x_errs (exec_unit Q S fuel u) ++ errs rs).
  Proof. intros u r H. inversion H; subst. eauto. Qed.

  Lemma take_nth_perm : forall {A} k (l : list A) x r, take_nth k l = Some (x, r) -> Permutation l (x :: r).
  Proof.
    induction k; destruct l as [|a l]; simpl; intros x r H; try discriminate.
    - inversion H; subst. apply Permutation_refl.
    - destruct (take_nth k l) as [[y t]|] eqn:E; [|discriminate]. inversion H; subst.
      apply IHk in E. eapply perm_trans; [apply perm_skip; exact E|]. apply perm_swap.
  Qed.

  Lemma take_nth_Forall2 : forall {A B} (R : A -> B -> Prop) k la lb x r,
    Forall2 R la lb -> take_nth k la = Some (x, r) ->
    exists y r', take_nth k lb = Some (y, r') /\ R x y /\ Forall2 R r r'.
  Proof.
    induction k; intros la lb x r HF H; destruct HF as [|a b la lb Hab HF]; simpl in *; try discriminate.
    - inversion H; subst. exists b, lb. auto.
    - destruct (take_nth k la) as [[y t]|] eqn:E; [|discriminate]. inversion H; subst.
      destruct (IHk _ _ _ _ HF E) as [y' [r' [E' [Hr HF']]]].
      exists y', (b :: r'). rewrite E'. repeat split; auto.
  Qed.

  (** Ghost history [past]: all failures raised so far, in the order they were raised. *)
  Definition Inv (H : heap) (E : list perr) (st : state) : Prop :=
    exists rs past,
      Forall2 P (st_pending st) rs /\
      Permutation (st_heap st ++ heaps rs) H /\
      Permutation (past ++ errs rs) E /\
      st_err st = hd_error past.

  Lemma record_hd : forall past new, record (hd_error past) new = hd_error (past ++ new).
  Proof. intros [|a past] new; simpl; [destruct new|]; reflexivity. Qed.

  Lemma heaps_app a b : heaps (a ++ b) = heaps a ++ heaps b.
  Proof. unfold heaps. now rewrite map_app, concat_app. Qed.
  Lemma errs_app a b : errs (a ++ b) = errs a ++ errs b.
  Proof. unfold errs. now rewrite map_app, concat_app. Qed.

  Lemma heaps_perm a b : Permutation a b -> Permutation (heaps a) (heaps b).
  Proof.
    intros Hp. unfold heaps. induction Hp; simpl.
    - constructor.
    - now apply Permutation_app_head.
    - rewrite !app_assoc. apply Permutation_app_tail. apply Permutation_app_comm.
    - eapply perm_trans; eauto.
  Qed.
  Lemma errs_perm a b : Permutation a b -> Permutation (errs a) (errs b).
  Proof.
    intros Hp. unfold errs. induction Hp; simpl.
    - constructor.
    - now apply Permutation_app_head.
    - rewrite !app_assoc. apply Permutation_app_tail. apply Permutation_app_comm.
    - eapply perm_trans; eauto.
  Qed.

  Lemma step_inv : forall H E st k, Inv H E st -> Inv H E (step Q S fuel st k).
  Proof.
    intros H E st k [rs [past [HF [Hh [He Herr]]]]]. unfold step.
    destruct (take_nth (k mod List.length (st_pending st)) (st_pending st)) as [[u rest]|] eqn:Et.
    2:{ exists rs, past. auto. }
    destruct (take_nth_Forall2 _ _ _ _ _ _ HF Et) as [r [rs' [Et' [Hr HF']]]].
    destruct (P_unfold _ _ Hr) as [rc [HFc Hrc]].
    set (x := exec_unit Q S fuel u) in *.
    exists (rs' ++ rc), (past ++ x_errs x). simpl. repeat split.
    - apply Forall2_app; auto.
    - rewrite heaps_app. apply take_nth_perm in Et'. apply heaps_perm in Et'.
      eapply perm_trans; [|exact Hh].
      rewrite <- app_assoc. apply Permutation_app_head.
      eapply perm_trans; [|apply Permutation_sym; exact Et'].
      change (heaps (r :: rs')) with (fst r ++ heaps rs'). rewrite Hrc. simpl.
      rewrite <- app_assoc. apply Permutation_app_head. apply Permutation_app_comm.
    - rewrite errs_app. apply take_nth_perm in Et'. apply errs_perm in Et'.
      eapply perm_trans; [|exact He].
      rewrite <- app_assoc. apply Permutation_app_head.
      eapply perm_trans; [|apply Permutation_sym; exact Et'].
      change (errs (r :: rs')) with (snd r ++ errs rs'). rewrite Hrc. simpl.
      rewrite <- app_assoc. apply Permutation_app_head. apply Permutation_app_comm.
    - rewrite Herr. apply record_hd.
  Qed.

  Lemma run_inv : forall H E sched st, Inv H E st -> Inv H E (run_sched Q S fuel sched st).
  Proof.
    intros H E sched. induction sched as [|k t IH]; simpl; intros st Hi; auto.
    apply IH. now apply step_inv.
  Qed.

  (** For every schedule: a completed run has filled a permutation of the forest's nodes, and has
      recorded no error iff the forest raises none, otherwise one of those it raises. *)
  Theorem schedule_independence : forall st0 rs,
    Forall2 P (st_pending st0) rs -> st_err st0 = None ->
    forall sched, complete (run_sched Q S fuel sched st0) = true ->
      Permutation (st_heap (run_sched Q S fuel sched st0)) (st_heap st0 ++ heaps rs) /\
      match st_err (run_sched Q S fuel sched st0) with
      | None => errs rs = []
      | Some e => In e (errs rs)
      end.
  Proof.
    intros st0 rs HF He0 sched Hc.
    assert (Hi : Inv (st_heap st0 ++ heaps rs) (errs rs) st0).
    { exists rs, []. repeat split; auto. }
    apply (run_inv _ _ sched) in Hi. destruct Hi as [rs' [past [HF' [Hh [He Herr]]]]].
    unfold complete in Hc. destruct (st_pending (run_sched Q S fuel sched st0)); [|discriminate].
    inversion HF'; subst. unfold heaps, errs in Hh, He; simpl in Hh, He. rewrite app_nil_r in Hh, He.
    split; [exact Hh|]. rewrite Herr. destruct past as [|e past]; simpl.
    - apply Permutation_nil in He. exact He.
    - eapply Permutation_in; [exact He|]. now left.
  Qed.

  (** The recorded failure never changes once set (errorRecorder is a sync.Once). *)
  Lemma step_err_stable : forall st k e, st_err st = Some e -> st_err (step Q S fuel st k) = Some e.
  Proof.
    intros st k e He. unfold step.
    destruct (take_nth _ _) as [[u rest]|]; simpl; auto. now rewrite He.
  Qed.

  Lemma run_err_stable : forall sched st e, st_err st = Some e -> st_err (run_sched Q S fuel sched st) = Some e.
  Proof. induction sched; simpl; intros; auto. apply IHsched. now apply step_err_stable. Qed.

  (** Nodes are addressed by path: two heaps with the same nodes, each filled once, render alike. *)
  Lemma path_eqb_eq : forall a b, path_eqb a b = true <-> a = b.
  Proof.
    induction a as [|x a IH]; destruct b as [|y b]; simpl; split; intros H; try discriminate; auto.
    - apply andb_prop in H as [H1 H2]. apply IH in H2. subst. f_equal.
      destruct x, y; simpl in H1; try discriminate.
      + apply String.eqb_eq in H1. now subst.
      + apply Nat.eqb_eq in H1. now subst.
    - inversion H; subst. apply andb_true_intro. split; [|now apply IH].
      destruct y; simpl; [apply String.eqb_refl | apply Nat.eqb_refl].
  Qed.

  Lemma heap_get_in : forall p h n, heap_get p h = Some n -> In (p, n) h.
  Proof.
    induction h as [|[p' n'] h IH]; simpl; intros n H; [discriminate|].
    destruct (path_eqb p p') eqn:E.
    - apply path_eqb_eq in E. inversion H; subst. now left.
    - right. now apply IH.
  Qed.

  Lemma heap_get_nodup : forall p n h, NoDup (map fst h) -> In (p, n) h -> heap_get p h = Some n.
  Proof.
    induction h as [|[p' n'] h IH]; simpl; intros Hnd Hin; [contradiction|].
    inversion Hnd; subst. destruct Hin as [Heq | Hin].
    - inversion Heq; subst. assert (E : path_eqb p p = true) by now apply path_eqb_eq. now rewrite E.
    - destruct (path_eqb p p') eqn:E.
      + apply path_eqb_eq in E. subst. exfalso. apply H1. apply (in_map fst) in Hin. exact Hin.
      + now apply IH.
  Qed.

  Lemma heap_get_perm : forall h1 h2 p, Permutation h1 h2 -> NoDup (map fst h1) -> heap_get p h1 = heap_get p h2.
  Proof.
    intros h1 h2 p Hp Hnd.
    assert (Hnd2 : NoDup (map fst h2)).
    { eapply Permutation_NoDup; [apply Permutation_map; exact Hp|exact Hnd]. }
    destruct (heap_get p h1) as [n|] eqn:E1.
    - symmetry. apply heap_get_nodup; auto. eapply Permutation_in; [exact Hp|]. now apply heap_get_in.
    - destruct (heap_get p h2) as [n|] eqn:E2; auto.
      apply heap_get_in in E2. apply Permutation_sym in Hp. eapply Permutation_in in E2; [|exact Hp].
      apply heap_get_nodup in E2; auto. congruence.
  Qed.

  Lemma render_perm : forall f h1 h2 p, Permutation h1 h2 -> NoDup (map fst h1) -> render f h1 p = render f h2 p.
  Proof.
    induction f as [|f IH]; simpl; intros h1 h2 p Hp Hnd; auto.
    rewrite (heap_get_perm h1 h2 p Hp Hnd).
    destruct (heap_get p h2) as [[j| |n|ks]|]; auto.
    - f_equal. apply map_ext. intros i. now apply IH.
    - f_equal. apply map_ext. intros k. f_equal. now apply IH.
  Qed.

  (** ** Termination: the forest is finite, every step removes one of its units *)
  Inductive Tsz : wunit -> nat -> Prop :=
  | Tsz_intro : forall u ns,
      Forall2 Tsz (x_units (exec_unit Q S fuel u)) ns -> Tsz u (Datatypes.S (list_sum ns)).

  Section P_ind_strong.
    Variable Pr : wunit -> tres -> Prop.
    Hypothesis Hstep : forall u rs,
      Forall2 P (x_units (exec_unit Q S fuel u)) rs -> Forall2 Pr (x_units (exec_unit Q S fuel u)) rs ->
      Pr u (x_heap (exec_unit Q S fuel u) ++ heaps rs, x_errs (exec_unit Q S fuel u) ++ errs rs).
    Fixpoint P_ind' (u : wunit) (r : tres) (H : P u r) {struct H} : Pr u r :=
      match H in P u0 r0 return Pr u0 r0 with
      | P_intro u0 rs HF =>
          Hstep u0 rs HF
            ((fix go (us : list wunit) (rs : list tres) (HF : Forall2 P us rs) {struct HF} : Forall2 Pr us rs :=
                match HF in Forall2 _ us0 rs0 return Forall2 Pr us0 rs0 with
                | Forall2_nil _ => Forall2_nil Pr
                | Forall2_cons a b Hab Hrest => Forall2_cons a b (P_ind' a b Hab) (go _ _ Hrest)
                end) _ _ HF)
      end.
  End P_ind_strong.

  Lemma P_size : forall u r, P u r -> exists n, Tsz u n.
  Proof.
    intros u r H. induction H as [u rs _ IH] using P_ind'.
    assert (E : exists ns, Forall2 Tsz (x_units (exec_unit Q S fuel u)) ns).
    { clear -IH. induction IH as [|a b la lb [n Hn] _ [ns Hns]]; [exists []; constructor|].
      exists (n :: ns). constructor; auto. }
    destruct E as [ns Hns]. exists (Datatypes.S (list_sum ns)). now constructor.
  Qed.

  Lemma Forall2_P_size : forall us rs, Forall2 P us rs -> exists ns, Forall2 Tsz us ns.
  Proof.
    intros us rs H. induction H as [|a b la lb Hab _ [ns Hns]]; [exists []; constructor|].
    destruct (P_size _ _ Hab) as [n Hn]. exists (n :: ns). constructor; auto.
  Qed.

  Lemma list_sum_perm : forall a b, Permutation a b -> list_sum a = list_sum b.
  Proof. intros a b H. induction H; simpl; lia. Qed.

  Lemma take_nth_none : forall {A} n (l : list A), take_nth n l = None -> List.length l <= n.
  Proof.
    induction n; destruct l as [|a l]; simpl; intros H; try lia; try discriminate.
    destruct (take_nth n l) as [[y t]|] eqn:E; [discriminate|]. apply IHn in E. lia.
  Qed.

  Lemma step_size : forall st k ns,
    Forall2 Tsz (st_pending st) ns ->
    exists ns', Forall2 Tsz (st_pending (step Q S fuel st k)) ns' /\ list_sum ns' = pred (list_sum ns).
  Proof.
    intros st k ns HF. unfold step.
    destruct (take_nth (k mod List.length (st_pending st)) (st_pending st)) as [[u rest]|] eqn:Et.
    - destruct (take_nth_Forall2 _ _ _ _ _ _ HF Et) as [n [ns' [Et' [Hn HF']]]].
      inversion Hn as [u0 nc Hc]; subst. simpl.
      exists (ns' ++ nc). split; [now apply Forall2_app|].
      apply take_nth_perm in Et'. apply list_sum_perm in Et'. rewrite Et'. simpl. rewrite list_sum_app. lia.
    - exists ns. split; auto.
      destruct (st_pending st) as [|u t] eqn:Ep.
      + inversion HF; subst. reflexivity.
      + exfalso.
        assert (Hlt : k mod List.length (u :: t) < List.length (u :: t)).
        { apply Nat.mod_upper_bound. discriminate. }
        apply take_nth_none in Et. apply (Nat.lt_irrefl (List.length (u :: t))).
        eapply Nat.le_lt_trans; [exact Et|exact Hlt].
  Qed.

  Lemma Tsz_pos : forall us ns, Forall2 Tsz us ns -> list_sum ns = 0 -> us = [].
  Proof.
    intros us ns H. destruct H as [|a b la lb Hab _]; auto.
    inversion Hab; subst. simpl. discriminate.
  Qed.

  (** Every schedule at least as long as the forest is large leaves nothing pending. *)
  Theorem termination : forall st0 rs,
    Forall2 P (st_pending st0) rs ->
    exists n, forall sched, n <= List.length sched -> complete (run_sched Q S fuel sched st0) = true.
  Proof.
    intros st0 rs HP. destruct (Forall2_P_size _ _ HP) as [ns Hns].
    exists (list_sum ns). intros sched. clear HP rs. revert st0 ns Hns.
    induction sched as [|k t IH]; intros st0 ns Hns Hlen.
    - simpl in Hlen. assert (E : list_sum ns = 0) by lia.
      simpl. unfold complete. now rewrite (Tsz_pos _ _ Hns E).
    - simpl. destruct (step_size st0 k ns Hns) as [ns' [Hns' Es]].
      apply (IH _ ns' Hns'). simpl in Hlen. lia.
  Qed.

  Lemma step_top : forall st k, st_top (step Q S fuel st k) = st_top st.
  Proof. intros st k. unfold step. destruct (take_nth _ _) as [[u rest]|]; reflexivity. Qed.
  Lemma run_top : forall sched st, st_top (run_sched Q S fuel sched st) = st_top st.
  Proof. induction sched; simpl; intros; auto. rewrite IHsched. apply step_top. Qed.

  (** What Execute returns does not depend on the schedule: if the forest raises nothing, every
      completed run returns the same data; otherwise every completed run returns an error, one of those
      the forest raises, and no data. [NoDup]: every output node is filled by one unit only. *)
  Theorem result_independent_of_schedule : forall rf st0 rs,
    Forall2 P (st_pending st0) rs -> st_err st0 = None ->
    NoDup (map fst (st_heap st0 ++ heaps rs)) ->
    forall sched, complete (run_sched Q S fuel sched st0) = true ->
      match errs rs with
      | [] => finish rf (run_sched Q S fuel sched st0)
              = Some (ROk (JObj (map (fun k => (k, render rf (st_heap st0 ++ heaps rs) [PKey k])) (st_top st0))))
      | _ => exists e, In e (errs rs) /\ finish rf (run_sched Q S fuel sched st0) = Some (RErr e)
      end.
  Proof.
    intros rf st0 rs HF He0 Hnd sched Hc.
    destruct (schedule_independence st0 rs HF He0 sched Hc) as [Hh Herr].
    unfold finish. rewrite Hc.
    destruct (st_err (run_sched Q S fuel sched st0)) as [e|] eqn:Ee.
    - destruct (errs rs) as [|e0 es] eqn:Er; [contradiction|]. exists e. auto.
    - rewrite Herr. f_equal. f_equal. f_equal. rewrite run_top.
      apply map_ext. intros k. f_equal.
      symmetry. apply render_perm; [apply Permutation_sym; exact Hh|exact Hnd].
  Qed.
End Sched.
