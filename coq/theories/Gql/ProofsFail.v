(** C16 (i): when needed resolvers fail, the forest of work units is still finite, raises at least one
    failure, and every failure it raises is a needed failure of the reference semantics (at the same
    response path, up to the list indices for a batch resolver that fails as a whole). *)
From Coq Require Import List String Bool Arith Permutation Lia.
From Thunder Require Import Lib.Json Gql.Types Gql.Value Gql.Query Gql.Ref Gql.Exec Gql.Check
  Gql.ProofsSched Gql.ProofsSplit Gql.ProofsFlatten Gql.ProofsRef.
Import ListNotations.
Open Scope list_scope.

Definition model_err (e : err) : bool := err_eqb e err_invalid || err_eqb e err_fuel.
Definition good (l : list perr) : Prop := forall f, In f l -> model_err (pe_err f) = false.

Lemma err_eqb_refl0 : forall e, err_eqb e e = true.
Proof. intros [c t]. unfold err_eqb. simpl. rewrite String.eqb_refl. destruct c; reflexivity. Qed.
Lemma pseg_eqb_refl : forall a, pseg_eqb a a = true.
Proof. destruct a; simpl; [apply String.eqb_refl|apply Nat.eqb_refl]. Qed.
Lemma path_eqb_refl : forall p, path_eqb p p = true.
Proof. induction p; simpl; auto. now rewrite pseg_eqb_refl, IHp. Qed.
Lemma perr_eqb_refl : forall f, perr_eqb f f = true.
Proof. intros [e p]. unfold perr_eqb. simpl. now rewrite err_eqb_refl0, path_eqb_refl. Qed.

(** The whole development is done twice at once: [nb = false] locates a failure up to list indices
    ([perr_sim], any schema); [nb = true] locates it exactly ([perr_eqb]) for schemas none of whose
    fields is run as a batch. *)
Section Rel.
Variable nb : bool.
Definition rel (e f : perr) : bool := if nb then perr_eqb e f else perr_sim e f.

(** [E]: failures raised by the machine; [F]: needed failures of the reference. *)
Definition ErrsOk (E F : list perr) : Prop :=
  (forall e, In e E -> exists f, In f F /\ rel e f = true) /\ (F <> [] -> E <> []).

Lemma ErrsOk_nil : ErrsOk [] [].
Proof. split; [intros e []|auto]. Qed.

Lemma ErrsOk_app : forall E1 F1 E2 F2, ErrsOk E1 F1 -> ErrsOk E2 F2 -> ErrsOk (E1 ++ E2) (F1 ++ F2).
Proof.
  intros E1 F1 E2 F2 [A1 B1] [A2 B2]. split.
  - intros e He. apply in_app_or in He as [He|He].
    + destruct (A1 e He) as [f [Hf Hs]]. exists f. split; auto. apply in_or_app; auto.
    + destruct (A2 e He) as [f [Hf Hs]]. exists f. split; auto. apply in_or_app; auto.
  - intros HF HE. apply app_eq_nil in HE as [H1 H2].
    destruct F1 as [|f1 t1].
    + destruct F2 as [|f2 t2]; [apply HF; reflexivity|]. apply B2; [discriminate|exact H2].
    + apply B1; [discriminate|exact H1].
Qed.

Lemma ErrsOk_equiv : forall E F F', (forall f, In f F <-> In f F') -> ErrsOk E F -> ErrsOk E F'.
Proof.
  intros E F F' H [A B]. split.
  - intros e He. destruct (A e He) as [f [Hf Hs]]. exists f. split; auto. now apply H.
  - intros HF'. apply B. destruct F' as [|f t]; [congruence|]. intros EF. assert (Hin : In f F) by (apply H; now left).
    rewrite EF in Hin. contradiction.
Qed.

Lemma ErrsOk_concat : forall {A} (l : list A) (fe ff : A -> list perr),
  (forall a, In a l -> ErrsOk (fe a) (ff a)) -> ErrsOk (flat_map fe l) (flat_map ff l).
Proof.
  induction l as [|a t IH]; simpl; intros fe ff H; [apply ErrsOk_nil|].
  apply ErrsOk_app; [apply H; now left|apply IH; intros; apply H; now right].
Qed.

Lemma good_app : forall a b, good (a ++ b) <-> good a /\ good b.
Proof.
  intros a b. split.
  - intros H. split; intros f Hf; apply H; apply in_or_app; auto.
  - intros [Ha Hb] f Hf. apply in_app_or in Hf as [Hf|Hf]; auto.
Qed.

Lemma good_flat_map : forall {A} (g : A -> list perr) l, good (flat_map g l) -> forall a, In a l -> good (g a).
Proof. intros A g l H a Ha f Hf. apply H. apply in_flat_map. eauto. Qed.

(** ** Paths *)
Lemma pseg_sim_refl : forall a, pseg_sim a a = true.
Proof. destruct a; simpl; auto. apply String.eqb_refl. Qed.
Lemma path_sim_refl : forall p, path_sim p p = true.
Proof. induction p; simpl; auto. now rewrite pseg_sim_refl, IHp. Qed.
Lemma path_sim_app : forall p q a b, path_sim p q = true -> pseg_sim a b = true -> path_sim (p ++ [a]) (q ++ [b]) = true.
Proof.
  induction p as [|x p IH]; destruct q as [|y q]; simpl; intros a b H Hab; try discriminate.
  - now rewrite Hab.
  - apply andb_prop in H as [H1 H2]. rewrite H1. simpl. now apply IH.
Qed.
Lemma err_eqb_refl : forall e, err_eqb e e = true.
Proof. intros [c t]. unfold err_eqb. simpl. rewrite String.eqb_refl. destruct c; reflexivity. Qed.

Lemma nest_sim : forall p q e, path_sim p q = true -> perr_sim (nest p e) (nest q e) = true.
Proof.
  intros p q e H. unfold nest, perr_sim. destruct (safe e); simpl; rewrite err_eqb_refl; simpl; auto.
Qed.

Definition Shape (items : list (value * path)) : Prop :=
  forall a b, In a items -> In b items -> path_sim (snd a) (snd b) = true.

Lemma Shape_sub : forall l l', (forall x, In x l' -> In x l) -> Shape l -> Shape l'.
Proof. intros l l' H S a b Ha Hb. apply S; auto. Qed.

Lemma Shape_ext : forall (nonnil : list (value * path)) k,
  Shape nonnil -> Shape (map (fun x : value * path => (fst x, snd x ++ [PKey k])) nonnil).
Proof.
  intros nonnil k S a b Ha Hb. apply in_map_iff in Ha as [x [<- Hx]]. apply in_map_iff in Hb as [y [<- Hy]].
  simpl. apply path_sim_app; [now apply S|apply String.eqb_refl].
Qed.

Lemma index_items_in : forall {A} p (l : list A) i x q, In (x, q) (index_items p l i) -> exists k, q = p ++ [PIdx k].
Proof.
  intros A p l. induction l as [|y t IH]; intros i x q H; [contradiction|]. simpl in H.
  destruct H as [H|H]; [inversion H; eauto|eauto].
Qed.

Lemma flatten_lists_in : forall items x q, In (x, q) (snd (flatten_lists items)) ->
  exists p l k, In (VList l, p) items /\ q = p ++ [PIdx k].
Proof.
  induction items as [|[v p] t IH]; intros x q H; [contradiction|].
  destruct v as [| |l|]; simpl in H.
  1,2,4: (destruct (IH x q H) as [p' [l' [k [Hin E]]]]; exists p', l', k; split; auto; now right).
  apply in_app_or in H as [H|H].
  - destruct (index_items_in _ _ _ _ _ H) as [k E]. exists p, l, k. split; auto. now left.
  - destruct (IH x q H) as [p' [l' [k [Hin E]]]]. exists p', l', k. split; auto. now right.
Qed.

Lemma Shape_lists : forall items, Shape items -> Shape (snd (flatten_lists items)).
Proof.
  intros items S [x q] [y r] Ha Hb.
  destruct (flatten_lists_in _ _ _ Ha) as [p [l [k [Hin E]]]].
  destruct (flatten_lists_in _ _ _ Hb) as [p' [l' [k' [Hin' E']]]]. subst. simpl.
  apply path_sim_app; [apply (S _ _ Hin Hin')|reflexivity].
Qed.

Lemma flat_map_ext_in' : forall {A B} (f g : A -> list B) l, (forall x, In x l -> f x = g x) -> flat_map f l = flat_map g l.
Proof. induction l as [|a t IH]; simpl; intros H; auto. rewrite (H a), IH; auto. Qed.

Section Fail.
  Variable S : schema.
  Variable fuel : nat.
  Notation ex := (exec_unit fixed S).
  Notation Pf := (P fixed S fuel).

  Hypothesis NB : nb = true -> forall on o n f,
    find_object on (s_objects S) = Some o -> find_field n (o_fields o) = Some f -> should_use_batch f = false.

  (** In the exact reading no unit is run as a batch. *)
  Definition Ub (u : wunit) : Prop := nb = true -> f_batch (u_field u) && u_batch u = false.

  Lemma Ub_false : forall f h sub items on, Ub (mk_unit f h sub items false on).
  Proof. intros f h sub items on _. simpl. apply andb_false_r. Qed.

  Definition xerrs (x : xres) (E : list perr) : Prop :=
    exists rs, Forall2 Pf (x_units x) rs /\ E = x_errs x ++ errs rs.

  Lemma xerrs_app : forall a b Ea Eb, xerrs a Ea -> xerrs b Eb -> exists E, xerrs (xapp a b) E /\ (forall e, In e E <-> In e (Ea ++ Eb)).
  Proof.
    intros a b Ea Eb [ra [Fa Ha]] [rb [Fb Hb]]. exists (x_errs (xapp a b) ++ errs (ra ++ rb)). split.
    - exists (ra ++ rb). split; [now apply Forall2_app|reflexivity].
    - intros e. subst. simpl. rewrite errs_app. rewrite !in_app_iff. tauto.
  Qed.

  Lemma ErrsOk_members : forall E E' F, (forall e, In e E <-> In e E') -> ErrsOk E' F -> ErrsOk E F.
  Proof.
    intros E E' F H [A B]. split.
    - intros e He. apply A. now apply H.
    - intros HF HE. apply (B HF). destruct E' as [|e t]; auto. assert (In e E) by (apply H; now left). subst. contradiction.
  Qed.

  Lemma xerrs_heap : forall h, xerrs (mk_xres h [] []) [].
  Proof. intros h. exists []. split; [constructor|reflexivity]. Qed.

  Lemma xerrs_concat : forall {A} (f : A -> xres) (g : A -> list perr) l,
    (forall a, In a l -> exists E, xerrs (f a) E /\ ErrsOk E (g a)) ->
    exists E, xerrs (xconcat (map f l)) E /\ ErrsOk E (flat_map g l).
  Proof.
    induction l as [|a t IH]; simpl; intros H.
    - exists []. split; [exists []; split; [constructor|reflexivity]|apply ErrsOk_nil].
    - destruct (H a (or_introl eq_refl)) as [Ea [Xa Oa]].
      destruct (IH (fun a' Hin => H a' (or_intror Hin))) as [Et [Xt Ot]].
      destruct (xerrs_app _ _ _ _ Xa Xt) as [E [X Hm]]. exists E. split; auto.
      eapply ErrsOk_members; [exact Hm|]. now apply ErrsOk_app.
  Qed.

  Definition unit_fails (fr : nat) (u : wunit) : list perr :=
    flat_map (fun it => snd (unit_ref S fr u it)) (u_items u).

  Definition GU (fr : nat) : Prop :=
    forall mf u, Datatypes.S fr <= mf -> Datatypes.S fr <= fuel -> Shape (u_items u) -> Ub u ->
      good (unit_fails fr u) ->
      exists E, xerrs (ex mf u) E /\ ErrsOk E (unit_fails fr u).

  Definition type_fails (fr : nat) (t : gtype) (sub : option selset) (items : list (value * path)) : list perr :=
    flat_map (fun it => snd (type_ref S fr t sub it)) items.

  Definition GR (fr : nat) : Prop :=
    forall mf t sub items, fr <= mf -> fr <= fuel -> Shape items ->
      good (type_fails fr t sub items) ->
      (exists x E, resolve fixed S (ex mf) t sub items = inl x /\ xerrs x E /\ ErrsOk E (type_fails fr t sub items)) \/
      (exists e, resolve fixed S (ex mf) t sub items = inr e /\ safe e = true /\
                 In (mk_perr e []) (type_fails fr t sub items)).

  (** Units to schedule: pieces of one unit. *)
  Lemma pieces_fail : forall fr u pieces,
    GU fr -> Datatypes.S fr <= fuel -> Shape (u_items u) -> Ub u ->
    (forall v, In v pieces -> u_field v = u_field u /\ u_sel v = u_sel u /\ u_sub v = u_sub u /\ u_batch v = u_batch u) ->
    Permutation (flat_map u_items pieces) (u_items u) ->
    good (unit_fails fr u) ->
    exists E, xerrs (mk_xres [] pieces []) E /\ ErrsOk E (unit_fails fr u).
  Proof.
    intros fr u pieces HG Hf HS Hub Hsame Hperm Hgood.
    assert (Hin : forall v it, In v pieces -> In it (u_items v) -> In it (u_items u)).
    { intros v it Hv Hit. eapply Permutation_in; [exact Hperm|]. apply in_flat_map. eauto. }
    assert (Hp : forall v, In v pieces -> exists r, Pf v r /\ ErrsOk (snd r) (unit_fails fr v)).
    { intros v Hv. destruct (Hsame v Hv) as [E1 [E2 [E3 E4]]].
      destruct (HG fuel v Hf Hf) as [E [[rs [F He]] Ho]].
      - eapply Shape_sub; [|exact HS]. intros x Hx. eapply Hin; eauto.
      - intros Hnb. rewrite E1, E4. now apply Hub.
      - intros f Hf'. apply Hgood. unfold unit_fails in *. apply in_flat_map in Hf' as [it [Hit Hff]].
        apply in_flat_map. exists it. split; [eapply Hin; eauto|]. now rewrite <- (unit_ref_same S fr u v E1 E2 E3).
      - eexists. split; [constructor; exact F|]. simpl. rewrite <- He. exact Ho. }
    assert (Hall : exists rs, Forall2 Pf pieces rs /\ ErrsOk (errs rs) (flat_map (unit_fails fr) pieces)).
    { clear -Hp. induction pieces as [|v t IH].
      - exists []. split; [constructor|apply ErrsOk_nil].
      - destruct (Hp v (or_introl eq_refl)) as [r [Pr Or]].
        destruct IH as [rs [F O]]; [intros; apply Hp; now right|].
        exists (r :: rs). split; [constructor; auto|].
        change (errs (r :: rs)) with (snd r ++ errs rs). simpl. now apply ErrsOk_app. }
    destruct Hall as [rs [F O]]. exists ([] ++ errs rs). split; [exists rs; split; auto|]. simpl.
    eapply ErrsOk_equiv; [|exact O]. intros f. unfold unit_fails. split.
    - intros Hf'. apply in_flat_map in Hf' as [v [Hv Hf']]. apply in_flat_map in Hf' as [it [Hit Hf']].
      destruct (Hsame v Hv) as [E1 [E2 [E3 E4]]]. apply in_flat_map. exists it. split; [eapply Hin; eauto|].
      now rewrite <- (unit_ref_same S fr u v E1 E2 E3).
    - intros Hf'. apply in_flat_map in Hf' as [it [Hit Hf']].
      assert (Hit' : In it (flat_map u_items pieces)) by (eapply Permutation_in; [apply Permutation_sym; exact Hperm|exact Hit]).
      apply in_flat_map in Hit' as [v [Hv Hit']]. destruct (Hsame v Hv) as [E1 [E2 [E3 E4]]].
      apply in_flat_map. exists v. split; auto. apply in_flat_map. exists it. split; auto.
      now rewrite (unit_ref_same S fr u v E1 E2 E3).
  Qed.

  (** ** Errors of Flatten are client errors *)
  Lemma parse_if_bad_safe : forall d e, parse_if d = Bad e -> safe e = true.
  Proof. intros d e H. unfold parse_if in H. destruct (d_if d) as [[]|]; inversion H; reflexivity. Qed.

  Lemma should_include_bad_safe : forall ds e, should_include fixed ds = Bad e -> safe e = true.
  Proof.
    intros ds e H. unfold should_include, include_part in H. cbn [q_f6 fixed] in H.
    destruct (find_dir "skip" ds) as [d|].
    - destruct (parse_if d) as [b|e'] eqn:E; [|inversion H; subst; eapply parse_if_bad_safe; eauto].
      destruct b; [discriminate|]. destruct (find_dir "include" ds) as [d'|]; [|discriminate].
      eapply parse_if_bad_safe; eauto.
    - destruct (find_dir "include" ds) as [d'|]; [|discriminate]. eapply parse_if_bad_safe; eauto.
  Qed.

  Lemma keep_sels_bad_safe : forall l e, keep_sels fixed l = Bad e -> safe e = true.
  Proof.
    induction l as [|[h s] t IH]; simpl; intros e H; [discriminate|].
    destruct (should_include fixed (s_dirs h)) as [b|e'] eqn:E.
    - destruct (keep_sels fixed t) as [t'|e'']; [discriminate|]. inversion H; subst. now apply IH.
    - inversion H; subst. eapply should_include_bad_safe; eauto.
  Qed.

  Lemma visit_bad_safe : forall s seen acc e, visit fixed s seen acc = Bad e -> safe e = true.
  Proof.
    induction s as [id sels frags _ IHf] using selset_ind'. intros seen acc e H. cbn [visit] in H.
    destruct (existsb (Nat.eqb id) seen); [discriminate|].
    destruct (keep_sels fixed sels) as [kept|e'] eqn:Ek; [|inversion H; subst; eapply keep_sels_bad_safe; eauto].
    destruct (visit_frags (fun b sn ac => visit fixed b sn ac) fixed frags seen (acc ++ kept)) as [[s1 a1]|e'] eqn:Ev; [discriminate|].
    inversion H; subst e'. clear H Ek. revert seen Ev. generalize (acc ++ kept).
    induction IHf as [|[h b] t Hb _ IHt]; intros acc0 seen Ev; cbn [visit_frags] in Ev; [discriminate|].
    destruct (should_include fixed (fr_dirs h)) as [[|]|e'] eqn:Ei.
    - destruct (visit fixed b seen acc0) as [[s2 a2]|e'] eqn:Evb.
      + eapply IHt; eauto.
      + inversion Ev; subst. eapply Hb; eauto.
    - eapply IHt; eauto.
    - inversion Ev; subst. eapply should_include_bad_safe; eauto.
  Qed.

  Lemma flatten_bad_safe : forall s e, flatten fixed s = Bad e -> safe e = true.
  Proof.
    intros s e H. unfold flatten in H. destruct (visit fixed s [] []) as [[a b]|e'] eqn:E; [discriminate|].
    inversion H; subst. eapply visit_bad_safe; eauto.
  Qed.

  Lemma model_err_invalid : model_err err_invalid = true.
  Proof. reflexivity. Qed.
  Lemma model_err_fuel : model_err err_fuel = true.
  Proof. reflexivity. Qed.

  Lemma not_good_nest : forall p e l, model_err e = true -> In (nest p e) l -> ~ good l.
  Proof.
    intros p e l He Hin Hg. specialize (Hg _ Hin). unfold nest in Hg. destruct (safe e); simpl in Hg; congruence.
  Qed.

  Lemma perr_sim_refl : forall f, perr_sim f f = true.
  Proof. intros [e p]. unfold perr_sim. simpl. now rewrite err_eqb_refl, path_sim_refl. Qed.

  Lemma rel_refl : forall f, rel f f = true.
  Proof.
    intros f. unfold rel. destruct (Bool.bool_dec nb true) as [Hnb|Hnb]; [rewrite Hnb; apply perr_eqb_refl|].
    apply Bool.not_true_is_false in Hnb. rewrite Hnb. apply perr_sim_refl.
  Qed.

  Lemma split_par_same4 : forall u v, In v (split_par u) ->
    u_field v = u_field u /\ u_sel v = u_sel u /\ u_sub v = u_sub u /\ u_batch v = u_batch u.
  Proof.
    intros u v H. unfold split_par in H. destruct (f_par (u_field u)).
    - apply split_to_n_same in H. tauto.
    - destruct H as [<-|[]]. auto.
  Qed.

  (** ** Objects *)
  Lemma per_sel_fail : forall fr mf o nonnil sync it,
    (exists on, find_object on (s_objects S) = Some o) ->
    GU fr -> Datatypes.S fr <= mf -> Datatypes.S fr <= fuel ->
    (forall x, In x nonnil -> is_obj x) -> Shape nonnil ->
    good (flat_map (fun x : value * path => snd (eval_field S false (eval_obj S fr) o (fields_of (fst x)) (snd x) it)) nonnil) ->
    exists E, xerrs (per_sel (ex mf) o nonnil sync it) E /\
              ErrsOk E (flat_map (fun x : value * path => snd (eval_field S false (eval_obj S fr) o (fields_of (fst x)) (snd x) it)) nonnil).
  Proof.
    intros fr mf o nonnil sync it [on Hon] HG Hmf Hfu Hobj HS Hgood. unfold per_sel.
    destruct (String.eqb (s_name (fst it)) "__typename") eqn:Et.
    - exists []. split; [apply xerrs_heap|].
      rewrite flat_map_nil_intro; [apply ErrsOk_nil|]. intros x _. unfold eval_field. cbn [negb andb]. now rewrite Et.
    - destruct (find_field (s_name (fst it)) (o_fields o)) as [f|] eqn:Ef.
      2:{ destruct nonnil as [|x t].
          - exists []. split; [exists []; split; [constructor|reflexivity]|apply ErrsOk_nil].
          - exfalso. eapply (not_good_nest (snd x ++ [PKey (s_alias (fst it))]) err_invalid); [reflexivity| |exact Hgood].
            simpl. apply in_or_app. left. unfold eval_field. cbn [negb andb]. rewrite Et, Ef. simpl. now left. }
      set (dests := map (fun x : value * path => (fst x, snd x ++ [PKey (s_alias (fst it))])) nonnil).
      assert (HF : forall b,
                unit_fails fr (mk_unit f (fst it) (snd it) dests b (o_name o))
                = flat_map (fun x : value * path => snd (eval_field S false (eval_obj S fr) o (fields_of (fst x)) (snd x) it)) nonnil).
      { intros b. unfold unit_fails. cbn [u_items]. unfold dests. rewrite flat_map_map.
        apply flat_map_ext_in'. intros x Hx.
        pose proof (eval_field_unit S fr f it o x b (Hobj x Hx) Et Ef) as G. cbv zeta in G.
        pose proof (f_equal (fun r : (string * json) * list perr => snd r) G) as G2. cbn [snd] in G2.
        symmetry. exact G2. }
      assert (HSd : Shape dests) by (apply Shape_ext; exact HS).
      assert (Hsync : exists E, xerrs (ex mf (mk_unit f (fst it) (snd it) dests false (o_name o))) E /\
                ErrsOk E (flat_map (fun x : value * path => snd (eval_field S false (eval_obj S fr) o (fields_of (fst x)) (snd x) it)) nonnil)).
      { destruct (HG mf (mk_unit f (fst it) (snd it) dests false (o_name o)) Hmf Hfu HSd (Ub_false _ _ _ _ _)) as [E [X O]].
        - rewrite HF. exact Hgood.
        - exists E. split; auto. now rewrite <- (HF false). }
      assert (Hasync : forall (b : bool) pieces,
                Ub (mk_unit f (fst it) (snd it) dests b (o_name o)) ->
                (forall v, In v pieces -> u_field v = f /\ u_sel v = fst it /\ u_sub v = snd it /\ u_batch v = b) ->
                Permutation (flat_map u_items pieces) dests ->
                exists E, xerrs (mk_xres [] pieces []) E /\
                  ErrsOk E (flat_map (fun x : value * path => snd (eval_field S false (eval_obj S fr) o (fields_of (fst x)) (snd x) it)) nonnil)).
      { intros b pieces Hub Hsame Hperm.
        destruct (pieces_fail fr (mk_unit f (fst it) (snd it) dests b (o_name o)) pieces HG Hfu HSd Hub Hsame Hperm) as [E [X O]].
        - rewrite HF. exact Hgood.
        - exists E. split; auto. now rewrite <- (HF b). }
      destruct sync; [apply Hsync|].
      destruct (should_use_batch f) eqn:Esb.
      { apply (Hasync true); [|intros v Hv; apply split_par_same4 in Hv; exact Hv|apply split_par_pairs].
        intros Hnb. rewrite (NB Hnb on o _ f Hon Ef) in Esb. discriminate. }
      destruct (f_expensive f).
      { apply (Hasync false); [apply Ub_false|intros v Hv; apply split_work_unit_same in Hv; tauto|rewrite split_work_unit_items; apply Permutation_refl]. }
      destruct (f_external f).
      { apply (Hasync false); [apply Ub_false|intros v Hv; apply split_par_same4 in Hv; exact Hv|apply split_par_pairs]. }
      apply Hsync.
  Qed.

  Definition obj_fails (fr : nat) (oname : string) (s : selset) (items : list (value * path)) : list perr :=
    flat_map (fun it => snd (eval_obj S fr oname s (fst it) (snd it))) items.

  Lemma resolve_object_fail : forall fr mf oname s items,
    GU fr -> Datatypes.S fr <= mf -> Datatypes.S fr <= fuel -> items <> [] -> Shape items ->
    good (obj_fails (Datatypes.S fr) oname s items) ->
    (exists x E, resolve_object fixed S (ex mf) oname s items = inl x /\ xerrs x E /\
                 ErrsOk E (obj_fails (Datatypes.S fr) oname s items)) \/
    (exists e, resolve_object fixed S (ex mf) oname s items = inr e /\ safe e = true /\
               In (mk_perr e []) (obj_fails (Datatypes.S fr) oname s items)).
  Proof.
    intros fr mf oname s items HG Hmf Hfu Hne HS Hgood.
    destruct items as [|it0 rest]; [congruence|]. clear Hne. set (items := it0 :: rest) in *.
    unfold resolve_object.
    destruct (flatten fixed s) as [sels|e] eqn:Efl.
    2:{ right. exists e. split; [reflexivity|]. pose proof (flatten_bad_safe s e Efl) as Hs. split; auto.
        unfold obj_fails, items. cbn [flat_map eval_obj]. rewrite Efl. apply in_or_app. left.
        unfold nest. rewrite Hs. now left. }
    destruct (find_object oname (s_objects S)) as [o|] eqn:Eo.
    2:{ exfalso. eapply (not_good_nest (snd it0) err_invalid); [reflexivity| |exact Hgood].
        unfold obj_fails, items. cbn [flat_map eval_obj]. rewrite Efl, Eo. apply in_or_app. left. now left. }
    left. rewrite (check_sels_fixed sels (flatten_nodirs s sels Efl)).
    set (all := sels ++ key_item o).
    assert (Hev : forall v p,
              eval_obj S (Datatypes.S fr) oname s v p =
              match v with
              | VObj _ fields =>
                  (JObj (map fst (map (eval_field S false (eval_obj S fr) o fields p) all)),
                   flat_map snd (map (eval_field S false (eval_obj S fr) o fields p) all))
              | _ => (JNull, [])
              end).
    { intros v p. cbn [eval_obj]. rewrite Efl, Eo. destruct v; reflexivity. }
    set (nonnil := filter (fun it : value * path => negb (is_nil (fst it))) items).
    assert (Hobj : forall x, In x nonnil -> is_obj x).
    { intros x Hx. apply filter_In in Hx as [_ Hx]. now apply is_nil_obj. }
    assert (HSn : Shape nonnil).
    { eapply Shape_sub; [|exact HS]. intros x Hx. apply filter_In in Hx. tauto. }
    set (F := fun it : item =>
                flat_map (fun x : value * path => snd (eval_field S false (eval_obj S fr) o (fields_of (fst x)) (snd x) it)) nonnil).
    (* membership in the reference failures *)
    assert (Hmem : forall f, In f (flat_map F all) <-> In f (obj_fails (Datatypes.S fr) oname s items)).
    { intros f. unfold obj_fails, F. split.
      - intros H. apply in_flat_map in H as [it [Hit H]]. apply in_flat_map in H as [x [Hx H]].
        apply in_flat_map. exists x. split; [apply filter_In in Hx; tauto|].
        rewrite Hev. destruct (Hobj x Hx) as [tn [fs Efs]]. rewrite Efs in *. cbn [fields_of snd] in *.
        rewrite flat_map_map. apply in_flat_map. eauto.
      - intros H. apply in_flat_map in H as [x [Hx H]]. rewrite Hev in H.
        destruct (fst x) as [| |?|tn fs] eqn:Efs; try contradiction. cbn [snd] in H. rewrite flat_map_map in H.
        apply in_flat_map in H as [it [Hit H]]. apply in_flat_map. exists it. split; auto.
        apply in_flat_map. exists x. split; [|rewrite Efs; exact H].
        apply filter_In. split; auto. now rewrite Efs. }
    assert (Hgood' : forall it, In it all -> good (F it)).
    { intros it Hit f Hf. apply Hgood. apply Hmem. apply in_flat_map. eauto. }
    destruct (xerrs_concat (per_sel (ex mf) o nonnil false) F sels) as [E1 [X1 O1]].
    { intros it Hit. apply (per_sel_fail fr mf o nonnil false it (ex_intro _ oname Eo) HG Hmf Hfu Hobj HSn). apply Hgood'. unfold all. apply in_or_app; auto. }
    destruct (xerrs_concat (per_sel (ex mf) o nonnil true) F (key_item o)) as [E2 [X2 O2]].
    { intros it Hit. apply (per_sel_fail fr mf o nonnil true it (ex_intro _ oname Eo) HG Hmf Hfu Hobj HSn). apply Hgood'. unfold all. apply in_or_app; auto. }
    destruct (xerrs_app _ _ _ _ X1 X2) as [E12 [X12 M12]].
    match goal with |- context [xapp (mk_xres ?h [] []) _] =>
      destruct (xerrs_app (mk_xres h [] []) _ [] E12 (xerrs_heap h) X12) as [E [X M]] end.
    eexists. exists E. split; [reflexivity|]. split; [exact X|].
    eapply ErrsOk_equiv; [exact Hmem|]. unfold all. rewrite flat_map_app.
    eapply ErrsOk_members; [|apply ErrsOk_app; [exact O1|exact O2]].
    intros e. rewrite M. simpl. apply M12.
  Qed.

  (** ** Lists *)
  Lemma list_fails_mem : forall fr t' sub items f,
    In f (type_fails fr (TList t') sub items) <-> In f (type_fails fr t' sub (snd (flatten_lists items))).
  Proof.
    intros fr t' sub. induction items as [|[v p] t IH]; intros f; [simpl; tauto|].
    unfold type_fails in *. cbn [flat_map]. rewrite in_app_iff. rewrite IH.
    destruct v as [| |l|]; simpl flatten_lists; cbn [fst snd].
    1,2,4: (unfold type_ref at 1; cbn [eval_type fst snd]; simpl; tauto).
    rewrite flat_map_app, in_app_iff. unfold type_ref at 1. cbn [eval_type fst snd]. rewrite flat_map_map. tauto.
  Qed.

  (** ** Unions *)
  Lemma seq_res_fail : forall (of_member : string -> xres + err) (G : string -> list perr) ms,
    (forall m, In m ms ->
       (exists x E, of_member m = inl x /\ xerrs x E /\ ErrsOk E (G m)) \/
       (exists e, of_member m = inr e /\ safe e = true /\ In (mk_perr e []) (G m))) ->
    (exists r E, seq_res (map of_member ms) = inl r /\ xerrs r E /\ ErrsOk E (flat_map G ms)) \/
    (exists e, seq_res (map of_member ms) = inr e /\ safe e = true /\ In (mk_perr e []) (flat_map G ms)).
  Proof.
    intros of_member G. induction ms as [|m t IH]; intros Hm.
    - left. exists xempty, []. split; [reflexivity|]. split; [exists []; split; [constructor|reflexivity]|apply ErrsOk_nil].
    - cbn [map seq_res flat_map].
      destruct (Hm m (or_introl eq_refl)) as [[x [E [Ex [X O]]]]|[e [Ee [Hs Hin]]]].
      + rewrite Ex. destruct (IH (fun m' Hin => Hm m' (or_intror Hin))) as [[r [Et [Er [Xr Or]]]]|[e [Ee [Hs Hin]]]].
        * rewrite Er. left. destruct (xerrs_app _ _ _ _ X Xr) as [E' [X' M']].
          exists (xapp x r), E'. split; [reflexivity|]. split; auto.
          eapply ErrsOk_members; [exact M'|]. now apply ErrsOk_app.
        * rewrite Ee. right. exists e. split; [reflexivity|]. split; auto. apply in_or_app. now right.
      + rewrite Ee. right. exists e. split; [reflexivity|]. split; auto. apply in_or_app. now left.
  Qed.

  Lemma resolve_union_fail : forall frt mf uname s items,
    (forall fr, frt = Datatypes.S fr -> GU fr) -> frt <= mf -> frt <= fuel -> Shape items ->
    good (type_fails frt (TUnion uname) (Some s) items) ->
    (exists x E, resolve_union fixed S (ex mf) uname s items = inl x /\ xerrs x E /\
                 ErrsOk E (type_fails frt (TUnion uname) (Some s) items)) \/
    (exists e, resolve_union fixed S (ex mf) uname s items = inr e /\ safe e = true /\
               In (mk_perr e []) (type_fails frt (TUnion uname) (Some s) items)).
  Proof.
    intros frt mf uname s items HG Hmf Hfu HS Hgood.
    unfold resolve_union. cbn [q_union fixed].
    set (ms := filter (is_member S uname) (members_in_order items [])).
    destruct (members_in_order_spec items [] (NoDup_nil _)) as [Mnd [_ [Mcov Mex]]].
    set (G := fun m => obj_fails frt m (union_member_set m s) (filter (is_m m) items)).
    assert (Href : forall m it, is_member S uname m = true -> In it (filter (is_m m) items) ->
              type_ref S frt (TUnion uname) (Some s) it = eval_obj S frt m (union_member_set m s) (fst it) (snd it)).
    { intros m it Hmem Hit. apply filter_In in Hit as [_ Hit]. unfold is_m in Hit. unfold type_ref. cbn [eval_type].
      destruct (fst it) as [| |?|m' fs'] eqn:Ei; try discriminate. apply String.eqb_eq in Hit. subst m'.
      rewrite Hmem. reflexivity. }
    assert (Hmem : forall f, In f (flat_map G ms) <-> In f (type_fails frt (TUnion uname) (Some s) items)).
    { intros f. unfold G, obj_fails, type_fails. split.
      - intros H. apply in_flat_map in H as [m [Hm H]]. apply in_flat_map in H as [it [Hit H]].
        apply filter_In in Hm as [_ Hmm]. apply in_flat_map. exists it. split; [apply filter_In in Hit; tauto|].
        now rewrite (Href m it Hmm Hit).
      - intros H. apply in_flat_map in H as [it [Hit H]]. unfold type_ref in H. cbn [eval_type] in H.
        destruct (fst it) as [| |?|m fs] eqn:Ei; try contradiction.
        destruct (is_member S uname m) eqn:Em; [|contradiction].
        apply in_flat_map. exists m. split; [apply filter_In; split; [eapply Mcov; eauto|exact Em]|].
        apply in_flat_map. exists it. split; [apply filter_In; split; auto; unfold is_m; rewrite Ei; apply String.eqb_refl|].
        rewrite Ei. exact H. }
    assert (Hms : forall m, In m ms ->
              (exists x E, resolve_object fixed S (ex mf) m (union_member_set m s) (filter (is_m m) items) = inl x /\ xerrs x E /\ ErrsOk E (G m)) \/
              (exists e, resolve_object fixed S (ex mf) m (union_member_set m s) (filter (is_m m) items) = inr e /\ safe e = true /\ In (mk_perr e []) (G m))).
    { intros m Hm. pose proof Hm as Hm'. apply filter_In in Hm' as [Hmo Hmm].
      destruct (Mex m Hmo) as [[]|[x0 [fs0 [Hx0 Ex0]]]].
      assert (Hx0f : In x0 (filter (is_m m) items)).
      { apply filter_In. split; auto. unfold is_m. rewrite Ex0. apply String.eqb_refl. }
      assert (Hg : good (G m)).
      { intros f Hf. apply Hgood. apply Hmem. apply in_flat_map. eauto. }
      destruct frt as [|fr].
      - exfalso. eapply (not_good_nest (snd x0) err_fuel); [reflexivity| |exact Hg].
        unfold G, obj_fails. apply in_flat_map. exists x0. split; auto. simpl. now left.
      - apply (resolve_object_fail fr mf m (union_member_set m s) (filter (is_m m) items) (HG fr eq_refl) Hmf Hfu); auto.
        + intros Hnil. rewrite Hnil in Hx0f. contradiction.
        + eapply Shape_sub; [|exact HS]. intros x Hx. apply filter_In in Hx. tauto. }
    change (seq_res (map (fun m : string => resolve_object fixed S (ex mf) m (union_member_set m s)
                 (filter (fun it : value * path => match fst it with VObj m' _ => String.eqb m m' | _ => false end) items)) ms))
      with (seq_res (map (fun m => resolve_object fixed S (ex mf) m (union_member_set m s) (filter (is_m m) items)) ms)).
    destruct (seq_res_fail (fun m => resolve_object fixed S (ex mf) m (union_member_set m s) (filter (is_m m) items)) G ms Hms)
      as [[r [E [Er [X O]]]]|[e [Ee [Hs Hin]]]].
    - rewrite Er. left.
      match goal with |- context [xapp (mk_xres ?h [] []) _] =>
        destruct (xerrs_app (mk_xres h [] []) _ [] E (xerrs_heap h) X) as [E' [X' M']] end.
      eexists. exists E'. split; [reflexivity|]. split; [exact X'|].
      eapply ErrsOk_equiv; [exact Hmem|]. eapply ErrsOk_members; [exact M'|]. exact O.
    - rewrite Ee. right. exists e. split; [reflexivity|]. split; auto. now apply Hmem.
  Qed.

  (** ** resolveBatch *)
  Lemma GR_step : forall frt, (forall fr, frt = Datatypes.S fr -> GU fr) -> GR frt.
  Proof.
    intros frt HG mf t. induction t as [n|n|n|t' IH|t' IH|n]; intros sub items Hmf Hfu HS Hgood.
    all: destruct items as [|it0 rest];
      [left; exists xempty, []; split; [reflexivity|split; [exists []; split; [constructor|reflexivity]|apply ErrsOk_nil]]|].
    all: set (items := it0 :: rest) in *.
    - left. eexists. exists []. split; [reflexivity|]. split; [apply xerrs_heap|].
      unfold type_fails. rewrite flat_map_nil_intro; [apply ErrsOk_nil|]. intros x _. reflexivity.
    - left. eexists. exists []. split; [reflexivity|]. split; [apply xerrs_heap|].
      unfold type_fails. rewrite flat_map_nil_intro; [apply ErrsOk_nil|]. intros x _. reflexivity.
    - (* object *)
      destruct sub as [s|].
      2:{ exfalso. eapply (not_good_nest (snd it0) err_invalid); [reflexivity| |exact Hgood].
          unfold type_fails, items. cbn [flat_map]. apply in_or_app. left. unfold type_ref. cbn [eval_type]. now left. }
      destruct frt as [|fr].
      { exfalso. eapply (not_good_nest (snd it0) err_fuel); [reflexivity| |exact Hgood].
        unfold type_fails, items. cbn [flat_map]. apply in_or_app. left. unfold type_ref. cbn [eval_type eval_obj]. now left. }
      apply (resolve_object_fail fr mf n s items (HG fr eq_refl) Hmf Hfu); auto. discriminate.
    - (* list *)
      assert (Hg' : good (type_fails frt t' sub (snd (flatten_lists items)))).
      { intros f Hf. apply Hgood. now apply list_fails_mem. }
      change (resolve fixed S (ex mf) (TList t') sub items)
        with (match resolve fixed S (ex mf) t' sub (snd (flatten_lists items)) with
              | inr e => inr e
              | inl x0 => inl (xapp (mk_xres (fst (flatten_lists items)) [] []) x0)
              end).
      destruct (IH sub (snd (flatten_lists items)) Hmf Hfu (Shape_lists items HS) Hg') as [[x [E [Ex [X O]]]]|[e [Ee [Hs Hin]]]].
      + rewrite Ex. left.
        destruct (xerrs_app (mk_xres (fst (flatten_lists items)) [] []) x [] E (xerrs_heap _) X) as [E' [X' M']].
        eexists. exists E'. split; [reflexivity|]. split; [exact X'|].
        eapply ErrsOk_equiv; [intros f; symmetry; apply list_fails_mem|]. eapply ErrsOk_members; [exact M'|exact O].
      + rewrite Ee. right. exists e. split; [reflexivity|]. split; auto. now apply list_fails_mem.
    - (* non-null *)
      apply (IH sub items Hmf Hfu HS Hgood).
    - (* union *)
      destruct sub as [s|].
      2:{ exfalso. eapply (not_good_nest (snd it0) err_invalid); [reflexivity| |exact Hgood].
          unfold type_fails, items. cbn [flat_map]. apply in_or_app. left. unfold type_ref. cbn [eval_type].
          destruct (fst it0); now left. }
      apply (resolve_union_fail frt mf n s items HG Hmf Hfu HS Hgood).
  Qed.

  (** ** executeWorkUnit *)
  Lemma oc_spec : forall fr u (it : value * path),
    match outcome_of u (fst it) with
    | OOk v => unit_ref S fr u it = type_ref S fr (f_type (u_field u)) (u_sub u) (v, snd it)
    | OFail e => snd (unit_ref S fr u it) = [nest (snd it) e]
    end.
  Proof.
    intros fr u it. unfold outcome_of, unit_ref, field_ref.
    destruct (fst it) as [| |?|tn fs]; try reflexivity.
    destruct (lookup (s_key (u_sel u)) fs) as [[v|e]|]; reflexivity.
  Qed.

  Lemma first_failure_some : forall u items e p,
    first_failure (map (fun it : value * path => (outcome_of u (fst it), snd it)) items) = Some (e, p) ->
    exists it, In it items /\ outcome_of u (fst it) = OFail e /\ snd it = p.
  Proof.
    intros u. induction items as [|it t IH]; simpl; intros e p H; [discriminate|].
    destruct (outcome_of u (fst it)) as [v|e'] eqn:Eo.
    - destruct (IH e p H) as [it' [Hin [Ho Hp]]]. exists it'. auto.
    - inversion H; subst. exists it. auto.
  Qed.

  Lemma first_failure_none : forall u items,
    first_failure (map (fun it : value * path => (outcome_of u (fst it), snd it)) items) = None ->
    forall it, In it items -> exists v, outcome_of u (fst it) = OOk v.
  Proof.
    intros u. induction items as [|it t IH]; simpl; intros H it' Hin; [contradiction|].
    destruct (outcome_of u (fst it)) as [v|e'] eqn:Eo; [|discriminate].
    destruct Hin as [<-|Hin]; eauto.
  Qed.

  Lemma ErrsOk_fail_all : forall (items : list (value * path)) e F,
    items <> [] ->
    (exists f, In f F /\ forall it, In it items -> rel (nest (snd it) e) f = true) ->
    ErrsOk (map (fun it : value * path => nest (snd it) e) items) F.
  Proof.
    intros items e F Hne [f [Hf Hs]]. split.
    - intros e' He'. apply in_map_iff in He' as [it [<- Hit]]. exists f. auto.
    - intros _ HE. apply map_eq_nil in HE. contradiction.
  Qed.

  Lemma GU_of_GR : forall fr, GR fr -> GU fr.
  Proof.
    intros fr HR mf u Hmf Hfu HS Hub Hgood.
    destruct mf as [|mf']; [inversion Hmf|].
    assert (Hmf' : fr <= mf') by lia. assert (Hfu' : fr <= fuel) by lia.
    set (items := u_items u) in *.
    set (outs := map (fun it : value * path => (outcome_of u (fst it), snd it)) items).
    (* when every source has a result *)
    assert (Hall : first_failure outs = None ->
              exists E, xerrs (match resolve fixed S (ex mf') (f_type (u_field u)) (u_sub u)
                                       (map (fun o : outcome value * path => (ok_value (fst o), snd o)) outs) with
                               | inr e => fail_all items e
                               | inl x => x
                               end) E /\ ErrsOk E (unit_fails fr u)).
    { intros Hff. pose proof (first_failure_none u items Hff) as Hok.
      set (res := map (fun o : outcome value * path => (ok_value (fst o), snd o)) outs).
      assert (Eres : type_fails fr (f_type (u_field u)) (u_sub u) res = unit_fails fr u).
      { unfold type_fails, unit_fails, res, outs. fold items. rewrite map_map, flat_map_map.
        apply flat_map_ext_in'. intros it Hit. cbn [fst snd]. destruct (Hok it Hit) as [v Ev].
        pose proof (oc_spec fr u it) as Hs. rewrite Ev in Hs. rewrite Ev. cbn [ok_value]. now rewrite Hs. }
      assert (HSr : Shape res).
      { intros a b Ha Hb. unfold res, outs in Ha, Hb. rewrite map_map in Ha, Hb.
        apply in_map_iff in Ha as [x [<- Hx]]. apply in_map_iff in Hb as [y [<- Hy]]. simpl. now apply HS. }
      destruct (HR mf' (f_type (u_field u)) (u_sub u) res Hmf' Hfu' HSr) as [[x [E [Ex [X O]]]]|[e [Ee [Hs Hin]]]].
      - rewrite Eres. exact Hgood.
      - rewrite Ex. exists E. split; auto. now rewrite <- Eres.
      - rewrite Ee. unfold fail_all. eexists. split; [exists []; split; [constructor|reflexivity]|].
        cbn [x_errs]. rewrite app_nil_r. apply ErrsOk_fail_all.
        + intros Hnil. fold items in Hnil. unfold type_fails, res, outs in Hin. rewrite Hnil in Hin. contradiction.
        + exists (mk_perr e []). split; [now rewrite <- Eres|]. intros it _. unfold nest. rewrite Hs. apply rel_refl. }
    cbn [exec_unit]. fold items. fold outs.
    destruct (f_batch (u_field u) && u_batch u) eqn:Ebm.
    - (* batch *)
      destruct (first_failure outs) as [[e p]|] eqn:Eff; [|now apply Hall].
      destruct (first_failure_some u items e p Eff) as [itk [Hk [Ho Hp]]].
      unfold fail_all. eexists. split; [exists []; split; [constructor|reflexivity]|]. cbn [x_errs]. rewrite app_nil_r.
      apply ErrsOk_fail_all; [intros Hnil; fold items in Hnil; rewrite Hnil in Hk; contradiction|].
      exists (nest p e). split.
      + unfold unit_fails. fold items. apply in_flat_map. exists itk. split; auto.
        pose proof (oc_spec fr u itk) as Hs. rewrite Ho in Hs. rewrite Hs, Hp. now left.
      + intros it Hit. unfold rel. destruct (Bool.bool_dec nb true) as [Hnb|Hnb];
          [rewrite (Hub Hnb) in Ebm; discriminate|].
        apply Bool.not_true_is_false in Hnb. rewrite Hnb.
        apply nest_sim. rewrite <- Hp. now apply HS.
    - destruct (negb (f_expensive (u_field u))).
      + (* not expensive: stops at the first failing source *)
        destruct (first_failure outs) as [[e p]|] eqn:Eff; [|now apply Hall].
        destruct (first_failure_some u items e p Eff) as [itk [Hk [Ho Hp]]].
        exists [nest p e]. split; [exists []; split; [constructor|reflexivity]|]. split.
        * intros e' [<-|[]]. exists (nest p e). split; [|apply rel_refl].
          unfold unit_fails. fold items. apply in_flat_map. exists itk. split; auto.
          pose proof (oc_spec fr u itk) as Hs. rewrite Ho in Hs. rewrite Hs, Hp. now left.
        * intros _. discriminate.
      + (* expensive: every source on its own *)
        unfold outs. rewrite map_map.
        apply (xerrs_concat _ (fun it : value * path => snd (unit_ref S fr u it)) items).
        intros it Hit. cbn [fst snd].
        pose proof (oc_spec fr u it) as Hs.
        assert (Hg : good (snd (unit_ref S fr u it))).
        { intros f Hf. apply Hgood. unfold unit_fails. fold items. apply in_flat_map. eauto. }
        destruct (outcome_of u (fst it)) as [v|e] eqn:Eo.
        * destruct (HR mf' (f_type (u_field u)) (u_sub u) [(v, snd it)] Hmf' Hfu') as [[x [E [Ex [X O]]]]|[e [Ee [Hse Hin]]]].
          -- intros a b [<-|[]] [<-|[]]. apply path_sim_refl.
          -- unfold type_fails. cbn [flat_map]. rewrite app_nil_r. rewrite <- Hs. exact Hg.
          -- rewrite Ex. exists E. split; auto. unfold type_fails in O. cbn [flat_map] in O. rewrite app_nil_r in O. now rewrite Hs.
          -- rewrite Ee. exists [nest (snd it) e]. split; [exists []; split; [constructor|reflexivity]|].
             unfold type_fails in Hin. cbn [flat_map] in Hin. rewrite app_nil_r in Hin. rewrite <- Hs in Hin. split.
             ++ intros e' [<-|[]]. exists (mk_perr e []). split; auto. unfold nest. rewrite Hse. apply rel_refl.
             ++ intros _. discriminate.
        * exists [nest (snd it) e]. split; [exists []; split; [constructor|reflexivity]|]. rewrite Hs. split.
          -- intros e' [<-|[]]. exists (nest (snd it) e). split; [now left|apply rel_refl].
          -- intros _. discriminate.
  Qed.

  Theorem units_fail_like_reference : forall fr, GR fr /\ GU fr.
  Proof.
    induction fr as [|fr [_ IHU]].
    - assert (HR : GR 0) by (apply GR_step; intros fr E; discriminate). split; [exact HR|now apply GU_of_GR].
    - assert (HR : GR (Datatypes.S fr)) by (apply GR_step; intros fr' E; inversion E; subst; exact IHU).
      split; [exact HR|now apply GU_of_GR].
  Qed.
End Fail.
End Rel.
