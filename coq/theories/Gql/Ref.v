(** [eval_ref]: the sequential reference semantics of a query.  One object at a time, one field at a
    time, depth first; same-alias selections and fragments merged by [flatten]; list order kept; nil
    rendered as null; a union value dispatched to the fragments of its member.  A failing resolver leaves
    null in place and is reported in the second component with its response path; nothing below a
    failing field is evaluated.  This is the specification the executor is compared with. *)
From Coq Require Import List String Bool Arith.
From Thunder Require Import Lib.Json Gql.Types Gql.Value Gql.Query.
Import ListNotations.
Open Scope string_scope.
Open Scope list_scope.

(** Raised where the Go code would dereference nil: excluded by PrepareQuery ([valid]) and by data that
    has a result for every field of every object. *)
Definition err_invalid : err := mk_err EPanic "model: query or data does not fit the schema".
Definition err_fuel : err := mk_err EPanic "model: out of fuel".

Definition eres := (json * list perr)%type.

Definition is_member (S : schema) (u m : string) : bool :=
  existsb (fun x => String.eqb (u_name x) u && existsb (String.eqb m) (u_members x)) (s_unions S).

(** resolveUnionBatch as repaired: the union-level selections (only __typename passes validation) and
    the fragments on the member, as one selection set. *)
Definition union_member_set (m : string) (s : selset) : selset :=
  SelSet 0 (ss_sels s) (filter (fun f => String.eqb (fr_on (fst f)) m) (ss_frags s)).

Section Ref.
  Variable S : schema.

  (** Value of type [t] selected by [ss]; [eo] evaluates an object. *)
  Fixpoint eval_type (eo : string -> selset -> value -> path -> eres)
           (t : gtype) (ss : option selset) (v : value) (p : path) {struct t} : eres :=
    match t with
    | TScalar _ | TEnum _ => (match v with VLeaf l => leaf_json l | _ => JNull end, [])
    | TNonNull t' => eval_type eo t' ss v p
    | TList t' =>
        match v with
        | VList l =>
            let rs := map (fun it => eval_type eo t' ss (fst it) (snd it)) (index_items p l 0) in
            (JArr (map fst rs), flat_map snd rs)
        | _ => (JArr [], [])
        end
    | TObject n =>
        match ss with
        | Some s => eo n s v p
        | None => (JNull, [nest p err_invalid])
        end
    | TUnion u =>
        match ss, v with
        | Some s, VObj m _ => if is_member S u m then eo m (union_member_set m s) v p else (JNull, [])
        | Some _, _ => (JNull, [])
        | None, _ => (JNull, [nest p err_invalid])
        end
    end.

  (** One selected field of an object whose field results are [fields]. *)
  Definition eval_field (top : bool) (eo : string -> selset -> value -> path -> eres)
             (o : object) (fields : list (string * outcome value)) (p : path) (it : item) : (string * json) * list perr :=
    let h := fst it in
    let p' := p ++ [PKey (s_alias h)] in
    if negb top && String.eqb (s_name h) "__typename" then ((s_alias h, JStr (o_name o)), [])
    else
      match find_field (s_name h) (o_fields o), lookup (s_key h) fields with
      | Some f, Some (OOk v) => let r := eval_type eo (f_type f) (snd it) v p' in ((s_alias h, fst r), snd r)
      | Some f, Some (OFail e) => ((s_alias h, JNull), [nest p' e])
      | _, _ => ((s_alias h, JNull), [nest p' err_invalid])
      end.

  Definition key_item (o : object) : list item :=
    match o_key o with
    | Some k => [(mk_selh "__key" k k [], None)]
    | None => []
    end.

  (** An object (or nil) of type [oname] under selection set [s]. *)
  Fixpoint eval_obj (fuel : nat) (oname : string) (s : selset) (v : value) (p : path) {struct fuel} : eres :=
    match fuel with
    | 0 => (JNull, [nest p err_fuel])
    | Datatypes.S fuel' =>
        match flatten fixed s with
        | Bad e => (JNull, [nest p e])
        | Ok items =>
            match find_object oname (s_objects S), v with
            | None, _ => (JNull, [nest p err_invalid])
            | Some o, VObj _ fields =>
                let rs := map (eval_field false (eval_obj fuel') o fields p) (items ++ key_item o) in
                (JObj (map fst rs), flat_map snd rs)
            | Some _, _ => (JNull, [])
            end
        end
    end.

  (** The whole query against the root object. *)
  Definition eval_ref (fuel : nat) (q : selset) (root : value) : eres :=
    match fuel with
    | 0 => (JNull, [nest [] err_fuel])
    | Datatypes.S fuel' =>
        match flatten fixed q with
        | Bad e => (JNull, [nest [] e])
        | Ok items =>
            match find_object (s_query S) (s_objects S), root with
            | Some o, VObj _ fields =>
                (* Executor.Execute: the root object has no __typename and no __key *)
                let rs := map (eval_field true (eval_obj fuel') o fields []) items in
                (JObj (map fst rs), flat_map snd rs)
            | _, _ => (JNull, [nest [] err_invalid])
            end
        end
    end.

  Definition needed_failures (fuel : nat) (q : selset) (root : value) : list perr := snd (eval_ref fuel q root).
End Ref.

Definition ref_result (r : eres) (e : perr) : result :=
  match snd r with
  | [] => ROk (fst r)
  | _ => RErr e
  end.
