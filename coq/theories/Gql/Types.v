(** GraphQL types and schemas as graphql/types.go has them after schemabuilder.Build.
    Objects and unions are referred to by name (the type graph is cyclic). *)
From Coq Require Import List String Bool Arith.
From Thunder Require Import Lib.Json.
Import ListNotations.
Open Scope string_scope.

Inductive gtype : Type :=
| TScalar (name : string)
| TEnum (name : string)
| TObject (name : string)
| TList (t : gtype)
| TNonNull (t : gtype)
| TUnion (name : string).

(** graphql.Field: the flags the executor looks at.  [f_par] is NumParallelInvocationsFunc sampled by the
    harness at 0,1,2,... (the last entry extends to larger arguments); [f_use_batch] is UseBatchFunc(ctx). *)
Record field : Type := mk_field {
  f_name : string;
  f_type : gtype;
  f_batch : bool;
  f_expensive : bool;
  f_external : bool;
  f_use_batch : bool;
  f_par : option (list nat)
}.

Record object : Type := mk_object {
  o_name : string;
  o_fields : list field;
  o_key : option string   (* name of the key field, if any *)
}.

Record union : Type := mk_union { u_name : string; u_members : list string }.

Record schema : Type := mk_schema {
  s_objects : list object;
  s_unions : list union;
  s_query : string
}.

Fixpoint find_object (n : string) (l : list object) : option object :=
  match l with
  | [] => None
  | o :: t => if String.eqb n (o_name o) then Some o else find_object n t
  end.

Fixpoint find_field (n : string) (l : list field) : option field :=
  match l with
  | [] => None
  | f :: t => if String.eqb n (f_name f) then Some f else find_field n t
  end.

Definition par_at (tbl : list nat) (n : nat) : nat := nth n tbl (last tbl 1).

(** shouldUseBatch *)
Definition should_use_batch (f : field) : bool := f_batch f && f_use_batch f.
