(** A JSON value whose objects carry no key twice has one response path per node. *)
From Coq Require Import List String Bool Arith Permutation Lia.
From Thunder Require Import Lib.Json Gql.Types Gql.Value Gql.Query Gql.Ref Gql.Exec Gql.ProofsRef.
Import ListNotations.
Open Scope list_scope.

Fixpoint json_keys_unique (j : json) : bool :=
  match j with
  | JArr l => forallb json_keys_unique l
  | JObj l => nodup_keys (map fst l) &&
              (fix go (l : list (string * json)) : bool :=
                 match l with [] => true | kv :: t => json_keys_unique (snd kv) && go t end) l
  | _ => true
  end.

Lemma ent_prefix : forall j p q n, In (q, n) (ent p j) -> exists r, q = p ++ r.
Proof.
  induction j as [|b|z|s|l IH|l IH] using json_ind'; intros p q n Hin.
  1,2,3,4: (destruct Hin as [H|[]]; inversion H; subst; exists []; now rewrite app_nil_r).
  - rewrite ent_arr in Hin. destruct Hin as [H|Hin]; [inversion H; subst; exists []; now rewrite app_nil_r|].
    revert Hin. generalize 0. induction IH as [|x t Hx _ IHt]; intros i Hin; [contradiction|].
    simpl in Hin. apply in_app_or in Hin as [Hin|Hin].
    + unfold ent_at in Hin. simpl in Hin. destruct (Hx _ _ _ Hin) as [r Hr]. exists ([PIdx i] ++ r). now rewrite app_assoc.
    + eapply IHt; eauto.
  - rewrite ent_obj in Hin. destruct Hin as [H|Hin]; [inversion H; subst; exists []; now rewrite app_nil_r|].
    induction IH as [|[k v] t Hx _ IHt]; [contradiction|].
    simpl in Hin. apply in_app_or in Hin as [Hin|Hin].
    + destruct (Hx _ _ _ Hin) as [r Hr]. exists ([PKey k] ++ r). now rewrite app_assoc.
    + auto.
Qed.

Lemma nodup_app_disjoint : forall {A} (a b : list A),
  NoDup a -> NoDup b -> (forall x, In x a -> ~ In x b) -> NoDup (a ++ b).
Proof.
  induction a as [|x t IH]; simpl; intros b Ha Hb Hd; auto.
  inversion Ha; subst. constructor.
  - intros Hin. apply in_app_or in Hin as [Hin|Hin]; [contradiction|]. apply (Hd x); auto.
  - apply IH; auto.
Qed.

Lemma path_branch : forall (p : path) a b r r', p ++ a :: r = p ++ b :: r' -> a = b.
Proof. intros p a b r r' H. apply app_inv_head in H. now inversion H. Qed.

Lemma path_not_self : forall (p : path) a r, p <> p ++ a :: r.
Proof.
  intros p a r H. assert (E : List.length p = List.length (p ++ a :: r)) by now rewrite <- H.
  rewrite app_length in E. simpl in E. lia.
Qed.

Lemma ent_nodup : forall j p, json_keys_unique j = true -> NoDup (map fst (ent p j)).
Proof.
  induction j as [|b|z|s|l IH|l IH] using json_ind'; intros p Hu.
  1,2,3,4: (simpl; constructor; [intros []|constructor]).
  - rewrite ent_arr. cbn [map fst]. constructor.
    + intros Hin. apply in_map_iff in Hin as [[q n] [Eq Hin]]. simpl in Eq. subst q.
      assert (G : forall i, In (p, n) (flat_map ent_at (index_items p l i)) -> False).
      { clear. induction l as [|x t IHt]; intros i Hin; [contradiction|]. simpl in Hin.
        apply in_app_or in Hin as [Hin|Hin]; [|eauto].
        unfold ent_at in Hin. simpl in Hin. apply ent_prefix in Hin as [r Hr].
        rewrite <- app_assoc in Hr. simpl in Hr. now apply path_not_self in Hr. }
      eauto.
    + cbn [json_keys_unique] in Hu. revert Hu. generalize 0.
      induction IH as [|x t Hx _ IHt]; intros i Hu; [constructor|].
      simpl in Hu. apply andb_prop in Hu as [Hux Hut]. simpl. rewrite map_app.
      apply nodup_app_disjoint; [apply Hx; auto|apply IHt; auto|].
      intros q Hq Hq'. apply in_map_iff in Hq as [[q1 n1] [E1 Hq]]. apply in_map_iff in Hq' as [[q2 n2] [E2 Hq']].
      simpl in E1, E2. subst q1 q2. unfold ent_at in Hq. simpl in Hq. apply ent_prefix in Hq as [r Hr].
      assert (G : forall i', i < i' -> forall t0 : list json, In (q, n2) (flat_map ent_at (index_items p t0 i')) -> False).
      { intros i' Hlt t0. revert i' Hlt. induction t0 as [|y t0 IHt0]; intros i' Hlt Hin; [contradiction|].
        simpl in Hin. apply in_app_or in Hin as [Hin|Hin]; [|apply (IHt0 (Datatypes.S i')); auto; lia].
        unfold ent_at in Hin. simpl in Hin. apply ent_prefix in Hin as [r' Hr']. rewrite Hr in Hr'.
        rewrite <- !app_assoc in Hr'. simpl in Hr'. apply path_branch in Hr'. inversion Hr'. lia. }
      apply (G (Datatypes.S i) (Nat.lt_succ_diag_r i) t Hq').
  - rewrite ent_obj. cbn [map fst]. constructor.
    + intros Hin. apply in_map_iff in Hin as [[q n] [Eq Hin]]. simpl in Eq. subst q.
      clear -Hin. induction l as [|[k v] t IHt]; [contradiction|]. simpl in Hin.
      apply in_app_or in Hin as [Hin|Hin]; [|eauto].
      apply ent_prefix in Hin as [r Hr]. rewrite <- app_assoc in Hr. simpl in Hr. now apply path_not_self in Hr.
    + cbn [json_keys_unique] in Hu. apply andb_prop in Hu as [Hk Hu].
      induction IH as [|[k v] t Hx _ IHt]; [constructor|].
      simpl in Hk, Hu. apply andb_prop in Hk as [Hkf Hkt]. apply andb_prop in Hu as [Hux Hut].
      simpl. rewrite map_app. apply nodup_app_disjoint; [apply Hx; auto|apply IHt; auto|].
      intros q Hq Hq'. apply in_map_iff in Hq as [[q1 n1] [E1 Hq]]. apply in_map_iff in Hq' as [[q2 n2] [E2 Hq']].
      simpl in E1, E2. subst q1 q2. apply ent_prefix in Hq as [r Hr].
      apply negb_true_iff in Hkf.
      clear -Hq' Hr Hkf. induction t as [|[k' v'] t IHt]; [contradiction|]. simpl in Hq', Hkf.
      apply orb_false_elim in Hkf as [Hk1 Hk2].
      apply in_app_or in Hq' as [Hin|Hin]; [|auto].
      apply ent_prefix in Hin as [r' Hr']. rewrite Hr in Hr'. rewrite <- !app_assoc in Hr'. simpl in Hr'.
      apply path_branch in Hr'. inversion Hr'. subst. rewrite String.eqb_refl in Hk1. discriminate.
Qed.
