(** Correspondence evaluator for C16's websocket scripts: the harness sends a script of inbound envelopes
    to the real connection (graphql.CreateConnection over a fake JSONSocket, a recording
    SubscriptionLogger) and writes, per envelope, what came out; [check_script] replays the script
    through Gql/Socket.v [serve].  Which of several failing resolvers Execute reports is the scheduler's
    choice: an observed segment must be the model's for one of the needed failures. *)
From Coq Require Import List String Bool Arith.
From Thunder Require Import Lib.Json Gql.Types Gql.Value Gql.Query Gql.Ref Gql.Exec Gql.Check Gql.Envelope Gql.Socket.
Import ListNotations.
Open Scope string_scope.
Open Scope list_scope.

(** The query an envelope carries: the case's query, a query that succeeds, one Parse / PrepareQuery
    rejects, a message that is not an object. *)
Inductive qkind := QCase | QOk | QReject | QBadMsg.

Inductive smsg :=
| SSub (id : string) (k : qkind)
| SMut (id : string) (k : qkind)
| SUnsub (id : string)
| SEcho (id : string)
| SUrl (id : string) (ok : bool)
| SUnknown (id : string).

Record script : Type := mk_script {
  sc_max : nat;                              (* WithMaxSubscriptions *)
  sc_steps : list (smsg * list cevent);      (* envelope sent, what was written / logged until quiescence *)
  sc_closing : list string                   (* ids the logger saw end when the socket was closed, sorted *)
}.

Definition fates_of (ref : eres) (k : qkind) : list fate :=
  match k with
  | QCase => match snd ref with
             | [] => [FRuns (ROk (fst ref))]
             | fs => map (fun e => FRuns (RErr e)) fs
             end
  | QOk => [FRuns (ROk JNull)]
  | QReject => [FRejected (mk_err EClient "")]
  | QBadMsg => [FBadMessage]
  end.

Definition inmsgs_of (ref : eres) (m : smsg) : list inmsg :=
  match m with
  | SSub id k => map (MSubscribe id) (fates_of ref k)
  | SMut id k => map (MMutate id) (fates_of ref k)
  | SUnsub id => [MUnsubscribe id]
  | SEcho id => [MEcho id]
  | SUrl id ok => [MUrl id ok]
  | SUnknown id => [MUnknown id]
  end.

Fixpoint run_script (ref : eres) (c : conn) (steps : list (smsg * list cevent)) : option conn :=
  match steps with
  | [] => Some c
  | (m, obs) :: t =>
      match find (fun im => cevents_eqb (snd (serve c im)) obs) (inmsgs_of ref m) with
      | Some im => run_script ref (fst (serve c im)) t
      | None => None
      end
  end.

Fixpoint insert_str (s : string) (l : list string) : list string :=
  match l with
  | [] => [s]
  | x :: t => if str_ltb x s then x :: insert_str s t else s :: l
  end.
Definition sort_str (l : list string) : list string := fold_right insert_str [] l.

Fixpoint strs_eqb (a b : list string) : bool :=
  match a, b with
  | [], [] => true
  | x :: a', y :: b' => String.eqb x y && strs_eqb a' b'
  | _, _ => false
  end.

(** Code 7: some segment of the script is not what [serve] writes; code 8: the subscriptions the logger
    saw end at the close of the socket are not the model's live ones. *)
Definition check_script (c : gcase) (s : option script) : list nat :=
  match s, g_schemas c, g_queries c with
  | Some sc, sch :: _, q :: _ =>
      match parse (g_vars c) q with
      | None => [3]
      | Some ss =>
          let ref := eval_ref sch FUEL ss (g_root c) in
          match run_script ref (mk_conn [] (sc_max sc)) (sc_steps sc) with
          | None => [7]
          | Some c' => if strs_eqb (sort_str (c_subs c')) (sc_closing sc) then [] else [8]
          end
      end
  | _, _, _ => []
  end.

Fixpoint mismatches16s_from_sparse (_ : nat) (cs : list (nat * (gcase * option (list wsevent) * option script)))
  : list (nat * list nat) :=
  match cs with
  | [] => []
  | (i, (c, w, s)) :: t => match dedup (check_case c ++ check_ws c w ++ check_script c s) with
                           | [] => mismatches16s_from_sparse 0 t
                           | l => (i, l) :: mismatches16s_from_sparse 0 t
                           end
  end.
