(** Abstract data: what resolvers return, pre-resolved.  An object is a record of field outcomes keyed by
    "field" or "field(args)"; a union value is the object of its one member (one-hot) or [VNull]; nil
    pointers, nil slices and invalid values are [VNull]. Scalars are already unwrapped to JSON. *)
From Coq Require Import List String Bool Arith ZArith.
From Thunder Require Import Lib.Json.
Import ListNotations.
Open Scope string_scope.

(** Scalars after unwrapping (enums are already mapped to their names). *)
Inductive leaf : Type := LBool (b : bool) | LNum (z : Z) | LStr (s : string).
Definition leaf_json (l : leaf) : json :=
  match l with LBool b => JBool b | LNum z => JNum z | LStr s => JStr s end.

(** How a resolver fails: plain error, graphql.SafeError, WrapAsSafeError (a SafeError with an inner
    cause), panic; [EWrapsSafe] is an ordinary error that merely wraps a safe one
    (fmt.Errorf("...: %w", safeErr)): it is not itself a SanitizedError; [EClient] is a
    graphql.ClientError raised by the executor itself (bad directive); [ECustom] is a user-defined
    error type implementing SanitizedError whose SanitizedError() text differs from its Error() text:
    [e_text] of a safe error is its SanitizedError() text, the only text a client may see. *)
Inductive eclass := EPlain | ESafe | EWrapped | EPanic | EClient | EWrapsSafe | ECustom.

Definition eclass_eqb (a b : eclass) : bool :=
  match a, b with
  | EPlain, EPlain | ESafe, ESafe | EWrapped, EWrapped | EPanic, EPanic | EClient, EClient
  | EWrapsSafe, EWrapsSafe | ECustom, ECustom => true
  | _, _ => false
  end.

Record err : Type := mk_err { e_class : eclass; e_text : string }.

Definition err_eqb (a b : err) : bool := eclass_eqb (e_class a) (e_class b) && String.eqb (e_text a) (e_text b).

(** err.(SanitizedError): a type assertion on the error itself, not errors.As through its chain. *)
Definition safe (e : err) : bool :=
  match e_class e with ESafe | EWrapped | EClient | ECustom => true | _ => false end.

Inductive outcome (V : Type) : Type :=
| OOk (v : V)
| OFail (e : err).
Arguments OOk {V} v.
Arguments OFail {V} e.

Inductive value : Type :=
| VNull
| VLeaf (l : leaf)
| VList (l : list value)
| VObj (tname : string) (fields : list (string * outcome value)).

(** Response paths: aliases and list indices, root first. *)
Inductive pseg := PKey (k : string) | PIdx (i : nat).
Definition path := list pseg.

Definition pseg_eqb (a b : pseg) : bool :=
  match a, b with
  | PKey x, PKey y => String.eqb x y
  | PIdx x, PIdx y => Nat.eqb x y
  | _, _ => false
  end.

Fixpoint path_eqb (a b : path) : bool :=
  match a, b with
  | [], [] => true
  | x :: a', y :: b' => pseg_eqb x y && path_eqb a' b'
  | _, _ => false
  end.

(** List elements with their destinations: element k of [l] goes to [p ++ [PIdx (i + k)]]. *)
Fixpoint index_items {A} (p : path) (l : list A) (i : nat) : list (A * path) :=
  match l with
  | [] => []
  | x :: t => (x, (p ++ [PIdx i])%list) :: index_items p t (S i)
  end.

(** A recorded failure: nestPathErrorMulti leaves sanitized errors alone, prefixes the others. *)
Record perr : Type := mk_perr { pe_err : err; pe_path : path }.

Definition nest (p : path) (e : err) : perr :=
  if safe e then mk_perr e [] else mk_perr e p.

Definition perr_eqb (a b : perr) : bool := err_eqb (pe_err a) (pe_err b) && path_eqb (pe_path a) (pe_path b).

Inductive result : Type :=
| ROk (j : json)
| RErr (e : perr).
