(** splitWorkUnit and splitToNWorkUnits keep every (source, destination) pair, exactly once. *)
From Coq Require Import List String Bool Arith Permutation Lia.
From Thunder Require Import Lib.Json Gql.Types Gql.Value Gql.Query Gql.Ref Gql.Exec.
Import ListNotations.
Open Scope list_scope.

Lemma split_work_unit_items : forall u, flat_map u_items (split_work_unit u) = u_items u.
Proof.
  intros u. unfold split_work_unit. induction (u_items u) as [|it l IH]; simpl; auto. now rewrite IH.
Qed.

Lemma flat_map_seq_shift : forall {A} (f : nat -> list A) m s,
  flat_map (fun k => f (Datatypes.S k)) (seq s m) = flat_map f (seq (Datatypes.S s) m).
Proof. intros A f m. induction m; intros s; simpl; auto. now rewrite IHm. Qed.

Lemma every_nth_family : forall {A} m (l : list A),
  Permutation (flat_map (fun k => every_nth (Datatypes.S m) k l) (seq 0 (Datatypes.S m))) l.
Proof.
  intros A m l. induction l as [|x t IH].
  - assert (H : forall n s, flat_map (fun k => every_nth (A:=A) (Datatypes.S m) k []) (seq s n) = []).
    { induction n; intros s; simpl; auto. }
    rewrite H. constructor.
  - change (seq 0 (Datatypes.S m)) with (0 :: seq 1 m).
    cbn [flat_map].
    assert (E0 : every_nth (Datatypes.S m) 0 (x :: t) = x :: every_nth (Datatypes.S m) m t) by reflexivity.
    assert (E1 : flat_map (fun k => every_nth (Datatypes.S m) k (x :: t)) (seq 1 m)
                 = flat_map (fun k => every_nth (Datatypes.S m) k t) (seq 0 m)).
    { rewrite <- (flat_map_seq_shift (fun k => every_nth (Datatypes.S m) k (x :: t)) m 0).
      apply flat_map_ext. intros k. reflexivity. }
    rewrite E0, E1. simpl app. apply perm_skip.
    eapply perm_trans; [apply Permutation_app_comm|].
    eapply perm_trans; [|exact IH].
    rewrite seq_S. rewrite flat_map_app. simpl. rewrite app_nil_r. apply Permutation_refl.
Qed.

Lemma clamp_units_pos : forall n len, exists m, clamp_units n len = Datatypes.S m.
Proof.
  intros n len. unfold clamp_units.
  destruct (Nat.eqb (if Nat.ltb len n then len else n) 0) eqn:E.
  - now exists 0.
  - apply Nat.eqb_neq in E. destruct (if Nat.ltb len n then len else n); [congruence|]. eauto.
Qed.

(** The zipped (source, destination) pairs of the units returned by splitToNWorkUnits are a
    permutation of the original unit's pairs, whatever number of units was asked for. *)
Theorem split_to_n_pairs : forall u n, Permutation (flat_map u_items (split_to_n u n)) (u_items u).
Proof.
  intros u n. unfold split_to_n.
  destruct (clamp_units_pos n (List.length (u_items u))) as [m Hm]. rewrite Hm.
  rewrite flat_map_concat_map, map_map. simpl u_items. rewrite <- flat_map_concat_map.
  apply every_nth_family.
Qed.

Theorem split_par_pairs : forall u, Permutation (flat_map u_items (split_par u)) (u_items u).
Proof.
  intros u. unfold split_par. destruct (f_par (u_field u)).
  - apply split_to_n_pairs.
  - simpl. rewrite app_nil_r. apply Permutation_refl.
Qed.

(** Splitting changes nothing but the grouping: field, selection and flags are those of the unit. *)
Lemma split_to_n_same : forall u n v, In v (split_to_n u n) ->
  u_field v = u_field u /\ u_sel v = u_sel u /\ u_sub v = u_sub u /\ u_batch v = u_batch u /\ u_obj v = u_obj u.
Proof.
  intros u n v H. unfold split_to_n in H. apply in_map_iff in H as [r [Hr _]]. subst v. simpl. auto.
Qed.

Lemma split_work_unit_same : forall u v, In v (split_work_unit u) ->
  u_field v = u_field u /\ u_sel v = u_sel u /\ u_sub v = u_sub u /\ u_batch v = u_batch u /\ u_obj v = u_obj u.
Proof.
  intros u v H. unfold split_work_unit in H. apply in_map_iff in H as [r [Hr _]]. subst v. simpl. auto.
Qed.
