(** Correspondence for the gateway clause of C19: the harness parses the query text with graphql.Parse /
    PrepareQuery and writes the selection sets it got - field selections and fragments with their
    evaluated directives, spreads resolved to the shared fragment - as federation-model nodes;
    [check_fedview] compares them with [to_fed] of the structured query, and evaluates the pruning
    equation on the case.  Go keeps the field selections and the fragments of a selection set in two
    slices, and the repaired parser wraps a decorated spread into a fragment of its own: both sides are
    brought to the same normal form (fields before fragments; wrapper and wrapped fragment merged). *)
From Coq Require Import List String Bool Arith ZArith.
From Thunder Require Import Lib.Json Gql.Types Gql.Value Gql.Query Gql.Ref Gql.Exec Gql.Check Gql.CheckFlat.
From Thunder Require Federation.Normalize Gql.FedPrune Gql.FedPruneTie.
Import ListNotations.
Open Scope string_scope.
Open Scope list_scope.

Module N := Federation.Normalize.

Fixpoint dirs_eqb (a b : list N.dir) : bool :=
  match a, b with
  | [], [] => true
  | (n, x) :: a', (m, y) :: b' => String.eqb n m && Bool.eqb x y && dirs_eqb a' b'
  | _, _ => false
  end.

Fixpoint fnode_eqb (a b : N.node) {struct a} : bool :=
  match a, b with
  | N.NField al nm _ ak ds hs subs, N.NField al' nm' _ ak' ds' hs' subs' =>
      String.eqb al al' && String.eqb nm nm' && String.eqb ak ak' && dirs_eqb ds ds' && Bool.eqb hs hs' &&
      (fix go (l l' : list N.node) : bool :=
         match l, l' with
         | [], [] => true
         | x :: t, y :: t' => fnode_eqb x y && go t t'
         | _, _ => false
         end) subs subs'
  | N.NFrag on ds subs, N.NFrag on' ds' subs' =>
      String.eqb on on' && dirs_eqb ds ds' &&
      (fix go (l l' : list N.node) : bool :=
         match l, l' with
         | [], [] => true
         | x :: t, y :: t' => fnode_eqb x y && go t t'
         | _, _ => false
         end) subs subs'
  | _, _ => false
  end.

Fixpoint fnodes_eqb (l l' : list N.node) : bool :=
  match l, l' with
  | [], [] => true
  | x :: t, y :: t' => fnode_eqb x y && fnodes_eqb t t'
  | _, _ => false
  end.

(** fields before fragments, at every level; a fragment holding nothing but one undecorated fragment on
    the same type is merged with it *)
Fixpoint fnorm_node (n : N.node) : N.node :=
  match n with
  | N.NField al nm args ak ds hs subs =>
      let subs' := map fnorm_node subs in
      N.NField al nm args ak ds hs (N.fields_of subs' ++ N.frags_of subs')
  | N.NFrag on ds subs =>
      let subs' := map fnorm_node subs in
      match subs' with
      | [N.NFrag on' [] inner] => if String.eqb on on' then N.NFrag on ds inner else N.NFrag on ds subs'
      | _ => N.NFrag on ds (N.fields_of subs' ++ N.frags_of subs')
      end
  end.
Definition fnorm (l : list N.node) : list N.node :=
  let l' := map fnorm_node l in N.fields_of l' ++ N.frags_of l'.

(** Code 9: the parsed query is not the gateway reading [to_fed] of the structured query;
    code 10: on this case, reading the pruned query differs from pruning the reading (the theorem
    gateway_reading_commutes_with_prune, evaluated), or the reading is not well formed. *)
Definition check_fedview (c : gcase) (obs : option (list N.node)) : list nat :=
  match g_queries c with
  | q :: _ =>
      let v := FedPruneTie.to_fed (g_vars c) q in
      (match obs with
       | Some o => if fnodes_eqb (fnorm v) (fnorm o) then [] else [9]
       | None => []
       end) ++
      (if directives_wellformed (g_vars c) q then
         if fnodes_eqb (FedPruneTie.to_fed (g_vars c) (prune (g_vars c) q)) (FedPrune.fprune v) && FedPrune.fwf v
         then [] else [10]
       else [])
  | [] => []
  end.

Fixpoint mismatches19_from_sparse (_ : nat) (cs : list (nat * (gcase * option (list N.node) * option (option (list ftree)))))
  : list (nat * list nat) :=
  match cs with
  | [] => []
  | (i, (c, o, fl)) :: t => match dedup (check_case c ++ check_fedview c o ++ check_flat c fl) with
                            | [] => mismatches19_from_sparse 0 t
                            | l => (i, l) :: mismatches19_from_sparse 0 t
                            end
  end.
