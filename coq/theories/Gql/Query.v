(** Queries: the source form (what the client sends), the parsed form (what graphql/parser.go
    parseSelectionSet builds: selections + fragments, named fragments shared between their spreads),
    directives (directive.go), [prune] (textual deletion) and [flatten] (parser.go Flatten).

    The code is modelled as repaired (F6, F7, F9); the original behaviours are kept as [quirks]. *)
From Coq Require Import List String Bool Arith.
From Thunder Require Import Lib.Json Gql.Value.
Import ListNotations.
Open Scope string_scope.
Open Scope list_scope.

(** Which of the original defects are switched on.  [fixed] is the repaired code. *)
Record quirks : Type := mk_quirks {
  q_f6 : bool;   (* ShouldIncludeNode: @include ignored when @skip is present *)
  q_f7 : bool;   (* spread directives stored on the shared fragment: the last spread with directives wins *)
  q_f9 : bool;   (* Flatten groups before looking at field directives; merged selection loses them; __typename unchecked *)
  q_union : bool (* resolveUnionBatch: one resolve per matching fragment, each replacing the previous; directives ignored; F4 F5 F8 *)
}.
Definition fixed : quirks := mk_quirks false false false false.
Definition original : quirks := mk_quirks true true true true.

(** * Source form *)
Inductive scond := CLit (j : json) | CVar (x : string) | CNone.
Inductive sdir := SDir (name : string) (c : scond).

(** Every syntactic selection set carries an identifier (the pointer identity of the *SelectionSet the
    parser allocates); [wid] of a spread identifies the wrapper the repaired parser allocates. *)
(** [SInline "" ds id body] is an inline fragment without type condition (`... @include(if: $v) { a b }`).
    /repo's parser rejects it at Parse (the harness then has nothing to compare); the model gives it the
    meaning it has wherever it is accepted - a fragment on the enclosing type (Flatten does not look at
    type conditions under an object) - so the C19 theorems read "if accepted, then as if textually pruned". *)
Inductive snode : Type :=
| SField (alias name key : string) (dirs : list sdir) (sub : option (nat * snodes))
| SInline (on : string) (dirs : list sdir) (id : nat) (body : snodes)
| SSpread (fname : string) (dirs : list sdir) (wid : nat)
with snodes : Type :=
| SNil
| SCons (n : snode) (rest : snodes).

Scheme snode_mut := Induction for snode Sort Prop
  with snodes_mut := Induction for snodes Sort Prop.

Fixpoint snodes_of_list (l : list snode) : snodes :=
  match l with [] => SNil | n :: t => SCons n (snodes_of_list t) end.

Record fragdef : Type := mk_fragdef { fd_name : string; fd_on : string; fd_id : nat; fd_body : snodes }.

Record squery : Type := mk_squery {
  sq_name : string;
  sq_id : nat;
  sq_body : snodes;
  sq_frags : list fragdef    (* in dependency order: a body only spreads fragments defined before it *)
}.

Definition vars := list (string * json).

(** * Parsed form *)
Record directive : Type := mk_dir { d_name : string; d_if : option json }.

Record selh : Type := mk_selh { s_alias : string; s_name : string; s_key : string; s_dirs : list directive }.
Record fragh : Type := mk_fragh { fr_src : option string; fr_on : string; fr_dirs : list directive }.

Inductive selset : Type :=
| SelSet (id : nat) (sels : list (selh * option selset)) (frags : list (fragh * selset)).

Definition ss_id (s : selset) := match s with SelSet i _ _ => i end.
Definition ss_sels (s : selset) := match s with SelSet _ l _ => l end.
Definition ss_frags (s : selset) := match s with SelSet _ _ l => l end.

(** valueToJson on the directive's [if] argument; a missing variable reads as nil. *)
Definition cond_value (vs : vars) (c : scond) : option json :=
  match c with
  | CLit j => Some j
  | CVar x => lookup x vs
  | CNone => None
  end.

Definition parse_dirs (vs : vars) (ds : list sdir) : list directive :=
  map (fun d => match d with SDir n c => mk_dir n (cond_value vs c) end) ds.

(** parseSelectionSet.  [ftab] maps a fragment name to its (type condition, parsed body). *)
Definition ftab := list (string * (string * selset)).

Fixpoint parse_nodes (vs : vars) (ft : ftab) (id : nat) (nodes : snodes) {struct nodes} : option selset :=
  match nodes with
  | SNil => Some (SelSet id [] [])
  | SCons n rest =>
      match parse_nodes vs ft id rest with
      | None => None
      | Some (SelSet _ sels frags) =>
          match n with
          | SField alias name key dirs sub =>
              let h := mk_selh alias name key (parse_dirs vs dirs) in
              match sub with
              | None => Some (SelSet id ((h, None) :: sels) frags)
              | Some (sid, body) =>
                  match parse_nodes vs ft sid body with
                  | None => None
                  | Some s => Some (SelSet id ((h, Some s) :: sels) frags)
                  end
              end
          | SInline on dirs iid body =>
              match parse_nodes vs ft iid body with
              | None => None
              | Some s => Some (SelSet id sels ((mk_fragh None on (parse_dirs vs dirs), s) :: frags))
              end
          | SSpread fname dirs wid =>
              match lookup fname ft with
              | None => None
              | Some (on, body) =>
                  match dirs with
                  | [] => Some (SelSet id sels ((mk_fragh (Some fname) on [], body) :: frags))
                  | _ => Some (SelSet id sels
                            ((mk_fragh (Some fname) on (parse_dirs vs dirs),
                              SelSet wid [] [(mk_fragh (Some fname) on [], body)]) :: frags))
                  end
              end
          end
      end
  end.

Fixpoint parse_frags (vs : vars) (ft : ftab) (defs : list fragdef) : option ftab :=
  match defs with
  | [] => Some ft
  | d :: rest =>
      match parse_nodes vs ft (fd_id d) (fd_body d) with
      | None => None
      | Some s => parse_frags vs (ft ++ [(fd_name d, (fd_on d, s))]) rest
      end
  end.

Definition parse (vs : vars) (q : squery) : option selset :=
  match parse_frags vs [] (sq_frags q) with
  | None => None
  | Some ft => parse_nodes vs ft (sq_id q) (sq_body q)
  end.

(** ** The original parser (F7): directives of a spread are stored on the shared *Fragment, so every
    use of the fragment carries the directives of the last spread that had any (spreads inside the
    operation; fragment definitions are parsed first, in Go map order, so the model only covers queries
    whose decorated spreads are all in the operation body). *)
Fixpoint spread_dirs_nodes (nodes : snodes) : list (string * list sdir) :=
  match nodes with
  | SNil => []
  | SCons (SField _ _ _ _ (Some (_, body))) rest => spread_dirs_nodes body ++ spread_dirs_nodes rest
  | SCons (SField _ _ _ _ None) rest => spread_dirs_nodes rest
  | SCons (SInline _ _ _ body) rest => spread_dirs_nodes body ++ spread_dirs_nodes rest
  | SCons (SSpread f [] _) rest => spread_dirs_nodes rest
  | SCons (SSpread f ds _) rest => (f, ds) :: spread_dirs_nodes rest
  end.

Fixpoint last_binding {A} (k : string) (l : list (string * A)) (acc : option A) : option A :=
  match l with
  | [] => acc
  | (k', v) :: t => last_binding k t (if String.eqb k k' then Some v else acc)
  end.

Fixpoint share_dirs (tbl : list (string * list sdir)) (nodes : snodes) : snodes :=
  match nodes with
  | SNil => SNil
  | SCons (SField a n k ds (Some (i, body))) rest =>
      SCons (SField a n k ds (Some (i, share_dirs tbl body))) (share_dirs tbl rest)
  | SCons (SField a n k ds None) rest => SCons (SField a n k ds None) (share_dirs tbl rest)
  | SCons (SInline on ds i body) rest => SCons (SInline on ds i (share_dirs tbl body)) (share_dirs tbl rest)
  | SCons (SSpread f ds w) rest =>
      SCons (SSpread f (match last_binding f tbl None with Some ds' => ds' | None => ds end) w) (share_dirs tbl rest)
  end.

(** Under F7 there is no wrapper either: the shared fragment itself carries the directives. *)
Fixpoint unwrap_frags (s : selset) : selset :=
  match s with
  | SelSet id sels frags =>
      SelSet id
        ((fix go (l : list (selh * option selset)) :=
            match l with
            | [] => []
            | (h, None) :: t => (h, None) :: go t
            | (h, Some s') :: t => (h, Some (unwrap_frags s')) :: go t
            end) sels)
        ((fix go (l : list (fragh * selset)) :=
            match l with
            | [] => []
            | (h, b) :: t =>
                (h, match fr_src h, fr_dirs h, b with
                    | Some _, _ :: _, SelSet _ [] [(_, inner)] => unwrap_frags inner
                    | _, _, _ => unwrap_frags b
                    end) :: go t
            end) frags)
  end.

Definition parse_q (Q : quirks) (vs : vars) (q : squery) : option selset :=
  if q_f7 Q then
    let tbl := spread_dirs_nodes (sq_body q) in
    option_map unwrap_frags
      (parse vs (mk_squery (sq_name q) (sq_id q) (share_dirs tbl (sq_body q))
                   (map (fun d => mk_fragdef (fd_name d) (fd_on d) (fd_id d) (share_dirs tbl (fd_body d))) (sq_frags q))))
  else parse vs q.

(** * Directives (directive.go) *)
Inductive res (A : Type) : Type := Ok (a : A) | Bad (e : err).
Arguments Ok {A} a.
Arguments Bad {A} e.

Definition err_missing_if : err := mk_err EClient "required argument in directive not provided: if".
Definition err_if_not_bool : err := mk_err EClient "expected type boolean in ""if"" argument".

Definition parse_if (d : directive) : res bool :=
  match d_if d with
  | None | Some JNull => Bad err_missing_if
  | Some (JBool b) => Ok b
  | Some _ => Bad err_if_not_bool
  end.

Fixpoint find_dir (n : string) (ds : list directive) : option directive :=
  match ds with
  | [] => None
  | d :: t => if String.eqb (d_name d) n then Some d else find_dir n t
  end.

Definition include_part (ds : list directive) : res bool :=
  match find_dir "include" ds with
  | Some d => parse_if d
  | None => Ok true
  end.

(** ShouldIncludeNode as repaired: skipped if @skip says so, otherwise @include decides. *)
Definition should_include (Q : quirks) (ds : list directive) : res bool :=
  match find_dir "skip" ds with
  | Some d =>
      match parse_if d with
      | Bad e => Bad e
      | Ok b => if q_f6 Q then Ok (negb b) else if b then Ok false else include_part ds
      end
  | None => include_part ds
  end.

(** * Textual deletion *)
Definition dir_allows (vs : vars) (d : sdir) : bool :=
  match d with
  | SDir n c =>
      if String.eqb n "skip" then match cond_value vs c with Some (JBool b) => negb b | _ => false end
      else if String.eqb n "include" then match cond_value vs c with Some (JBool b) => b | _ => false end
      else true
  end.

Definition allowed (vs : vars) (ds : list sdir) : bool := forallb (dir_allows vs) ds.

Fixpoint prune_nodes (vs : vars) (nodes : snodes) : snodes :=
  match nodes with
  | SNil => SNil
  | SCons (SField a n k ds sub) rest =>
      if allowed vs ds then
        SCons (SField a n k [] (match sub with None => None | Some (i, body) => Some (i, prune_nodes vs body) end))
              (prune_nodes vs rest)
      else prune_nodes vs rest
  | SCons (SInline on ds i body) rest =>
      if allowed vs ds then SCons (SInline on [] i (prune_nodes vs body)) (prune_nodes vs rest)
      else prune_nodes vs rest
  | SCons (SSpread f ds w) rest =>
      if allowed vs ds then SCons (SSpread f [] w) (prune_nodes vs rest) else prune_nodes vs rest
  end.

Definition prune (vs : vars) (q : squery) : squery :=
  mk_squery (sq_name q) (sq_id q) (prune_nodes vs (sq_body q))
    (map (fun d => mk_fragdef (fd_name d) (fd_on d) (fd_id d) (prune_nodes vs (fd_body d))) (sq_frags q)).

(** Every condition is a boolean and no directive is repeated on a node. *)
Definition dir_wf (vs : vars) (d : sdir) : bool :=
  match d with
  | SDir n c =>
      if String.eqb n "skip" || String.eqb n "include"
      then match cond_value vs c with Some (JBool _) => true | _ => false end
      else true
  end.

Definition sdir_name (d : sdir) := match d with SDir n _ => n end.

Definition dirs_wf (vs : vars) (ds : list sdir) : bool :=
  forallb (dir_wf vs) ds && nodup_keys (map sdir_name ds).

Fixpoint nodes_wf (vs : vars) (nodes : snodes) : bool :=
  match nodes with
  | SNil => true
  | SCons (SField _ _ _ ds sub) rest =>
      dirs_wf vs ds && match sub with None => true | Some (_, body) => nodes_wf vs body end && nodes_wf vs rest
  | SCons (SInline _ ds _ body) rest => dirs_wf vs ds && nodes_wf vs body && nodes_wf vs rest
  | SCons (SSpread _ ds _) rest => dirs_wf vs ds && nodes_wf vs rest
  end.

Definition directives_wellformed (vs : vars) (q : squery) : bool :=
  nodes_wf vs (sq_body q) && forallb (fun d => nodes_wf vs (fd_body d)) (sq_frags q).

(** * Identifiers
    The repaired parser allocates a wrapper selection set for every decorated spread; [wt_of] lists
    (wrapper id, id of the spread fragment's body). *)
Definition is_wid (WT : list (nat * nat)) (i : nat) : bool := existsb (Nat.eqb i) (map fst WT).

Definition idtab (defs : list fragdef) : list (string * nat) := map (fun d => (fd_name d, fd_id d)) defs.

Fixpoint wt_nodes (tab : list (string * nat)) (nodes : snodes) : list (nat * nat) :=
  match nodes with
  | SNil => []
  | SCons (SField _ _ _ _ (Some (_, body))) rest => wt_nodes tab body ++ wt_nodes tab rest
  | SCons (SField _ _ _ _ None) rest => wt_nodes tab rest
  | SCons (SInline _ _ _ body) rest => wt_nodes tab body ++ wt_nodes tab rest
  | SCons (SSpread f [] _) rest => wt_nodes tab rest
  | SCons (SSpread f (_ :: _) w) rest =>
      match lookup f tab with
      | Some i => (w, i) :: wt_nodes tab rest
      | None => wt_nodes tab rest
      end
  end.

Fixpoint set_ids (nodes : snodes) : list nat :=
  match nodes with
  | SNil => []
  | SCons (SField _ _ _ _ (Some (i, body))) rest => i :: set_ids body ++ set_ids rest
  | SCons (SField _ _ _ _ None) rest => set_ids rest
  | SCons (SInline _ _ i body) rest => i :: set_ids body ++ set_ids rest
  | SCons (SSpread _ _ _) rest => set_ids rest
  end.

Definition wt_of (q : squery) : list (nat * nat) :=
  wt_nodes (idtab (sq_frags q)) (sq_body q) ++
  flat_map (fun d => wt_nodes (idtab (sq_frags q)) (fd_body d)) (sq_frags q).

Definition all_set_ids (q : squery) : list nat :=
  0 :: sq_id q :: set_ids (sq_body q) ++ flat_map (fun d => fd_id d :: set_ids (fd_body d)) (sq_frags q).

Fixpoint nodup_nat (l : list nat) : bool :=
  match l with [] => true | x :: t => negb (existsb (Nat.eqb x) t) && nodup_nat t end.

(** Every decorated spread has its own wrapper identifier, different from the identifiers of the
    selection sets (and from 0, the identifier of a merged set). *)
Definition ids_wf (q : squery) : bool :=
  nodup_nat (map fst (wt_of q)) &&
  forallb (fun i => negb (is_wid (wt_of q) i)) (all_set_ids q).


(** * Flatten (parser.go) *)
Definition item := (selh * option selset)%type.

Fixpoint keep_sels (Q : quirks) (l : list item) : res (list item) :=
  match l with
  | [] => Ok []
  | (h, s) :: t =>
      if q_f9 Q then match keep_sels Q t with Bad e => Bad e | Ok t' => Ok ((h, s) :: t') end
      else
        match should_include Q (s_dirs h) with
        | Bad e => Bad e
        | Ok b =>
            match keep_sels Q t with
            | Bad e => Bad e
            | Ok t' => Ok (if b then (mk_selh (s_alias h) (s_name h) (s_key h) [], s) :: t' else t')
            end
        end
  end.

(** The visit of Flatten: [seen] is the set of *SelectionSet already visited in this call. *)
Definition visit_frags (vis : selset -> list nat -> list item -> res (list nat * list item)) (Q : quirks)
  : list (fragh * selset) -> list nat -> list item -> res (list nat * list item) :=
  fix go (l : list (fragh * selset)) (seen : list nat) (acc : list item) {struct l}
    : res (list nat * list item) :=
    match l with
    | [] => Ok (seen, acc)
    | (h, body) :: t =>
        match should_include Q (fr_dirs h) with
        | Bad e => Bad e
        | Ok false => go t seen acc
        | Ok true =>
            match vis body seen acc with
            | Bad e => Bad e
            | Ok (seen', acc') => go t seen' acc'
            end
        end
    end.

Fixpoint visit (Q : quirks) (s : selset) (seen : list nat) (acc : list item) {struct s}
  : res (list nat * list item) :=
  match s with
  | SelSet id sels frags =>
      if existsb (Nat.eqb id) seen then Ok (seen, acc)
      else
        match keep_sels Q sels with
        | Bad e => Bad e
        | Ok kept =>
            match visit_frags (fun b sn ac => visit Q b sn ac) Q frags seen (acc ++ kept) with
            | Bad e => Bad e
            | Ok (seen', acc') => Ok (id :: seen', acc')
            end
        end
  end.

(** Grouping by alias, first occurrence first (Go iterates a map: the order is not observable in the
    JSON result). *)
Fixpoint add_group (it : item) (gs : list (selh * list (option selset))) : list (selh * list (option selset)) :=
  match gs with
  | [] => [(fst it, [snd it])]
  | (h, subs) :: t =>
      if String.eqb (s_alias h) (s_alias (fst it)) then (h, subs ++ [snd it]) :: t
      else (h, subs) :: add_group it t
  end.

Definition group_items (l : list item) : list (selh * list (option selset)) :=
  fold_left (fun gs it => add_group it gs) l [].

(** The merged selection: the first one if it is alone or has no sub-selections, otherwise a fresh
    selection set holding all selections and fragments of the group. A fresh set is given id 0. *)
Definition merge_subs (subs : list (option selset)) : option selset :=
  match subs with
  | [] => None
  | None :: _ => None
  | Some _ :: _ =>
      Some (SelSet 0
              (flat_map (fun o => match o with Some s => ss_sels s | None => [] end) subs)
              (flat_map (fun o => match o with Some s => ss_frags s | None => [] end) subs))
  end.

(** A flattened selection; under F9 the merged selection of a group of two or more (with sub-selections)
    has no directives, a single one keeps its own. *)
Definition merged_head (Q : quirks) (h : selh) (subs : list (option selset)) : selh :=
  if q_f9 Q then
    match subs with
    | [_] | None :: _ => h
    | _ => mk_selh (s_alias h) (s_name h) (s_key h) []
    end
  else h.

Definition flatten (Q : quirks) (s : selset) : res (list item) :=
  match visit Q s [] [] with
  | Bad e => Bad e
  | Ok (_, items) =>
      Ok (map (fun g => (merged_head Q (fst g) (snd g), merge_subs (snd g))) (group_items items))
  end.
