(** The theorems of C01 / C16 / C19 with the side condition on the reference result stated as a
    decidable predicate: no object of the result carries a key twice. *)
From Coq Require Import List String Bool Arith Permutation Lia.
From Thunder Require Import Lib.Json Gql.Types Gql.Value Gql.Query Gql.Ref Gql.Exec
  Gql.ProofsRef Gql.ProofsMain Gql.ProofsEnt Gql.ProofsParsePrune.
Import ListNotations.
Open Scope list_scope.

Theorem execution_equals_reference_k : forall S fuel rf q root sched,
  snd (eval_ref S fuel q root) = [] ->
  json_keys_unique (fst (eval_ref S fuel q root)) = true ->
  jdepth (fst (eval_ref S fuel q root)) <= Datatypes.S rf ->
  exists st0, init fixed S q root = inl st0 /\
    (complete (run_sched fixed S fuel sched st0) = true ->
     finish rf (run_sched fixed S fuel sched st0) = Some (ROk (fst (eval_ref S fuel q root)))).
Proof.
  intros S fuel rf q root sched He Hk Hd.
  apply execution_equals_reference; auto. now apply ent_nodup.
Qed.

Theorem prune_preserves_execution_k : forall S vs q fuel rf root s sched sched',
  directives_wellformed vs q = true -> ids_wf q = true ->
  parse vs q = Some s ->
  snd (eval_ref S fuel s root) = [] ->
  json_keys_unique (fst (eval_ref S fuel s root)) = true ->
  jdepth (fst (eval_ref S fuel s root)) <= Datatypes.S rf ->
  exists s' st0 st0',
    parse vs (prune vs q) = Some s' /\
    init fixed S s root = inl st0 /\ init fixed S s' root = inl st0' /\
    (complete (run_sched fixed S fuel sched st0) = true ->
     complete (run_sched fixed S fuel sched' st0') = true ->
     finish rf (run_sched fixed S fuel sched st0) = finish rf (run_sched fixed S fuel sched' st0') /\
     finish rf (run_sched fixed S fuel sched st0) = Some (ROk (fst (eval_ref S fuel s root)))).
Proof.
  intros. apply prune_preserves_execution; auto. now apply ent_nodup.
Qed.
