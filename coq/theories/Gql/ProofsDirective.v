(** ShouldIncludeNode (as repaired) agrees with the textual rule "kept iff every directive allows it". *)
From Coq Require Import List String Bool Arith.
From Thunder Require Import Lib.Json Gql.Value Gql.Query.
Import ListNotations.
Open Scope string_scope.
Open Scope list_scope.

Lemma find_dir_absent vs n ds :
  existsb (String.eqb n) (map sdir_name ds) = false -> find_dir n (parse_dirs vs ds) = None.
Proof.
  induction ds as [|d t IH]; simpl; auto.
  destruct d as [m c]; simpl. intros H. apply orb_false_elim in H as [H1 H2].
  rewrite String.eqb_sym, H1. auto.
Qed.

Lemma include_part_absent vs ds :
  existsb (String.eqb "include") (map sdir_name ds) = false -> include_part (parse_dirs vs ds) = Ok true.
Proof. intros H. unfold include_part. rewrite (find_dir_absent vs _ _ H). reflexivity. Qed.

Lemma should_include_no_skip vs ds :
  existsb (String.eqb "skip") (map sdir_name ds) = false ->
  should_include fixed (parse_dirs vs ds) = include_part (parse_dirs vs ds).
Proof. intros H. unfold should_include. rewrite (find_dir_absent vs _ _ H). reflexivity. Qed.

Lemma dir_wf_cond vs n c :
  dir_wf vs (SDir n c) = true -> (n = "skip" \/ n = "include") ->
  exists b, cond_value vs c = Some (JBool b).
Proof.
  unfold dir_wf. intros H Hn.
  assert (E : String.eqb n "skip" || String.eqb n "include" = true).
  { destruct Hn as [-> | ->]; reflexivity. }
  rewrite E in H. destruct (cond_value vs c) as [[]|]; try discriminate. eauto.
Qed.

Theorem should_include_textual : forall vs ds,
  dirs_wf vs ds = true -> should_include fixed (parse_dirs vs ds) = Ok (allowed vs ds).
Proof.
  intros vs ds. unfold dirs_wf. intros H. apply andb_prop in H as [Hwf Hnd].
  induction ds as [|d t IH]; [reflexivity|].
  simpl in Hwf, Hnd. apply andb_prop in Hwf as [Hd Hwf]. apply andb_prop in Hnd as [Hfresh Hnd].
  apply negb_true_iff in Hfresh. specialize (IH Hwf Hnd).
  destruct d as [n c]. simpl in Hfresh.
  change (allowed vs (SDir n c :: t)) with (dir_allows vs (SDir n c) && allowed vs t).
  destruct (String.eqb n "skip") eqn:Es.
  - apply String.eqb_eq in Es. subst n.
    destruct (dir_wf_cond vs _ _ Hd (or_introl eq_refl)) as [b Hb].
    assert (Hal : dir_allows vs (SDir "skip" c) = negb b) by (unfold dir_allows; simpl; rewrite Hb; reflexivity).
    rewrite Hal.
    rewrite (should_include_no_skip vs t Hfresh) in IH.
    unfold should_include. simpl find_dir. unfold parse_if. simpl d_if. rewrite Hb. simpl q_f6.
    destruct b; simpl; [reflexivity|].
    unfold include_part in *. simpl find_dir. exact IH.
  - destruct (String.eqb n "include") eqn:Ei.
    + apply String.eqb_eq in Ei. subst n.
      destruct (dir_wf_cond vs _ _ Hd (or_intror eq_refl)) as [b Hb].
      assert (Hinc : include_part (parse_dirs vs (SDir "include" c :: t)) = Ok b).
      { unfold include_part, parse_if. simpl. rewrite Hb. reflexivity. }
      assert (Hinc' : include_part (parse_dirs vs t) = Ok true) by (apply include_part_absent; exact Hfresh).
      assert (Hal : dir_allows vs (SDir "include" c) = b) by (unfold dir_allows; simpl; rewrite Hb; reflexivity).
      rewrite Hal.
      unfold should_include in *. rewrite Hinc' in IH. rewrite Hinc.
      change (find_dir "skip" (parse_dirs vs (SDir "include" c :: t))) with (find_dir "skip" (parse_dirs vs t)).
      destruct (find_dir "skip" (parse_dirs vs t)) as [s|].
      * destruct (parse_if s) as [bs|e]; [|discriminate].
        cbn [q_f6 fixed] in *. destruct bs; injection IH as E; rewrite <- E.
        -- rewrite andb_false_r. reflexivity.
        -- rewrite andb_true_r. reflexivity.
      * injection IH as E. rewrite <- E. rewrite andb_true_r. reflexivity.
    + assert (Hs : should_include fixed (parse_dirs vs (SDir n c :: t)) = should_include fixed (parse_dirs vs t)).
      { unfold should_include, include_part. simpl find_dir. rewrite Es, Ei. reflexivity. }
      rewrite Hs, IH. unfold dir_allows. rewrite Es, Ei. reflexivity.
Qed.

(** F6 on the original code: both conditions false, and the node is kept. *)
Theorem should_include_original_refuted :
  exists vs ds, dirs_wf vs ds = true /\ should_include original (parse_dirs vs ds) <> Ok (allowed vs ds).
Proof.
  exists [], [SDir "skip" (CLit (JBool false)); SDir "include" (CLit (JBool false))].
  split; [reflexivity|]. vm_compute. discriminate.
Qed.
