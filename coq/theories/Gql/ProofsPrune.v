(** @skip/@include as textual deletion, on parsed selection sets: if [s'] is what parsing gives after
    deleting the excluded nodes of [s] and dropping the directives elsewhere ([PS s s']), the two have
    the same reference result. *)
From Coq Require Import List String Bool Arith Permutation Lia.
From Thunder Require Import Lib.Json Gql.Types Gql.Value Gql.Query Gql.Ref Gql.ProofsFlatten.
Import ListNotations.
Open Scope list_scope.

Ltac splits := repeat match goal with |- _ /\ _ => split end.

Definition strip (h : selh) : selh := mk_selh (s_alias h) (s_name h) (s_key h) [].
Definition fstrip (h : fragh) : fragh := mk_fragh (fr_src h) (fr_on h) [].

Section Prune.
  (** wrapper id of a decorated spread -> id of the body of the fragment it spreads *)
  Variable WT : list (nat * nat).
  Notation is_wid := (Query.is_wid WT).

  Hypothesis WT_fun : forall w a b, In (w, a) WT -> In (w, b) WT -> a = b.
  Hypothesis zero_not_wid : is_wid 0 = false.

  Inductive PS : selset -> selset -> Prop :=
  | PS_intro : forall id sels sels' frags frags',
      is_wid id = false -> PSels sels sels' -> PFrags frags frags' ->
      PS (SelSet id sels frags) (SelSet id sels' frags')
  with PSels : list item -> list item -> Prop :=
  | PSels_nil : PSels [] []
  | PSels_drop : forall h sub t t',
      should_include fixed (s_dirs h) = Ok false -> PSels t t' -> PSels ((h, sub) :: t) t'
  | PSels_keep : forall h sub sub' t t',
      should_include fixed (s_dirs h) = Ok true -> POpt sub sub' -> PSels t t' ->
      PSels ((h, sub) :: t) ((strip h, sub') :: t')
  with POpt : option selset -> option selset -> Prop :=
  | POpt_none : POpt None None
  | POpt_some : forall s s', PS s s' -> POpt (Some s) (Some s')
  with PFrags : list (fragh * selset) -> list (fragh * selset) -> Prop :=
  | PFrags_nil : PFrags [] []
  | PFrags_drop : forall h b t t',
      should_include fixed (fr_dirs h) = Ok false -> PFrags t t' -> PFrags ((h, b) :: t) t'
  | PFrags_keep : forall h b b' t t',
      should_include fixed (fr_dirs h) = Ok true -> PS b b' -> PFrags t t' ->
      PFrags ((h, b) :: t) ((fstrip h, b') :: t')
  | PFrags_wrap : forall h h0 wid b0 b0' t t',
      should_include fixed (fr_dirs h) = Ok true -> In (wid, ss_id b0) WT ->
      fr_dirs h0 = [] -> fr_on h0 = fr_on h ->
      PS b0 b0' -> PFrags t t' ->
      PFrags ((h, SelSet wid [] [(h0, b0)]) :: t) ((fstrip h0, b0') :: t').

  Scheme PS_mut := Induction for PS Sort Prop
    with PSels_mut := Induction for PSels Sort Prop
    with POpt_mut := Induction for POpt Sort Prop
    with PFrags_mut := Induction for PFrags Sort Prop.
  Combined Scheme PS_all from PS_mut, PSels_mut, POpt_mut, PFrags_mut.

  Definition ItemRel (a b : item) : Prop := fst a = fst b /\ POpt (snd a) (snd b).
  Definition AccRel := Forall2 ItemRel.
  Definition SeenRel (seen seen' : list nat) : Prop :=
    forall i, is_wid i = false -> (In i seen <-> In i seen').
  Definition InvW (seen : list nat) : Prop := forall w b, In (w, b) WT -> In w seen -> In b seen.

  Lemma is_wid_in : forall w b, In (w, b) WT -> is_wid w = true.
  Proof.
    intros w b H. unfold is_wid. apply existsb_exists. exists w. split; [|apply Nat.eqb_refl].
    apply in_map_iff. exists (w, b). auto.
  Qed.

  Lemma mem_In : forall i l, existsb (Nat.eqb i) l = true <-> In i l.
  Proof.
    intros i l. rewrite existsb_exists. split.
    - intros [x [Hx E]]. apply Nat.eqb_eq in E. now subst.
    - intros H. exists i. split; auto. apply Nat.eqb_refl.
  Qed.

  Lemma PS_id : forall s s', PS s s' -> ss_id s = ss_id s' /\ is_wid (ss_id s) = false.
  Proof. intros s s' H. inversion H; subst. auto. Qed.

  Lemma visit_frags_cons : forall vis Q h b t seen acc,
    visit_frags vis Q ((h, b) :: t) seen acc =
    match should_include Q (fr_dirs h) with
    | Bad e => Bad e
    | Ok false => visit_frags vis Q t seen acc
    | Ok true => match vis b seen acc with
                 | Bad e => Bad e
                 | Ok (seen', acc') => visit_frags vis Q t seen' acc'
                 end
    end.
  Proof. reflexivity. Qed.

  Definition VisitSim (vl vr : list nat -> list item -> res (list nat * list item)) (idopt : option nat) : Prop :=
    forall seen seen' acc acc',
      SeenRel seen seen' -> InvW seen -> AccRel acc acc' ->
      exists seen1 acc1 seen1' acc1',
        vl seen acc = Ok (seen1, acc1) /\ vr seen' acc' = Ok (seen1', acc1') /\
        SeenRel seen1 seen1' /\ InvW seen1 /\ AccRel acc1 acc1' /\ incl seen seen1 /\
        match idopt with Some i => In i seen1 | None => True end.

  Lemma visit_sim_all :
    (forall s s', PS s s' -> VisitSim (visit fixed s) (visit fixed s') (Some (ss_id s))) /\
    (forall l l', PSels l l' ->
       exists kept kept', keep_sels fixed l = Ok kept /\ keep_sels fixed l' = Ok kept' /\ AccRel kept kept') /\
    (forall o o', POpt o o' -> True) /\
    (forall l l', PFrags l l' ->
       VisitSim (visit_frags (fun b sn ac => visit fixed b sn ac) fixed l)
                (visit_frags (fun b sn ac => visit fixed b sn ac) fixed l') None).
  Proof.
    apply PS_all.
    - (* a selection set *)
      intros id sels sels' frags frags' Hid Hsels [kept [kept' [Ek [Ek' Hk]]]] Hfrags IHf.
      intros seen seen' acc acc' Hs Hi Ha. cbn [visit ss_id].
      destruct (existsb (Nat.eqb id) seen) eqn:Em.
      + assert (Em' : existsb (Nat.eqb id) seen' = true).
        { apply mem_In. apply (Hs id Hid). now apply mem_In. }
        rewrite Em'. exists seen, acc, seen', acc'. splits; auto.
        * apply incl_refl.
        * now apply mem_In.
      + assert (Em' : existsb (Nat.eqb id) seen' = false).
        { destruct (existsb (Nat.eqb id) seen') eqn:E; auto. apply mem_In in E. apply (Hs id Hid) in E.
          apply mem_In in E. congruence. }
        rewrite Em', Ek, Ek'.
        destruct (IHf seen seen' (acc ++ kept) (acc' ++ kept') Hs Hi (Forall2_app Ha Hk))
          as [seen1 [acc1 [seen1' [acc1' [E1 [E1' [Hs1 [Hi1 [Ha1 [Hinc _]]]]]]]]]].
        rewrite E1, E1'. exists (id :: seen1), acc1, (id :: seen1'), acc1'. splits; auto.
        * intros i Hi0. split; (intros [->|H]; [now left|right; now apply (Hs1 i Hi0)]).
        * intros w b Hw [->|Hin].
          -- apply is_wid_in in Hw. congruence.
          -- right. eapply Hi1; eauto.
        * intros x Hx. right. now apply Hinc.
        * now left.
    - (* no selections *)
      exists [], []. splits; constructor.
    - (* an excluded selection *)
      intros h sub t t' Hinc Ht [kept [kept' [Ek [Ek' Hk]]]].
      exists kept, kept'. cbn [keep_sels q_f9 fixed]. rewrite Hinc, Ek. auto.
    - (* an included selection *)
      intros h sub sub' t t' Hinc Hsub _ Ht [kept [kept' [Ek [Ek' Hk]]]].
      exists ((strip h, sub) :: kept), ((strip h, sub') :: kept').
      cbn [keep_sels q_f9 fixed]. rewrite Hinc, Ek.
      cbn [s_dirs strip fst]. cbn [should_include find_dir include_part]. rewrite Ek'.
      splits; auto. constructor; auto. split; auto.
    - exact I.
    - intros; exact I.
    - (* no fragments *)
      intros seen seen' acc acc' Hs Hi Ha. exists seen, acc, seen', acc'. splits; auto. apply incl_refl.
    - (* an excluded fragment *)
      intros h b t t' Hinc Ht IHt seen seen' acc acc' Hs Hi Ha.
      rewrite visit_frags_cons, Hinc. apply IHt; auto.
    - (* an included fragment *)
      intros h b b' t t' Hinc Hb IHb Ht IHt seen seen' acc acc' Hs Hi Ha.
      rewrite !visit_frags_cons, Hinc. cbn [fr_dirs fstrip]. cbn [should_include find_dir include_part].
      destruct (IHb seen seen' acc acc' Hs Hi Ha) as [seen1 [acc1 [seen1' [acc1' [E1 [E1' [Hs1 [Hi1 [Ha1 [Hinc1 _]]]]]]]]]].
      rewrite E1, E1'.
      destruct (IHt seen1 seen1' acc1 acc1' Hs1 Hi1 Ha1) as [seen2 [acc2 [seen2' [acc2' [E2 [E2' [Hs2 [Hi2 [Ha2 [Hinc2 _]]]]]]]]]].
      exists seen2, acc2, seen2', acc2'. splits; auto. eapply incl_tran; eauto.
    - (* a decorated spread: the wrapper on the left, the fragment itself on the right *)
      intros h h0 wid b0 b0' t t' Hinc Hw Hd0 Hon Hb IHb Ht IHt seen seen' acc acc' Hs Hi Ha.
      rewrite !visit_frags_cons, Hinc. cbn [fr_dirs fstrip]. cbn [should_include find_dir include_part].
      destruct (PS_id _ _ Hb) as [Eid Hnw].
      cbn [visit].
      destruct (existsb (Nat.eqb wid) seen) eqn:Em.
      + (* wrapper seen: the fragment body was visited then *)
        assert (Hb0 : In (ss_id b0) seen) by (eapply Hi; eauto; now apply mem_In).
        assert (Hb0' : In (ss_id b0') seen') by (rewrite <- Eid; now apply (Hs _ Hnw)).
        assert (Er : visit fixed b0' seen' acc' = Ok (seen', acc')).
        { destruct b0' as [i sl fl]. cbn [visit]. cbn [ss_id] in Hb0'. apply mem_In in Hb0'. now rewrite Hb0'. }
        rewrite Er. apply IHt; auto.
      + cbn [keep_sels]. rewrite visit_frags_cons. rewrite Hd0. cbn [should_include find_dir include_part].
        rewrite app_nil_r.
        destruct (IHb seen seen' acc acc' Hs Hi Ha) as [seen1 [acc1 [seen1' [acc1' [E1 [E1' [Hs1 [Hi1 [Ha1 [Hinc1 Hin1]]]]]]]]]].
        rewrite E1, E1'. cbn [visit_frags].
        assert (Hs1w : SeenRel (wid :: seen1) seen1').
        { intros i Hi0. split.
          - intros [->|H]; [apply is_wid_in in Hw; congruence|now apply (Hs1 i Hi0)].
          - intros H. right. now apply (Hs1 i Hi0). }
        assert (Hi1w : InvW (wid :: seen1)).
        { intros w b Hwb [->|Hin].
          - right. rewrite (WT_fun _ _ _ Hwb Hw). exact Hin1.
          - right. eapply Hi1; eauto. }
        destruct (IHt (wid :: seen1) seen1' acc1 acc1' Hs1w Hi1w Ha1)
          as [seen2 [acc2 [seen2' [acc2' [E2 [E2' [Hs2 [Hi2 [Ha2 [Hinc2 _]]]]]]]]]].
        exists seen2, acc2, seen2', acc2'. splits; auto.
        intros x Hx. apply Hinc2. right. now apply Hinc1.
  Qed.

  (** ** Grouping and merging *)
  Definition GroupRel (a b : selh * list (option selset)) : Prop := fst a = fst b /\ Forall2 POpt (snd a) (snd b).

  Lemma add_group_rel : forall it it' gs gs',
    ItemRel it it' -> Forall2 GroupRel gs gs' -> Forall2 GroupRel (add_group it gs) (add_group it' gs').
  Proof.
    intros it it' gs gs' [Hh Hs] HG. induction HG as [|[h subs] [h' subs'] t t' [Eh Hsub] Ht IH]; simpl.
    - constructor; [|constructor]. split; simpl; auto.
    - simpl in Eh, Hsub. subst h'. rewrite <- Hh.
      destruct (String.eqb (s_alias h) (s_alias (fst it))).
      + constructor; [|exact Ht]. split; [reflexivity|]. simpl. apply Forall2_app; [exact Hsub|].
        constructor; [exact Hs|constructor].
      + constructor; [|exact IH]. split; [reflexivity|exact Hsub].
  Qed.

  Lemma group_items_rel : forall l l', AccRel l l' -> Forall2 GroupRel (group_items l) (group_items l').
  Proof.
    intros l l' H. unfold group_items.
    assert (G : forall gs gs', Forall2 GroupRel gs gs' ->
                Forall2 GroupRel (fold_left (fun gs it => add_group it gs) l gs)
                                 (fold_left (fun gs it => add_group it gs) l' gs')).
    { induction H as [|a b t t' Hab _ IH]; intros gs gs' HG; simpl; auto.
      apply IH. now apply add_group_rel. }
    apply G. constructor.
  Qed.

  Lemma PSels_app : forall a a' b b', PSels a a' -> PSels b b' -> PSels (a ++ b) (a' ++ b').
  Proof.
    intros a a' b b' Ha Hb. induction Ha; simpl; auto.
    - now constructor.
    - now constructor.
  Qed.
  Lemma PFrags_app : forall a a' b b', PFrags a a' -> PFrags b b' -> PFrags (a ++ b) (a' ++ b').
  Proof.
    intros a a' b b' Ha Hb. induction Ha; simpl; auto.
    - now constructor.
    - now constructor.
    - now apply PFrags_wrap.
  Qed.

  Lemma sels_of_rel : forall t t', Forall2 POpt t t' ->
    PSels (flat_map (fun o => match o with Some s => ss_sels s | None => [] end) t)
          (flat_map (fun o => match o with Some s => ss_sels s | None => [] end) t').
  Proof.
    intros t t' Ht. induction Ht as [|o o' t t' Ho _ IH]; simpl; [constructor|].
    apply PSels_app; auto. destruct Ho as [|s s' Hs]; [constructor|]. inversion Hs; subst; auto.
  Qed.
  Lemma frags_of_rel : forall t t', Forall2 POpt t t' ->
    PFrags (flat_map (fun o => match o with Some s => ss_frags s | None => [] end) t)
           (flat_map (fun o => match o with Some s => ss_frags s | None => [] end) t').
  Proof.
    intros t t' Ht. induction Ht as [|o o' t t' Ho _ IH]; simpl; [constructor|].
    apply PFrags_app; auto. destruct Ho as [|s s' Hs]; [constructor|]. inversion Hs; subst; auto.
  Qed.

  Lemma merge_subs_rel : forall subs subs', Forall2 POpt subs subs' -> POpt (merge_subs subs) (merge_subs subs').
  Proof.
    intros subs subs' H. pose proof (sels_of_rel _ _ H) as Hs. pose proof (frags_of_rel _ _ H) as Hf.
    destruct H as [|o o' t t' Ho Ht]; [constructor|].
    destruct Ho as [|s s' Hss]; [constructor|]. cbn [merge_subs]. constructor. constructor; auto.
  Qed.

  Lemma groups_to_items : forall g g', Forall2 GroupRel g g' ->
    AccRel (map (fun g0 => (merged_head fixed (fst g0) (snd g0), merge_subs (snd g0))) g)
           (map (fun g0 => (merged_head fixed (fst g0) (snd g0), merge_subs (snd g0))) g').
  Proof.
    intros g g' H. induction H as [|[h subs] [h' subs'] t t' [Eh Hs] _ IH]; simpl; constructor; auto.
    simpl in Eh. subst. split; simpl; auto. now apply merge_subs_rel.
  Qed.

  Lemma flatten_sim : forall s s', PS s s' ->
    exists items items', flatten fixed s = Ok items /\ flatten fixed s' = Ok items' /\ AccRel items items'.
  Proof.
    intros s s' H. destruct visit_sim_all as [Hv _].
    destruct (Hv s s' H [] [] [] []) as [seen1 [acc1 [seen1' [acc1' [E1 [E1' [_ [_ [Ha _]]]]]]]]].
    - intros i _. tauto.
    - intros w b _ [].
    - constructor.
    - unfold flatten. rewrite E1, E1'. eexists. eexists. split; [reflexivity|]. split; [reflexivity|].
      apply groups_to_items. now apply group_items_rel.
  Qed.

  Lemma filter_on_rel : forall m frags frags', PFrags frags frags' ->
    PFrags (filter (fun f : fragh * selset => String.eqb (fr_on (fst f)) m) frags)
           (filter (fun f : fragh * selset => String.eqb (fr_on (fst f)) m) frags').
  Proof.
    intros m frags frags' Hf. induction Hf as [|h b t t' Hi Ht IH|h b b' t t' Hi Hb Ht IH|h h0 wid b0 b0' t t' Hi Hw Hd Hon Hb Ht IH].
    - constructor.
    - cbn [filter fst]. destruct (String.eqb (fr_on h) m); [now constructor|exact IH].
    - cbn [filter fst fr_on fstrip]. destruct (String.eqb (fr_on h) m); [now constructor|exact IH].
    - cbn [filter fst fr_on fstrip]. rewrite Hon. destruct (String.eqb (fr_on h) m); [now apply PFrags_wrap|exact IH].
  Qed.

  Lemma union_member_set_rel : forall m s s', PS s s' -> PS (union_member_set m s) (union_member_set m s').
  Proof.
    intros m s s' H. inversion H as [id sels sels' frags frags' Hid Hs Hf]; subst.
    unfold union_member_set. cbn [ss_sels ss_frags]. constructor; auto. now apply filter_on_rel.
  Qed.

  (** ** The reference result *)
  Section Eval.
    Variable S : schema.

    Lemma eval_type_sim : forall eo,
      (forall n s s' v p, PS s s' -> eo n s v p = eo n s' v p) ->
      forall t sub sub' v p, POpt sub sub' -> eval_type S eo t sub v p = eval_type S eo t sub' v p.
    Proof.
      intros eo Heo t. induction t as [n|n|n|t' IH|t' IH|u]; intros sub sub' v p Hs; cbn [eval_type]; auto.
      - destruct Hs as [|s s' Hs]; auto.
      - destruct v; auto. f_equal.
        + f_equal. f_equal. apply map_ext. intros it. now apply IH.
        + f_equal. apply map_ext. intros it. now apply IH.
      - destruct Hs as [|s s' Hs]; auto. destruct v; auto.
        destruct (is_member S u tname); auto. apply Heo. now apply union_member_set_rel.
    Qed.

    Lemma eval_field_sim : forall top eo o fields p it it',
      (forall n s s' v p, PS s s' -> eo n s v p = eo n s' v p) ->
      ItemRel it it' -> eval_field S top eo o fields p it = eval_field S top eo o fields p it'.
    Proof.
      intros top eo o fields p [h sub] [h' sub'] Heo [Eh Hs]. simpl in Eh, Hs. subst h'.
      unfold eval_field. cbn [fst snd].
      destruct (negb top && String.eqb (s_name h) "__typename"); auto.
      destruct (find_field (s_name h) (o_fields o)); auto.
      destruct (lookup (s_key h) fields) as [[v|e]|]; auto.
      rewrite (eval_type_sim eo Heo (f_type f) sub sub' v _ Hs). reflexivity.
    Qed.

    Lemma map_eval_field_sim : forall top eo o fields p items items',
      (forall n s s' v p, PS s s' -> eo n s v p = eo n s' v p) ->
      AccRel items items' ->
      map (eval_field S top eo o fields p) items = map (eval_field S top eo o fields p) items'.
    Proof.
      intros top eo o fields p items items' Heo Ha. induction Ha as [|a b t t' Hab _ IHa]; simpl; auto.
      f_equal; auto. now apply eval_field_sim.
    Qed.

    Lemma eval_obj_sim : forall fuel n s s' v p, PS s s' -> eval_obj S fuel n s v p = eval_obj S fuel n s' v p.
    Proof.
      induction fuel as [|f IH]; intros n s s' v p H; [reflexivity|]. cbn [eval_obj].
      destruct (flatten_sim s s' H) as [items [items' [E [E' Ha]]]]. rewrite E, E'.
      destruct (find_object n (s_objects S)) as [o|]; auto. destruct v; auto.
      assert (Em : map (eval_field S false (eval_obj S f) o fields p) (items ++ key_item o)
                 = map (eval_field S false (eval_obj S f) o fields p) (items' ++ key_item o)).
      { rewrite !map_app. f_equal. now apply map_eval_field_sim. }
      now rewrite Em.
    Qed.

    Theorem eval_ref_sim : forall fuel s s' root, PS s s' -> eval_ref S fuel s root = eval_ref S fuel s' root.
    Proof.
      intros fuel s s' root H. destruct fuel as [|f]; [reflexivity|]. unfold eval_ref.
      destruct (flatten_sim s s' H) as [items [items' [E [E' Ha]]]]. rewrite E, E'.
      destruct (find_object (s_query S) (s_objects S)) as [o|]; auto. destruct root; auto.
      assert (Em : map (eval_field S true (eval_obj S f) o fields []) items
                 = map (eval_field S true (eval_obj S f) o fields []) items').
      { apply map_eval_field_sim; auto. intros. now apply eval_obj_sim. }
      now rewrite Em.
    Qed.
  End Eval.
End Prune.
