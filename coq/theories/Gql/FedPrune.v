(** C19 through the federation gateway.  On the federation model's queries (Federation/Normalize.v:
    field selections and fragments with their evaluated @skip/@include, spreads inlined), [fprune] is
    the textual deletion of the property: every node one of whose directives excludes it is deleted, the
    directives are dropped from the rest.  The reference semantics of the combined server
    (Federation/Executor.v [eval_ref]: CollectFields / ExecuteSelectionSet with the directives honoured)
    gives the annotated and the pruned query the same answer, at every type, object and depth; composed
    with C06's transparency theorem - whose conclusion, for a query, is [transparent_on] - the gateway
    answers the two queries alike. *)
From Coq Require Import List String Bool Arith ZArith Lia.
From Thunder Require Import Lib.Json Federation.Normalize Federation.Executor.
Import ListNotations.
Open Scope string_scope.
Open Scope list_scope.

(** The textual rule: a node is kept iff every directive on it allows it. *)
Definition fdir_allows (d : dir) : bool :=
  if String.eqb (fst d) "skip" then negb (snd d)
  else if String.eqb (fst d) "include" then snd d
  else true.
Definition fallowed (ds : list dir) : bool := forallb fdir_allows ds.

Fixpoint fprune_node (n : node) : list node :=
  match n with
  | NField al nm args ak dirs hs subs =>
      if fallowed dirs then [NField al nm args ak [] hs (flat_map fprune_node subs)] else []
  | NFrag on dirs subs =>
      if fallowed dirs then [NFrag on [] (flat_map fprune_node subs)] else []
  end.
Definition fprune (l : list node) : list node := flat_map fprune_node l.

(** a kept node, rewritten *)
Definition fstrip (n : node) : node :=
  match n with
  | NField al nm args ak _ hs subs => NField al nm args ak [] hs (fprune subs)
  | NFrag on _ subs => NFrag on [] (fprune subs)
  end.

(** No directive twice on a node (conditions are booleans by construction of [dir]). *)
Fixpoint fwf_node (n : node) : bool :=
  match n with
  | NField _ _ _ _ dirs _ subs => nodup_keys (map fst dirs) && forallb fwf_node subs
  | NFrag _ dirs subs => nodup_keys (map fst dirs) && forallb fwf_node subs
  end.
Definition fwf (l : list node) : bool := forallb fwf_node l.

(** ** ShouldIncludeNode is the textual rule *)
Lemma find_dir_absent : forall name ds, existsb (String.eqb name) (map fst ds) = false -> find_dir name ds = None.
Proof.
  induction ds as [|[n b] t IH]; simpl; intros H; auto. apply orb_false_iff in H as [H1 H2].
  rewrite String.eqb_sym, H1. auto.
Qed.

Definition skip_part (ds : list dir) : bool := match find_dir "skip" ds with Some true => false | _ => true end.
Definition incl_part (ds : list dir) : bool := match find_dir "include" ds with Some b => b | None => true end.

Lemma should_include_parts : forall ds, should_include ds = skip_part ds && incl_part ds.
Proof. intros ds. unfold should_include, skip_part, incl_part. destruct (find_dir "skip" ds) as [[|]|]; reflexivity. Qed.

Lemma should_include_textual : forall ds, nodup_keys (map fst ds) = true -> should_include ds = fallowed ds.
Proof.
  intros ds H. rewrite should_include_parts. unfold fallowed.
  induction ds as [|[n b] t IH]; [reflexivity|]. simpl in H. apply andb_prop in H as [Hn Ht].
  apply negb_true_iff in Hn. specialize (IH Ht). cbn [forallb]. rewrite <- IH. clear IH.
  unfold skip_part, incl_part, fdir_allows. cbn [find_dir fst snd].
  destruct (String.eqb n "skip") eqn:E1.
  - apply String.eqb_eq in E1. subst n. rewrite (find_dir_absent "skip" t Hn). cbn. destruct b; reflexivity.
  - destruct (String.eqb n "include") eqn:E2.
    + apply String.eqb_eq in E2. subst n. rewrite (find_dir_absent "include" t Hn).
      destruct (find_dir "skip" t) as [[|]|]; destruct b; reflexivity.
    + destruct (find_dir "skip" t) as [[|]|]; reflexivity.
Qed.

(** ** Induction over nodes *)
Section NodeInd.
  Variable P : node -> Prop.
  Hypothesis Hf : forall al nm args ak dirs hs subs, Forall P subs -> P (NField al nm args ak dirs hs subs).
  Hypothesis Hr : forall on dirs subs, Forall P subs -> P (NFrag on dirs subs).
  Fixpoint fnode_ind (n : node) : P n :=
    match n with
    | NField al nm args ak dirs hs subs =>
        Hf al nm args ak dirs hs subs
           ((fix go (l : list node) : Forall P l :=
               match l with [] => Forall_nil _ | x :: t => Forall_cons _ (fnode_ind x) (go t) end) subs)
    | NFrag on dirs subs =>
        Hr on dirs subs
           ((fix go (l : list node) : Forall P l :=
               match l with [] => Forall_nil _ | x :: t => Forall_cons _ (fnode_ind x) (go t) end) subs)
    end.
End NodeInd.

Section AvalInd.
  Variable P : aval -> Prop.
  Hypothesis H0 : P ANull.
  Hypothesis H1 : forall j, P (AScalar j).
  Hypothesis H2 : forall t i, P (ARef t i).
  Hypothesis H3 : forall t i, P (AURef t i).
  Hypothesis H4 : forall l, Forall P l -> P (AList l).
  Hypothesis H5 : forall v t, P (ALeaf v t).
  Fixpoint faval_ind (v : aval) : P v :=
    match v with
    | ANull => H0 | AScalar j => H1 j | ARef t i => H2 t i | AURef t i => H3 t i | ALeaf x t => H5 x t
    | AList l => H4 l ((fix go (l : list aval) : Forall P l :=
                          match l with [] => Forall_nil _ | x :: t => Forall_cons _ (faval_ind x) (go t) end) l)
    end.
End AvalInd.

(** ** Collecting fields commutes with pruning *)
Lemma fprune_app : forall a b, fprune (a ++ b) = fprune a ++ fprune b.
Proof. intros. unfold fprune. apply flat_map_app. Qed.

Lemma fwf_app : forall a b, fwf (a ++ b) = fwf a && fwf b.
Proof. intros. unfold fwf. apply forallb_app. Qed.

Lemma filter_incl_prune : forall l, fwf l = true -> filter incl_field (fprune l) = map fstrip (filter incl_field l).
Proof.
  induction l as [|n t IH]; simpl; intros H; auto. apply andb_prop in H as [Hn Ht].
  change (fprune (n :: t)) with (fprune_node n ++ fprune t). rewrite filter_app, (IH Ht).
  destruct n as [al nm args ak dirs hs subs|on dirs subs]; simpl in *.
  - apply andb_prop in Hn as [Hd _]. rewrite (should_include_textual dirs Hd).
    destruct (fallowed dirs); simpl; reflexivity.
  - destruct (fallowed dirs); simpl; reflexivity.
Qed.

Lemma collect_frag_prune : forall g obj n, fwf_node n = true ->
  List.concat (map (collect_frag g obj) (fprune_node n)) = map fstrip (collect_frag g obj n).
Proof.
  intros g obj. induction n as [al nm args ak dirs hs subs IH|on dirs subs IH] using fnode_ind; intros H.
  - simpl. destruct (fallowed dirs); reflexivity.
  - simpl in H. apply andb_prop in H as [Hd Hs]. cbn [fprune_node collect_frag].
    rewrite (should_include_textual dirs Hd). destruct (fallowed dirs); [|reflexivity].
    cbn [map List.concat collect_frag should_include find_dir]. rewrite app_nil_r.
    destruct (applies g obj on) as [[|]|]; try reflexivity.
    fold (fprune subs). rewrite (filter_incl_prune subs Hs), map_app. f_equal.
    clear Hd. induction IH as [|x t Hx _ IHt]; [reflexivity|]. simpl in Hs. apply andb_prop in Hs as [Hx' Ht'].
    change (fprune (x :: t)) with (fprune_node x ++ fprune t).
    rewrite map_app, concat_app. cbn [map List.concat]. rewrite map_app. f_equal; [now apply Hx|now apply IHt].
Qed.

Lemma collect_all_prune : forall g obj l, fwf l = true ->
  collect_all g obj (fprune l) = map fstrip (collect_all g obj l).
Proof.
  intros g obj l H. unfold collect_all. rewrite (filter_incl_prune l H), map_app. f_equal.
  induction l as [|x t IH]; [reflexivity|]. simpl in H. apply andb_prop in H as [Hx Ht].
  change (fprune (x :: t)) with (fprune_node x ++ fprune t).
  rewrite map_app, concat_app. cbn [map List.concat]. rewrite map_app. f_equal; [now apply collect_frag_prune|now apply IH].
Qed.

(** what is collected from a well-formed set is well formed *)
Lemma fwf_filter : forall p l, fwf l = true -> fwf (filter p l) = true.
Proof.
  intros p l H. unfold fwf in *. rewrite forallb_forall in *. intros x Hx. apply filter_In in Hx as [Hx _]. auto.
Qed.

Lemma fwf_collect_frag : forall g obj n, fwf_node n = true -> fwf (collect_frag g obj n) = true.
Proof.
  intros g obj. induction n as [al nm args ak dirs hs subs IH|on dirs subs IH] using fnode_ind; intros H; [reflexivity|].
  simpl in H. apply andb_prop in H as [_ Hs]. cbn [collect_frag]. destruct (should_include dirs); [|reflexivity].
  destruct (applies g obj on) as [[|]|]; try reflexivity. rewrite fwf_app, (fwf_filter _ _ Hs). simpl.
  induction IH as [|x t Hx _ IHt]; [reflexivity|]. simpl in Hs. apply andb_prop in Hs as [Hx' Ht'].
  cbn [map List.concat]. rewrite fwf_app, (Hx Hx'). simpl. now apply IHt.
Qed.

Lemma fwf_collect_all : forall g obj l, fwf l = true -> fwf (collect_all g obj l) = true.
Proof.
  intros g obj l H. unfold collect_all. rewrite fwf_app, (fwf_filter _ _ H). simpl.
  induction l as [|x t IH]; [reflexivity|]. simpl in H. apply andb_prop in H as [Hx Ht].
  cbn [map List.concat]. rewrite fwf_app, (fwf_collect_frag g obj x Hx). simpl. now apply IH.
Qed.

(** ** Grouping by response key commutes with pruning *)
Definition gstrip (e : string * (node * list node)) : string * (node * list node) :=
  (fst e, (fstrip (fst (snd e)), fprune (snd (snd e)))).

Lemma n_alias_strip : forall n, n_alias (fstrip n) = n_alias n.
Proof. destruct n; reflexivity. Qed.
Lemma n_subs_strip : forall n, n_subs (fstrip n) = fprune (n_subs n).
Proof. destruct n; reflexivity. Qed.

Lemma lookup_map_gstrip : forall k l,
  lookup k (map gstrip l) = option_map (fun x : node * list node => (fstrip (fst x), fprune (snd x))) (lookup k l).
Proof.
  induction l as [|[k' [n s]] t IH]; simpl; auto. destruct (String.eqb k k'); auto.
Qed.

Lemma remove_key_map_gstrip : forall k l, remove_key k (map gstrip l) = map gstrip (remove_key k l).
Proof.
  induction l as [|[k' [n s]] t IH]; simpl; auto. destruct (String.eqb k k'); simpl; auto. now rewrite IH.
Qed.

Lemma group_alias_strip : forall l, group_alias (map fstrip l) = map gstrip (group_alias l).
Proof.
  induction l as [|n t IH]; [reflexivity|]. cbn [map group_alias]. rewrite IH, n_alias_strip, lookup_map_gstrip.
  destruct (lookup (n_alias n) (group_alias t)) as [[first subs]|]; cbn [option_map].
  - rewrite remove_key_map_gstrip. cbn [map]. unfold gstrip at 2. cbn [fst snd].
    now rewrite n_subs_strip, fprune_app.
  - cbn [map]. unfold gstrip at 2. cbn [fst snd]. now rewrite n_subs_strip.
Qed.

Lemma fwf_node_subs : forall n, fwf_node n = true -> fwf (n_subs n) = true.
Proof. destruct n; simpl; intros H; apply andb_prop in H; tauto. Qed.

Lemma lookup_in' : forall {A} k (l : list (string * A)) v, lookup k l = Some v -> In (k, v) l.
Proof.
  induction l as [|[k' v'] t IH]; simpl; intros v H; [discriminate|].
  destruct (String.eqb k k') eqn:E; [apply String.eqb_eq in E; inversion H; subst; now left|right; auto].
Qed.

Lemma remove_key_incl : forall {A} k (l : list (string * A)) e, In e (remove_key k l) -> In e l.
Proof.
  induction l as [|[k' v'] t IH]; simpl; intros e H; auto.
  destruct (String.eqb k k'); [right; auto|]. destruct H as [H|H]; [now left|right; auto].
Qed.

Lemma in_group_wf : forall l e, fwf l = true -> In e (group_alias l) -> fwf (snd (snd e)) = true.
Proof.
  induction l as [|x t IH]; simpl; intros e H Hin; [contradiction|].
  apply andb_prop in H as [Hx Ht].
  destruct (lookup (n_alias x) (group_alias t)) as [[first subs]|] eqn:E.
  - destruct Hin as [<-|Hin].
    + simpl. rewrite fwf_app, (fwf_node_subs x Hx). simpl.
      apply (IH (n_alias x, (first, subs)) Ht). now apply lookup_in'.
    + apply (IH e Ht). eapply remove_key_incl; eauto.
  - destruct Hin as [<-|Hin]; [simpl; now apply fwf_node_subs|now apply IH].
Qed.

(** ** The reference semantics *)
Lemma leaf_obj_strip : forall val tag l, leaf_obj val tag (map fstrip l) = leaf_obj val tag l.
Proof.
  intros val tag l. unfold leaf_obj. f_equal. f_equal. rewrite map_map. apply map_ext. intros [| ]; reflexivity.
Qed.

Lemma mapo_ext_in : forall {A B} (F G : A -> option B) l, (forall x, In x l -> F x = G x) -> mapo F l = mapo G l.
Proof.
  induction l as [|x t IH]; simpl; intros H; auto. rewrite (H x (or_introl eq_refl)), IH; auto.
Qed.

Lemma mapo_map : forall {A B C} (F : B -> option C) (h : A -> B) l, mapo F (map h l) = mapo (fun x => F (h x)) l.
Proof. induction l as [|x t IH]; simpl; auto. now rewrite IH. Qed.

Section RefPrune.
  Variables (w : world) (g : gschema) (tn : bool).

  (** [eval_ref] with its inner fixpoint named *)
  Section RR.
  Variable fuel' : nat.
  Fixpoint rrender (v : aval) (subs : list node) {struct v} : option json :=
    match v with
    | ANull => Some JNull
    | AScalar j => Some j
    | AList l => option_map JArr (mapo (fun x => rrender x subs) l)
    | ALeaf val tag => Some (leaf_obj val tag (map (fun e => fst (snd e)) (group_alias (collect_all g "Leaf" subs))))
    | ARef t i => eval_ref w g tn fuel' t i subs
    | AURef t i =>
        match fuel' with
        | O => None
        | S fuel'' =>
            match eval_ref w g tn fuel'' t i subs with
            | Some (JObj kvs) =>
                Some (JObj (if tn && negb (has_key "__typename" kvs) then kvs ++ [("__typename", JStr t)] else kvs))
            | other => other
            end
        end
    end.

  Definition rfield (ty : string) (id : Z) (e : string * (node * list node)) : option (string * json) :=
    let '(al, (n, subs)) := e in
    match n with
    | NField _ nm _ ak _ _ _ =>
        if String.eqb nm "__typename" then Some (al, JStr ty)
        else if String.eqb ty "Query" then option_map (pair al) (rrender (w_value w ty id nm ak) subs)
        else if String.eqb nm "id" then Some (al, JNum id)
        else if String.eqb nm "org" then Some (al, JNum (w_org w ty id))
        else option_map (pair al) (rrender (w_value w ty id nm ak) subs)
    | NFrag _ _ _ => None
    end.
  End RR.

  Lemma eval_ref_unfold : forall f ty id sels,
    eval_ref w g tn (S f) ty id sels =
    match mapo (rfield f ty id) (group_alias (collect_all g ty sels)) with
    | Some kvs => Some (JObj (key_kv (keyed g) ty id ++ kvs))
    | None => None
    end.
  Proof. reflexivity. Qed.

  Definition RefInv (f : nat) : Prop :=
    forall ty id sels, fwf sels = true -> eval_ref w g tn f ty id (fprune sels) = eval_ref w g tn f ty id sels.

  Lemma rrender_prune : forall f, RefInv f -> (forall f', S f' = f -> RefInv f') ->
    forall v subs, fwf subs = true -> rrender f v (fprune subs) = rrender f v subs.
  Proof.
    intros f IHf IHf' v. induction v as [|j|t i|t i|l IHl|val tag] using faval_ind; intros subs Hs; cbn [rrender]; auto.
    - destruct f as [|f'']; [reflexivity|]. now rewrite (IHf' f'' eq_refl t i subs Hs).
    - f_equal. apply mapo_ext_in. intros x Hx. rewrite Forall_forall in IHl. now apply IHl.
    - rewrite (collect_all_prune g "Leaf" subs Hs), group_alias_strip, map_map.
      rewrite <- (leaf_obj_strip val tag (map (fun e => fst (snd e)) (group_alias (collect_all g "Leaf" subs)))).
      now rewrite map_map.
  Qed.

  Theorem eval_ref_prune : forall f, RefInv f.
  Proof.
    induction f as [f IH] using (well_founded_induction lt_wf). intros ty id sels Hs.
    destruct f as [|f']; [reflexivity|]. rewrite !eval_ref_unfold.
    rewrite (collect_all_prune g ty sels Hs), group_alias_strip, mapo_map.
    rewrite (mapo_ext_in (fun x => rfield f' ty id (gstrip x)) (rfield f' ty id) (group_alias (collect_all g ty sels))); [reflexivity|].
    intros [al [n subs]] Hin.
    pose proof (in_group_wf _ _ (fwf_collect_all g ty sels Hs) Hin) as Hsubs. simpl in Hsubs.
    assert (Hr : forall v, rrender f' v (fprune subs) = rrender f' v subs).
    { intros v. apply rrender_prune; [apply IH; lia|intros f'' E; apply IH; lia|exact Hsubs]. }
    unfold gstrip, rfield. cbn [fst snd]. destruct n as [a nm args ak dirs hs s|on dirs s]; cbn [fstrip]; [|reflexivity].
    now rewrite Hr.
  Qed.
End RefPrune.

(** ** Through the gateway *)
(** The conclusion of C06's theorem [federation_transparent] for one query: the gateway answers, the
    reference semantics of the combined server answers, and the two answers are equal as JSON maps. *)
Definition transparent_on (w : world) (g : gschema) (pick : list string -> option string) (q : list node) : Prop :=
  exists a r, fed_exec w g pick false true q = Some a /\
              eval_ref w g true (2 * depth_list q + 4) "Query" 0%Z q = Some r /\ jeq a r.

(** fuel: more of it does not change an answer *)
Section Fuel.
  Variables (w : world) (g : gschema) (tn : bool).

  Definition Mono (f : nat) : Prop :=
    forall ty id sels r, eval_ref w g tn f ty id sels = Some r -> forall f', f <= f' -> eval_ref w g tn f' ty id sels = Some r.

  Lemma mapo_some_ext : forall {A B} (F G : A -> option B) l r,
    (forall x y, In x l -> F x = Some y -> G x = Some y) -> mapo F l = Some r -> mapo G l = Some r.
  Proof.
    induction l as [|x t IH]; simpl; intros r H Hm; auto.
    destruct (F x) as [y|] eqn:E; [|discriminate]. destruct (mapo F t) as [r'|] eqn:Er; [|discriminate].
    rewrite (H x y (or_introl eq_refl) E), (IH r' (fun x0 y0 Hin => H x0 y0 (or_intror Hin)) eq_refl). exact Hm.
  Qed.

  Lemma rrender_mono : forall f f', f <= f' -> Mono f -> (forall f0, S f0 = f -> Mono f0) ->
    forall v subs r, rrender w g tn f v subs = Some r -> rrender w g tn f' v subs = Some r.
  Proof.
    intros f f' Hle Hm Hm' v. induction v as [|j|t i|t i|l IHl|val tag] using faval_ind; intros subs r H; cbn [rrender] in *; auto.
    - destruct f as [|f0]; [discriminate|]. destruct f' as [|f0']; [lia|].
      destruct (eval_ref w g tn f0 t i subs) as [j|] eqn:E; [|discriminate].
      rewrite (Hm' f0 eq_refl t i subs j E f0'); [exact H|lia].
    - destruct (mapo (fun x => rrender w g tn f x subs) l) as [rs|] eqn:E; [|discriminate].
      rewrite (mapo_some_ext (fun x => rrender w g tn f x subs) (fun x => rrender w g tn f' x subs) l rs); auto.
      intros x y Hx Hy. rewrite Forall_forall in IHl. now apply IHl.
  Qed.

  Lemma eval_ref_mono : forall f, Mono f.
  Proof.
    induction f as [f IH] using (well_founded_induction lt_wf). intros ty id sels r H f' Hle.
    destruct f as [|f0]; [discriminate|]. destruct f' as [|f0']; [lia|].
    rewrite eval_ref_unfold in *.
    destruct (mapo (rfield w g tn f0 ty id) (group_alias (collect_all g ty sels))) as [kvs|] eqn:E; [|discriminate].
    rewrite (mapo_some_ext (rfield w g tn f0 ty id) (rfield w g tn f0' ty id) _ kvs); auto.
    intros [al [n subs]] y _ Hy. unfold rfield in *. destruct n as [a nm args ak dirs hs s|]; [|discriminate].
    assert (Hr : forall v r0, rrender w g tn f0 v subs = Some r0 -> rrender w g tn f0' v subs = Some r0).
    { intros v r0. apply rrender_mono; [lia|apply IH; lia|intros f1 E1; apply IH; lia]. }
    destruct (String.eqb nm "__typename"); auto.
    destruct (String.eqb ty "Query").
    - destruct (rrender w g tn f0 (w_value w ty id nm ak) subs) as [j|] eqn:Ej; [|discriminate]. now rewrite (Hr _ _ Ej).
    - destruct (String.eqb nm "id"); auto. destruct (String.eqb nm "org"); auto.
      destruct (rrender w g tn f0 (w_value w ty id nm ak) subs) as [j|] eqn:Ej; [|discriminate]. now rewrite (Hr _ _ Ej).
  Qed.
End Fuel.

(** The reference semantics, with enough fuel for both, gives the annotated and the pruned query one
    answer; hence whenever the gateway is transparent on both (C06), it answers them alike. *)
Theorem gateway_prune : forall w g pick q,
  fwf q = true ->
  transparent_on w g pick q -> transparent_on w g pick (fprune q) ->
  exists a a', fed_exec w g pick false true q = Some a /\
               fed_exec w g pick false true (fprune q) = Some a' /\
               (forall r, eval_ref w g true (2 * depth_list q + 4) "Query" 0%Z q = Some r -> jeq a r /\ jeq a' r).
Proof.
  intros w g pick q Hwf [a [r [Ha [Hr Hj]]]] [a' [r' [Ha' [Hr' Hj']]]].
  exists a, a'. split; auto. split; auto. intros r0 Hr0. rewrite Hr in Hr0. inversion Hr0; subst r0. split; auto.
  set (F := Nat.max (2 * depth_list q + 4) (2 * depth_list (fprune q) + 4)).
  pose proof (eval_ref_mono w g true _ _ _ _ _ Hr F (Nat.le_max_l _ _)) as E1.
  pose proof (eval_ref_mono w g true _ _ _ _ _ Hr' F (Nat.le_max_r _ _)) as E2.
  rewrite (eval_ref_prune w g true F "Query" 0%Z q Hwf) in E2. rewrite E1 in E2. inversion E2; subst. exact Hj'.
Qed.
