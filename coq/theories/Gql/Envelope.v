(** What graphql/server.go writes to the socket for one subscription's first computation
    (handleSubscribe: error envelope with SanitizeError + closeSubscription, or an update), and the
    correspondence evaluator of C16. *)
From Coq Require Import List String Bool Arith.
From Thunder Require Import Lib.Json Gql.Types Gql.Value Gql.Query Gql.Ref Gql.Exec Gql.Check.
Import ListNotations.
Open Scope string_scope.
Open Scope list_scope.

Definition generic_message : string := "Internal server error".

(** errors.go SanitizeError: a path-nested error is not a SanitizedError; a safe error was never nested. *)
Definition sanitize (e : perr) : string :=
  if safe (pe_err e) then e_text (pe_err e) else generic_message.

Inductive wsevent : Type :=
| WError (id msg : string)
| WUpdate (id : string)
| WClosed (id : string)
| WOther (id : string).

(** The initial run of a subscription with result [r]. *)
Definition subscribe_initial (id : string) (r : result) : list wsevent :=
  match r with
  | RErr e => [WError id (sanitize e); WClosed id]
  | ROk _ => [WUpdate id]
  end.

Definition wsevent_eqb (a b : wsevent) : bool :=
  match a, b with
  | WError i m, WError j n => String.eqb i j && String.eqb m n
  | WUpdate i, WUpdate j | WClosed i, WClosed j | WOther i, WOther j => String.eqb i j
  | _, _ => false
  end.

Fixpoint events_eqb (a b : list wsevent) : bool :=
  match a, b with
  | [], [] => true
  | x :: a', y :: b' => wsevent_eqb x y && events_eqb a' b'
  | _, _ => false
  end.

(** Code 5: the envelopes observed on the socket are not those of the model for any needed failure
    (which failure is recorded first is the scheduler's choice). *)
Definition check_ws (c : gcase) (obs : option (list wsevent)) : list nat :=
  match obs, g_schemas c, g_queries c with
  | Some evs, sch :: _, q :: _ =>
      match parse (g_vars c) q with
      | None => [3]
      | Some ss =>
          let ref := eval_ref sch FUEL ss (g_root c) in
          let candidates :=
            match snd ref with
            | [] => [subscribe_initial "s1" (ROk (fst ref))]
            | fs => map (fun e => subscribe_initial "s1" (RErr e)) fs
            end in
          if existsb (events_eqb evs) candidates then [] else [5]
      end
  | _, _, _ => []
  end.

Fixpoint mismatches16_from_sparse (_ : nat) (cs : list (nat * (gcase * option (list wsevent)))) : list (nat * list nat) :=
  match cs with
  | [] => []
  | (i, (c, w)) :: t => match dedup (check_case c ++ check_ws c w) with
                        | [] => mismatches16_from_sparse 0 t
                        | l => (i, l) :: mismatches16_from_sparse 0 t
                        end
  end.
