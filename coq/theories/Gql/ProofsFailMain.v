(** C16 (i) for Execute: if a needed resolver fails, every completed run returns an error, one of the
    needed failures (response path up to list indices when a batch resolver fails as a whole). *)
From Coq Require Import List String Bool Arith Permutation Lia.
From Thunder Require Import Lib.Json Gql.Types Gql.Value Gql.Query Gql.Ref Gql.Exec Gql.Check
  Gql.ProofsSched Gql.ProofsSplit Gql.ProofsFlatten Gql.ProofsRef Gql.ProofsMain Gql.ProofsFail.
Import ListNotations.
Open Scope list_scope.

Section FailMain.
  Variable S : schema.
  Variable nb : bool.
  Hypothesis NB : nb = true -> forall on o n f,
    find_object on (s_objects S) = Some o -> find_field n (o_fields o) = Some f -> should_use_batch f = false.

  Theorem failing_resolver_fails_query_rel : forall fuel rf q root sched,
    snd (eval_ref S fuel q root) <> [] -> good (snd (eval_ref S fuel q root)) ->
    (exists e f, init fixed S q root = inr e /\ In f (snd (eval_ref S fuel q root)) /\ rel nb e f = true) \/
    (exists st0, init fixed S q root = inl st0 /\
       (complete (run_sched fixed S fuel sched st0) = true ->
        exists e f, finish rf (run_sched fixed S fuel sched st0) = Some (RErr e) /\
                    In f (snd (eval_ref S fuel q root)) /\ rel nb e f = true)).
  Proof.
    intros fuel rf q root sched Hne Hgood.
    destruct fuel as [|fuel'].
    { exfalso. eapply (not_good_nest [] err_fuel); [reflexivity| |exact Hgood]. simpl. now left. }
    unfold eval_ref in *. unfold init.
    destruct (flatten fixed q) as [items|e] eqn:Efl.
    2:{ left. exists (nest [] e), (nest [] e). split; [reflexivity|]. split; [simpl; now left|apply rel_refl]. }
    destruct (find_object (s_query S) (s_objects S)) as [o|] eqn:Eo.
    2:{ exfalso. eapply (not_good_nest [] err_invalid); [reflexivity| |exact Hgood]. simpl. now left. }
    destruct root as [| |?|tn fs] eqn:Eroot;
      try (exfalso; eapply (not_good_nest [] err_invalid); [reflexivity| |exact Hgood]; simpl; now left).
    rewrite <- Eroot in *.
    set (rsref := map (eval_field S true (eval_obj S fuel') o fs []) items) in *.
    cbn [fst snd] in *.
    pose proof (flatten_nodirs q items Efl) as Hnodirs.
    assert (Hff : forall it, In it items -> exists f, find_field (s_name (fst it)) (o_fields o) = Some f).
    { intros it Hit. destruct (find_field (s_name (fst it)) (o_fields o)) as [f|] eqn:Ef; eauto.
      exfalso. eapply (not_good_nest ([] ++ [PKey (s_alias (fst it))]) err_invalid); [reflexivity| |exact Hgood].
      unfold rsref. rewrite flat_map_map. apply in_flat_map. exists it. split; auto.
      unfold eval_field. cbn [negb andb]. rewrite Ef. simpl. now left. }
    destruct (init_fold o root items [] [] Hnodirs Hff) as [us [HFus Efold]].
    rewrite Efold. rewrite !app_nil_r, !rev_involutive.
    right. eexists. split; [reflexivity|]. intros Hc.
    destruct (units_fail_like_reference nb S (Datatypes.S fuel') NB fuel') as [_ HG].
    assert (Hunits : exists rs, Forall2 (P fixed S (Datatypes.S fuel')) us rs /\
              ErrsOk nb (errs rs) (flat_map (fun it => snd (eval_field S true (eval_obj S fuel') o fs [] it)) items)).
    { assert (Hg : forall it, In it items -> good (snd (eval_field S true (eval_obj S fuel') o fs [] it))).
      { intros it Hit f Hf. apply Hgood. unfold rsref. rewrite flat_map_map. apply in_flat_map. eauto. }
      clear Efold Hc Hne Hgood. revert Hg. clear -HFus HG Eroot.
      induction HFus as [|it u items us [f [Ef Eu]] _ IH]; intros Hg.
      - exists []. split; [constructor|apply ErrsOk_nil].
      - destruct (IH (fun it' Hin => Hg it' (or_intror Hin))) as [rs [HF HO]].
        subst u.
        pose proof (eval_field_top_unit S fuel' f it o root tn fs Eroot Ef) as Hev. cbv zeta in Hev.
        fold (top_unit o root it f) in Hev. set (u := top_unit o root it f) in *.
        assert (EF : unit_fails S fuel' u = snd (eval_field S true (eval_obj S fuel') o fs [] it)).
        { unfold unit_fails. unfold u at 2. cbn [u_items top_unit flat_map]. rewrite app_nil_r. now rewrite Hev. }
        destruct (HG (Datatypes.S fuel') u (le_n _) (le_n _)) as [E [[rsu [Fu Eu]] Ou]].
        + intros a b [<-|[]] [<-|[]]. apply path_sim_refl.
        + intros _. unfold u, top_unit. simpl. apply andb_false_r.
        + rewrite EF. apply Hg. now left.
        + exists ((x_heap (exec_unit fixed S (Datatypes.S fuel') u) ++ heaps rsu,
                   x_errs (exec_unit fixed S (Datatypes.S fuel') u) ++ errs rsu) :: rs).
          split; [constructor; [constructor; exact Fu|exact HF]|].
          change (errs ((x_heap (exec_unit fixed S (Datatypes.S fuel') u) ++ heaps rsu,
                         x_errs (exec_unit fixed S (Datatypes.S fuel') u) ++ errs rsu) :: rs))
            with ((x_errs (exec_unit fixed S (Datatypes.S fuel') u) ++ errs rsu) ++ errs rs).
          cbn [flat_map]. apply ErrsOk_app; [|exact HO]. rewrite <- Eu, <- EF. exact Ou. }
    destruct Hunits as [rs [HF [HA HB]]].
    assert (EFs : flat_map (fun it => snd (eval_field S true (eval_obj S fuel') o fs [] it)) items = flat_map snd rsref).
    { unfold rsref. now rewrite flat_map_map. }
    rewrite EFs in HA, HB.
    pose proof (schedule_independence fixed S (Datatypes.S fuel')
                  (mk_state [] us None (map (fun it : item => s_alias (fst it)) items)) rs HF eq_refl sched Hc) as [_ Herr].
    unfold finish. rewrite Hc.
    destruct (st_err (run_sched fixed S (Datatypes.S fuel') sched
                (mk_state [] us None (map (fun it : item => s_alias (fst it)) items)))) as [e|].
    - destruct (HA e Herr) as [f [Hf Hs]]. exists e, f. auto.
    - exfalso. apply (HB Hne). exact Herr.
  Qed.
End FailMain.

(** Any schema: the failure is located up to list indices. *)
Theorem failing_resolver_fails_query : forall S fuel rf q root sched,
  snd (eval_ref S fuel q root) <> [] -> good (snd (eval_ref S fuel q root)) ->
  (exists e f, init fixed S q root = inr e /\ In f (snd (eval_ref S fuel q root)) /\ perr_sim e f = true) \/
  (exists st0, init fixed S q root = inl st0 /\
     (complete (run_sched fixed S fuel sched st0) = true ->
      exists e f, finish rf (run_sched fixed S fuel sched st0) = Some (RErr e) /\
                  In f (snd (eval_ref S fuel q root)) /\ perr_sim e f = true)).
Proof.
  intros S. apply (failing_resolver_fails_query_rel S false). intros H. discriminate.
Qed.

Theorem units_fail_like_reference_sim : forall S fuel fr, GR false S fuel fr /\ GU false S fuel fr.
Proof. intros S fuel fr. apply units_fail_like_reference. intros H. discriminate. Qed.

(** No field of the schema is run as a batch (every other mode - plain, Expensive, the fallback of a
    batch field, NumParallelInvocations - is allowed). *)

Lemma find_object_in : forall n l o, find_object n l = Some o -> In o l.
Proof.
  induction l as [|x t IH]; simpl; intros o H; [discriminate|].
  destruct (String.eqb n (o_name x)); [inversion H; now left|right; auto].
Qed.
Lemma find_field_in : forall n l f, find_field n l = Some f -> In f l.
Proof.
  induction l as [|x t IH]; simpl; intros f H; [discriminate|].
  destruct (String.eqb n (f_name x)); [inversion H; now left|right; auto].
Qed.

(** ... then the failure is located exactly: the very error value and the very response path -
    aliases and list indices - of a needed failure. *)
Theorem failing_resolver_fails_query_exact : forall S fuel rf q root sched,
  no_batch_fields S = true ->
  snd (eval_ref S fuel q root) <> [] -> good (snd (eval_ref S fuel q root)) ->
  (exists e, init fixed S q root = inr e /\ In e (snd (eval_ref S fuel q root))) \/
  (exists st0, init fixed S q root = inl st0 /\
     (complete (run_sched fixed S fuel sched st0) = true ->
      exists e, finish rf (run_sched fixed S fuel sched st0) = Some (RErr e) /\
                In e (snd (eval_ref S fuel q root)))).
Proof.
  intros S fuel rf q root sched Hnb Hne Hgood.
  assert (NB : true = true -> forall on o n f,
            find_object on (s_objects S) = Some o -> find_field n (o_fields o) = Some f -> should_use_batch f = false).
  { intros _ on o n f Ho Hf. unfold no_batch_fields in Hnb. rewrite forallb_forall in Hnb.
    pose proof (Hnb o (find_object_in _ _ _ Ho)) as Hf'. rewrite forallb_forall in Hf'.
    pose proof (Hf' f (find_field_in _ _ _ Hf)) as H. now apply negb_true_iff in H. }
  assert (Heq : forall e f : perr, rel true e f = true -> e = f).
  { intros [e p] [e' p'] H. unfold rel, perr_eqb in H. simpl in H. apply andb_prop in H as [H1 H2].
    f_equal.
    - destruct e as [c t], e' as [c' t']. unfold err_eqb in H1. simpl in H1. apply andb_prop in H1 as [Hc Ht].
      apply String.eqb_eq in Ht. subst. destruct c, c'; try discriminate; reflexivity.
    - revert p' H2. induction p as [|a p IH]; destruct p' as [|b p']; simpl; intros H; try discriminate; auto.
      apply andb_prop in H as [Ha Hp]. f_equal; [|now apply IH].
      destruct a, b; simpl in Ha; try discriminate; f_equal; [now apply String.eqb_eq|now apply Nat.eqb_eq]. }
  destruct (failing_resolver_fails_query_rel S true NB fuel rf q root sched Hne Hgood)
    as [[e [f [Hi [Hf Hr]]]]|[st0 [Hi Hrun]]].
  - left. exists e. split; auto. now rewrite (Heq _ _ Hr).
  - right. exists st0. split; auto. intros Hc. destruct (Hrun Hc) as [e [f [Hfin [Hf Hr]]]].
    exists e. split; auto. now rewrite (Heq _ _ Hr).
Qed.
