(** C16 (i) for Execute: if a needed resolver fails, every completed run returns an error, one of the
    needed failures (response path up to list indices when a batch resolver fails as a whole). *)
From Coq Require Import List String Bool Arith Permutation Lia.
From Thunder Require Import Lib.Json Gql.Types Gql.Value Gql.Query Gql.Ref Gql.Exec Gql.Check
  Gql.ProofsSched Gql.ProofsSplit Gql.ProofsFlatten Gql.ProofsRef Gql.ProofsMain Gql.ProofsFail.
Import ListNotations.
Open Scope list_scope.

Section FailMain.
  Variable S : schema.

  Theorem failing_resolver_fails_query : forall fuel rf q root sched,
    snd (eval_ref S fuel q root) <> [] -> good (snd (eval_ref S fuel q root)) ->
    (exists e f, init fixed S q root = inr e /\ In f (snd (eval_ref S fuel q root)) /\ perr_sim e f = true) \/
    (exists st0, init fixed S q root = inl st0 /\
       (complete (run_sched fixed S fuel sched st0) = true ->
        exists e f, finish rf (run_sched fixed S fuel sched st0) = Some (RErr e) /\
                    In f (snd (eval_ref S fuel q root)) /\ perr_sim e f = true)).
  Proof.
    intros fuel rf q root sched Hne Hgood.
    destruct fuel as [|fuel'].
    { exfalso. eapply (not_good_nest [] err_fuel); [reflexivity| |exact Hgood]. simpl. now left. }
    unfold eval_ref in *. unfold init.
    destruct (flatten fixed q) as [items|e] eqn:Efl.
    2:{ left. exists (nest [] e), (nest [] e). split; [reflexivity|]. split; [simpl; now left|apply perr_sim_refl]. }
    destruct (find_object (s_query S) (s_objects S)) as [o|] eqn:Eo.
    2:{ exfalso. eapply (not_good_nest [] err_invalid); [reflexivity| |exact Hgood]. simpl. now left. }
    destruct root as [| |?|tn fs] eqn:Eroot;
      try (exfalso; eapply (not_good_nest [] err_invalid); [reflexivity| |exact Hgood]; simpl; now left).
    rewrite <- Eroot in *.
    set (rsref := map (eval_field S true (eval_obj S fuel') o fs []) items) in *.
    cbn [fst snd] in *.
    pose proof (flatten_nodirs q items Efl) as Hnodirs.
    assert (Hff : forall it, In it items -> exists f, find_field (s_name (fst it)) (o_fields o) = Some f).
    { intros it Hit. destruct (find_field (s_name (fst it)) (o_fields o)) as [f|] eqn:Ef; eauto.
      exfalso. eapply (not_good_nest ([] ++ [PKey (s_alias (fst it))]) err_invalid); [reflexivity| |exact Hgood].
      unfold rsref. rewrite flat_map_map. apply in_flat_map. exists it. split; auto.
      unfold eval_field. cbn [negb andb]. rewrite Ef. simpl. now left. }
    destruct (init_fold o root items [] [] Hnodirs Hff) as [us [HFus Efold]].
    rewrite Efold. rewrite !app_nil_r, !rev_involutive.
    right. eexists. split; [reflexivity|]. intros Hc.
    destruct (units_fail_like_reference S (Datatypes.S fuel') fuel') as [_ HG].
    assert (Hunits : exists rs, Forall2 (P fixed S (Datatypes.S fuel')) us rs /\
              ErrsOk (errs rs) (flat_map (fun it => snd (eval_field S true (eval_obj S fuel') o fs [] it)) items)).
    { assert (Hg : forall it, In it items -> good (snd (eval_field S true (eval_obj S fuel') o fs [] it))).
      { intros it Hit f Hf. apply Hgood. unfold rsref. rewrite flat_map_map. apply in_flat_map. eauto. }
      clear Efold Hc Hne Hgood. revert Hg. clear -HFus HG Eroot.
      induction HFus as [|it u items us [f [Ef Eu]] _ IH]; intros Hg.
      - exists []. split; [constructor|apply ErrsOk_nil].
      - destruct (IH (fun it' Hin => Hg it' (or_intror Hin))) as [rs [HF HO]].
        subst u.
        pose proof (eval_field_top_unit S fuel' f it o root tn fs Eroot Ef) as Hev. cbv zeta in Hev.
        fold (top_unit o root it f) in Hev. set (u := top_unit o root it f) in *.
        assert (EF : unit_fails S fuel' u = snd (eval_field S true (eval_obj S fuel') o fs [] it)).
        { unfold unit_fails. unfold u at 2. cbn [u_items top_unit flat_map]. rewrite app_nil_r. now rewrite Hev. }
        destruct (HG (Datatypes.S fuel') u (le_n _) (le_n _)) as [E [[rsu [Fu Eu]] Ou]].
        + intros a b [<-|[]] [<-|[]]. apply path_sim_refl.
        + rewrite EF. apply Hg. now left.
        + exists ((x_heap (exec_unit fixed S (Datatypes.S fuel') u) ++ heaps rsu,
                   x_errs (exec_unit fixed S (Datatypes.S fuel') u) ++ errs rsu) :: rs).
          split; [constructor; [constructor; exact Fu|exact HF]|].
          change (errs ((x_heap (exec_unit fixed S (Datatypes.S fuel') u) ++ heaps rsu,
                         x_errs (exec_unit fixed S (Datatypes.S fuel') u) ++ errs rsu) :: rs))
            with ((x_errs (exec_unit fixed S (Datatypes.S fuel') u) ++ errs rsu) ++ errs rs).
          cbn [flat_map]. apply ErrsOk_app; [|exact HO]. rewrite <- Eu, <- EF. exact Ou. }
    destruct Hunits as [rs [HF [HA HB]]].
    assert (EFs : flat_map (fun it => snd (eval_field S true (eval_obj S fuel') o fs [] it)) items = flat_map snd rsref).
    { unfold rsref. now rewrite flat_map_map. }
    rewrite EFs in HA, HB.
    pose proof (schedule_independence fixed S (Datatypes.S fuel')
                  (mk_state [] us None (map (fun it : item => s_alias (fst it)) items)) rs HF eq_refl sched Hc) as [_ Herr].
    unfold finish. rewrite Hc.
    destruct (st_err (run_sched fixed S (Datatypes.S fuel') sched
                (mk_state [] us None (map (fun it : item => s_alias (fst it)) items)))) as [e|].
    - destruct (HA e Herr) as [f [Hf Hs]]. exists e, f. auto.
    - exfalso. apply (HB Hne). exact Herr.
  Qed.
End FailMain.
