(** The work-unit machine of graphql/batch_executor.go (DESIGN.md Appendix A.4).

    Output nodes are addressed by their response path (Go: *outputNode with its pathTracker); the
    output is a flat table path -> node content, filled once per node ([Fill]), rendered when the
    scheduler has returned.  A work unit pairs sources with destinations ([u_items]).  [step st k]
    runs the k-th pending unit ([executeWorkUnit]); a schedule is a [list nat]. *)
From Coq Require Import List String Bool Arith.
From Thunder Require Import Lib.Json Gql.Types Gql.Value Gql.Query Gql.Ref.
Import ListNotations.
Open Scope string_scope.
Open Scope list_scope.

Inductive node : Type :=
| NVal (j : json)
| NNull
| NList (n : nat)
| NObj (keys : list string).

Definition heap := list (path * node).

Record wunit : Type := mk_unit {
  u_field : field;
  u_sel : selh;                   (* alias, name, data key of the selection *)
  u_sub : option selset;
  u_items : list (value * path);  (* sources[i] with destinations[i] *)
  u_batch : bool;                 (* useBatch *)
  u_obj : string                  (* objectName *)
}.

(** What running (part of) a unit produced: nodes filled, units to schedule, failures recorded in order. *)
Record xres : Type := mk_xres { x_heap : heap; x_units : list wunit; x_errs : list perr }.
Definition xempty := mk_xres [] [] [].
Definition xapp (a b : xres) := mk_xres (x_heap a ++ x_heap b) (x_units a ++ x_units b) (x_errs a ++ x_errs b).
Definition xconcat (l : list xres) := fold_right xapp xempty l.

(** splitWorkUnit *)
Definition split_work_unit (u : wunit) : list wunit :=
  map (fun it => mk_unit (u_field u) (u_sel u) (u_sub u) [it] (u_batch u) (u_obj u)) (u_items u).

(** splitToNWorkUnits: round robin, item idx goes to unit idx mod n. *)
Definition clamp_units (n len : nat) : nat :=
  let n := if Nat.ltb len n then len else n in
  if Nat.eqb n 0 then 1 else n.

Fixpoint every_nth {A} (n : nat) (k : nat) (l : list A) : list A :=
  (* elements of l whose position is congruent to 0 modulo n, where the head has position k (k < n) *)
  match l with
  | [] => []
  | x :: t => if Nat.eqb k 0 then x :: every_nth n (pred n) t else every_nth n (pred k) t
  end.

Definition split_to_n (u : wunit) (num : nat) : list wunit :=
  let n := clamp_units num (List.length (u_items u)) in
  map (fun r => mk_unit (u_field u) (u_sel u) (u_sub u) (every_nth n r (u_items u)) (u_batch u) (u_obj u))
      (seq 0 n).

Definition split_par (u : wunit) : list wunit :=
  match f_par (u_field u) with
  | Some tbl => split_to_n u (par_at tbl (List.length (u_items u)))
  | None => [u]
  end.

Definition is_nil (v : value) : bool := match v with VObj _ _ => false | _ => true end.

Section Exec.
  Variable Q : quirks.
  Variable S : schema.

  Definition fail_all (items : list (value * path)) (e : err) : xres :=
    mk_xres [] [] (map (fun it => nest (snd it) e) items).

  (** resolveBatch and below.  [ex] runs a unit synchronously (the "default" case of
      resolveObjectBatch and the key field).  [inr e] is the error return of resolveBatch. *)

  (** Under F9 the directives of a selection are looked at in resolveObjectBatch, after __typename
      (as repaired, Flatten has applied them already and the selections carry none). *)
  Fixpoint check_sels (l : list item) : res (list item) :=
    match l with
    | [] => Ok []
    | it :: t =>
        if String.eqb (s_name (fst it)) "__typename" then
          match check_sels t with Bad e => Bad e | Ok t' => Ok (it :: t') end
        else
          match should_include Q (s_dirs (fst it)) with
          | Bad e => Bad e
          | Ok b => match check_sels t with Bad e => Bad e | Ok t' => Ok (if b then it :: t' else t') end
          end
    end.

  (** One flattened selection over all non-nil sources: __typename is filled in at once, a function
      field becomes one or several units, a struct field (and the key field, [sync]) is run at once. *)
  Definition per_sel (ex : wunit -> xres) (o : object) (nonnil : list (value * path)) (sync : bool) (it : item) : xres :=
    let h := fst it in
    let dests := map (fun x => (fst x, snd x ++ [PKey (s_alias h)])) nonnil in
    if String.eqb (s_name h) "__typename" then
      mk_xres (map (fun x => (snd x, NVal (JStr (o_name o)))) dests) [] []
    else
      match find_field (s_name h) (o_fields o) with
      | None => mk_xres [] [] (map (fun x => nest (snd x) err_invalid) dests)
      | Some f =>
          let u := mk_unit f h (snd it) dests false (o_name o) in
          if sync then ex u
          else if should_use_batch f then
            mk_xres [] (split_par (mk_unit f h (snd it) dests true (o_name o))) []
          else if f_expensive f then mk_xres [] (split_work_unit u) []
          else if f_external f then mk_xres [] (split_par u) []
          else ex u
      end.

  Definition resolve_object (ex : wunit -> xres) (oname : string) (s : selset) (items : list (value * path))
    : xres + err :=
    match flatten Q s with
    | Bad e => inr e
    | Ok sels =>
        match find_object oname (s_objects S) with
        | None => inr err_invalid
        | Some o =>
            let nonnil := filter (fun it => negb (is_nil (fst it))) items in
            let nils := filter (fun it => is_nil (fst it)) items in
            match check_sels sels with
            | Bad e => inr e
            | Ok sels' =>
                let all := sels' ++ key_item o in
                let hp := map (fun it => (snd it, NNull)) nils
                          ++ map (fun it => (snd it, NObj (map (fun s => s_alias (fst s)) all))) nonnil in
                inl (xapp (mk_xres hp [] [])
                       (xapp (xconcat (map (per_sel ex o nonnil false) sels'))
                             (xconcat (map (per_sel ex o nonnil true) (key_item o)))))
            end
        end
    end.

  Fixpoint flatten_lists (items : list (value * path)) : heap * list (value * path) :=
    match items with
    | [] => ([], [])
    | (v, p) :: t =>
        let r := flatten_lists t in
        match v with
        | VList l =>
            ((p, NList (List.length l)) :: fst r, index_items p l 0 ++ snd r)
        | _ => ((p, NList 0) :: fst r, snd r)
        end
    end.

  Definition member_of (v : value) : option string := match v with VObj m _ => Some m | _ => None end.

  Fixpoint members_in_order (items : list (value * path)) (acc : list string) : list string :=
    match items with
    | [] => acc
    | (VObj m _, _) :: t => if existsb (String.eqb m) acc then members_in_order t acc else members_in_order t (acc ++ [m])
    | _ :: t => members_in_order t acc
    end.

  Fixpoint seq_res (l : list (xres + err)) : xres + err :=
    match l with
    | [] => inl xempty
    | inr e :: _ => inr e
    | inl a :: t => match seq_res t with inr e => inr e | inl b => inl (xapp a b) end
    end.

  Definition resolve_union (ex : wunit -> xres) (uname : string) (s : selset) (items : list (value * path))
    : xres + err :=
    (* nil unions, and values that are not one of the members, stay null *)
    let nils := filter (fun it => match fst it with VObj m _ => negb (is_member S uname m) | _ => true end) items in
    let hp := map (fun it => (snd it, NNull)) nils in
    let ms := filter (is_member S uname) (members_in_order items []) in
    let of_member (m : string) : xres + err :=
      let its := filter (fun it => match fst it with VObj m' _ => String.eqb m m' | _ => false end) items in
      if q_union Q then
        (* original: one resolveObjectBatch per fragment on m, each Fill replacing the previous map;
           directives on the fragments are not consulted; no fragment: the destinations stay nil *)
        match rev (filter (fun f => String.eqb (fr_on (fst f)) m) (ss_frags s)) with
        | [] => inl xempty
        | (_, body) :: _ => resolve_object ex m body its
        end
      else resolve_object ex m (union_member_set m s) its in
    match seq_res (map of_member ms) with
    | inr e => inr e
    | inl r => inl (xapp (mk_xres hp [] []) r)
    end.

  Fixpoint resolve (ex : wunit -> xres) (t : gtype) (ss : option selset) (items : list (value * path)) {struct t}
    : xres + err :=
    match items with
    | [] => inl xempty
    | _ =>
        match t with
        | TScalar _ | TEnum _ =>
            inl (mk_xres (map (fun it => (snd it, match fst it with VLeaf l => NVal (leaf_json l) | _ => NNull end)) items) [] [])
        | TNonNull t' => resolve ex t' ss items
        | TList t' =>
            let r := flatten_lists items in
            match resolve ex t' ss (snd r) with
            | inr e => inr e
            | inl x => inl (xapp (mk_xres (fst r) [] []) x)
            end
        | TObject n =>
            match ss with
            | Some s => resolve_object ex n s items
            | None => inr err_invalid
            end
        | TUnion u =>
            match ss with
            | Some s => resolve_union ex u s items
            | None => inr err_invalid
            end
        end
    end.

  (** The resolver results of a unit's sources. *)
  Definition outcome_of (u : wunit) (v : value) : outcome value :=
    match v with
    | VObj _ fields => match lookup (s_key (u_sel u)) fields with Some o => o | None => OFail err_invalid end
    | _ => OFail err_invalid
    end.

  Fixpoint first_failure (l : list (outcome value * path)) : option (err * path) :=
    match l with
    | [] => None
    | (OFail e, p) :: _ => Some (e, p)
    | (OOk _, _) :: t => first_failure t
    end.

  Definition ok_value (o : outcome value) : value := match o with OOk v => v | OFail _ => VNull end.

  (** executeWorkUnit *)
  Fixpoint exec_unit (fuel : nat) (u : wunit) {struct fuel} : xres :=
    match fuel with
    | 0 => fail_all (u_items u) err_fuel
    | Datatypes.S fuel' =>
        let outs := map (fun it => (outcome_of u (fst it), snd it)) (u_items u) in
        let after (res : list (value * path)) : xres :=
          match resolve (exec_unit fuel') (f_type (u_field u)) (u_sub u) res with
          | inr e => fail_all (u_items u) e
          | inl x => x
          end in
        if f_batch (u_field u) && u_batch u then
          (* executeBatchWorkUnit: one resolver call; its error fails every destination *)
          match first_failure outs with
          | Some (e, _) => fail_all (u_items u) e
          | None => after (map (fun o => (ok_value (fst o), snd o)) outs)
          end
        else if negb (f_expensive (u_field u)) then
          (* executeNonExpensiveWorkUnit: stops at the first failing source *)
          match first_failure outs with
          | Some (e, p) => mk_xres [] [] [nest p e]
          | None => after (map (fun o => (ok_value (fst o), snd o)) outs)
          end
        else
          (* expensive: one source after the other, each on its own *)
          xconcat (map (fun o =>
                          match fst o with
                          | OFail e => mk_xres [] [] [nest (snd o) e]
                          | OOk v =>
                              match resolve (exec_unit fuel') (f_type (u_field u)) (u_sub u) [(v, snd o)] with
                              | inr e => mk_xres [] [] [nest (snd o) e]
                              | inl x => x
                              end
                          end) outs)
    end.

  (** * Machine *)
  Record state : Type := mk_state {
    st_heap : heap;
    st_pending : list wunit;
    st_err : option perr;     (* errorRecorder: first failure wins *)
    st_top : list string      (* aliases of the top-level writers *)
  }.

  Definition record (old : option perr) (new : list perr) : option perr :=
    match old with
    | Some e => Some e
    | None => match new with [] => None | e :: _ => Some e end
    end.

  (** Executor.Execute up to scheduler.Run: one unit per included top-level selection, with the root
      object as its only source; the first failing selection (in Flatten order) returns. *)
  Definition init_sel (o : object) (root : value) (acc : res (list wunit * list string)) (it : item)
    : res (list wunit * list string) :=
    match acc with
    | Bad e => Bad e
    | Ok (us, tops) =>
        match should_include Q (s_dirs (fst it)) with
        | Bad e => Bad e
        | Ok false => Ok (us, tops)
        | Ok true =>
            match find_field (s_name (fst it)) (o_fields o) with
            | None => Bad err_invalid
            | Some f =>
                Ok (mk_unit f (fst it) (snd it) [(root, [PKey (s_alias (fst it))])] false (o_name o) :: us,
                    s_alias (fst it) :: tops)
            end
        end
    end.

  Definition init (q : selset) (root : value) : state + perr :=
    match flatten Q q with
    | Bad e => inr (nest [] e)
    | Ok sels =>
        match find_object (s_query S) (s_objects S) with
        | None => inr (nest [] err_invalid)
        | Some o =>
            match fold_left (init_sel o root) sels (Ok ([], [])) with
            | Bad e => inr (nest [] e)
            | Ok (us, tops) => inl (mk_state [] (rev us) None (rev tops))
            end
        end
    end.

  Fixpoint take_nth {A} (k : nat) (l : list A) : option (A * list A) :=
    match l, k with
    | [], _ => None
    | x :: t, 0 => Some (x, t)
    | x :: t, Datatypes.S k' => match take_nth k' t with Some (y, t') => Some (y, x :: t') | None => None end
    end.

  (** One scheduler step: run pending unit number [k mod |pending|]; nothing to do when none is pending. *)
  Definition step (fuel : nat) (st : state) (k : nat) : state :=
    match take_nth (Nat.modulo k (List.length (st_pending st))) (st_pending st) with
    | None => st
    | Some (u, rest) =>
        let x := exec_unit fuel u in
        mk_state (st_heap st ++ x_heap x) (rest ++ x_units x) (record (st_err st) (x_errs x)) (st_top st)
    end.

  Definition run_sched (fuel : nat) (sched : list nat) (st : state) : state := fold_left (step fuel) sched st.

  Definition complete (st : state) : bool := match st_pending st with [] => true | _ => false end.

  Fixpoint heap_get (p : path) (h : heap) : option node :=
    match h with
    | [] => None
    | (p', n) :: t => if path_eqb p p' then Some n else heap_get p t
    end.

  (** outputNodeToJSON.  A node that was never filled renders as null. *)
  Fixpoint render (fuel : nat) (h : heap) (p : path) : json :=
    match fuel with
    | 0 => JNull
    | Datatypes.S fuel' =>
        match heap_get p h with
        | None | Some NNull => JNull
        | Some (NVal j) => j
        | Some (NList n) => JArr (map (fun i => render fuel' h (p ++ [PIdx i])) (seq 0 n))
        | Some (NObj ks) => JObj (map (fun k => (k, render fuel' h (p ++ [PKey k]))) ks)
        end
    end.

  (** What Execute returns once the scheduler has returned. *)
  Definition finish (fuel : nat) (st : state) : option result :=
    if complete st then
      Some (match st_err st with
            | Some e => RErr e
            | None => ROk (JObj (map (fun k => (k, render fuel (st_heap st) [PKey k])) (st_top st)))
            end)
    else None.

  (** Execute under a schedule. *)
  Definition run (fuel : nat) (sched : list nat) (q : selset) (root : value) : option result :=
    match init q root with
    | inr e => Some (RErr e)
    | inl st => finish fuel (run_sched fuel sched st)
    end.

  (** A schedule that is always complete: keep taking the first pending unit. *)
  Fixpoint run_fifo (fuel : nat) (n : nat) (st : state) : state :=
    match n with
    | 0 => st
    | Datatypes.S n' => if complete st then st else run_fifo fuel n' (step fuel st 0)
    end.
End Exec.
