(** C16, websocket half: facts about every script of inbound envelopes (Gql/Socket.v), and their
    composition with the executor's failure theorem. *)
From Coq Require Import List String Bool Arith Lia.
From Thunder Require Import Lib.Json Gql.Types Gql.Value Gql.Query Gql.Ref Gql.Exec Gql.Check Gql.Envelope Gql.Socket
  Gql.ProofsFail Gql.ProofsFailMain.
Import ListNotations.
Open Scope string_scope.
Open Scope list_scope.

(** ** SanitizeError *)
Lemma san_err_text : forall e s, san_err e = EText s -> safe e = true /\ e_class e <> EClient /\ e_text e = s.
Proof.
  intros e s H. unfold san_err in H. destruct (safe e) eqn:Es; [|discriminate].
  destruct (e_class e) eqn:Ec; inversion H; repeat split; auto; discriminate.
Qed.

Lemma san_err_unsafe : forall e, safe e = false -> san_err e = EGeneric.
Proof. intros e H. unfold san_err. now rewrite H. Qed.

Lemma san_err_generic : forall e, san_err e = EGeneric -> safe e = false.
Proof. intros e H. unfold san_err in H. destruct (safe e); auto. destruct (e_class e); discriminate. Qed.

Lemma san_h_text : forall h s, san_h h = EText s -> exists e, h = HQuery e /\ san_err e = EText s.
Proof. intros [| |e] s H; simpl in H; try discriminate. eauto. Qed.

(** The model's [san] and Envelope.v's [sanitize] are the same function read two ways. *)
Lemma san_sanitize : forall e,
  match san e with
  | EGeneric => sanitize e = generic_message
  | EOwn => sanitize e = e_text (pe_err e) /\ e_class (pe_err e) = EClient
  | EText s => sanitize e = s
  end.
Proof.
  intros e. unfold san, san_err, sanitize. destruct (safe (pe_err e)); [|reflexivity].
  destruct (e_class (pe_err e)); auto.
Qed.

(** ** One envelope *)
Lemma handle_refusal_changes_nothing : forall c m c' evs h,
  handle c m = (c', evs, Some h) -> c' = c /\ evs = [].
Proof.
  intros c m c' evs h H. destruct m as [id f|id f|id|id|id ok|id]; simpl in H.
  - unfold handle_subscribe in H.
    destruct f as [|e|[j|e]|]; try (inversion H; auto; fail);
      destruct (live c id); try (inversion H; auto; fail);
      destruct (Nat.ltb (c_max c) (List.length (c_subs c) + 1)); inversion H; auto.
  - unfold handle_mutate in H.
    destruct f as [|e|[j|e]|]; try (inversion H; auto; fail);
      destruct (live c id); inversion H; auto.
  - destruct (live c id); inversion H.
  - inversion H.
  - destruct ok; inversion H; auto.
  - inversion H; auto.
Qed.

Lemma serve_text : forall c m id s,
  In (CError id (EText s)) (snd (serve c m)) ->
  exists e, In e (msg_errs m) /\ safe e = true /\ e_class e <> EClient /\ e_text e = s.
Proof.
  intros c m id s H.
  assert (K : forall e, san_err e = EText s -> In e (msg_errs m) ->
              exists e, In e (msg_errs m) /\ safe e = true /\ e_class e <> EClient /\ e_text e = s).
  { intros e He Hin. exists e. split; auto. now apply san_err_text. }
  unfold serve in H. destruct m as [i f|i f|i|i|i ok|i]; simpl in H.
  - unfold handle_subscribe in H.
    destruct f as [|e|[j|e]|]; simpl in H.
    + destruct H as [H|[]]; discriminate.
    + destruct (live c i); [simpl in H; destruct H as [H|[]]; discriminate|].
      destruct (Nat.ltb (c_max c) (List.length (c_subs c) + 1)); simpl in H; destruct H as [H|[]]; try discriminate.
      inversion H. apply (K e); [assumption|now left].
    + destruct (live c i); [simpl in H; destruct H as [H|[]]; discriminate|].
      destruct (Nat.ltb (c_max c) (List.length (c_subs c) + 1)); simpl in H;
        [destruct H as [H|[]]; discriminate|destruct H as [H|[H|[]]]; discriminate].
    + destruct (live c i); [simpl in H; destruct H as [H|[]]; discriminate|].
      destruct (Nat.ltb (c_max c) (List.length (c_subs c) + 1)); simpl in H;
        [destruct H as [H|[]]; discriminate|].
      destruct H as [H|[H|[H|[]]]]; try discriminate. inversion H. apply (K (pe_err e)); [assumption|now left].
    + destruct (live c i); [simpl in H; destruct H as [H|[]]; discriminate|].
      destruct (Nat.ltb (c_max c) (List.length (c_subs c) + 1)); simpl in H;
        [destruct H as [H|[]]; discriminate|destruct H as [H|[H|[]]]; discriminate].
  - unfold handle_mutate in H.
    destruct f as [|e|[j|e]|]; simpl in H.
    + destruct H as [H|[]]; discriminate.
    + destruct (live c i); simpl in H; destruct H as [H|[]]; try discriminate.
      inversion H. apply (K e); [assumption|now left].
    + destruct (live c i); simpl in H; [destruct H as [H|[]]; discriminate|].
      destruct H as [H|[H|[H|[]]]]; discriminate.
    + destruct (live c i); simpl in H; [destruct H as [H|[]]; discriminate|].
      destruct H as [H|[H|[H|[]]]]; try discriminate. inversion H. apply (K (pe_err e)); [assumption|now left].
    + destruct (live c i); simpl in H; [destruct H as [H|[]]; discriminate|].
      destruct H as [H|[H|[H|[]]]]; discriminate.
  - destruct (live c i); simpl in H; [destruct H as [H|[]]; discriminate|contradiction].
  - destruct H as [H|[]]; discriminate.
  - destruct ok; simpl in H; [contradiction|destruct H as [H|[]]; discriminate].
  - destruct H as [H|[]]; discriminate.
Qed.

(** ** Whole scripts *)
Lemma serve_all_app : forall ms1 ms2 c,
  serve_all c (ms1 ++ ms2) =
  (fst (serve_all (fst (serve_all c ms1)) ms2), snd (serve_all c ms1) ++ snd (serve_all (fst (serve_all c ms1)) ms2)).
Proof.
  induction ms1 as [|m t IH]; intros ms2 c; simpl.
  - now destruct (serve_all c ms2).
  - rewrite IH. simpl. now rewrite app_assoc.
Qed.

(** (iv) over every script: a text other than the generic message and thunder's own client messages
    appears in an error envelope only if it is the SanitizedError() text of an error of the script that
    IS a SanitizedError. *)
Theorem only_sanitized_texts_reach_the_socket : forall ms c id s,
  In (CError id (EText s)) (snd (serve_all c ms)) ->
  exists e, In e (flat_map msg_errs ms) /\ safe e = true /\ e_text e = s.
Proof.
  induction ms as [|m t IH]; intros c id s H; simpl in H; [contradiction|].
  apply in_app_or in H as [H|H].
  - destruct (serve_text c m id s H) as [e [Hin [Hs [_ Ht]]]]. exists e. split; [simpl; apply in_or_app; now left|auto].
  - destruct (IH _ _ _ H) as [e [Hin Hr]]. exists e. split; [simpl; apply in_or_app; now right|auto].
Qed.

(** Every envelope written for an error that is not a SanitizedError carries the generic message. *)
Theorem unsafe_error_is_sent_as_generic : forall c id e,
  safe (pe_err e) = false -> live c id = false ->
  (List.length (c_subs c) < c_max c ->
   snd (serve c (MSubscribe id (FRuns (RErr e)))) = [CSub id; CError id EGeneric; CUnsub id]) /\
  snd (serve c (MMutate id (FRuns (RErr e)))) = [CSub id; CError id EGeneric; CUnsub id].
Proof.
  intros c id e Hs Hl. split.
  - intros Hm. unfold serve. simpl. unfold handle_subscribe. rewrite Hl.
    assert (E : Nat.ltb (c_max c) (List.length (c_subs c) + 1) = false) by (apply Nat.ltb_ge; lia).
    rewrite E. simpl. unfold san. now rewrite (san_err_unsafe _ Hs).
  - unfold serve. simpl. unfold handle_mutate. rewrite Hl. simpl. unfold san. now rewrite (san_err_unsafe _ Hs).
Qed.

(** An initially failing subscription: announced to the logger, one error envelope, closed; the
    connection is as it was before, so the id is free again. *)
Theorem failing_subscription_once_then_closed : forall c id e,
  live c id = false -> List.length (c_subs c) < c_max c ->
  serve c (MSubscribe id (FRuns (RErr e))) = (c, [CSub id; CError id (san e); CUnsub id]).
Proof.
  intros c id e Hl Hm. unfold serve. simpl. unfold handle_subscribe. rewrite Hl.
  assert (E : Nat.ltb (c_max c) (List.length (c_subs c) + 1) = false) by (apply Nat.ltb_ge; lia).
  now rewrite E.
Qed.

Lemma eqb_refl_true : forall s, String.eqb s s = true.
Proof. apply String.eqb_refl. Qed.

Corollary failing_subscription_one_error_envelope : forall c id e,
  live c id = false -> List.length (c_subs c) < c_max c ->
  count_ev (is_error id) (snd (serve c (MSubscribe id (FRuns (RErr e))))) = 1 /\
  live (fst (serve c (MSubscribe id (FRuns (RErr e))))) id = false.
Proof.
  intros c id e Hl Hm. rewrite (failing_subscription_once_then_closed c id e Hl Hm). simpl.
  unfold count_ev. simpl. rewrite eqb_refl_true. auto.
Qed.

(** ** Invariants *)
Lemma live_in : forall c id, live c id = true <-> In id (c_subs c).
Proof.
  intros c id. unfold live. rewrite existsb_exists. split.
  - intros [x [Hx E]]. apply String.eqb_eq in E. now subst.
  - intros H. exists id. split; auto. apply String.eqb_refl.
Qed.

Lemma live_false : forall c id, live c id = false <-> ~ In id (c_subs c).
Proof.
  intros c id. rewrite <- live_in. destruct (live c id); split; intros H; try congruence; auto.
Qed.

Lemma filter_length_le : forall {A} (p : A -> bool) l, List.length (filter p l) <= List.length l.
Proof. induction l as [|x t IH]; simpl; auto. destruct (p x); simpl; lia. Qed.

Lemma serve_wf : forall c m, conn_wf c -> conn_wf (fst (serve c m)) /\ c_max (fst (serve c m)) = c_max c.
Proof.
  intros c m [Hnd Hlen]. unfold serve.
  destruct (handle c m) as [[c' evs] [h|]] eqn:E.
  - destruct (handle_refusal_changes_nothing _ _ _ _ _ E) as [-> _]. simpl. split; [split|]; auto.
  - simpl. destruct m as [id f|id f|id|id|id ok|id]; simpl in E.
    + unfold handle_subscribe in E.
      destruct f as [|e|[j|e]|]; try discriminate;
        destruct (live c id) eqn:El; try discriminate;
        destruct (Nat.ltb (c_max c) (List.length (c_subs c) + 1)) eqn:Em; try discriminate;
        inversion E; subst; try (now (split; [split|]; auto)).
      apply Nat.ltb_ge in Em. split; [split|]; simpl; auto; [|lia].
      constructor; auto. now apply live_false.
    + unfold handle_mutate in E.
      destruct f as [|e|[j|e]|]; try discriminate; destruct (live c id); try discriminate;
        inversion E; subst; now (split; [split|]; auto).
    + destruct (live c id); inversion E; subst; [|split; [split|]; auto].
      split; [split|]; simpl; auto.
      * now apply NoDup_filter.
      * pose proof (filter_length_le (fun x => negb (String.eqb id x)) (c_subs c)). lia.
    + inversion E; subst. split; [split|]; auto.
    + destruct ok; inversion E; subst. split; [split|]; auto.
    + discriminate.
Qed.

(** Never more live subscriptions than the configured maximum, whatever the script. *)
Theorem live_subscriptions_bounded : forall ms c,
  conn_wf c -> conn_wf (fst (serve_all c ms)) /\ c_max (fst (serve_all c ms)) = c_max c.
Proof.
  induction ms as [|m t IH]; intros c H; simpl; [auto|].
  destruct (serve_wf c m H) as [H1 E1]. destruct (IH _ H1) as [H2 E2]. split; auto. congruence.
Qed.

(** The logger hears of every subscription's beginning and end: over any script, for every id,
    Subscribe calls + (was it live before) = Unsubscribe calls + (is it live after). *)
Definition b2n (b : bool) : nat := if b then 1 else 0.

Lemma count_app : forall p a b, count_ev p (a ++ b) = count_ev p a + count_ev p b.
Proof. intros. unfold count_ev. now rewrite filter_app, app_length. Qed.

Lemma live_add : forall c i id, live (add_sub c i) id = String.eqb id i || live c id.
Proof. reflexivity. Qed.

Lemma live_del_same : forall c id, live (del_sub c id) id = false.
Proof.
  intros c id. apply live_false. simpl. intros H. apply filter_In in H as [_ H].
  rewrite String.eqb_refl in H. discriminate.
Qed.

Lemma live_del_other : forall c i id, String.eqb i id = false -> live (del_sub c i) id = live c id.
Proof.
  intros c i id Hne. unfold live, del_sub. simpl.
  induction (c_subs c) as [|x t IH]; simpl; auto.
  destruct (String.eqb i x) eqn:Ex; simpl.
  - apply String.eqb_eq in Ex. subst x. rewrite String.eqb_sym in Hne. now rewrite Hne.
  - now rewrite IH.
Qed.

Lemma serve_balance : forall c m id, conn_wf c ->
  count_ev (is_sub id) (snd (serve c m)) + b2n (live c id) =
  count_ev (is_unsub id) (snd (serve c m)) + b2n (live (fst (serve c m)) id).
Proof.
  intros c m id Hwf. unfold serve.
  destruct (handle c m) as [[c' evs] [h|]] eqn:E.
  - destruct (handle_refusal_changes_nothing _ _ _ _ _ E) as [-> ->]. reflexivity.
  - cbn [fst snd]. destruct m as [i f|i f|i|i|i ok|i]; simpl in E.
    + unfold handle_subscribe in E.
      destruct f as [|e|[j|e]|]; try discriminate;
        destruct (live c i) eqn:El; try discriminate;
        destruct (Nat.ltb (c_max c) (List.length (c_subs c) + 1)) eqn:Em; try discriminate;
        inversion E; subst; unfold count_ev; simpl.
      * rewrite live_add. rewrite (String.eqb_sym id i). destruct (String.eqb i id) eqn:Ei; simpl; [|reflexivity].
        apply String.eqb_eq in Ei. subst. rewrite El. reflexivity.
      * destruct (String.eqb i id); simpl; lia.
      * destruct (String.eqb i id); simpl; lia.
    + unfold handle_mutate in E.
      destruct f as [|e|[j|e]|]; try discriminate; destruct (live c i); try discriminate;
        inversion E; subst; unfold count_ev; simpl; destruct (String.eqb i id); simpl; lia.
    + destruct (live c i) eqn:El; inversion E; subst; unfold count_ev; simpl; [|reflexivity].
      destruct (String.eqb i id) eqn:Ei; simpl.
      * apply String.eqb_eq in Ei. subst. rewrite El, live_del_same. reflexivity.
      * now rewrite (live_del_other c i id Ei).
    + inversion E; subst. reflexivity.
    + destruct ok; inversion E; subst. reflexivity.
    + discriminate.
Qed.

Theorem logger_balanced : forall ms c id, conn_wf c ->
  count_ev (is_sub id) (snd (serve_all c ms)) + b2n (live c id) =
  count_ev (is_unsub id) (snd (serve_all c ms)) + b2n (live (fst (serve_all c ms)) id).
Proof.
  induction ms as [|m t IH]; intros c id H; simpl; [reflexivity|].
  rewrite !count_app. pose proof (serve_balance c m id H) as B.
  destruct (serve_wf c m H) as [H1 _]. pose proof (IH _ id H1) as B'. lia.
Qed.

(** When the socket goes away every subscription still live is reported as ended: afterwards the
    logger has heard as many Unsubscribe as Subscribe calls for every id. *)
Lemma count_unsub_close_all : forall c id, NoDup (c_subs c) ->
  count_ev (is_unsub id) (snd (close_all c)) = b2n (live c id).
Proof.
  intros c id. unfold close_all, live, count_ev. simpl. induction (c_subs c) as [|x t IH]; intros Hnd; simpl; auto.
  inversion Hnd as [|? ? Hx Ht]; subst. rewrite (String.eqb_sym id x).
  destruct (String.eqb x id) eqn:Ex; simpl.
  - apply String.eqb_eq in Ex. subst x. rewrite (IH Ht).
    assert (existsb (String.eqb id) t = false).
    { destruct (existsb (String.eqb id) t) eqn:E; auto. apply existsb_exists in E as [y [Hy Ey]].
      apply String.eqb_eq in Ey. subst. contradiction. }
    now rewrite H.
  - now apply IH.
Qed.

Theorem every_subscription_ends_in_the_log : forall ms c id,
  c_subs c = [] ->
  let r := serve_all c ms in
  count_ev (is_sub id) (snd r) = count_ev (is_unsub id) (snd r ++ snd (close_all (fst r))).
Proof.
  intros ms c id Hc r. assert (Hwf : conn_wf c) by (split; rewrite Hc; [constructor|simpl; lia]).
  pose proof (logger_balanced ms c id Hwf) as B. fold r in B.
  destruct (live_subscriptions_bounded ms c Hwf) as [[Hnd _] _]. fold r in Hnd.
  rewrite count_app, (count_unsub_close_all _ id Hnd).
  assert (live c id = false) by (apply live_false; rewrite Hc; auto).
  rewrite H in B. simpl in B. lia.
Qed.

(** ** Composition with the executor (C16 (i) + (iv)): a subscription to a query with a failing needed
    resolver, executed under any schedule and any assignment of execution modes. *)
Definition executes (S : schema) (fuel rf : nat) (sched : list nat) (q : selset) (root : value) (r : result) : Prop :=
  init fixed S q root = inr (match r with RErr e => e | ROk _ => mk_perr err_invalid [] end) /\ (exists e, r = RErr e) \/
  exists st0, init fixed S q root = inl st0 /\ complete (run_sched fixed S fuel sched st0) = true /\
              finish rf (run_sched fixed S fuel sched st0) = Some r.

Lemma err_eqb_eq : forall a b, err_eqb a b = true -> a = b.
Proof.
  intros [ca ta] [cb tb] H. unfold err_eqb in H. simpl in H. apply andb_prop in H as [Hc Ht].
  apply String.eqb_eq in Ht. subst. destruct ca, cb; try discriminate; reflexivity.
Qed.

Lemma perr_sim_san : forall e f, perr_sim e f = true -> san e = san f.
Proof.
  intros e f H. unfold perr_sim in H. apply andb_prop in H as [H _]. apply err_eqb_eq in H.
  unfold san. now rewrite H.
Qed.

Theorem failing_query_over_the_socket : forall S fuel rf q root sched r c id,
  needed_failures S fuel q root <> [] -> good (needed_failures S fuel q root) ->
  executes S fuel rf sched q root r ->
  live c id = false -> List.length (c_subs c) < c_max c ->
  exists f, In f (needed_failures S fuel q root) /\
    serve c (MSubscribe id (FRuns r)) = (c, [CSub id; CError id (san f); CUnsub id]) /\
    (safe (pe_err f) = false -> san f = EGeneric).
Proof.
  intros S fuel rf q root sched r c id Hne Hgood Hex Hl Hm.
  destruct (ProofsFailMain.failing_resolver_fails_query S fuel rf q root sched Hne Hgood)
    as [[e [f [Hi [Hf Hs]]]]|[st0 [Hi Hrun]]].
  - destruct Hex as [[Hi' [e' ->]]|[st0 [Hi' _]]]; [|congruence].
    rewrite Hi in Hi'. inversion Hi'; subst e'. exists f. split; auto.
    rewrite (failing_subscription_once_then_closed c id e Hl Hm), (perr_sim_san _ _ Hs).
    split; auto. intros Hu. unfold san. now apply san_err_unsafe.
  - destruct Hex as [[Hi' _]|[st0' [Hi' [Hc Hfin]]]]; [congruence|].
    rewrite Hi in Hi'. inversion Hi'; subst st0'.
    destruct (Hrun Hc) as [e [f [Hfin' [Hf Hs]]]]. rewrite Hfin in Hfin'. inversion Hfin'; subst r.
    exists f. split; auto.
    rewrite (failing_subscription_once_then_closed c id e Hl Hm), (perr_sim_san _ _ Hs).
    split; auto. intros Hu. unfold san. now apply san_err_unsafe.
Qed.
