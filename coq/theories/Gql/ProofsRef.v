(** The forest of work units computes the reference semantics: for every execution-mode assignment
    (plain / expensive / batch / fallback / split into n), the nodes filled by a unit and by everything
    it schedules are exactly the nodes of the JSON that [eval_ref] gives for the unit's sources. *)
From Coq Require Import List String Bool Arith Permutation Lia.
From Thunder Require Import Lib.Json Gql.Types Gql.Value Gql.Query Gql.Ref Gql.Exec
  Gql.ProofsSched Gql.ProofsSplit Gql.ProofsFlatten.
Import ListNotations.
Open Scope list_scope.

(** * The nodes of a JSON value placed at a path *)
Fixpoint ent (p : path) (j : json) {struct j} : heap :=
  match j with
  | JArr l =>
      (p, NList (List.length l)) ::
      (fix go (l : list json) (i : nat) : heap :=
         match l with
         | [] => []
         | x :: t => ent (p ++ [PIdx i]) x ++ go t (Datatypes.S i)
         end) l 0
  | JObj l =>
      (p, NObj (map fst l)) ::
      (fix go (l : list (string * json)) : heap :=
         match l with
         | [] => []
         | kv :: t => ent (p ++ [PKey (fst kv)]) (snd kv) ++ go t
         end) l
  | JNull => [(p, NNull)]
  | _ => [(p, NVal j)]
  end.

Definition ent_at (jq : json * path) : heap := ent (snd jq) (fst jq).

Lemma ent_arr : forall p l,
  ent p (JArr l) = (p, NList (List.length l)) :: flat_map ent_at (index_items p l 0).
Proof.
  intros p l. simpl. f_equal. generalize 0. induction l as [|x t IH]; intros i; simpl; auto.
  unfold ent_at at 1. simpl. now rewrite IH.
Qed.

Lemma ent_obj : forall p l,
  ent p (JObj l) = (p, NObj (map fst l)) :: flat_map (fun kv => ent (p ++ [PKey (fst kv)]) (snd kv)) l.
Proof.
  intros p l. reflexivity.
Qed.

Lemma ent_leaf : forall p l, ent p (leaf_json l) = [(p, NVal (leaf_json l))].
Proof. intros p [b|z|s]; reflexivity. Qed.

(** * List helpers *)
Lemma flat_map_nil_inv : forall {A B} (f : A -> list B) l, flat_map f l = [] -> forall x, In x l -> f x = [].
Proof.
  induction l as [|a t IH]; simpl; intros H x Hin; [contradiction|].
  apply app_eq_nil in H as [H1 H2]. destruct Hin as [->|Hin]; auto.
Qed.

Lemma flat_map_nil_intro : forall {A B} (f : A -> list B) l, (forall x, In x l -> f x = []) -> flat_map f l = [].
Proof.
  induction l as [|a t IH]; simpl; intros H; auto. rewrite (H a) by (now left). simpl. apply IH. intros x Hx. apply H. now right.
Qed.

Lemma flat_map_perm : forall {A B} (f : A -> list B) l1 l2,
  Permutation l1 l2 -> Permutation (flat_map f l1) (flat_map f l2).
Proof.
  intros A B f l1 l2 H. induction H; simpl.
  - constructor.
  - now apply Permutation_app_head.
  - rewrite !app_assoc. apply Permutation_app_tail. apply Permutation_app_comm.
  - eapply perm_trans; eauto.
Qed.

Lemma flat_map_perm_ext : forall {A B} (f g : A -> list B) l,
  (forall x, In x l -> Permutation (f x) (g x)) -> Permutation (flat_map f l) (flat_map g l).
Proof.
  induction l as [|a t IH]; simpl; intros H; [constructor|].
  apply Permutation_app; [apply H; now left|apply IH; auto].
Qed.

Lemma flat_map_app_perm : forall {A B} (f g : A -> list B) l,
  Permutation (flat_map (fun x => f x ++ g x) l) (flat_map f l ++ flat_map g l).
Proof.
  induction l as [|a t IH]; simpl; [constructor|].
  rewrite <- !app_assoc. apply Permutation_app_head.
  eapply perm_trans; [apply Permutation_app_head; exact IH|].
  rewrite !app_assoc. apply Permutation_app_tail. apply Permutation_app_comm.
Qed.

Lemma flat_map_swap : forall {A B C} (f : A -> B -> list C) la lb,
  Permutation (flat_map (fun a => flat_map (fun b => f a b) lb) la)
              (flat_map (fun b => flat_map (fun a => f a b) la) lb).
Proof.
  induction la as [|a ta IH]; intros lb; simpl.
  - rewrite flat_map_nil_intro; auto.
  - eapply perm_trans; [apply Permutation_app_head; apply IH|].
    apply Permutation_sym. apply (flat_map_app_perm (fun b => f a b) (fun b => flat_map (fun a0 => f a0 b) ta)).
Qed.

Lemma filter_partition_perm : forall {A} (f : A -> bool) l,
  Permutation l (filter f l ++ filter (fun x => negb (f x)) l).
Proof.
  induction l as [|a t IH]; simpl; [constructor|].
  destruct (f a); simpl.
  - now apply perm_skip.
  - eapply perm_trans; [apply perm_skip; exact IH|]. apply Permutation_middle.
Qed.

Lemma flat_map_map : forall {A B C} (f : B -> list C) (g : A -> B) l,
  flat_map f (map g l) = flat_map (fun x => f (g x)) l.
Proof. induction l; simpl; auto. now rewrite IHl. Qed.

Lemma flat_map_singleton : forall {A B} (f : A -> B) l, flat_map (fun x => [f x]) l = map f l.
Proof. induction l; simpl; auto. Qed.

Lemma NoDup_app_iff_local : forall (acc : list string) m,
  NoDup acc -> existsb (String.eqb m) acc = false -> NoDup (acc ++ [m]).
Proof.
  induction acc as [|a t IH]; simpl; intros m Hnd He.
  - constructor; [intros []|constructor].
  - inversion Hnd as [|? ? Hna Hnt]; subst. apply orb_false_elim in He as [E1 E2]. constructor.
    + intros Hin. apply in_app_or in Hin as [Hin|Hin]; [contradiction|].
      destruct Hin as [Hin|[]]. subst. rewrite String.eqb_refl in E1. discriminate.
    + apply IH; auto.
Qed.

Section RefProof.
  Variable S : schema.
  Variable fuel : nat.

  Notation ex := (exec_unit fixed S).
  Notation Pf := (P fixed S fuel).

  (** An execution result whose own failures and whose units' forests raise nothing, filling [H]. *)
  Definition xtotal (x : xres) (H : heap) : Prop :=
    exists rs, Forall2 Pf (x_units x) rs /\ errs rs = [] /\ x_errs x = [] /\ Permutation H (x_heap x ++ heaps rs).

  Lemma xtotal_empty : xtotal xempty [].
  Proof. exists []. repeat split; auto. constructor. Qed.

  Lemma xtotal_heap : forall h, xtotal (mk_xres h [] []) h.
  Proof. intros h. exists []. repeat split; auto; simpl. constructor. unfold heaps; simpl. now rewrite app_nil_r. Qed.

  Lemma xtotal_app : forall a b Ha Hb, xtotal a Ha -> xtotal b Hb -> xtotal (xapp a b) (Ha ++ Hb).
  Proof.
    intros a b Ha Hb [ra [Fa [Ea [Xa Pa]]]] [rb [Fb [Eb [Xb Pb]]]].
    exists (ra ++ rb). simpl. repeat split.
    - now apply Forall2_app.
    - rewrite errs_app, Ea, Eb. reflexivity.
    - rewrite Xa, Xb. reflexivity.
    - rewrite heaps_app. eapply perm_trans; [apply Permutation_app; eassumption|].
      rewrite <- !app_assoc. apply Permutation_app_head.
      rewrite !app_assoc. apply Permutation_app_tail. apply Permutation_app_comm.
  Qed.

  Lemma xtotal_perm : forall x H H', xtotal x H -> Permutation H' H -> xtotal x H'.
  Proof. intros x H H' [rs [F [E [X Pm]]]] Hp. exists rs. repeat split; auto. eapply perm_trans; eauto. Qed.

  Lemma xtotal_concat : forall {A} (f : A -> xres) (g : A -> heap) l,
    (forall a, In a l -> xtotal (f a) (g a)) -> xtotal (xconcat (map f l)) (flat_map g l).
  Proof.
    induction l as [|a t IH]; simpl; intros H; [apply xtotal_empty|].
    apply xtotal_app; [apply H; now left|apply IH; auto].
  Qed.

  (** Units to schedule whose forests fill [H] and raise nothing. *)
  Lemma xtotal_units : forall us (g : wunit -> heap),
    (forall u, In u us -> exists H, xtotal (ex fuel u) H /\ Permutation H (g u)) ->
    xtotal (mk_xres [] us []) (flat_map g us).
  Proof.
    induction us as [|u t IH]; intros g Hu; simpl.
    - apply xtotal_empty.
    - destruct (Hu u (or_introl eq_refl)) as [H [[rs [F [E [X Pm]]]] Hg]].
      destruct (IH g (fun v Hv => Hu v (or_intror Hv))) as [rt [Ft [Et [_ Pt]]]].
      exists ((x_heap (ex fuel u) ++ heaps rs, x_errs (ex fuel u) ++ errs rs) :: rt). simpl in *.
      repeat split.
      + constructor; [constructor; exact F|exact Ft].
      + change (errs ((x_heap (ex fuel u) ++ heaps rs, x_errs (ex fuel u) ++ errs rs) :: rt))
          with ((x_errs (ex fuel u) ++ errs rs) ++ errs rt).
        rewrite X, E, Et. reflexivity.
      + change (heaps ((x_heap (ex fuel u) ++ heaps rs, x_errs (ex fuel u) ++ errs rs) :: rt))
          with ((x_heap (ex fuel u) ++ heaps rs) ++ heaps rt).
        apply Permutation_app; [|exact Pt].
        eapply perm_trans; [apply Permutation_sym; exact Hg|exact Pm].
  Qed.

  (** * Reference result of one (source, destination) pair of a unit *)
  Definition field_ref (fr : nat) (f : field) (h : selh) (sub : option selset) (it : value * path) : eres :=
    match fst it with
    | VObj _ fields =>
        match lookup (s_key h) fields with
        | Some (OOk v) => eval_type S (eval_obj S fr) (f_type f) sub v (snd it)
        | Some (OFail e) => (JNull, [nest (snd it) e])
        | None => (JNull, [nest (snd it) err_invalid])
        end
    | _ => (JNull, [nest (snd it) err_invalid])
    end.

  Definition unit_ref (fr : nat) (u : wunit) (it : value * path) : eres :=
    field_ref fr (u_field u) (u_sel u) (u_sub u) it.

  Definition type_ref (fr : nat) (t : gtype) (sub : option selset) (it : value * path) : eres :=
    eval_type S (eval_obj S fr) t sub (fst it) (snd it).

  (** Running a unit (at any sufficient fuel) fills the nodes of the reference results of its pairs. *)
  Definition U (fr : nat) : Prop :=
    forall mf u, Datatypes.S fr <= mf -> Datatypes.S fr <= fuel ->
      (forall it, In it (u_items u) -> snd (unit_ref fr u it) = []) ->
      exists H, xtotal (ex mf u) H /\
                Permutation H (flat_map (fun it => ent (snd it) (fst (unit_ref fr u it))) (u_items u)).

  Definition R (fr : nat) : Prop :=
    forall mf t sub items, fr <= mf -> fr <= fuel ->
      (forall it, In it items -> snd (type_ref fr t sub it) = []) ->
      exists x H, resolve fixed S (ex mf) t sub items = inl x /\ xtotal x H /\
                  Permutation H (flat_map (fun it => ent (snd it) (fst (type_ref fr t sub it))) items).

  (** ** Lists *)
  Lemma index_items_length : forall {A} p (l : list A) i, List.length (index_items p l i) = List.length l.
  Proof. induction l; simpl; intros; auto. Qed.

  Lemma ent_index_map : forall (g : value * path -> eres) p l i,
    flat_map ent_at (index_items p (map (fun it => fst (g it)) (index_items p l i)) i)
    = flat_map (fun it => ent (snd it) (fst (g it))) (index_items p l i).
  Proof.
    intros g p l. induction l as [|x t IH]; intros i; simpl; auto.
    unfold ent_at at 1. simpl. now rewrite IH.
  Qed.

  Lemma flatten_lists_spec : forall eo t' sub items,
    (forall it, In it items -> snd (eval_type S eo (TList t') sub (fst it) (snd it)) = []) ->
    (forall it, In it (snd (flatten_lists items)) -> snd (eval_type S eo t' sub (fst it) (snd it)) = []) /\
    Permutation
      (fst (flatten_lists items) ++
       flat_map (fun it => ent (snd it) (fst (eval_type S eo t' sub (fst it) (snd it)))) (snd (flatten_lists items)))
      (flat_map (fun it => ent (snd it) (fst (eval_type S eo (TList t') sub (fst it) (snd it)))) items).
  Proof.
    intros eo t' sub. induction items as [|[v p] t IH]; intros Hp.
    - simpl. split; [intros it []|constructor].
    - destruct IH as [IH1 IH2]; [intros it Hit; apply Hp; now right|].
      pose proof (Hp (v, p) (or_introl eq_refl)) as Hv. simpl in Hv.
      set (g := fun it : value * path => eval_type S eo t' sub (fst it) (snd it)) in *.
      destruct v as [| lf | l | tn fs]; simpl flatten_lists; cbn [fst snd].
      1,2,4: (split; [exact IH1|]; simpl; apply perm_skip; exact IH2).
      split.
      + intros it Hit. apply in_app_or in Hit as [Hit|Hit]; [|now apply IH1].
        cbn [snd] in Hv. rewrite flat_map_map in Hv.
        apply (flat_map_nil_inv (fun it => snd (g it)) _ Hv it Hit).
      + cbn [flat_map]. cbn [eval_type fst snd]. fold g.
        rewrite ent_arr. rewrite !map_length, index_items_length.
        rewrite map_map. rewrite (ent_index_map g p l 0).
        simpl. apply perm_skip. rewrite flat_map_app.
        eapply perm_trans; [|apply Permutation_app_head; exact IH2].
        rewrite !app_assoc. apply Permutation_app_tail. apply Permutation_app_comm.
  Qed.

  (** ** Objects *)
  Lemma check_sels_fixed : forall l, Forall nodirs l -> check_sels fixed l = Ok l.
  Proof.
    induction l as [|it t IH]; simpl; intros H; auto. inversion H; subst.
    rewrite (IH H3). destruct (String.eqb (s_name (fst it)) "__typename"); auto.
    unfold nodirs in H2. rewrite H2. reflexivity.
  Qed.

  Definition fields_of (v : value) : list (string * outcome value) :=
    match v with VObj _ fs => fs | _ => [] end.

  Definition is_obj (x : value * path) : Prop := exists tn fs, fst x = VObj tn fs.

  Lemma eval_field_unit : forall fr f it o (x : value * path) b,
    is_obj x ->
    String.eqb (s_name (fst it)) "__typename" = false ->
    find_field (s_name (fst it)) (o_fields o) = Some f ->
    let u := mk_unit f (fst it) (snd it) [] b (o_name o) in
    let x' := (fst x, snd x ++ [PKey (s_alias (fst it))]) in
    eval_field S false (eval_obj S fr) o (fields_of (fst x)) (snd x) it
    = ((s_alias (fst it), fst (unit_ref fr u x')), snd (unit_ref fr u x')).
  Proof.
    intros fr f it o x b [tn [fs Hx]] Hn Hf u x'. unfold eval_field. cbn [negb andb]. rewrite Hn, Hf.
    unfold unit_ref, field_ref, x'. cbn [fst snd u_field u_sel u_sub u]. rewrite Hx. cbn [fields_of].
    destruct (lookup (s_key (fst it)) fs) as [[v|e]|]; reflexivity.
  Qed.

  Lemma split_par_same : forall u v, In v (split_par u) ->
    u_field v = u_field u /\ u_sel v = u_sel u /\ u_sub v = u_sub u.
  Proof.
    intros u v H. unfold split_par in H. destruct (f_par (u_field u)).
    - apply split_to_n_same in H. tauto.
    - destruct H as [<-|[]]. auto.
  Qed.

  Lemma unit_ref_same : forall fr u v, u_field v = u_field u -> u_sel v = u_sel u -> u_sub v = u_sub u ->
    forall it, unit_ref fr v it = unit_ref fr u it.
  Proof. intros fr u v H1 H2 H3 it. unfold unit_ref. now rewrite H1, H2, H3. Qed.

  Lemma flat_map_flat_map : forall {A B C} (f : B -> list C) (g : A -> list B) l,
    flat_map f (flat_map g l) = flat_map (fun x => flat_map f (g x)) l.
  Proof. induction l; simpl; auto. rewrite flat_map_app. now rewrite IHl. Qed.

  (** Units obtained by regrouping the pairs of [u] (same field and selection) fill what [u] fills. *)
  Lemma pieces_ok : forall fr u pieces,
    U fr -> Datatypes.S fr <= fuel ->
    (forall v, In v pieces -> u_field v = u_field u /\ u_sel v = u_sel u /\ u_sub v = u_sub u) ->
    Permutation (flat_map u_items pieces) (u_items u) ->
    (forall it, In it (u_items u) -> snd (unit_ref fr u it) = []) ->
    xtotal (mk_xres [] pieces [])
           (flat_map (fun it => ent (snd it) (fst (unit_ref fr u it))) (u_items u)).
  Proof.
    intros fr u pieces HU Hf Hsame Hperm Hprem.
    eapply xtotal_perm.
    - apply (xtotal_units pieces (fun v => flat_map (fun it => ent (snd it) (fst (unit_ref fr u it))) (u_items v))).
      intros v Hv. destruct (Hsame v Hv) as [E1 [E2 E3]].
      destruct (HU fuel v Hf Hf) as [H [Hx Hp]].
      + intros it Hit. rewrite (unit_ref_same fr u v E1 E2 E3).
        apply Hprem. eapply Permutation_in; [exact Hperm|]. apply in_flat_map. eauto.
      + exists H. split; auto. eapply perm_trans; [exact Hp|].
        apply flat_map_perm_ext. intros it _. now rewrite (unit_ref_same fr u v E1 E2 E3).
    - rewrite <- flat_map_flat_map. apply flat_map_perm. apply Permutation_sym. exact Hperm.
  Qed.

  Lemma per_sel_ok : forall fr mf o nonnil sync it,
    U fr -> Datatypes.S fr <= mf -> Datatypes.S fr <= fuel ->
    (forall x, In x nonnil -> is_obj x) ->
    (forall x, In x nonnil ->
       snd (eval_field S false (eval_obj S fr) o (fields_of (fst x)) (snd x) it) = []) ->
    xtotal (per_sel (ex mf) o nonnil sync it)
           (flat_map (fun x => ent (snd x ++ [PKey (s_alias (fst it))])
                                   (snd (fst (eval_field S false (eval_obj S fr) o (fields_of (fst x)) (snd x) it))))
                     nonnil).
  Proof.
    intros fr mf o nonnil sync it HU Hmf Hfu Hobj Hprem. unfold per_sel.
    destruct (String.eqb (s_name (fst it)) "__typename") eqn:Et.
    - eapply xtotal_perm; [apply xtotal_heap|].
      rewrite map_map. cbn [snd fst].
      assert (E : forall x, In x nonnil ->
                ent (snd x ++ [PKey (s_alias (fst it))])
                    (snd (fst (eval_field S false (eval_obj S fr) o (fields_of (fst x)) (snd x) it)))
                = [(snd x ++ [PKey (s_alias (fst it))], NVal (JStr (o_name o)))]).
      { intros x _. unfold eval_field. cbn [negb andb]. rewrite Et. reflexivity. }
      rewrite <- flat_map_singleton. apply flat_map_perm_ext. intros x Hx. cbv beta.
      match goal with |- Permutation ?a ?b => replace a with b by (symmetry; exact (E x Hx)) end. apply Permutation_refl.
    - destruct (find_field (s_name (fst it)) (o_fields o)) as [f|] eqn:Ef.
      2:{ destruct nonnil as [|x t].
          - simpl. apply xtotal_empty.
          - exfalso. pose proof (Hprem x (or_introl eq_refl)) as Hx.
            unfold eval_field in Hx. cbn [negb andb] in Hx. rewrite Et, Ef in Hx. simpl in Hx.
            unfold nest in Hx. destruct (safe err_invalid); discriminate. }
      set (dests := map (fun x : value * path => (fst x, snd x ++ [PKey (s_alias (fst it))])) nonnil).
      (* reference results through the unit *)
      assert (Hd : forall b x, In x nonnil ->
                eval_field S false (eval_obj S fr) o (fields_of (fst x)) (snd x) it
                = ((s_alias (fst it), fst (unit_ref fr (mk_unit f (fst it) (snd it) dests b (o_name o))
                                                   (fst x, snd x ++ [PKey (s_alias (fst it))]))),
                   snd (unit_ref fr (mk_unit f (fst it) (snd it) dests b (o_name o))
                                 (fst x, snd x ++ [PKey (s_alias (fst it))])))).
      { intros b x Hx. exact (eval_field_unit fr f it o x b (Hobj x Hx) Et Ef). }
      assert (Hpr : forall b it', In it' dests ->
                snd (unit_ref fr (mk_unit f (fst it) (snd it) dests b (o_name o)) it') = []).
      { intros b it' Hit. apply in_map_iff in Hit as [x [<- Hx]].
        pose proof (Hprem x Hx) as Hs.
        pose proof (f_equal (fun r : (string * json) * list perr => snd r) (Hd b x Hx)) as G. cbn [fst snd] in G.
        cbn [fst snd]. rewrite <- G. exact Hs. }
      assert (Htarget : forall b,
                Permutation
                  (flat_map (fun it' => ent (snd it') (fst (unit_ref fr (mk_unit f (fst it) (snd it) dests b (o_name o)) it'))) dests)
                  (flat_map (fun x => ent (snd x ++ [PKey (s_alias (fst it))])
                                          (snd (fst (eval_field S false (eval_obj S fr) o (fields_of (fst x)) (snd x) it))))
                            nonnil)).
      { intros b. unfold dests. rewrite flat_map_map. apply flat_map_perm_ext. intros x Hx. cbv beta.
        pose proof (f_equal (fun r : (string * json) * list perr => snd (fst r)) (Hd b x Hx)) as G. cbn [fst snd] in G.
        match goal with |- Permutation ?a ?b => replace b with a; [apply Permutation_refl|] end.
        cbn [fst snd]. f_equal. symmetry. exact G. }
      assert (Hsync : forall b,
                xtotal (ex mf (mk_unit f (fst it) (snd it) dests b (o_name o)))
                  (flat_map (fun x => ent (snd x ++ [PKey (s_alias (fst it))])
                                          (snd (fst (eval_field S false (eval_obj S fr) o (fields_of (fst x)) (snd x) it))))
                            nonnil)).
      { intros b. destruct (HU mf (mk_unit f (fst it) (snd it) dests b (o_name o)) Hmf Hfu (Hpr b)) as [H [Hx Hp]].
        eapply xtotal_perm; [exact Hx|]. eapply perm_trans; [apply Permutation_sym; apply Htarget|].
        apply Permutation_sym. exact Hp. }
      assert (Hasync : forall (b : bool) pieces,
                (forall v, In v pieces ->
                   u_field v = f /\ u_sel v = fst it /\ u_sub v = snd it) ->
                Permutation (flat_map u_items pieces) dests ->
                xtotal (mk_xres [] pieces [])
                  (flat_map (fun x => ent (snd x ++ [PKey (s_alias (fst it))])
                                          (snd (fst (eval_field S false (eval_obj S fr) o (fields_of (fst x)) (snd x) it))))
                            nonnil)).
      { intros b pieces Hsame Hperm.
        eapply xtotal_perm;
          [apply (pieces_ok fr (mk_unit f (fst it) (snd it) dests b (o_name o)) pieces HU Hfu Hsame Hperm (Hpr b))|].
        apply Permutation_sym. apply Htarget. }
      destruct sync; [apply Hsync|].
      destruct (should_use_batch f).
      { apply (Hasync true).
        - intros v Hv. apply split_par_same in Hv. exact Hv.
        - apply split_par_pairs. }
      destruct (f_expensive f).
      { apply (Hasync false).
        - intros v Hv. apply split_work_unit_same in Hv. tauto.
        - rewrite split_work_unit_items. apply Permutation_refl. }
      destruct (f_external f).
      { apply (Hasync false).
        - intros v Hv. apply split_par_same in Hv. exact Hv.
        - apply split_par_pairs. }
      apply Hsync.
  Qed.

  Lemma eval_field_alias : forall top eo o fields p it,
    fst (fst (eval_field S top eo o fields p it)) = s_alias (fst it).
  Proof.
    intros. unfold eval_field.
    destruct (negb top && String.eqb (s_name (fst it)) "__typename"); [reflexivity|].
    destruct (find_field (s_name (fst it)) (o_fields o)); [|reflexivity].
    destruct (lookup (s_key (fst it)) fields) as [[v|e]|]; reflexivity.
  Qed.

  Lemma is_nil_obj : forall x : value * path, negb (is_nil (fst x)) = true -> is_obj x.
  Proof. intros [v p] H. destruct v; simpl in H; try discriminate. unfold is_obj. simpl. eauto. Qed.

  Lemma resolve_object_ok : forall fr mf oname s items,
    U fr -> Datatypes.S fr <= mf -> Datatypes.S fr <= fuel -> items <> [] ->
    (forall it, In it items -> snd (eval_obj S (Datatypes.S fr) oname s (fst it) (snd it)) = []) ->
    exists x H, resolve_object fixed S (ex mf) oname s items = inl x /\ xtotal x H /\
      Permutation H (flat_map (fun it => ent (snd it) (fst (eval_obj S (Datatypes.S fr) oname s (fst it) (snd it)))) items).
  Proof.
    intros fr mf oname s items HU Hmf Hfu Hne Hprem.
    destruct items as [|it0 rest]; [congruence|]. clear Hne.
    pose proof (Hprem it0 (or_introl eq_refl)) as H0. cbn [eval_obj] in H0.
    destruct (flatten fixed s) as [sels|e] eqn:Efl; [|discriminate].
    destruct (find_object oname (s_objects S)) as [o|] eqn:Eo; [|discriminate]. clear H0.
    set (items := it0 :: rest) in *.
    set (all := sels ++ key_item o).
    (* the reference result of one item *)
    assert (Hev : forall v p,
              eval_obj S (Datatypes.S fr) oname s v p =
              match v with
              | VObj _ fields =>
                  (JObj (map fst (map (eval_field S false (eval_obj S fr) o fields p) all)),
                   flat_map snd (map (eval_field S false (eval_obj S fr) o fields p) all))
              | _ => (JNull, [])
              end).
    { intros v p. cbn [eval_obj]. rewrite Efl, Eo. destruct v; reflexivity. }
    unfold resolve_object. rewrite Efl, Eo. rewrite (check_sels_fixed sels (flatten_nodirs s sels Efl)).
    set (nonnil := filter (fun it : value * path => negb (is_nil (fst it))) items).
    set (nils := filter (fun it : value * path => is_nil (fst it)) items).
    fold all.
    assert (Hobj : forall x, In x nonnil -> is_obj x).
    { intros x Hx. apply filter_In in Hx as [_ Hx]. now apply is_nil_obj. }
    assert (Hfield : forall it x, In it all -> In x nonnil ->
              snd (eval_field S false (eval_obj S fr) o (fields_of (fst x)) (snd x) it) = []).
    { intros it x Hit Hx. pose proof Hx as Hx'. apply filter_In in Hx' as [Hin _].
      pose proof (Hprem x Hin) as Hp. rewrite Hev in Hp.
      destruct (Hobj x Hx) as [tn [fs Efs]]. rewrite Efs in Hp |- *. cbn [snd fields_of] in *.
      rewrite flat_map_map in Hp.
      apply (flat_map_nil_inv (fun it => snd (eval_field S false (eval_obj S fr) o fs (snd x) it)) all Hp it Hit). }
    set (g := fun it : item =>
                flat_map (fun x : value * path =>
                            ent (snd x ++ [PKey (s_alias (fst it))])
                                (snd (fst (eval_field S false (eval_obj S fr) o (fields_of (fst x)) (snd x) it))))
                         nonnil).
    set (hp := map (fun it : value * path => (snd it, NNull)) nils ++
               map (fun it : value * path => (snd it, NObj (map (fun s0 : item => s_alias (fst s0)) all))) nonnil).
    eexists. exists (hp ++ (flat_map g sels ++ flat_map g (key_item o))).
    split; [reflexivity|]. split.
    - apply xtotal_app; [apply xtotal_heap|].
      apply xtotal_app; apply xtotal_concat; intros it Hit;
        apply (per_sel_ok fr mf o nonnil _ it HU Hmf Hfu Hobj);
        intros x Hx; apply Hfield; auto; unfold all; apply in_or_app; auto.
    - rewrite <- flat_map_app. fold all.
      (* split the items *)
      eapply perm_trans;
        [|apply flat_map_perm; apply Permutation_sym;
          apply (filter_partition_perm (fun it : value * path => is_nil (fst it)) items)].
      fold nils. fold nonnil. rewrite flat_map_app. unfold hp. rewrite <- app_assoc.
      apply Permutation_app.
      + (* nil sources *)
        rewrite <- flat_map_singleton. apply flat_map_perm_ext. intros x Hx. cbv beta.
        apply filter_In in Hx as [_ Hx]. rewrite Hev. destruct (fst x); simpl in Hx; try discriminate; apply Permutation_refl.
      + (* objects *)
        eapply perm_trans; [|apply flat_map_perm_ext with
          (f := fun x : value * path =>
                  [(snd x, NObj (map (fun s0 : item => s_alias (fst s0)) all))] ++
                  flat_map (fun it : item =>
                              ent (snd x ++ [PKey (s_alias (fst it))])
                                  (snd (fst (eval_field S false (eval_obj S fr) o (fields_of (fst x)) (snd x) it)))) all)].
        * eapply perm_trans; [|apply Permutation_sym; apply flat_map_app_perm].
          rewrite flat_map_singleton. apply Permutation_app_head.
          unfold g. apply (flat_map_swap (fun (it : item) (x : value * path) =>
                              ent (snd x ++ [PKey (s_alias (fst it))])
                                  (snd (fst (eval_field S false (eval_obj S fr) o (fields_of (fst x)) (snd x) it))))).
        * intros x Hx. cbv beta. destruct (Hobj x Hx) as [tn [fs Efs]]. rewrite Hev. rewrite Efs. cbn [fields_of fst].
          rewrite ent_obj. rewrite !map_map.
          rewrite (map_ext (fun it : item => fst (fst (eval_field S false (eval_obj S fr) o fs (snd x) it)))
                           (fun it : item => s_alias (fst it))) by (intros; apply eval_field_alias).
          simpl. apply perm_skip. rewrite flat_map_map.
          apply flat_map_perm_ext. intros it _. cbv beta. rewrite eval_field_alias. apply Permutation_refl.
  Qed.

  (** ** Unions: sources are grouped by member *)
  Definition is_m (m : string) (it : value * path) : bool :=
    match fst it with VObj m' _ => String.eqb m m' | _ => false end.
  Definition is_unil (uname : string) (it : value * path) : bool :=
    match fst it with VObj m _ => negb (is_member S uname m) | _ => true end.

  Lemma bucket_insert : forall {B} (T : value * path -> list B) m' x t ms,
    is_m m' x = true -> In m' ms -> NoDup ms ->
    Permutation (flat_map (fun m => flat_map T (filter (is_m m) (x :: t))) ms)
                (T x ++ flat_map (fun m => flat_map T (filter (is_m m) t)) ms).
  Proof.
    intros B T m' x t ms Hx. induction ms as [|a r IH]; intros Hin Hnd; [contradiction|].
    inversion Hnd as [|? ? Hna Hnr]; subst. cbn [flat_map].
    assert (Hxm : forall m, is_m m x = String.eqb m m').
    { intros m. unfold is_m in *. destruct (fst x); try discriminate.
      apply String.eqb_eq in Hx. subst. reflexivity. }
    cbn [filter]. rewrite (Hxm a).
    destruct (String.eqb a m') eqn:Ea.
    - apply String.eqb_eq in Ea. subst a. cbn [flat_map]. rewrite <- app_assoc.
      apply Permutation_app_head. apply Permutation_app_head.
      apply flat_map_perm_ext. intros m Hm. cbn [filter]. rewrite (Hxm m).
      destruct (String.eqb m m') eqn:Em; [|apply Permutation_refl].
      apply String.eqb_eq in Em. subst. contradiction.
    - destruct Hin as [->|Hin]; [rewrite String.eqb_refl in Ea; discriminate|].
      eapply perm_trans; [apply Permutation_app_head; apply (IH Hin Hnr)|].
      rewrite !app_assoc. apply Permutation_app_tail. apply Permutation_app_comm.
  Qed.

  Lemma union_partition : forall {B} (T : value * path -> list B) uname ms l,
    NoDup ms -> (forall m, In m ms -> is_member S uname m = true) ->
    (forall x m fs, In x l -> fst x = VObj m fs -> is_member S uname m = true -> In m ms) ->
    Permutation (flat_map T l)
                (flat_map T (filter (is_unil uname) l) ++ flat_map (fun m => flat_map T (filter (is_m m) l)) ms).
  Proof.
    intros B T uname ms l Hnd Hmem. induction l as [|x t IH]; intros Hcov.
    - simpl. rewrite flat_map_nil_intro; [constructor|]. intros; reflexivity.
    - assert (IH' := IH (fun x0 m fs Hin => Hcov x0 m fs (or_intror Hin))). clear IH.
      cbn [flat_map filter]. destruct (is_unil uname x) eqn:Eu.
      + cbn [flat_map]. rewrite <- app_assoc. apply Permutation_app_head.
        eapply perm_trans; [exact IH'|]. apply Permutation_app_head.
        apply flat_map_perm_ext. intros m Hm. cbn [filter].
        replace (is_m m x) with false; [apply Permutation_refl|].
        unfold is_m, is_unil in *. destruct (fst x) as [| |?|m' fs]; auto.
        destruct (String.eqb m m') eqn:Em; auto. apply String.eqb_eq in Em. subst.
        rewrite (Hmem m' Hm) in Eu. discriminate.
      + unfold is_unil in Eu. destruct (fst x) as [| |?|m' fs] eqn:Ex; try discriminate.
        apply negb_false_iff in Eu.
        assert (Hin : In m' ms) by (eapply (Hcov x m' fs); auto; now left).
        assert (Hx : is_m m' x = true) by (unfold is_m; rewrite Ex; apply String.eqb_refl).
        eapply perm_trans; [apply Permutation_app_head; exact IH'|].
        eapply perm_trans; [|apply Permutation_app_head; apply Permutation_sym; apply (bucket_insert T m' x t ms Hx Hin Hnd)].
        rewrite !app_assoc. apply Permutation_app_tail. apply Permutation_app_comm.
  Qed.

  Lemma members_in_order_spec : forall items acc,
    NoDup acc ->
    NoDup (members_in_order items acc) /\
    (forall m, In m acc -> In m (members_in_order items acc)) /\
    (forall x m fs, In x items -> fst x = VObj m fs -> In m (members_in_order items acc)) /\
    (forall m, In m (members_in_order items acc) -> In m acc \/ exists x fs, In x items /\ fst x = VObj m fs).
  Proof.
    induction items as [|[v p] t IH]; intros acc Hnd; simpl.
    - repeat split; auto. intros x m fs [].
    - destruct v as [| |?|m fs].
      1,2,3: (destruct (IH acc Hnd) as [A [B [C D]]]; repeat split; auto;
              [intros x m fs [Hx|Hx] Ex; [subst; discriminate|eauto]
              |intros m Hm; destruct (D m Hm) as [|[x [fs [Hx Ex]]]]; eauto 6]).
      destruct (existsb (String.eqb m) acc) eqn:Ee.
      + destruct (IH acc Hnd) as [A [B [C D]]]. repeat split; auto.
        * intros x m0 fs0 [Hx|Hx] Ex; [|eauto]. subst x. simpl in Ex. inversion Ex; subst.
          apply B. apply existsb_exists in Ee as [y [Hy Ey]]. apply String.eqb_eq in Ey. now subst.
        * intros m0 Hm. destruct (D m0 Hm) as [|[x [fs0 [Hx Ex]]]]; eauto 6.
      + assert (Hnd' : NoDup (acc ++ [m])).
        { apply NoDup_app_iff_local; auto. }
        destruct (IH (acc ++ [m]) Hnd') as [A [B [C D]]]. repeat split; auto.
        * intros m0 Hm. apply B. apply in_or_app. now left.
        * intros x m0 fs0 [Hx|Hx] Ex; [|eauto]. subst x. simpl in Ex. inversion Ex; subst.
          apply B. apply in_or_app. right. now left.
        * intros m0 Hm. destruct (D m0 Hm) as [Hacc|[x [fs0 [Hx Ex]]]]; eauto 6.
          apply in_app_or in Hacc as [|[<-|[]]]; auto. right. exists (VObj m fs, p), fs. auto.
  Qed.

  Lemma seq_res_ok : forall (of_member : string -> xres + err) (G : string -> heap) ms,
    (forall m, In m ms -> exists x H, of_member m = inl x /\ xtotal x H /\ Permutation H (G m)) ->
    exists r, seq_res (map of_member ms) = inl r /\ xtotal r (flat_map G ms).
  Proof.
    intros of_member G. induction ms as [|m t IH]; intros Hm; simpl.
    - exists xempty. split; auto. apply xtotal_empty.
    - destruct (Hm m (or_introl eq_refl)) as [x [H [E [X Pm]]]].
      destruct (IH (fun m' Hin => Hm m' (or_intror Hin))) as [r [Er Xr]].
      rewrite E, Er. exists (xapp x r). split; auto.
      apply xtotal_app; auto. eapply xtotal_perm; [exact X|]. now apply Permutation_sym.
  Qed.

  Lemma nest_singleton_not_nil : forall p e, [nest p e] <> [].
  Proof. intros; discriminate. Qed.

  Lemma resolve_union_ok : forall frt mf uname s items,
    (forall fr, frt = Datatypes.S fr -> U fr) -> frt <= mf -> frt <= fuel ->
    (forall it, In it items -> snd (type_ref frt (TUnion uname) (Some s) it) = []) ->
    exists x H, resolve_union fixed S (ex mf) uname s items = inl x /\ xtotal x H /\
      Permutation H (flat_map (fun it => ent (snd it) (fst (type_ref frt (TUnion uname) (Some s) it))) items).
  Proof.
    intros frt mf uname s items HU Hmf Hfu Hprem.
    set (T := fun it : value * path => ent (snd it) (fst (type_ref frt (TUnion uname) (Some s) it))).
    unfold resolve_union. cbn [q_union fixed].
    set (ms := filter (is_member S uname) (members_in_order items [])).
    destruct (members_in_order_spec items [] (NoDup_nil _)) as [Mnd [_ [Mcov Mex]]].
    assert (Hms : forall m, In m ms ->
              exists x H, resolve_object fixed S (ex mf) m (union_member_set m s) (filter (is_m m) items) = inl x /\
                          xtotal x H /\ Permutation H (flat_map T (filter (is_m m) items))).
    { intros m Hm. apply filter_In in Hm as [Hmo Hmem].
      destruct (Mex m Hmo) as [[]|[x0 [fs0 [Hx0 Ex0]]]].
      assert (Hx0f : In x0 (filter (is_m m) items)).
      { apply filter_In. split; auto. unfold is_m. rewrite Ex0. apply String.eqb_refl. }
      assert (Href : forall it, In it (filter (is_m m) items) ->
                type_ref frt (TUnion uname) (Some s) it = eval_obj S frt m (union_member_set m s) (fst it) (snd it)).
      { intros it Hit. apply filter_In in Hit as [_ Hit]. unfold is_m in Hit. unfold type_ref. cbn [eval_type].
        destruct (fst it) as [| |?|m' fs'] eqn:Ei; try discriminate. apply String.eqb_eq in Hit. subst m'.
        rewrite Hmem. reflexivity. }
      destruct frt as [|fr].
      - exfalso. pose proof (Hprem x0 Hx0) as Hp. rewrite (Href x0 Hx0f) in Hp. discriminate.
      - destruct (resolve_object_ok fr mf m (union_member_set m s) (filter (is_m m) items)
                    (HU fr eq_refl) Hmf Hfu) as [x [H [E [X Pm]]]].
        + intros Hnil. rewrite Hnil in Hx0f. contradiction.
        + intros it Hit. rewrite <- (Href it Hit). apply Hprem. apply filter_In in Hit. tauto.
        + exists x, H. repeat split; auto. eapply perm_trans; [exact Pm|].
          apply flat_map_perm_ext. intros it Hit. unfold T. rewrite (Href it Hit). apply Permutation_refl. }
    destruct (seq_res_ok (fun m => resolve_object fixed S (ex mf) m (union_member_set m s) (filter (is_m m) items))
                (fun m => flat_map T (filter (is_m m) items)) ms Hms) as [r [Er Xr]].
    change (seq_res (map (fun m : string => resolve_object fixed S (ex mf) m (union_member_set m s)
                 (filter (fun it : value * path => match fst it with VObj m' _ => String.eqb m m' | _ => false end) items)) ms))
      with (seq_res (map (fun m => resolve_object fixed S (ex mf) m (union_member_set m s) (filter (is_m m) items)) ms)).
    rewrite Er.
    eexists. exists (map (fun it : value * path => (snd it, NNull)) (filter (is_unil uname) items) ++
                     flat_map (fun m => flat_map T (filter (is_m m) items)) ms).
    split; [reflexivity|]. split.
    - apply xtotal_app; [apply xtotal_heap|exact Xr].
    - eapply perm_trans; [|apply Permutation_sym; apply (union_partition T uname ms items)].
      + apply Permutation_app_tail. rewrite <- flat_map_singleton. apply flat_map_perm_ext.
        intros x Hx. apply filter_In in Hx as [_ Hx]. unfold T, type_ref. cbn [eval_type].
        unfold is_unil in Hx. destruct (fst x) as [| |?|m fs]; try apply Permutation_refl.
        apply negb_true_iff in Hx. rewrite Hx. apply Permutation_refl.
      + apply NoDup_filter. exact Mnd.
      + intros m Hm. apply filter_In in Hm. tauto.
      + intros x m fs Hx Ex Hmem. apply filter_In. split; auto. eapply Mcov; eauto.
  Qed.

  (** ** resolveBatch *)
  Lemma R_step : forall frt, (forall fr, frt = Datatypes.S fr -> U fr) -> R frt.
  Proof.
    intros frt HU mf t. induction t as [n|n|n|t' IH|t' IH|n]; intros sub items Hmf Hfu Hprem.
    all: destruct items as [|it0 rest];
      [exists xempty, []; split; [reflexivity|split; [apply xtotal_empty|constructor]]|].
    all: set (items := it0 :: rest) in *.
    - (* scalar *)
      eexists. eexists. split; [reflexivity|]. split; [apply xtotal_heap|].
      rewrite <- flat_map_singleton. apply flat_map_perm_ext. intros it _. unfold type_ref. cbn [eval_type fst].
      destruct (fst it); try apply Permutation_refl. rewrite ent_leaf. apply Permutation_refl.
    - (* enum *)
      eexists. eexists. split; [reflexivity|]. split; [apply xtotal_heap|].
      rewrite <- flat_map_singleton. apply flat_map_perm_ext. intros it _. unfold type_ref. cbn [eval_type fst].
      destruct (fst it); try apply Permutation_refl. rewrite ent_leaf. apply Permutation_refl.
    - (* object *)
      destruct sub as [s|].
      2:{ exfalso. pose proof (Hprem it0 (or_introl eq_refl)) as Hp. unfold type_ref in Hp. cbn [eval_type] in Hp. discriminate. }
      destruct frt as [|fr].
      { exfalso. pose proof (Hprem it0 (or_introl eq_refl)) as Hp. unfold type_ref in Hp. cbn [eval_type eval_obj] in Hp. discriminate. }
      destruct (resolve_object_ok fr mf n s items (HU fr eq_refl) Hmf Hfu) as [x [H [E [X Pm]]]].
      + discriminate.
      + exact Hprem.
      + exists x, H. split; [exact E|]. split; auto.
    - (* list *)
      destruct (flatten_lists_spec (eval_obj S frt) t' sub items Hprem) as [Hp' Hperm].
      destruct (IH sub (snd (flatten_lists items)) Hmf Hfu Hp') as [x [H [E [X Pm]]]].
      change (resolve fixed S (ex mf) (TList t') sub items)
        with (match resolve fixed S (ex mf) t' sub (snd (flatten_lists items)) with
              | inr e => inr e
              | inl x0 => inl (xapp (mk_xres (fst (flatten_lists items)) [] []) x0)
              end).
      rewrite E. eexists. exists (fst (flatten_lists items) ++ H). split; [reflexivity|]. split.
      + apply xtotal_app; [apply xtotal_heap|exact X].
      + eapply perm_trans; [apply Permutation_app_head; exact Pm|]. exact Hperm.
    - (* non-null *)
      destruct (IH sub items Hmf Hfu Hprem) as [x [H [E [X Pm]]]].
      exists x, H. split; [exact E|]. split; auto.
    - (* union *)
      destruct sub as [s|].
      2:{ exfalso. pose proof (Hprem it0 (or_introl eq_refl)) as Hp. unfold type_ref in Hp. cbn [eval_type] in Hp.
          destruct (fst it0); discriminate. }
      destruct (resolve_union_ok frt mf n s items HU Hmf Hfu Hprem) as [x [H [E [X Pm]]]].
      exists x, H. split; [exact E|]. split; auto.
  Qed.

  (** ** executeWorkUnit *)
  Lemma U_of_R : forall fr, R fr -> U fr.
  Proof.
    intros fr HR mf u Hmf Hfu Hprem.
    destruct mf as [|mf']; [inversion Hmf|].
    assert (Hmf' : fr <= mf') by (apply le_S_n; exact Hmf).
    assert (Hfu' : fr <= fuel) by lia.
    (* every source has a successful resolver result *)
    assert (Hok : forall it, In it (u_items u) ->
              exists v, outcome_of u (fst it) = OOk v /\
                        unit_ref fr u it = type_ref fr (f_type (u_field u)) (u_sub u) (v, snd it)).
    { intros it Hit. pose proof (Hprem it Hit) as Hp. unfold unit_ref, field_ref, outcome_of in *.
      destruct (fst it) as [| |?|tn fs]; try discriminate.
      destruct (lookup (s_key (u_sel u)) fs) as [[v|e]|]; try discriminate.
      exists v. split; reflexivity. }
    set (outs := map (fun it : value * path => (outcome_of u (fst it), snd it)) (u_items u)).
    assert (Hff : first_failure outs = None).
    { unfold outs. clear -Hok. induction (u_items u) as [|it t IH]; simpl; auto.
      destruct (Hok it (or_introl eq_refl)) as [v [E _]]. rewrite E. apply IH. intros it' Hit'. apply Hok. now right. }
    set (res := map (fun o : outcome value * path => (ok_value (fst o), snd o)) outs).
    assert (Hres : forall it, In it res -> snd (type_ref fr (f_type (u_field u)) (u_sub u) it) = []).
    { intros it Hit. unfold res, outs in Hit. rewrite map_map in Hit. apply in_map_iff in Hit as [it0 [<- Hit0]].
      cbn [fst snd]. destruct (Hok it0 Hit0) as [v [E Eu]]. rewrite E. cbn [ok_value].
      rewrite <- Eu. apply Hprem. exact Hit0. }
    assert (Htarget : Permutation
              (flat_map (fun it => ent (snd it) (fst (type_ref fr (f_type (u_field u)) (u_sub u) it))) res)
              (flat_map (fun it => ent (snd it) (fst (unit_ref fr u it))) (u_items u))).
    { unfold res, outs. rewrite map_map. rewrite flat_map_map. apply flat_map_perm_ext. intros it Hit. cbn [fst snd].
      destruct (Hok it Hit) as [v [E Eu]]. rewrite E. cbn [ok_value]. rewrite Eu. apply Permutation_refl. }
    cbn [exec_unit]. fold outs. rewrite Hff.
    destruct (f_batch (u_field u) && u_batch u); [|destruct (negb (f_expensive (u_field u)))].
    1,2: (fold res;
          destruct (HR mf' (f_type (u_field u)) (u_sub u) res Hmf' Hfu' Hres) as [x [H [E [X Pm]]]];
          rewrite E; exists H; split; [exact X|]; eapply perm_trans; [exact Pm|exact Htarget]).
    (* expensive: one source at a time *)
    eexists. split.
    - apply (xtotal_concat _ (fun o : outcome value * path =>
                                ent (snd o) (fst (type_ref fr (f_type (u_field u)) (u_sub u) (ok_value (fst o), snd o))))).
      intros o Ho. unfold outs in Ho. apply in_map_iff in Ho as [it [<- Hit]]. cbn [fst snd].
      destruct (Hok it Hit) as [v [E Eu]]. rewrite E. cbn [ok_value].
      destruct (HR mf' (f_type (u_field u)) (u_sub u) [(v, snd it)] Hmf' Hfu') as [x [H [Ex [X Pm]]]].
      + intros it' [<-|[]]. rewrite <- Eu. apply Hprem. exact Hit.
      + rewrite Ex. eapply xtotal_perm; [exact X|]. simpl in Pm. rewrite app_nil_r in Pm. apply Permutation_sym. exact Pm.
    - unfold res in Htarget. rewrite flat_map_map in Htarget. exact Htarget.
  Qed.

  Theorem units_compute_reference : forall fr, R fr /\ U fr.
  Proof.
    induction fr as [|fr [_ IHU]].
    - assert (HR : R 0) by (apply R_step; intros fr E; discriminate). split; [exact HR|now apply U_of_R].
    - assert (HR : R (Datatypes.S fr)) by (apply R_step; intros fr' E; inversion E; subst; exact IHU).
      split; [exact HR|now apply U_of_R].
  Qed.
End RefProof.
