(** The error branches of the websocket connection, graphql/server.go: what [ServeJSONSocket] writes to
    the socket and reports to the SubscriptionLogger for every inbound envelope - [handle],
    [handleSubscribe], [handleMutate], [closeSubscription], and the error envelope the serve loop writes
    for whatever [handle] returns - with errors.go [SanitizeError] deciding every message text.

    One inbound envelope is one step: the first computation of an accepted subscription / mutation and
    the close it requests for itself are part of the step (the harness waits for them before it sends the
    next envelope).  Re-computations of a live subscription belong to C02/C17.  Definitions only. *)
From Coq Require Import List String Bool Arith.
From Thunder Require Import Lib.Json Gql.Value.
Import ListNotations.
Open Scope string_scope.
Open Scope list_scope.

(** What an error envelope's "message" can be: the fixed generic text; a text of thunder's own (a
    ClientError of Parse / PrepareQuery / a directive, "duplicate subscription", ...: its wording is
    thunder's business and never compared); the SanitizedError() text of a resolver's error. *)
Inductive emsg := EGeneric | EOwn | EText (s : string).

Definition emsg_eqb (a b : emsg) : bool :=
  match a, b with
  | EGeneric, EGeneric | EOwn, EOwn => true
  | EText s, EText t => String.eqb s t
  | _, _ => false
  end.

(** errors.go SanitizeError: [err.(SanitizedError)] on the error value itself. *)
Definition san_err (e : err) : emsg :=
  if safe e then match e_class e with EClient => EOwn | _ => EText (e_text e) end else EGeneric.
Definition san (e : perr) : emsg := san_err (pe_err e).

(** What [handle] can return. *)
Inductive herr :=
| HOops              (* oops.Wrapf(err, "failed to parse ... message") / a json error: not a SanitizedError *)
| HOwnSafe           (* NewSafeError of server.go itself: duplicate subscription, too many subscriptions, unknown message type *)
| HQuery (e : err).  (* what Parse / PrepareQuery returned *)

Definition san_h (h : herr) : emsg :=
  match h with HOops => EGeneric | HOwnSafe => EOwn | HQuery e => san_err e end.

(** The fate of the query an inbound subscribe / mutate carries. *)
Inductive fate :=
| FBadMessage                (* the envelope's message is not a {query, variables} object *)
| FRejected (e : err)        (* Parse or PrepareQuery fails with e *)
| FRuns (r : result)         (* accepted; the first computation returns r *)
| FCanceled.                 (* accepted; the computation's own context is cancelled (unsubscribe, connection
                                gone) and its error's cause is context.Canceled.  As repaired (patches/C16-fix-1):
                                a resolver that returns context.Canceled of a call of its own while the
                                subscription is alive is [FRuns (RErr e)] like any failing resolver *)

Inductive inmsg :=
| MSubscribe (id : string) (f : fate)
| MMutate (id : string) (f : fate)
| MUnsubscribe (id : string)
| MEcho (id : string)
| MUrl (id : string) (ok : bool)
| MUnknown (id : string).

Definition msg_id (m : inmsg) : string :=
  match m with
  | MSubscribe i _ | MMutate i _ | MUnsubscribe i | MEcho i | MUrl i _ | MUnknown i => i
  end.

(** What leaves the connection: envelopes on the socket and calls of the SubscriptionLogger. *)
Inductive cevent :=
| CError (id : string) (m : emsg)
| CUpdate (id : string)
| CResult (id : string)
| CEcho (id : string)
| CSub (id : string)      (* subscriptionLogger.Subscribe *)
| CUnsub (id : string).   (* subscriptionLogger.Unsubscribe: the subscription left c.subscriptions *)

Definition cevent_eqb (a b : cevent) : bool :=
  match a, b with
  | CError i m, CError j n => String.eqb i j && emsg_eqb m n
  | CUpdate i, CUpdate j | CResult i, CResult j | CEcho i, CEcho j | CSub i, CSub j | CUnsub i, CUnsub j => String.eqb i j
  | _, _ => false
  end.

Fixpoint cevents_eqb (a b : list cevent) : bool :=
  match a, b with
  | [], [] => true
  | x :: a', y :: b' => cevent_eqb x y && cevents_eqb a' b'
  | _, _ => false
  end.

Record conn : Type := mk_conn { c_subs : list string; c_max : nat }.

Definition live (c : conn) (id : string) : bool := existsb (String.eqb id) (c_subs c).
Definition add_sub (c : conn) (id : string) : conn := mk_conn (id :: c_subs c) (c_max c).
Definition del_sub (c : conn) (id : string) : conn :=
  mk_conn (filter (fun x => negb (String.eqb id x)) (c_subs c)) (c_max c).

Definition hres := (conn * list cevent * option herr)%type.

(** handleSubscribe; [go closeOwnSubscription] of a failing first computation included. *)
Definition handle_subscribe (c : conn) (id : string) (f : fate) : hres :=
  match f with
  | FBadMessage => (c, [], Some HOops)
  | _ =>
      if live c id then (c, [], Some HOwnSafe)
      else if Nat.ltb (c_max c) (List.length (c_subs c) + 1) then (c, [], Some HOwnSafe)
      else
        match f with
        | FBadMessage => (c, [], Some HOops)
        | FRejected e => (c, [], Some (HQuery e))
        | FRuns (ROk _) => (add_sub c id, [CSub id; CUpdate id], None)
        | FRuns (RErr e) => (c, [CSub id; CError id (san e); CUnsub id], None)
        | FCanceled => (c, [CSub id; CUnsub id], None)
        end
  end.

(** handleMutate: no limit on the number of subscriptions; the mutation closes itself in every case,
    and a cancelled one still writes its error envelope. *)
Definition canceled_err : perr := mk_perr (mk_err EPlain "context canceled") [].

Definition handle_mutate (c : conn) (id : string) (f : fate) : hres :=
  match f with
  | FBadMessage => (c, [], Some HOops)
  | _ =>
      if live c id then (c, [], Some HOwnSafe)
      else
        match f with
        | FBadMessage => (c, [], Some HOops)
        | FRejected e => (c, [], Some (HQuery e))
        | FRuns (ROk _) => (c, [CSub id; CResult id; CUnsub id], None)
        | FRuns (RErr e) => (c, [CSub id; CError id (san e); CUnsub id], None)
        | FCanceled => (c, [CSub id; CError id (san canceled_err); CUnsub id], None)
        end
  end.

(** handle *)
Definition handle (c : conn) (m : inmsg) : hres :=
  match m with
  | MSubscribe id f => handle_subscribe c id f
  | MMutate id f => handle_mutate c id f
  | MUnsubscribe id => if live c id then (del_sub c id, [CUnsub id], None) else (c, [], None)
  | MEcho id => (c, [CEcho id], None)
  | MUrl _ true => (c, [], None)
  | MUrl _ false => (c, [], Some HOops)
  | MUnknown _ => (c, [], Some HOwnSafe)
  end.

(** One turn of ServeJSONSocket's loop: handle, and an error envelope for what it returns. *)
Definition serve (c : conn) (m : inmsg) : conn * list cevent :=
  match handle c m with
  | (c', evs, Some h) => (c', evs ++ [CError (msg_id m) (san_h h)])
  | (c', evs, None) => (c', evs)
  end.

Fixpoint serve_all (c : conn) (ms : list inmsg) : conn * list cevent :=
  match ms with
  | [] => (c, [])
  | m :: t => let r := serve c m in let r' := serve_all (fst r) t in (fst r', snd r ++ snd r')
  end.

(** closeSubscriptions when the socket is gone: every live subscription is logged as ended. *)
Definition close_all (c : conn) : conn * list cevent :=
  (mk_conn [] (c_max c), map CUnsub (c_subs c)).

(** The errors a script can raise, with the place they come from. *)
Definition fate_errs (f : fate) : list err :=
  match f with
  | FRejected e => [e]
  | FRuns (RErr e) => [pe_err e]
  | _ => []
  end.
Definition msg_errs (m : inmsg) : list err :=
  match m with MSubscribe _ f | MMutate _ f => fate_errs f | _ => [] end.

Definition count_ev (p : cevent -> bool) (l : list cevent) : nat := List.length (filter p l).
Definition is_sub (id : string) (e : cevent) : bool := match e with CSub i => String.eqb i id | _ => false end.
Definition is_unsub (id : string) (e : cevent) : bool := match e with CUnsub i => String.eqb i id | _ => false end.
Definition is_error (id : string) (e : cevent) : bool := match e with CError i _ => String.eqb i id | _ => false end.

Definition conn_wf (c : conn) : Prop := NoDup (c_subs c) /\ List.length (c_subs c) <= c_max c.
