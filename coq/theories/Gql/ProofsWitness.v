From Coq Require Import List String Bool Arith ZArith.
From Thunder Require Import Lib.Json Gql.Types Gql.Value Gql.Query Gql.Ref Gql.Exec Gql.Witness.
Import ListNotations.
Open Scope string_scope.

Definition prune_differs (Q : quirks) (S : schema) (vs : vars) (q : squery) (root : value) : Prop :=
  directives_wellformed vs q = true /\
  norm_result (exec_fifo Q S vs q root) <> norm_result (exec_fifo Q S vs (prune vs q) root).

Lemma f9_witness : prune_differs original w_schema [] w_f9 w_root.
Proof. split; [vm_compute; reflexivity|]. vm_compute. discriminate. Qed.
Lemma f9b_witness : prune_differs original w_schema [] w_f9b w_root.
Proof. split; [vm_compute; reflexivity|]. vm_compute. discriminate. Qed.
Lemma f8_witness : prune_differs original w_schema [] w_f8 w_root.
Proof. split; [vm_compute; reflexivity|]. vm_compute. discriminate. Qed.
Lemma f7_witness : prune_differs original w_schema [] w_f7 w_root.
Proof. split; [vm_compute; reflexivity|]. vm_compute. discriminate. Qed.

(** the repaired model agrees with pruning on all four *)
Definition prune_agrees (S : schema) (q : squery) (root : value) : Prop :=
  norm_result (exec_fifo fixed S [] q root) = norm_result (exec_fifo fixed S [] (prune [] q) root).
Lemma witnesses_fixed :
  prune_agrees w_schema w_f7 w_root /\ prune_agrees w_schema w_f8 w_root /\
  prune_agrees w_schema w_f9 w_root /\ prune_agrees w_schema w_f9b w_root.
Proof. split; [|split; [|split]]; vm_compute; reflexivity. Qed.

Lemma f7_independence_witness :
  result_field "b" (exec_fifo original w_schema [] w_f7 w_root) <> result_field "b" (exec_fifo original w_schema [] w_f7' w_root)
  /\ result_field "b" (exec_fifo fixed w_schema [] w_f7 w_root) = result_field "b" (exec_fifo fixed w_schema [] w_f7' w_root).
Proof. split; [vm_compute; discriminate | vm_compute; reflexivity]. Qed.

Lemma f4_witness :
  (exists ss, parse [] w_f4 = Some ss /\ snd (eval_ref w_schema 40 ss w_root) = []) /\
  norm_result (exec_fifo original w_schema [] w_f4 w_root) <> ref_result_of w_schema [] w_f4 w_root /\
  norm_result (exec_fifo fixed w_schema [] w_f4 w_root) = ref_result_of w_schema [] w_f4 w_root.
Proof.
  split; [eexists; split; [vm_compute; reflexivity | vm_compute; reflexivity]|]. split; [vm_compute; discriminate | vm_compute; reflexivity].
Qed.
