(* SNAPSHOT written by /verif/tools/gensqlmethods (go/ast) from sqlgen/*.go (every run of ./check C12 extracts
   the table of its own tree into its own directory and checks that one):
   the exported methods of sqlgen.DB.  Do not edit.
   Entry: (method, (reaches a query call, reaches an exec call, begins a transaction)), transitively
   through the functions of package sqlgen (by name). *)
From Coq Require Import List String.
Import ListNotations.
Open Scope string_scope.

Definition db_methods : list (string * (bool * bool * bool)) := [
  ("BaseQuery", (true, false, false));
  ("Count", (true, false, false));
  ("DeleteRow", (false, true, false));
  ("FullScanQuery", (true, false, false));
  ("HasTx", (false, false, false));
  ("InsertRow", (false, true, false));
  ("InsertRows", (false, true, true));
  ("Query", (true, false, false));
  ("QueryExecer", (false, false, false));
  ("QueryRow", (true, false, false));
  ("UpdateRow", (false, true, false));
  ("UpsertRow", (false, true, false));
  ("UpsertRows", (false, true, true));
  ("WithDynamicLimit", (false, false, false));
  ("WithExistingTx", (false, false, false));
  ("WithPanicOnNoIndex", (false, false, false));
  ("WithShardLimit", (false, false, false));
  ("WithTx", (false, false, true))
].

Definition db_methods_problem : bool := false.
