(* GENERATED on every run of ./check C18 by /verif/tools/gentables (go/ast) from
   graphql/schemabuilder/input.go, variable scalarArgParsers.  Do not edit.
   Entry: (Go type, type asserted on the JSON value, conversion applied to it, decoder called). *)
From Coq Require Import List String.
Import ListNotations.
Open Scope string_scope.

Definition arg_parsers : list (string * string * string * string) := [
  ("[]byte", "string", "", "base64.StdEncoding.DecodeString");
  ("bool", "bool", "", "");
  ("float32", "float64", "float32", "");
  ("float64", "float64", "", "");
  ("int", "float64", "int", "");
  ("int16", "float64", "int16", "");
  ("int32", "float64", "int32", "");
  ("int64", "float64", "int64", "");
  ("int8", "float64", "int8", "");
  ("string", "string", "", "");
  ("time.Time", "string", "", "time.Parse time.RFC3339");
  ("uint", "float64", "uint", "");
  ("uint16", "float64", "uint16", "");
  ("uint32", "float64", "uint32", "");
  ("uint64", "float64", "int64", "");
  ("uint8", "float64", "uint8", "")
].
