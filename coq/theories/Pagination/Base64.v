(** The model's base64 (base64.StdEncoding.EncodeToString) is injective, so the cursor encoding of the
    code satisfies the hypothesis [injective enc] of the C11 theorems. *)
From Coq Require Import List ZArith String Ascii Bool Lia Arith.
From Thunder Require Import Lib.Json Pagination.Model.
Import ListNotations.
Open Scope list_scope.

Fixpoint index_of (c : ascii) (l : list ascii) : option nat :=
  match l with
  | [] => None
  | x :: t => if Ascii.eqb x c then Some 0 else option_map S (index_of c t)
  end.

Definition b64_dec (c : ascii) : option (bool * bool * bool * bool * bool * bool) :=
  match index_of c b64_alphabet with
  | None => None
  | Some n => Some (Nat.testbit n 5, Nat.testbit n 4, Nat.testbit n 3,
                    Nat.testbit n 2, Nat.testbit n 1, Nat.testbit n 0)
  end.

Lemma b64_dec_char b5 b4 b3 b2 b1 b0 :
  b64_dec (b64_char b5 b4 b3 b2 b1 b0) = Some (b5, b4, b3, b2, b1, b0).
Proof. destruct b5, b4, b3, b2, b1, b0; vm_compute; reflexivity. Qed.

Lemma b64_char_inj a5 a4 a3 a2 a1 a0 b5 b4 b3 b2 b1 b0 :
  b64_char a5 a4 a3 a2 a1 a0 = b64_char b5 b4 b3 b2 b1 b0 ->
  a5 = b5 /\ a4 = b4 /\ a3 = b3 /\ a2 = b2 /\ a1 = b1 /\ a0 = b0.
Proof.
  intros H. pose proof (b64_dec_char a5 a4 a3 a2 a1 a0) as Ha. rewrite H, b64_dec_char in Ha.
  inversion Ha. repeat split; reflexivity.
Qed.

Lemma b64_char_not_pad a5 a4 a3 a2 a1 a0 : b64_char a5 a4 a3 a2 a1 a0 <> "="%char.
Proof.
  intros H. pose proof (b64_dec_char a5 a4 a3 a2 a1 a0) as Ha. rewrite H in Ha. vm_compute in Ha. discriminate.
Qed.

Lemma string_ind3 (P : string -> Prop) :
  P EmptyString -> (forall a, P (String a EmptyString)) ->
  (forall a b, P (String a (String b EmptyString))) ->
  (forall a b c r, P r -> P (String a (String b (String c r)))) ->
  forall s, P s.
Proof.
  intros H0 H1 H2 H3.
  assert (H : forall s, P s /\ (forall a, P (String a s)) /\ (forall a b, P (String a (String b s)))).
  { induction s as [|c s (IH0 & IH1 & IH2)].
    - repeat split; auto.
    - repeat split; auto. }
  intros s. apply H.
Qed.

Arguments b64_char : simpl never.

Ltac b64_inj H :=
  repeat match goal with
    | H' : String _ _ = String _ _ |- _ => injection H'; clear H'; intros
    end;
  repeat match goal with
    | H' : b64_char _ _ _ _ _ _ = b64_char _ _ _ _ _ _ |- _ =>
        apply b64_char_inj in H'; destruct H' as (? & ? & ? & ? & ? & ?)
    | H' : b64_char _ _ _ _ _ _ = "="%char |- _ => exfalso; exact (b64_char_not_pad _ _ _ _ _ _ H')
    | H' : "="%char = b64_char _ _ _ _ _ _ |- _ =>
        exfalso; symmetry in H'; exact (b64_char_not_pad _ _ _ _ _ _ H')
    end;
  subst.

Theorem base64_injective : forall x y, base64 x = base64 y -> x = y.
Proof.
  induction x as [| a | a b | a b c r IH] using string_ind3; intros y H.
  - destruct y as [|[a0 a1 a2 a3 a4 a5 a6 a7] [|[b0 b1 b2 b3 b4 b5 b6 b7] [|[c0 c1 c2 c3 c4 c5 c6 c7] r]]];
      [reflexivity|discriminate H..].
  - destruct a as [x0 x1 x2 x3 x4 x5 x6 x7].
    destruct y as [|[a0 a1 a2 a3 a4 a5 a6 a7] [|[b0 b1 b2 b3 b4 b5 b6 b7] [|[c0 c1 c2 c3 c4 c5 c6 c7] r]]];
      cbn [base64] in H; [discriminate H| | |].
    + b64_inj H. reflexivity.
    + exfalso. b64_inj H.
    + exfalso. b64_inj H.
  - destruct a as [x0 x1 x2 x3 x4 x5 x6 x7]. destruct b as [y0 y1 y2 y3 y4 y5 y6 y7].
    destruct y as [|[a0 a1 a2 a3 a4 a5 a6 a7] [|[b0 b1 b2 b3 b4 b5 b6 b7] [|[c0 c1 c2 c3 c4 c5 c6 c7] r]]];
      cbn [base64] in H; [discriminate H| | |].
    + exfalso. b64_inj H.
    + b64_inj H. reflexivity.
    + exfalso. b64_inj H.
  - destruct a as [x0 x1 x2 x3 x4 x5 x6 x7]. destruct b as [y0 y1 y2 y3 y4 y5 y6 y7].
    destruct c as [z0 z1 z2 z3 z4 z5 z6 z7].
    destruct y as [|[a0 a1 a2 a3 a4 a5 a6 a7] [|[b0 b1 b2 b3 b4 b5 b6 b7] [|[c0 c1 c2 c3 c4 c5 c6 c7] r']]];
      cbn [base64] in H; [discriminate H| | |].
    + exfalso. b64_inj H.
    + exfalso. b64_inj H.
    + b64_inj H. f_equal. f_equal. f_equal. apply IH. assumption.
Qed.
