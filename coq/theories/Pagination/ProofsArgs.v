(** C11 - the argument classes the code rejects (each with its own error), page size zero, and walks over
    connections of every kind (externally managed with SetPageInfo, ManualPaginationWithFallback). *)
From Coq Require Import List ZArith String Ascii Bool Lia ZifyBool ZifyNat Arith.
From Thunder Require Import Lib.Json Pagination.Model Pagination.ProofsSlice Pagination.ProofsSort
  Pagination.ProofsWalk Pagination.ProofsPage Pagination.ProofsExt Pagination.ProofsMain.
Import ListNotations.
Open Scope list_scope.

(** * Rejected arguments, by class *)
Section Rejects.
  Variable enc : string -> string.

  Lemma paginate_negative ac E a :
    (z_of_opt (a_first a) < 0 \/ z_of_opt (a_last a) < 0)%Z -> paginate_with ac E a = inr ErrNegative.
  Proof.
    intros H. unfold paginate_with.
    destruct (ac E (a_before a) (a_after a)) as [[es ea] eb].
    destruct (Z.ltb (z_of_opt (a_first a)) 0 || Z.ltb (z_of_opt (a_last a)) 0)%bool eqn:E0; [reflexivity|lia].
  Qed.

  Lemma paginate_both ac E a f n :
    a_first a = Some f -> a_last a = Some n -> (0 <= f)%Z -> (0 <= n)%Z -> paginate_with ac E a = inr ErrBoth.
  Proof.
    intros Hf Hn H0 H1. unfold paginate_with.
    destruct (ac E (a_before a) (a_after a)) as [[es ea] eb]. rewrite Hf, Hn. cbn [z_of_opt is_some andb].
    destruct (Z.ltb f 0 || Z.ltb n 0)%bool eqn:E0; [lia|reflexivity].
  Qed.

  Lemma get_connection_negative cfg l a :
    l <> [] -> sort_ok cfg a -> (z_of_opt (a_first a) < 0 \/ z_of_opt (a_last a) < 0)%Z ->
    get_connection enc cfg l a = inr ErrNegative.
  Proof.
    intros Hl Hs H. unfold get_connection, get_connection_with. destruct l as [|n0 r]; [congruence|].
    destruct (apply_sort cfg (apply_text_filter cfg (n0 :: r) a) a) as [sorted|] eqn:Es.
    - rewrite (paginate_negative _ _ _ H). reflexivity.
    - exfalso. eapply apply_sort_ok; eauto.
  Qed.

  Lemma get_connection_both cfg l a f n :
    l <> [] -> sort_ok cfg a -> a_first a = Some f -> a_last a = Some n -> (0 <= f)%Z -> (0 <= n)%Z ->
    get_connection enc cfg l a = inr ErrBoth.
  Proof.
    intros Hl Hs Hf Hn H0 H1. unfold get_connection, get_connection_with. destruct l as [|n0 r]; [congruence|].
    destruct (apply_sort cfg (apply_text_filter cfg (n0 :: r) a) a) as [sorted|] eqn:Es.
    - rewrite (paginate_both _ _ _ f n Hf Hn H0 H1). reflexivity.
    - exfalso. eapply apply_sort_ok; eauto.
  Qed.
End Rejects.

(** * Page size zero *)
Section Zero.
  Variable enc : string -> string.
  Hypothesis enc_inj : forall a b, enc a = enc b -> a = b.
  Variables (cfg : config) (l : list node) (a : pargs) (c : conn) (E1 cand : list edge).
  Hypothesis Hnd : NoDup (map n_key l).
  Hypothesis Hs : sort_ok cfg a.
  Hypothesis Hok : args_ok a.
  Hypothesis Hg : get_connection enc cfg l a = inl c.
  Hypothesis Ha : drop_through (a_after a) (base_edges enc cfg l a) E1.
  Hypothesis Hb : keep_until (a_before a) E1 cand.

  Let Hc := conn_eq enc enc_inj cfg l a c E1 cand Hnd Hs Hok Hg Ha Hb.

  Lemma first_zero_page :
    a_first a = Some 0%Z ->
    c_edges c = [] /\ c_start c = EmptyString /\ c_end c = EmptyString /\
    c_total c = total_count cfg l a /\ (cand <> [] -> c_next c = true).
  Proof.
    intros Hf.
    assert (Hp : page_of a cand = []).
    { unfold page_of. rewrite Hf. destruct (Z.ltb 0 (Z.of_nat (List.length cand))) eqn:E; [reflexivity|].
      apply length_zero_iff_nil. lia. }
    split; [|split; [|split; [|split]]].
    - rewrite Hc. cbn [c_edges]. exact Hp.
    - rewrite Hc. cbn [c_start]. rewrite Hp. reflexivity.
    - rewrite Hc. cbn [c_end]. rewrite Hp. reflexivity.
    - eapply total_count_eq; eauto.
    - intros Hne. rewrite Hc. cbn [c_next]. unfold cut_first. rewrite Hf.
      assert (List.length cand <> 0) by (intro H0; apply length_zero_iff_nil in H0; contradiction).
      apply orb_true_iff. left. lia.
  Qed.

  Lemma last_zero_page :
    a_last a = Some 0%Z ->
    c_edges c = [] /\ c_start c = EmptyString /\ c_end c = EmptyString /\
    c_total c = total_count cfg l a /\ (cand <> [] -> c_prev c = true).
  Proof.
    intros Hn.
    assert (Hfn : a_first a = None).
    { pose proof Hok as (_ & _ & [H|H]); [exact H|congruence]. }
    assert (Hp : page_of a cand = []).
    { unfold page_of. rewrite Hfn, Hn. destruct (Z.ltb 0 (Z.of_nat (List.length cand))) eqn:E.
      - change (Z.to_nat 0) with 0. rewrite Nat.sub_0_r. apply skipn_all.
      - apply length_zero_iff_nil. lia. }
    split; [|split; [|split; [|split]]].
    - rewrite Hc. cbn [c_edges]. exact Hp.
    - rewrite Hc. cbn [c_start]. rewrite Hp. reflexivity.
    - rewrite Hc. cbn [c_end]. rewrite Hp. reflexivity.
    - eapply total_count_eq; eauto.
    - intros Hne. rewrite Hc. cbn [c_prev]. unfold cut_last. rewrite Hn.
      assert (List.length cand <> 0) by (intro H0; apply length_zero_iff_nil in H0; contradiction).
      apply orb_true_iff. left. lia.
  Qed.
End Zero.

(** * Walks through any page function *)
Section Walks.
  Variable enc : string -> string.

  Lemma walk_forward_by_managed cfg l a k : forall fuel after,
    walk_forward_by (get_connection enc cfg l) fuel a k after = walk_forward_from enc fuel cfg l a k after.
  Proof.
    induction fuel as [|fuel IH]; intros after; [reflexivity|].
    cbn [walk_forward_by walk_forward_from].
    destruct (get_connection enc cfg l (with_first_after a k after)) as [c|e]; [|reflexivity].
    destruct (c_next c); [|reflexivity]. rewrite IH. reflexivity.
  Qed.

  Lemma walk_backward_by_managed cfg l a k : forall fuel before,
    walk_backward_by (get_connection enc cfg l) fuel a k before = walk_backward_from enc fuel cfg l a k before.
  Proof.
    induction fuel as [|fuel IH]; intros before; [reflexivity|].
    cbn [walk_backward_by walk_backward_from].
    destruct (get_connection enc cfg l (with_last_before a k before)) as [c|e]; [|reflexivity].
    destruct (c_prev c); [|reflexivity]. rewrite IH. reflexivity.
  Qed.

  (** two page functions that agree on every argument list give the same walk *)
  Lemma walk_forward_by_ext get get' a a' k :
    (forall after, get (with_first_after a k after) = get' (with_first_after a' k after)) ->
    forall fuel after, walk_forward_by get fuel a k after = walk_forward_by get' fuel a' k after.
  Proof.
    intros H. induction fuel as [|fuel IH]; intros after; [reflexivity|].
    cbn [walk_forward_by]. rewrite H.
    destruct (get' (with_first_after a' k after)) as [c|e]; [|reflexivity].
    destruct (c_next c); [|reflexivity]. rewrite IH. reflexivity.
  Qed.

  Lemma walk_backward_by_ext get get' a a' k :
    (forall before, get (with_last_before a k before) = get' (with_last_before a' k before)) ->
    forall fuel before, walk_backward_by get fuel a k before = walk_backward_by get' fuel a' k before.
  Proof.
    intros H. induction fuel as [|fuel IH]; intros before; [reflexivity|].
    cbn [walk_backward_by]. rewrite H.
    destruct (get' (with_last_before a' k before)) as [c|e]; [|reflexivity].
    destruct (c_prev c); [|reflexivity]. rewrite IH. reflexivity.
  Qed.

  (** the list an externally managed connection paginates: what the resolver returned, filtered iff it asked *)
  Definition ext_list (cfg : config) (l : list node) (x : ext_info) (a : pargs) : list node :=
    if ei_apply_filter x then apply_text_filter cfg l a else l.

  Lemma apply_text_filter_ext_args cfg l x a :
    apply_text_filter cfg l (ext_args x a) = ext_list cfg l x a.
  Proof.
    unfold ext_list, ext_args. destruct (ei_apply_filter x); reflexivity.
  Qed.

  Lemma base_list_ext_args cfg l x a : base_list cfg l (ext_args x a) = ext_list cfg l x a.
  Proof.
    rewrite base_list_unsorted by reflexivity. apply apply_text_filter_ext_args.
  Qed.

  Lemma sort_ok_ext_args cfg x a : sort_ok cfg (ext_args x a).
  Proof. exact I. Qed.

  Lemma total_count_ext_args cfg l x a :
    total_count cfg l (ext_args x a) = Z.of_nat (List.length (ext_list cfg l x a)).
  Proof. unfold total_count. rewrite apply_text_filter_ext_args. reflexivity. Qed.

  Hypothesis enc_inj : injective enc.

  Theorem ext_walk_forward_partition cfg l x a k :
    ei_set_page_info x = true -> NoDup (map n_key l) -> (0 < k)%Z ->
    exists pages,
      walk_forward_by (get_connection_ext enc cfg l x) (S (List.length l)) a k None = (map inl pages, true) /\
      pages_nodes pages = ext_list cfg l x a /\
      NoDup (map n_key (pages_nodes pages)) /\
      Forall (fun c => (Z.of_nat (List.length (c_edges c)) <= k)%Z /\
                       c_total c = Z.of_nat (List.length (ext_list cfg l x a))) pages.
  Proof.
    intros Hs Hnd Hk.
    destruct (walk_forward_partition enc enc_inj cfg l (ext_args x a) k Hnd (sort_ok_ext_args cfg x a) Hk)
      as (pages & Hw & Hp & Hn & Hf).
    exists pages. rewrite base_list_ext_args in Hp. rewrite total_count_ext_args in Hf.
    split; [|split; [exact Hp|split; [exact Hn|exact Hf]]].
    rewrite <- Hw. unfold walk_forward. rewrite <- walk_forward_by_managed.
    apply walk_forward_by_ext. intros after.
    rewrite (ext_set_page_info enc cfg l x _ Hs). reflexivity.
  Qed.

  Theorem ext_walk_backward_partition cfg l x a k :
    ei_set_page_info x = true -> NoDup (map n_key l) -> (0 < k)%Z ->
    exists pages,
      walk_backward_by (get_connection_ext enc cfg l x) (S (List.length l)) a k None = (map inl pages, true) /\
      pages_nodes (rev pages) = ext_list cfg l x a /\
      NoDup (map n_key (pages_nodes (rev pages))) /\
      Forall (fun c => (Z.of_nat (List.length (c_edges c)) <= k)%Z /\
                       c_total c = Z.of_nat (List.length (ext_list cfg l x a))) pages.
  Proof.
    intros Hs Hnd Hk.
    destruct (walk_backward_partition enc enc_inj cfg l (ext_args x a) k Hnd (sort_ok_ext_args cfg x a) Hk)
      as (pages & Hw & Hp & Hn & Hf).
    exists pages. rewrite base_list_ext_args in Hp. rewrite total_count_ext_args in Hf.
    split; [|split; [exact Hp|split; [exact Hn|exact Hf]]].
    rewrite <- Hw. unfold walk_backward. rewrite <- walk_backward_by_managed.
    apply walk_backward_by_ext. intros before.
    rewrite (ext_set_page_info enc cfg l x _ Hs). reflexivity.
  Qed.
End Walks.
