(** applySort: the stable insertion sort of the model is a permutation, sorted and stable; and a stable
    sort for a strict weak order is unique, so it does not matter that Go uses sort.SliceStable
    (insertion sort on blocks + symmerge) and the model plain insertion. *)
From Coq Require Import List ZArith String Ascii Bool Lia ZifyBool ZifyNat Arith Permutation Sorted.
From Thunder Require Import Lib.Json Pagination.Model.
Import ListNotations.
Open Scope list_scope.

Section StableSort.
  Context {A : Type}.
  Variable less : A -> A -> bool.

  (** [less] is a strict weak order *)
  Hypothesis less_irrefl : forall x, less x x = false.
  Hypothesis less_trans : forall x y z, less x y = true -> less y z = true -> less x z = true.
  Hypothesis less_negtrans : forall x y z, less x z = true -> less x y = true \/ less y z = true.

  Definition le (x y : A) : Prop := less y x = false.
  Definition eqv (x y : A) : bool := (negb (less x y) && negb (less y x))%bool.

  Lemma less_asym x y : less x y = true -> less y x = false.
  Proof.
    intros H. destruct (less y x) eqn:E; auto.
    rewrite <- (less_irrefl x). symmetry. eapply less_trans; eauto.
  Qed.

  Lemma le_trans x y z : le x y -> le y z -> le x z.
  Proof.
    unfold le. intros H1 H2. destruct (less z x) eqn:E; auto.
    destruct (less_negtrans z y x E) as [H|H]; congruence.
  Qed.

  Lemma eqv_refl x : eqv x x = true.
  Proof. unfold eqv. rewrite less_irrefl. reflexivity. Qed.

  (** ** permutation *)
  Lemma insert_perm x l : Permutation (insert_stable less x l) (x :: l).
  Proof.
    induction l as [|y t IH]; simpl; auto.
    destruct (less y x); auto.
    eapply perm_trans; [apply perm_skip; exact IH|]. apply perm_swap.
  Qed.

  Lemma stable_sort_perm l : Permutation (stable_sort less l) l.
  Proof.
    induction l as [|x t IH]; simpl; auto.
    eapply perm_trans; [apply insert_perm|]. apply perm_skip. exact IH.
  Qed.

  Lemma stable_sort_length l : List.length (stable_sort less l) = List.length l.
  Proof. apply Permutation_length, stable_sort_perm. Qed.

  (** ** sortedness: no element is strictly below an earlier one *)
  Lemma insert_hdrel a x l : HdRel le a l -> le a x -> HdRel le a (insert_stable less x l).
  Proof.
    intros H Hax. destruct l as [|y t]; simpl.
    - constructor. exact Hax.
    - inversion H; subst. destruct (less y x); constructor; auto.
  Qed.

  Lemma insert_sorted x l : Sorted le l -> Sorted le (insert_stable less x l).
  Proof.
    induction 1 as [|y t Hs IH Hh]; simpl.
    - constructor; constructor.
    - destruct (less y x) eqn:E.
      + constructor; auto. apply insert_hdrel; auto. unfold le. apply less_asym. exact E.
      + constructor; [constructor; auto|]. constructor. exact E.
  Qed.

  Lemma stable_sort_sorted l : Sorted le (stable_sort less l).
  Proof. induction l; simpl; [constructor|apply insert_sorted; auto]. Qed.

  (** ** stability: elements that compare equal keep their relative order *)
  Lemma insert_stable_filter z x l :
    filter (eqv z) (insert_stable less x l) = filter (eqv z) (x :: l).
  Proof.
    induction l as [|y t IH]; [reflexivity|].
    simpl insert_stable. destruct (less y x) eqn:E; [|reflexivity].
    cbn [filter] in *. rewrite IH.
    destruct (eqv z x) eqn:Ezx; [|reflexivity].
    destruct (eqv z y) eqn:Ezy; [|reflexivity].
    exfalso. unfold eqv in *. destruct (less_negtrans y z x E) as [H|H]; rewrite H in *;
      simpl in *; rewrite ?andb_false_r in *; discriminate.
  Qed.

  Lemma stable_sort_stable z l : filter (eqv z) (stable_sort less l) = filter (eqv z) l.
  Proof.
    induction l as [|x t IH]; [reflexivity|].
    simpl stable_sort. rewrite insert_stable_filter. cbn [filter]. rewrite IH. reflexivity.
  Qed.

  (** ** uniqueness *)
  Lemma sorted_head_le a l x : Sorted le (a :: l) -> In x (a :: l) -> le a x.
  Proof.
    intros Hs Hin. apply Sorted_StronglySorted in Hs; [|exact le_trans].
    inversion Hs as [|? ? _ Hall]; subst. destruct Hin as [<-|Hin].
    - unfold le. apply less_irrefl.
    - rewrite Forall_forall in Hall. auto.
  Qed.

  Lemma filter_head_in (f : A -> bool) l a r : filter f l = a :: r -> In a l.
  Proof.
    intros H. assert (Hin : In a (filter f l)) by (rewrite H; left; reflexivity).
    apply filter_In in Hin. tauto.
  Qed.

  Theorem stable_sorted_unique l1 l2 :
    Sorted le l1 -> Sorted le l2 ->
    (forall z, filter (eqv z) l1 = filter (eqv z) l2) -> l1 = l2.
  Proof.
    revert l2. induction l1 as [|a t1 IH]; intros l2 S1 S2 Hf.
    - destruct l2 as [|b t2]; auto. specialize (Hf b). cbn [filter] in Hf. rewrite eqv_refl in Hf. discriminate.
    - destruct l2 as [|b t2].
      + specialize (Hf a). cbn [filter] in Hf. rewrite eqv_refl in Hf. discriminate.
      + assert (Ha : In a (b :: t2)).
        { pose proof (Hf a) as H. cbn [filter] in H. rewrite eqv_refl in H.
          symmetry in H. eapply filter_head_in. exact H. }
        assert (Hb : In b (a :: t1)).
        { pose proof (Hf b) as H. cbn [filter] in H. rewrite (eqv_refl b) in H.
          eapply filter_head_in. exact H. }
        pose proof (sorted_head_le _ _ _ S2 Ha) as Hba.
        pose proof (sorted_head_le _ _ _ S1 Hb) as Hab.
        assert (Eab : eqv a b = true) by (unfold eqv, le in *; rewrite Hba, Hab; reflexivity).
        assert (a = b).
        { pose proof (Hf a) as H. cbn [filter] in H. rewrite eqv_refl, Eab in H. congruence. }
        subst b. f_equal. apply IH.
        * inversion S1; auto.
        * inversion S2; auto.
        * intros z. pose proof (Hf z) as H. cbn [filter] in H. destruct (eqv z a); congruence.
  Qed.

  (** any list that is a sorted, stable rearrangement of [l] is the model's [stable_sort l] *)
  Corollary stable_sort_unique l l' :
    Sorted le l' -> (forall z, filter (eqv z) l' = filter (eqv z) l) -> l' = stable_sort less l.
  Proof.
    intros Hs Hf. apply stable_sorted_unique; auto.
    - apply stable_sort_sorted.
    - intros z. rewrite Hf, stable_sort_stable. reflexivity.
  Qed.
End StableSort.

(** * The order of the sort keys *)

Lemma str_ltb_irrefl s : str_ltb s s = false.
Proof. induction s as [|c s IH]; simpl; auto. rewrite Nat.ltb_irrefl. exact IH. Qed.

Lemma str_ltb_trans a : forall b c, str_ltb a b = true -> str_ltb b c = true -> str_ltb a c = true.
Proof.
  induction a as [|x a IH]; intros b c H1 H2; destruct b as [|y b]; destruct c as [|z c]; simpl in *;
    try discriminate; auto.
  destruct (Nat.ltb (nat_of_ascii x) (nat_of_ascii y)) eqn:Exy.
  - destruct (Nat.ltb (nat_of_ascii y) (nat_of_ascii z)) eqn:Eyz.
    + assert (Nat.ltb (nat_of_ascii x) (nat_of_ascii z) = true) as -> by lia. reflexivity.
    + destruct (Nat.ltb (nat_of_ascii z) (nat_of_ascii y)) eqn:Ezy; [discriminate|].
      assert (Nat.ltb (nat_of_ascii x) (nat_of_ascii z) = true) as -> by lia. reflexivity.
  - destruct (Nat.ltb (nat_of_ascii y) (nat_of_ascii x)) eqn:Eyx; [discriminate|].
    destruct (Nat.ltb (nat_of_ascii y) (nat_of_ascii z)) eqn:Eyz.
    + assert (Nat.ltb (nat_of_ascii x) (nat_of_ascii z) = true) as -> by lia. reflexivity.
    + destruct (Nat.ltb (nat_of_ascii z) (nat_of_ascii y)) eqn:Ezy; [discriminate|].
      assert (Nat.ltb (nat_of_ascii x) (nat_of_ascii z) = false) as -> by lia.
      assert (Nat.ltb (nat_of_ascii z) (nat_of_ascii x) = false) as -> by lia.
      eapply IH; eauto.
Qed.

(** trichotomy: two strings are ordered one way or the other, or equal *)
Lemma str_ltb_total a : forall b, str_ltb a b = false -> str_ltb b a = false -> a = b.
Proof.
  induction a as [|x a IH]; intros b H1 H2; destruct b as [|y b]; simpl in *; try discriminate; auto.
  destruct (Nat.ltb (nat_of_ascii x) (nat_of_ascii y)) eqn:Exy; [discriminate|].
  destruct (Nat.ltb (nat_of_ascii y) (nat_of_ascii x)) eqn:Eyx; [discriminate|].
  assert (Hn : nat_of_ascii x = nat_of_ascii y) by lia.
  f_equal; [|apply IH; auto].
  rewrite <- (ascii_nat_embedding x), <- (ascii_nat_embedding y), Hn. reflexivity.
Qed.

Lemma str_ltb_negtrans a c b : str_ltb a c = true -> str_ltb a b = true \/ str_ltb b c = true.
Proof.
  intros H. destruct (str_ltb a b) eqn:E1; auto. destruct (str_ltb b c) eqn:E2; auto. exfalso.
  destruct (str_ltb b a) eqn:E3.
  - (* b < a < c *) rewrite (str_ltb_trans _ _ _ E3 H) in E2. discriminate.
  - pose proof (str_ltb_total _ _ E1 E3). subst b. congruence.
Qed.

Lemma key_ltb_irrefl k : key_ltb k k = false.
Proof. unfold key_ltb. rewrite Z.ltb_irrefl, str_ltb_irrefl, andb_false_r. reflexivity. Qed.

Lemma key_ltb_trans a b c : key_ltb a b = true -> key_ltb b c = true -> key_ltb a c = true.
Proof.
  unfold key_ltb. intros H1 H2.
  apply orb_true_iff in H1. apply orb_true_iff in H2. apply orb_true_iff.
  destruct H1 as [H1|H1], H2 as [H2|H2];
    try apply andb_true_iff in H1; try apply andb_true_iff in H2; try (left; lia).
  right. apply andb_true_iff. split; [lia|].
  eapply str_ltb_trans; [apply H1|apply H2].
Qed.

Lemma key_ltb_negtrans a b c : key_ltb a c = true -> key_ltb a b = true \/ key_ltb b c = true.
Proof.
  unfold key_ltb. intros H. apply orb_true_iff in H.
  destruct (Z.ltb (fst a) (fst b)) eqn:Eab; [left; reflexivity|].
  destruct (Z.ltb (fst b) (fst c)) eqn:Ebc; [right; reflexivity|]. simpl.
  destruct H as [H|H]; [lia|]. apply andb_true_iff in H. destruct H as [Hz Hs].
  assert (Z.eqb (fst a) (fst b) = true) as -> by lia.
  assert (Z.eqb (fst b) (fst c) = true) as -> by lia. simpl.
  apply str_ltb_negtrans. exact Hs.
Qed.

(** [node_less f desc] is a strict weak order on nodes, ascending or descending *)
Lemma node_less_irrefl f d x : node_less f d x x = false.
Proof. unfold node_less. destruct d; apply key_ltb_irrefl. Qed.

Lemma node_less_trans f d x y z :
  node_less f d x y = true -> node_less f d y z = true -> node_less f d x z = true.
Proof. unfold node_less. destruct d; intros H1 H2; eapply key_ltb_trans; eauto. Qed.

Lemma node_less_negtrans f d x y z :
  node_less f d x z = true -> node_less f d x y = true \/ node_less f d y z = true.
Proof.
  unfold node_less. destruct d; intros H.
  - destruct (key_ltb_negtrans _ (sort_key f y) _ H); auto.
  - apply key_ltb_negtrans. exact H.
Qed.
