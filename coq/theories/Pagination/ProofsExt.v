(** Externally managed connections (PaginationInfo / PostProcessOptions), ManualPaginationWithFallback,
    and the extra sort value kinds. *)
From Coq Require Import List ZArith NArith String Ascii Bool Lia Arith.
From Thunder Require Import Lib.Json Pagination.Model Pagination.ProofsSlice.
Import ListNotations.
Open Scope list_scope.

(** the arguments a thunder-managed connection would see: no sort, and the filter text only if the
    resolver asked for thunder's text filter *)
Definition ext_args (x : ext_info) (a : pargs) : pargs :=
  mk_args (a_first a) (a_last a) (a_after a) (a_before a)
          (if ei_apply_filter x then a_ftext a else None) (a_ffields a) None (a_desc a) (a_ftype a).

Section WithEnc.
  Variable enc : string -> string.

  (** PostProcessOptions.SetPageInfo: thunder slices and computes the page info exactly as for a
      thunder-managed connection over the returned list (unsorted; filtered iff ApplyTextFilter) - so every
      per-page theorem of C11 applies to it. *)
  Lemma ext_set_page_info cfg l x a :
    ei_set_page_info x = true ->
    get_connection_ext enc cfg l x a = get_connection enc cfg l (ext_args x a).
  Proof.
    intros Hs. unfold get_connection_ext, get_connection, get_connection_with. rewrite Hs.
    destruct l as [|n t]; [reflexivity|].
    unfold ext_args, apply_sort. cbn [a_sortby].
    destruct (ei_apply_filter x); reflexivity.
  Qed.

  (** Without SetPageInfo the resolver's PaginationInfo is the source of truth. *)
  Lemma ext_info_from_resolver cfg l x a t :
    l <> [] -> ei_set_page_info x = false -> ei_total x = Some t ->
    exists c, get_connection_ext enc cfg l x a = inl c /\
      c_total c = t /\ c_next c = ei_next x /\ c_prev c = ei_prev x /\ c_pages c = ei_pages x /\
      c_edges c = nodes_to_edges enc (if ei_apply_filter x then apply_text_filter cfg l a else l) /\
      c_start c = match c_edges c with [] => EmptyString | e :: _ => e_cursor e end /\
      c_end c = match c_edges c with [] => EmptyString | e :: _ => e_cursor (last (c_edges c) e) end.
  Proof.
    intros Hl Hs Ht. unfold get_connection_ext. destruct l as [|n r]; [congruence|].
    rewrite Hs, Ht. rewrite set_cursors_spec. eexists. split; [reflexivity|].
    cbn [c_total c_next c_prev c_pages c_edges c_start c_end]. repeat split; reflexivity.
  Qed.

  Lemma ext_missing_total_func cfg l x a :
    l <> [] -> ei_set_page_info x = false -> ei_total x = None ->
    get_connection_ext enc cfg l x a = inr ErrNoTotalFunc.
  Proof.
    intros Hl Hs Ht. unfold get_connection_ext. destruct l as [|n r]; [congruence|].
    rewrite Hs, Ht. reflexivity.
  Qed.

  (** an empty page is answered with the empty connection: the resolver's info is not consulted *)
  Lemma ext_empty_page cfg x a : get_connection_ext enc cfg [] x a = inl empty_conn.
  Proof. reflexivity. Qed.

  Lemma dual_fallback cfg l x a : get_connection_dual enc true cfg l x a = get_connection enc cfg l a.
  Proof. reflexivity. Qed.

  Lemma dual_manual cfg l x a : get_connection_dual enc false cfg l x a = get_connection_ext enc cfg l x a.
  Proof. reflexivity. Qed.
End WithEnc.

(** the code as found dropped the FilterFunc options on the fallback path: an element that passes the
    custom filter is not counted *)
Definition f25_cfg : config := mk_cfg [mk_ff "t0_plain" "t0" IPlain]%string [] false c11_customs.
Definition f25_nodes : list node := [mk_node "2" JNull [("t0", "can")]%string []].
Definition f25_args : pargs :=
  mk_args None None None None (Some "can"%string) None None false (Some "exact"%string).
Definition f25_ext : ext_info := mk_ext (Some 1%Z) false false [] true false.

Lemma f25_refutes :
  exists cfg l x a c,
    NoDup (map n_key l) /\ sort_ok cfg a /\ args_ok a /\
    get_connection_dual_orig base64 true cfg l x a = inl c /\
    c_total c <> total_count cfg l a /\
    get_connection_dual base64 true cfg l x a <> inl c.
Proof.
  exists f25_cfg, f25_nodes, f25_ext, f25_args. eexists.
  split; [|split; [|split; [|split; [|split]]]].
  - vm_compute. repeat constructor; simpl; intuition.
  - exact I.
  - unfold args_ok. simpl. repeat split; auto; lia.
  - vm_compute. reflexivity.
  - vm_compute. discriminate.
  - vm_compute. discriminate.
Qed.

(** * Sort value kinds *)

Lemma node_less_uint f desc x y zx zy :
  lookup_def (SInt 0) f (n_sorts x) = SUint zx -> lookup_def (SInt 0) f (n_sorts y) = SUint zy ->
  node_less f desc x y = if desc then Z.ltb zy zx else Z.ltb zx zy.
Proof.
  intros Hx Hy. unfold node_less, sort_key, key_ltb. rewrite Hx, Hy. simpl.
  destruct desc; rewrite andb_false_r, orb_false_r; reflexivity.
Qed.

(** floats: through any order embedding [code] of the float values into Z (the harness uses the IEEE bit
    pattern, sign-folded, -0 = +0; NaN has no code) *)
Lemma node_less_float f desc x y cx cy :
  lookup_def (SInt 0) f (n_sorts x) = SFloat cx -> lookup_def (SInt 0) f (n_sorts y) = SFloat cy ->
  node_less f desc x y = if desc then Z.ltb cy cx else Z.ltb cx cy.
Proof.
  intros Hx Hy. unfold node_less, sort_key, key_ltb. rewrite Hx, Hy. simpl.
  destruct desc; rewrite andb_false_r, orb_false_r; reflexivity.
Qed.

(** * Lower-casing *)

Fixpoint all_ascii (s : string) : bool :=
  match s with
  | EmptyString => true
  | String c t => (N.ltb (N_of_ascii c) 128 && all_ascii t)%bool
  end.

Fixpoint map_ascii (f : ascii -> ascii) (s : string) : string :=
  match s with EmptyString => EmptyString | String c t => String (f c) (map_ascii f t) end.

(** on ASCII texts [lower] is the bytewise A-Z -> a-z map *)
Lemma lower_ascii_text s : all_ascii s = true -> lower s = map_ascii lower_ascii s.
Proof.
  induction s as [|c t IH]; [reflexivity|]. cbn [all_ascii]. intros H.
  apply andb_true_iff in H. destruct H as [Hc Ht]. apply N.ltb_lt in Hc.
  cbn [lower map_ascii]. destruct t as [|d t']; [reflexivity|].
  assert (E : N.eqb (N_of_ascii c) 195 = false) by (apply N.eqb_neq; lia).
  rewrite E. cbn [andb]. rewrite IH by exact Ht. reflexivity.
Qed.

Lemma all_ascii_in_model s : all_ascii s = true -> text_in_model s = true.
Proof.
  induction s as [|c t IH]; [reflexivity|]. cbn [all_ascii text_in_model]. intros H.
  apply andb_true_iff in H. destruct H as [Hc Ht]. rewrite Hc. auto.
Qed.
