(** Per-page clauses: totalCount, hasNextPage / hasPrevPage, the slice, start/end cursors, unknown
    cursors; and the refutation of the hasNextPage clause for the code as found (F10). *)
From Coq Require Import List ZArith String Ascii Bool Lia ZifyBool ZifyNat Arith Permutation Sorted.
From Thunder Require Import Lib.Json Pagination.Model Pagination.ProofsSlice Pagination.ProofsSort
  Pagination.ProofsWalk.
Import ListNotations.
Open Scope list_scope.

Section WithEnc.
  Variable enc : string -> string.
  Hypothesis enc_inj : forall a b, enc a = enc b -> a = b.

  Section Page.
    Variables (cfg : config) (l : list node) (a : pargs) (c : conn) (E1 cand : list edge).
    Hypothesis Hnd : NoDup (map n_key l).
    Hypothesis Hs : sort_ok cfg a.
    Hypothesis Hok : args_ok a.
    Hypothesis Hg : get_connection enc cfg l a = inl c.
    Hypothesis Ha : drop_through (a_after a) (base_edges enc cfg l a) E1.
    Hypothesis Hb : keep_until (a_before a) E1 cand.

    Let Hspec := get_connection_spec enc enc_inj cfg l a E1 cand Hnd Hs Hok Ha Hb.

    Lemma conn_eq :
      c = mk_conn (Z.of_nat (List.length (base_list cfg l a)))
             (page_of a cand)
             (cut_first a cand || Nat.ltb (S (List.length cand)) (List.length E1))%bool
             (cut_last a cand || Nat.ltb (S (List.length E1)) (List.length (base_edges enc cfg l a)))%bool
             (start_of (page_of a cand)) (end_of (page_of a cand))
             (pages_from_edges (base_edges enc cfg l a) (limit a)).
    Proof. rewrite Hspec in Hg. inversion Hg. reflexivity. Qed.

    Lemma total_count_eq : c_total c = total_count cfg l a.
    Proof.
      rewrite conn_eq. cbn [c_total]. unfold total_count. rewrite base_list_length; auto.
    Qed.

    Lemma has_next_iff :
      c_next c = true <->
      (exists f, a_first a = Some f /\ (f < Z.of_nat (List.length cand))%Z) \/
      (exists p e s, E1 = p ++ e :: s /\ named (a_before a) e /\ s <> []).
    Proof.
      rewrite conn_eq. cbn [c_next]. rewrite orb_true_iff. split.
      - intros [H|H].
        + left. unfold cut_first in H. destruct (a_first a) as [f|]; [|discriminate]. exists f. split; auto. lia.
        + right. destruct Hb as [p e s HE Hn | Hno].
          * exists p, e, s. repeat split; auto. intros ->. subst E1. rewrite app_length in H. simpl in H. lia.
          * lia.
      - intros [(f & Hf & Hlt) | (p & e & s & HE & Hn & Hne)].
        + left. unfold cut_first. rewrite Hf. lia.
        + right. assert (Hnd1 : NoDup (map e_cursor E1)).
          { eapply drop_through_nodup; [|exact Ha]. apply base_edges_nodup; auto. }
          assert (cand = p) as ->.
          { eapply keep_until_fun; [exact Hnd1 | exact Hb | eapply ku_found; eauto]. }
          subst E1. rewrite app_length. cbn [List.length]. destruct s; [congruence|]. cbn [List.length]. lia.
    Qed.

    Lemma has_prev_iff :
      c_prev c = true <->
      (exists n, a_last a = Some n /\ (n < Z.of_nat (List.length cand))%Z) \/
      (exists p e s, base_edges enc cfg l a = p ++ e :: s /\ named (a_after a) e /\ p <> []).
    Proof.
      rewrite conn_eq. cbn [c_prev]. rewrite orb_true_iff. split.
      - intros [H|H].
        + left. unfold cut_last in H. destruct (a_last a) as [n|]; [|discriminate]. exists n. split; auto. lia.
        + right. destruct Ha as [p e s HE Hn | Hno].
          * exists p, e, s. repeat split; auto. intros ->. rewrite HE in H. simpl in H. lia.
          * lia.
      - intros [(n & Hn & Hlt) | (p & e & s & HE & Hn & Hne)].
        + left. unfold cut_last. rewrite Hn. lia.
        + right. assert (E1 = s) as ->.
          { eapply drop_through_fun; [|exact Ha | eapply dt_found; eauto]. apply base_edges_nodup; auto. }
          rewrite HE, app_length. cbn [List.length]. destruct p; [congruence|]. cbn [List.length]. lia.
    Qed.

    Lemma page_slice :
      (forall f, a_first a = Some f -> c_edges c = firstn (Z.to_nat f) cand) /\
      (forall n, a_last a = Some n -> c_edges c = skipn (List.length cand - Z.to_nat n) cand) /\
      (a_first a = None -> a_last a = None -> c_edges c = cand).
    Proof.
      rewrite conn_eq. cbn [c_edges]. unfold page_of. destruct Hok as (H0f & H0l & Hfl).
      split; [|split].
      - intros f Hf. rewrite Hf. destruct (Z.ltb f (Z.of_nat (List.length cand))) eqn:E; auto.
        symmetry. apply firstn_all2. lia.
      - intros n Hn. rewrite Hn. destruct Hfl as [Hf|Hl]; [|congruence]. rewrite Hf.
        destruct (Z.ltb n (Z.of_nat (List.length cand))) eqn:E; auto.
        replace (List.length cand - Z.to_nat n) with 0 by lia. reflexivity.
      - intros -> ->. reflexivity.
    Qed.

    Lemma start_end_eq :
      c_start c = match c_edges c with [] => EmptyString | e :: _ => e_cursor e end /\
      c_end c = match c_edges c with [] => EmptyString | e :: _ => e_cursor (last (c_edges c) e) end.
    Proof. rewrite conn_eq. cbn [c_start c_end c_edges]. split; reflexivity. Qed.
  End Page.

  (** a page is always available when the arguments are accepted *)
  Lemma get_connection_accepts cfg l a :
    NoDup (map n_key l) -> sort_ok cfg a -> args_ok a -> exists c, get_connection enc cfg l a = inl c.
  Proof.
    intros Hnd Hs Hok.
    destruct (drop_through_total (a_after a) (base_edges enc cfg l a)) as [E1 Ha].
    destruct (keep_until_total (a_before a) E1) as [cand Hb].
    rewrite (get_connection_spec enc enc_inj cfg l a E1 cand Hnd Hs Hok Ha Hb). eauto.
  Qed.

  (** * Unknown cursors behave as absent *)

  Lemma unknown_after_absent cfg l a :
    (forall e, In e (base_edges enc cfg l a) -> ~ named (a_after a) e) ->
    get_connection enc cfg l a = get_connection enc cfg l (set_after a None).
  Proof.
    intros Hno. unfold get_connection, get_connection_with. destruct l as [|x t]; [reflexivity|].
    change (apply_text_filter cfg (x :: t) (set_after a None)) with (apply_text_filter cfg (x :: t) a).
    change (apply_sort cfg (apply_text_filter cfg (x :: t) a) (set_after a None))
      with (apply_sort cfg (apply_text_filter cfg (x :: t) a) a).
    unfold base_edges, base_list in Hno.
    destruct (apply_sort cfg (apply_text_filter cfg (x :: t) a) a) as [srt|]; [|reflexivity].
    change (limit (set_after a None)) with (limit a).
    assert (Hp : paginate_with apply_cursors (nodes_to_edges enc srt) a =
                 paginate_with apply_cursors (nodes_to_edges enc srt) (set_after a None)).
    { unfold paginate_with, apply_cursors. cbn [set_after a_after a_before a_first a_last].
      destruct (a_after a) as [x0|]; [|reflexivity].
      assert (Hc : cursor_index (nodes_to_edges enc srt) x0 = None).
      { apply cursor_index_none_iff. intros e He Heq. apply (Hno e He). unfold named. congruence. }
      rewrite Hc. destruct (a_before a) as [b|]; [destruct (cursor_index (nodes_to_edges enc srt) b)|];
        reflexivity. }
    rewrite Hp. reflexivity.
  Qed.

  Lemma unknown_before_absent cfg l a E1 :
    NoDup (map n_key l) -> sort_ok cfg a -> args_ok a ->
    drop_through (a_after a) (base_edges enc cfg l a) E1 ->
    (forall e, In e E1 -> ~ named (a_before a) e) ->
    get_connection enc cfg l a = get_connection enc cfg l (set_before a None).
  Proof.
    intros Hnd Hs Hok Ha Hno.
    rewrite (get_connection_spec enc enc_inj cfg l a E1 E1 Hnd Hs Hok Ha (ku_absent _ _ Hno)).
    assert (Hno' : forall e, In e E1 -> ~ named (a_before (set_before a None)) e)
      by (intros e _ Hn; discriminate Hn).
    rewrite (get_connection_spec enc enc_inj cfg l (set_before a None) E1 E1 Hnd Hs Hok Ha (ku_absent _ _ Hno')).
    reflexivity.
  Qed.
End WithEnc.

(** * F10: the code as found *)

Definition f10_nodes : list node :=
  map (fun k => mk_node k JNull [] []) ["1"; "2"; "3"; "4"]%string.
Definition f10_args : pargs :=
  mk_args None None (Some (base64 "1")) (Some (base64 "4")) None None None false None.
Definition f10_cfg : config := mk_cfg [] [] false [].

Lemma f10_refutes :
  exists cfg l a c E1 cand,
    NoDup (map n_key l) /\ sort_ok cfg a /\ args_ok a /\
    get_connection_orig base64 cfg l a = inl c /\
    drop_through (a_after a) (base_edges base64 cfg l a) E1 /\
    keep_until (a_before a) E1 cand /\
    ~ (c_next c = true <->
       (exists f, a_first a = Some f /\ (f < Z.of_nat (List.length cand))%Z) \/
       (exists p e s, E1 = p ++ e :: s /\ named (a_before a) e /\ s <> [])).
Proof.
  exists f10_cfg, f10_nodes, f10_args.
  eexists. exists (skipn 1 (base_edges base64 f10_cfg f10_nodes f10_args)),
    (firstn 2 (skipn 1 (base_edges base64 f10_cfg f10_nodes f10_args))).
  split; [|split; [|split; [|split; [|split; [|split]]]]].
  - vm_compute. repeat constructor; simpl; intuition discriminate.
  - exact I.
  - unfold args_ok. simpl. repeat split; auto; lia.
  - vm_compute. reflexivity.
  - eapply (dt_found _ _ [] _ _); vm_compute; reflexivity.
  - eapply (ku_found _ _ [_; _] _ []); vm_compute; reflexivity.
  - cbn [c_next]. intros [H _]. specialize (H eq_refl). destruct H as [(f & Hf & _) | (p & e & s & HE & Hn & Hne)].
    + discriminate Hf.
    + vm_compute in HE. unfold named in Hn. vm_compute in Hn.
      destruct p as [|e1 [|e2 [|e3 [|e4 p]]]]; simpl in HE; inversion HE; subst; simpl in Hn;
        try discriminate Hn; try congruence.
Qed.
