(** getConnection as a whole, and the two chained walks. *)
From Coq Require Import List ZArith String Ascii Bool Lia ZifyBool ZifyNat Arith Permutation Sorted.
From Thunder Require Import Lib.Json Pagination.Model Pagination.ProofsFilterImpl Pagination.ProofsSlice
  Pagination.ProofsSort.
Import ListNotations.
Open Scope list_scope.

(** * The paginated list *)

Lemma apply_sort_ok cfg l a : sort_ok cfg a -> apply_sort cfg l a <> None.
Proof.
  unfold sort_ok, apply_sort. destruct (a_sortby a) as [f|]; [|discriminate].
  intros ->. discriminate.
Qed.

Lemma base_list_sort cfg l a :
  sort_ok cfg a -> apply_sort cfg (apply_text_filter cfg l a) a = Some (base_list cfg l a).
Proof.
  intros H. unfold base_list. destruct (apply_sort cfg (apply_text_filter cfg l a) a) eqn:E; auto.
  exfalso. revert E. apply apply_sort_ok. exact H.
Qed.

Lemma base_list_perm cfg l a :
  sort_ok cfg a -> Permutation (base_list cfg l a) (apply_text_filter cfg l a).
Proof.
  intros H. unfold base_list, apply_sort. unfold sort_ok in H.
  destruct (a_sortby a) as [f|]; [|apply Permutation_refl].
  rewrite H. apply stable_sort_perm.
Qed.

Lemma base_list_length cfg l a :
  sort_ok cfg a -> List.length (base_list cfg l a) = List.length (apply_text_filter cfg l a).
Proof. intros H. apply Permutation_length, base_list_perm, H. Qed.

Lemma filter_length_le {A} (f : A -> bool) l : List.length (filter f l) <= List.length l.
Proof. induction l as [|x t IH]; simpl; auto. destruct (f x); simpl; lia. Qed.

Lemma base_list_length_le cfg l a : sort_ok cfg a -> List.length (base_list cfg l a) <= List.length l.
Proof. intros H. rewrite base_list_length, apply_text_filter_eq; auto. apply filter_length_le. Qed.

Lemma nodup_map_filter {A B} (g : A -> B) (f : A -> bool) l :
  NoDup (map g l) -> NoDup (map g (filter f l)).
Proof.
  induction l as [|x t IH]; simpl; intros H; [constructor|].
  inversion H as [|y r Hn Hd]; subst. destruct (f x); simpl; auto.
  constructor; auto. intros Hin. apply Hn. apply in_map_iff in Hin.
  destruct Hin as (z & Hz & Hin). apply filter_In in Hin. apply in_map_iff. exists z. tauto.
Qed.

Lemma base_list_nodup cfg l a :
  sort_ok cfg a -> NoDup (map n_key l) -> NoDup (map n_key (base_list cfg l a)).
Proof.
  intros Hs Hn. eapply Permutation_NoDup.
  - apply Permutation_map. apply Permutation_sym. apply base_list_perm. exact Hs.
  - rewrite apply_text_filter_eq. apply nodup_map_filter. exact Hn.
Qed.

Lemma base_list_nil cfg a : sort_ok cfg a -> base_list cfg [] a = [].
Proof.
  intros H. pose proof (base_list_length_le cfg [] a H) as Hl. simpl in Hl.
  destruct (base_list cfg [] a); auto. simpl in Hl. lia.
Qed.

Section WithEnc.
  Variable enc : string -> string.
  Hypothesis enc_inj : forall a b, enc a = enc b -> a = b.

  Lemma edges_cursor_map l : map e_cursor (nodes_to_edges enc l) = map enc (map n_key l).
  Proof. unfold nodes_to_edges. rewrite !map_map. reflexivity. Qed.

  Lemma edges_node_map l : map e_node (nodes_to_edges enc l) = l.
  Proof. unfold nodes_to_edges. rewrite map_map. simpl. apply map_id. Qed.

  Lemma nodup_map_inj (l : list string) : NoDup l -> NoDup (map enc l).
  Proof.
    induction 1 as [|x t Hn Hd IH]; simpl; constructor; auto.
    intros Hin. apply in_map_iff in Hin. destruct Hin as (y & Hy & Hin).
    apply enc_inj in Hy. subst y. auto.
  Qed.

  Lemma edges_nodup l : NoDup (map n_key l) -> NoDup (map e_cursor (nodes_to_edges enc l)).
  Proof. intros H. rewrite edges_cursor_map. apply nodup_map_inj. exact H. Qed.

  Definition base_edges cfg l a := nodes_to_edges enc (base_list cfg l a).

  Lemma base_edges_nodup cfg l a :
    sort_ok cfg a -> NoDup (map n_key l) -> NoDup (map e_cursor (base_edges cfg l a)).
  Proof. intros. apply edges_nodup, base_list_nodup; auto. Qed.

  Lemma nodes_to_edges_length l : List.length (nodes_to_edges enc l) = List.length l.
  Proof. apply map_length. Qed.

  (** * getConnection, specified *)

  Definition start_of (es : list edge) : string := match es with [] => EmptyString | e :: _ => e_cursor e end.
  Definition end_of (es : list edge) : string :=
    match es with [] => EmptyString | e :: _ => e_cursor (last es e) end.

  Lemma cut_first_nil a : args_ok a -> cut_first a [] = false.
  Proof.
    unfold args_ok, cut_first. intros (H & _). destruct (a_first a); simpl in *; auto. lia.
  Qed.

  Lemma cut_last_nil a : args_ok a -> cut_last a [] = false.
  Proof.
    unfold args_ok, cut_last. intros (_ & H & _). destruct (a_last a); simpl in *; auto. lia.
  Qed.

  Lemma page_of_nil a : page_of a [] = [].
  Proof.
    unfold page_of. destruct (a_first a), (a_last a); simpl; auto;
      match goal with |- context [if ?c then _ else _] => destruct c end; auto; apply firstn_nil.
  Qed.

  Lemma drop_through_nil c E1 : drop_through c [] E1 -> E1 = [].
  Proof. intros [p e s HE _|]; auto. destruct p; discriminate. Qed.

  Lemma keep_until_nil c cand : keep_until c [] cand -> cand = [].
  Proof. intros [p e s HE _|]; auto. destruct p; discriminate. Qed.

  Theorem get_connection_spec cfg l a E1 cand :
    NoDup (map n_key l) -> sort_ok cfg a -> args_ok a ->
    drop_through (a_after a) (base_edges cfg l a) E1 ->
    keep_until (a_before a) E1 cand ->
    get_connection enc cfg l a =
      inl (mk_conn (Z.of_nat (List.length (base_list cfg l a)))
             (page_of a cand)
             (cut_first a cand || Nat.ltb (S (List.length cand)) (List.length E1))%bool
             (cut_last a cand || Nat.ltb (S (List.length E1)) (List.length (base_edges cfg l a)))%bool
             (start_of (page_of a cand)) (end_of (page_of a cand))
             (pages_from_edges (base_edges cfg l a) (limit a))).
  Proof.
    intros Hnd Hs Hok Ha Hb. unfold get_connection, get_connection_with.
    destruct l as [|x t].
    - unfold base_edges in *. rewrite (base_list_nil cfg a Hs) in *. simpl in Ha.
      apply drop_through_nil in Ha. subst E1. apply keep_until_nil in Hb. subst cand.
      rewrite page_of_nil, cut_first_nil, cut_last_nil by assumption. reflexivity.
    - rewrite (base_list_sort cfg (x :: t) a Hs).
      fold (base_edges cfg (x :: t) a).
      pose proof (paginate_spec (base_edges cfg (x :: t) a) a E1 cand
                    (base_edges_nodup cfg _ a Hs Hnd) Hok Ha Hb) as Hp.
      unfold paginate_manually in Hp. rewrite Hp. rewrite set_cursors_spec. reflexivity.
  Qed.

  (** an unknown sort field and rejected arguments are the only errors, and both are errors
      (for a non-empty list: the empty list returns the empty connection before any check) *)
  Lemma get_connection_unknown_sort cfg l a :
    l <> [] -> ~ sort_ok cfg a -> get_connection enc cfg l a = inr ErrUnknownSort.
  Proof.
    intros Hl Hs. unfold get_connection, get_connection_with. destruct l as [|x t]; [congruence|].
    unfold sort_ok in Hs. unfold apply_sort. destruct (a_sortby a) as [f|]; [|exfalso; apply Hs; exact I].
    destruct (mem_str f (cfg_sf cfg)); [exfalso; apply Hs; reflexivity|reflexivity].
  Qed.

  Lemma get_connection_rejected cfg l a :
    l <> [] -> sort_ok cfg a -> ~ args_ok a -> exists e, get_connection enc cfg l a = inr e.
  Proof.
    intros Hl Hs Hno. unfold get_connection, get_connection_with. destruct l as [|x t]; [congruence|].
    rewrite (base_list_sort cfg (x :: t) a Hs).
    destruct (paginate_error (nodes_to_edges enc (base_list cfg (x :: t) a)) a Hno) as [e He].
    unfold paginate_manually in He. rewrite He. eauto.
  Qed.

  (** * Forward walk *)

  Lemma firstn_snoc {A} (n : nat) (s : list A) :
    0 < n -> s <> [] -> exists q e, firstn n s = q ++ [e].
  Proof.
    intros Hn Hs. destruct (exists_last (l := firstn n s)) as (q & e & H).
    - destruct n; [lia|]. destruct s; [congruence|]. simpl. discriminate.
    - eauto.
  Qed.

  Lemma end_of_snoc q e : end_of (q ++ [e]) = e_cursor e.
  Proof.
    unfold end_of. destruct (q ++ [e]) as [|x r] eqn:E; [destruct q; discriminate|].
    rewrite <- E. rewrite last_app_single. reflexivity.
  Qed.

  Definition fwd_inv (p : list edge) (cur : option string) : Prop :=
    (p = [] /\ cur = None) \/ (exists q e, p = q ++ [e] /\ cur = Some (e_cursor e)).

  Definition page_ok (total : Z) (k : Z) (c : conn) : Prop :=
    (Z.of_nat (List.length (c_edges c)) <= k)%Z /\ c_total c = total /\
    c_start c = start_of (c_edges c) /\ c_end c = end_of (c_edges c).

  Lemma walk_forward_from_correct cfg l a k :
    NoDup (map n_key l) -> sort_ok cfg a -> (0 < k)%Z ->
    forall fuel p s cur,
      base_edges cfg l a = p ++ s -> fwd_inv p cur -> List.length s < fuel ->
      exists pages,
        walk_forward_from enc fuel cfg l a k cur = (map inl pages, true) /\
        List.concat (map c_edges pages) = s /\
        Forall (page_ok (Z.of_nat (List.length (base_list cfg l a))) k) pages.
  Proof.
    intros Hnd Hs Hk. induction fuel as [|fuel IH]; intros p s cur HE Hinv Hlen; [lia|].
    set (a' := with_first_after a k cur).
    assert (Hs' : sort_ok cfg a') by exact Hs.
    assert (Hok : args_ok a') by (unfold args_ok, a'; simpl; repeat split; auto; lia).
    assert (HB : base_edges cfg l a' = base_edges cfg l a) by reflexivity.
    assert (Ha : drop_through (a_after a') (base_edges cfg l a') s).
    { rewrite HB, HE. destruct Hinv as [[-> ->] | (q & e & -> & ->)].
      - simpl. apply dt_absent. intros e _ Hn. discriminate Hn.
      - rewrite <- app_assoc. simpl. eapply dt_found; [reflexivity|reflexivity]. }
    assert (Hb : keep_until (a_before a') s s).
    { apply ku_absent. intros e _ Hn. discriminate Hn. }
    pose proof (get_connection_spec cfg l a' s s Hnd Hs' Hok Ha Hb) as Hg.
    cbn [walk_forward_from]. fold a'. rewrite Hg. cbn [c_next c_end].
    assert (Hnolt : Nat.ltb (S (List.length s)) (List.length s) = false) by (apply Nat.ltb_ge; lia).
    rewrite Hnolt, orb_false_r.
    unfold cut_first, page_of. cbn [a' with_first_after a_first a_last].
    destruct (Z.ltb k (Z.of_nat (List.length s))) eqn:Ecut.
    - (* the page is cut by first: there is a next page *)
      assert (Hsne : s <> []) by (destruct s; simpl in *; [lia|discriminate]).
      destruct (firstn_snoc (Z.to_nat k) s ltac:(lia) Hsne) as (q & e & Hq).
      specialize (IH (p ++ firstn (Z.to_nat k) s) (skipn (Z.to_nat k) s) (Some (end_of (firstn (Z.to_nat k) s)))).
      destruct IH as (pages & Hw & Hc & Hf).
      + rewrite <- app_assoc, firstn_skipn. exact HE.
      + right. exists (p ++ q), e. rewrite Hq, end_of_snoc, app_assoc. auto.
      + rewrite skipn_length. lia.
      + rewrite Hw.
        eexists (mk_conn _ _ _ _ _ _ _ :: pages). split; [reflexivity|]. split.
        * cbn [map List.concat c_edges]. rewrite Hc. apply firstn_skipn.
        * constructor; auto. unfold page_ok. cbn [c_edges c_total c_start c_end].
          rewrite firstn_length. repeat split; auto. lia.
    - eexists [mk_conn _ _ _ _ _ _ _]. split; [reflexivity|]. split.
      + cbn [map List.concat c_edges]. apply app_nil_r.
      + constructor; [|constructor]. unfold page_ok. cbn [c_edges c_total c_start c_end].
        repeat split; auto. lia.
  Qed.

  Theorem walk_forward_correct cfg l a k :
    NoDup (map n_key l) -> sort_ok cfg a -> (0 < k)%Z ->
    exists pages,
      walk_forward enc cfg l a k = (map inl pages, true) /\
      List.concat (map c_edges pages) = base_edges cfg l a /\
      Forall (page_ok (Z.of_nat (List.length (base_list cfg l a))) k) pages.
  Proof.
    intros Hnd Hs Hk. unfold walk_forward.
    apply (walk_forward_from_correct cfg l a k Hnd Hs Hk (S (List.length l)) [] (base_edges cfg l a) None).
    - reflexivity.
    - left. auto.
    - unfold base_edges. rewrite nodes_to_edges_length. pose proof (base_list_length_le cfg l a Hs). lia.
  Qed.

  (** more fuel changes nothing: the walk ends by itself *)
  Lemma walk_forward_from_mono cfg l a k :
    forall f1 f2 cur r, f1 <= f2 ->
      walk_forward_from enc f1 cfg l a k cur = (r, true) ->
      walk_forward_from enc f2 cfg l a k cur = (r, true).
  Proof.
    induction f1 as [|f1 IH]; intros f2 cur r Hle H; [discriminate H|].
    destruct f2 as [|f2]; [lia|]. cbn [walk_forward_from] in *.
    destruct (get_connection enc cfg l (with_first_after a k cur)) as [c|e]; auto.
    destruct (c_next c); auto.
    destruct (walk_forward_from enc f1 cfg l a k (Some (c_end c))) as [r1 b1] eqn:E1.
    inversion H; subst. rewrite (IH f2 _ r1); auto. lia.
  Qed.

  Theorem walk_forward_fuel cfg l a k fuel :
    NoDup (map n_key l) -> sort_ok cfg a -> (0 < k)%Z -> List.length l < fuel ->
    walk_forward_from enc fuel cfg l a k None = walk_forward enc cfg l a k.
  Proof.
    intros Hnd Hs Hk Hf.
    destruct (walk_forward_correct cfg l a k Hnd Hs Hk) as (p2 & H2 & _).
    rewrite H2. unfold walk_forward in H2.
    apply (walk_forward_from_mono cfg l a k (S (List.length l))); auto.
  Qed.

  (** * Backward walk *)

  Definition bwd_inv (s : list edge) (cur : option string) : Prop :=
    (s = [] /\ cur = None) \/ (exists e r, s = e :: r /\ cur = Some (e_cursor e)).

  Lemma walk_backward_from_correct cfg l a k :
    NoDup (map n_key l) -> sort_ok cfg a -> (0 < k)%Z ->
    forall fuel p s cur,
      base_edges cfg l a = p ++ s -> bwd_inv s cur -> List.length p < fuel ->
      exists pages,
        walk_backward_from enc fuel cfg l a k cur = (map inl pages, true) /\
        List.concat (map c_edges (rev pages)) = p /\
        Forall (page_ok (Z.of_nat (List.length (base_list cfg l a))) k) pages.
  Proof.
    intros Hnd Hs Hk. induction fuel as [|fuel IH]; intros p s cur HE Hinv Hlen; [lia|].
    set (a' := with_last_before a k cur).
    assert (Hs' : sort_ok cfg a') by exact Hs.
    assert (Hok : args_ok a') by (unfold args_ok, a'; simpl; repeat split; auto; lia).
    assert (HB : base_edges cfg l a' = base_edges cfg l a) by reflexivity.
    assert (Ha : drop_through (a_after a') (base_edges cfg l a') (base_edges cfg l a)).
    { rewrite HB. apply dt_absent. intros e _ Hn. discriminate Hn. }
    assert (Hb : keep_until (a_before a') (base_edges cfg l a) p).
    { rewrite HE. destruct Hinv as [[-> ->] | (e & r & -> & ->)].
      - rewrite app_nil_r. apply ku_absent. intros e _ Hn. discriminate Hn.
      - eapply ku_found; [reflexivity|reflexivity]. }
    pose proof (get_connection_spec cfg l a' _ p Hnd Hs' Hok Ha Hb) as Hg.
    cbn [walk_backward_from]. fold a'. rewrite Hg. cbn [c_prev c_start].
    rewrite HB.
    assert (Hnolt : Nat.ltb (S (List.length (base_edges cfg l a))) (List.length (base_edges cfg l a)) = false)
      by (apply Nat.ltb_ge; lia).
    rewrite Hnolt, orb_false_r.
    unfold cut_last, page_of. cbn [a' with_last_before a_first a_last].
    destruct (Z.ltb k (Z.of_nat (List.length p))) eqn:Ecut.
    - set (n := List.length p - Z.to_nat k).
      assert (Hn : n < List.length p) by (unfold n; lia).
      destruct (skipn n p) as [|e r] eqn:Esk.
      { exfalso. assert (Hl : List.length (skipn n p) = 0) by (rewrite Esk; reflexivity).
        rewrite skipn_length in Hl. lia. }
      specialize (IH (firstn n p) ((e :: r) ++ s) (Some (e_cursor e))).
      destruct IH as (pages & Hw & Hc & Hf).
      + rewrite app_assoc, <- Esk, firstn_skipn. exact HE.
      + right. exists e, (r ++ s). auto.
      + rewrite firstn_length. lia.
      + cbn [start_of]. rewrite Hw.
        eexists (mk_conn _ _ _ _ _ _ _ :: pages). split; [reflexivity|]. split.
        * cbn [rev]. rewrite map_app, concat_app. cbn [map List.concat c_edges]. rewrite Hc, app_nil_r.
          rewrite <- Esk. apply firstn_skipn.
        * constructor; auto. unfold page_ok. cbn [c_edges c_total c_start c_end].
          repeat split; auto.
          assert (Hl : List.length (e :: r) = List.length p - n) by (rewrite <- Esk; apply skipn_length).
          unfold n in Hl. lia.
    - eexists [mk_conn _ _ _ _ _ _ _]. split; [reflexivity|]. split.
      + cbn [rev map List.concat c_edges app]. apply app_nil_r.
      + constructor; [|constructor]. unfold page_ok. cbn [c_edges c_total c_start c_end].
        repeat split; auto. lia.
  Qed.

  Theorem walk_backward_correct cfg l a k :
    NoDup (map n_key l) -> sort_ok cfg a -> (0 < k)%Z ->
    exists pages,
      walk_backward enc cfg l a k = (map inl pages, true) /\
      List.concat (map c_edges (rev pages)) = base_edges cfg l a /\
      Forall (page_ok (Z.of_nat (List.length (base_list cfg l a))) k) pages.
  Proof.
    intros Hnd Hs Hk. unfold walk_backward.
    apply (walk_backward_from_correct cfg l a k Hnd Hs Hk (S (List.length l)) (base_edges cfg l a) [] None).
    - symmetry. apply app_nil_r.
    - left. auto.
    - unfold base_edges. rewrite nodes_to_edges_length. pose proof (base_list_length_le cfg l a Hs). lia.
  Qed.
  Lemma walk_backward_from_mono cfg l a k :
    forall f1 f2 cur r, f1 <= f2 ->
      walk_backward_from enc f1 cfg l a k cur = (r, true) ->
      walk_backward_from enc f2 cfg l a k cur = (r, true).
  Proof.
    induction f1 as [|f1 IH]; intros f2 cur r Hle H; [discriminate H|].
    destruct f2 as [|f2]; [lia|]. cbn [walk_backward_from] in *.
    destruct (get_connection enc cfg l (with_last_before a k cur)) as [c|e]; auto.
    destruct (c_prev c); auto.
    destruct (walk_backward_from enc f1 cfg l a k (Some (c_start c))) as [r1 b1] eqn:E1.
    inversion H; subst. rewrite (IH f2 _ r1); auto. lia.
  Qed.

  Theorem walk_backward_fuel cfg l a k fuel :
    NoDup (map n_key l) -> sort_ok cfg a -> (0 < k)%Z -> List.length l < fuel ->
    walk_backward_from enc fuel cfg l a k None = walk_backward enc cfg l a k.
  Proof.
    intros Hnd Hs Hk Hf.
    destruct (walk_backward_correct cfg l a k Hnd Hs Hk) as (p2 & H2 & _).
    rewrite H2. unfold walk_backward in H2.
    apply (walk_backward_from_mono cfg l a k (S (List.length l))); auto.
  Qed.
End WithEnc.
