(** The statements of Props/C11.v, in their final form. *)
From Coq Require Import List ZArith String Ascii Bool Lia ZifyBool ZifyNat Arith Permutation Sorted.
From Thunder Require Import Lib.Json Pagination.Model Pagination.ProofsSlice Pagination.ProofsSort
  Pagination.ProofsWalk Pagination.ProofsPage.
Import ListNotations.
Open Scope list_scope.

Definition injective (enc : string -> string) : Prop := forall x y, enc x = enc y -> x = y.

(** the nodes on a page / on a list of pages *)
Definition page_nodes (c : conn) : list node := map e_node (c_edges c).
Definition pages_nodes (ps : list conn) : list node := List.concat (map page_nodes ps).

Lemma concat_edges_nodes (ps : list conn) :
  map e_node (List.concat (map c_edges ps)) = pages_nodes ps.
Proof.
  unfold pages_nodes, page_nodes. rewrite concat_map, map_map. reflexivity.
Qed.

Lemma walk_forward_partition enc :
  injective enc ->
  forall cfg l a k, NoDup (map n_key l) -> sort_ok cfg a -> (0 < k)%Z ->
  exists pages,
    walk_forward enc cfg l a k = (map inl pages, true) /\
    pages_nodes pages = base_list cfg l a /\
    NoDup (map n_key (pages_nodes pages)) /\
    Forall (fun c => (Z.of_nat (List.length (c_edges c)) <= k)%Z /\
                     c_total c = total_count cfg l a) pages.
Proof.
  intros Hinj cfg l a k Hnd Hs Hk.
  destruct (walk_forward_correct enc Hinj cfg l a k Hnd Hs Hk) as (pages & Hw & Hc & Hf).
  exists pages. split; [exact Hw|].
  assert (Hn : pages_nodes pages = base_list cfg l a).
  { rewrite <- concat_edges_nodes, Hc. apply edges_node_map. }
  split; [exact Hn|]. split.
  - rewrite Hn. apply base_list_nodup; auto.
  - eapply Forall_impl; [|exact Hf]. intros c (H1 & H2 & _). split; auto.
    rewrite H2. unfold total_count. rewrite base_list_length; auto.
Qed.

Lemma walk_backward_partition enc :
  injective enc ->
  forall cfg l a k, NoDup (map n_key l) -> sort_ok cfg a -> (0 < k)%Z ->
  exists pages,
    walk_backward enc cfg l a k = (map inl pages, true) /\
    pages_nodes (rev pages) = base_list cfg l a /\
    NoDup (map n_key (pages_nodes (rev pages))) /\
    Forall (fun c => (Z.of_nat (List.length (c_edges c)) <= k)%Z /\
                     c_total c = total_count cfg l a) pages.
Proof.
  intros Hinj cfg l a k Hnd Hs Hk.
  destruct (walk_backward_correct enc Hinj cfg l a k Hnd Hs Hk) as (pages & Hw & Hc & Hf).
  exists pages. split; [exact Hw|].
  assert (Hn : pages_nodes (rev pages) = base_list cfg l a).
  { rewrite <- concat_edges_nodes, Hc. apply edges_node_map. }
  split; [exact Hn|]. split.
  - rewrite Hn. apply base_list_nodup; auto.
  - eapply Forall_impl; [|exact Hf]. intros c (H1 & H2 & _). split; auto.
    rewrite H2. unfold total_count. rewrite base_list_length; auto.
Qed.

Lemma walk_forward_fuel_suffices enc :
  injective enc ->
  forall cfg l a k fuel, NoDup (map n_key l) -> sort_ok cfg a -> (0 < k)%Z -> List.length l < fuel ->
  walk_forward_from enc fuel cfg l a k None = walk_forward enc cfg l a k.
Proof. intros Hinj cfg l a k fuel. apply walk_forward_fuel. exact Hinj. Qed.

(** base_edges unfolded, for the statements *)
Lemma base_edges_eq enc cfg l a : base_edges enc cfg l a = nodes_to_edges enc (base_list cfg l a).
Proof. reflexivity. Qed.
