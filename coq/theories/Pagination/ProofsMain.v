(** The statements of Props/C11.v, in their final form. *)
From Coq Require Import List ZArith String Ascii Bool Lia ZifyBool ZifyNat Arith Permutation Sorted.
From Thunder Require Import Lib.Json Pagination.Model Pagination.ProofsSlice Pagination.ProofsSort
  Pagination.ProofsWalk Pagination.ProofsPage Pagination.ProofsFilter Pagination.Base64.
Import ListNotations.
Open Scope list_scope.

Definition injective (enc : string -> string) : Prop := forall x y, enc x = enc y -> x = y.

(** the nodes on a page / on a list of pages *)
Definition page_nodes (c : conn) : list node := map e_node (c_edges c).
Definition pages_nodes (ps : list conn) : list node := List.concat (map page_nodes ps).

Lemma concat_edges_nodes (ps : list conn) :
  map e_node (List.concat (map c_edges ps)) = pages_nodes ps.
Proof.
  unfold pages_nodes, page_nodes. rewrite concat_map, map_map. reflexivity.
Qed.

Lemma walk_forward_partition enc :
  injective enc ->
  forall cfg l a k, NoDup (map n_key l) -> sort_ok cfg a -> (0 < k)%Z ->
  exists pages,
    walk_forward enc cfg l a k = (map inl pages, true) /\
    pages_nodes pages = base_list cfg l a /\
    NoDup (map n_key (pages_nodes pages)) /\
    Forall (fun c => (Z.of_nat (List.length (c_edges c)) <= k)%Z /\
                     c_total c = total_count cfg l a) pages.
Proof.
  intros Hinj cfg l a k Hnd Hs Hk.
  destruct (walk_forward_correct enc Hinj cfg l a k Hnd Hs Hk) as (pages & Hw & Hc & Hf).
  exists pages. split; [exact Hw|].
  assert (Hn : pages_nodes pages = base_list cfg l a).
  { rewrite <- concat_edges_nodes, Hc. apply edges_node_map. }
  split; [exact Hn|]. split.
  - rewrite Hn. apply base_list_nodup; auto.
  - eapply Forall_impl; [|exact Hf]. intros c (H1 & H2 & _). split; auto.
    rewrite H2. unfold total_count. rewrite base_list_length; auto.
Qed.

Lemma walk_backward_partition enc :
  injective enc ->
  forall cfg l a k, NoDup (map n_key l) -> sort_ok cfg a -> (0 < k)%Z ->
  exists pages,
    walk_backward enc cfg l a k = (map inl pages, true) /\
    pages_nodes (rev pages) = base_list cfg l a /\
    NoDup (map n_key (pages_nodes (rev pages))) /\
    Forall (fun c => (Z.of_nat (List.length (c_edges c)) <= k)%Z /\
                     c_total c = total_count cfg l a) pages.
Proof.
  intros Hinj cfg l a k Hnd Hs Hk.
  destruct (walk_backward_correct enc Hinj cfg l a k Hnd Hs Hk) as (pages & Hw & Hc & Hf).
  exists pages. split; [exact Hw|].
  assert (Hn : pages_nodes (rev pages) = base_list cfg l a).
  { rewrite <- concat_edges_nodes, Hc. apply edges_node_map. }
  split; [exact Hn|]. split.
  - rewrite Hn. apply base_list_nodup; auto.
  - eapply Forall_impl; [|exact Hf]. intros c (H1 & H2 & _). split; auto.
    rewrite H2. unfold total_count. rewrite base_list_length; auto.
Qed.

Lemma walk_forward_fuel_suffices enc :
  injective enc ->
  forall cfg l a k fuel, NoDup (map n_key l) -> sort_ok cfg a -> (0 < k)%Z -> List.length l < fuel ->
  walk_forward_from enc fuel cfg l a k None = walk_forward enc cfg l a k.
Proof. intros Hinj cfg l a k fuel. apply walk_forward_fuel. exact Hinj. Qed.

Lemma walk_backward_fuel_suffices enc :
  injective enc ->
  forall cfg l a k fuel, NoDup (map n_key l) -> sort_ok cfg a -> (0 < k)%Z -> List.length l < fuel ->
  walk_backward_from enc fuel cfg l a k None = walk_backward enc cfg l a k.
Proof. intros Hinj cfg l a k fuel. apply walk_backward_fuel. exact Hinj. Qed.

(** base_edges unfolded, for the statements *)
Lemma base_edges_eq enc cfg l a : base_edges enc cfg l a = nodes_to_edges enc (base_list cfg l a).
Proof. reflexivity. Qed.

(** * Sorting *)

(** "x does not come after y": y is not strictly below x in the requested order *)
Definition sorted_by (f : string) (desc : bool) : list node -> Prop :=
  Sorted (fun x y => node_less f desc y x = false).

Definition same_key (f : string) (desc : bool) (x y : node) : bool :=
  (negb (node_less f desc x y) && negb (node_less f desc y x))%bool.

Lemma base_list_unsorted cfg l a :
  a_sortby a = None -> base_list cfg l a = apply_text_filter cfg l a.
Proof. intros H. unfold base_list, apply_sort. rewrite H. reflexivity. Qed.

Lemma base_list_sorted_stable cfg l a f :
  a_sortby a = Some f -> sort_ok cfg a ->
  Permutation (base_list cfg l a) (apply_text_filter cfg l a) /\
  sorted_by f (a_desc a) (base_list cfg l a) /\
  (forall z, filter (same_key f (a_desc a) z) (base_list cfg l a) =
             filter (same_key f (a_desc a) z) (apply_text_filter cfg l a)).
Proof.
  intros Hf Hs. split; [apply base_list_perm; exact Hs|].
  unfold base_list, apply_sort, sort_ok in *. rewrite Hf in *. rewrite Hs. split.
  - apply (stable_sort_sorted (node_less f (a_desc a))).
    + apply node_less_irrefl.
    + apply node_less_trans.
  - intros z. apply (stable_sort_stable (node_less f (a_desc a))). apply node_less_negtrans.
Qed.

Lemma base_list_unique cfg l a f l' :
  a_sortby a = Some f -> sort_ok cfg a ->
  sorted_by f (a_desc a) l' ->
  (forall z, filter (same_key f (a_desc a) z) l' =
             filter (same_key f (a_desc a) z) (apply_text_filter cfg l a)) ->
  l' = base_list cfg l a.
Proof.
  intros Hf Hs Hsorted Hstable.
  unfold base_list, apply_sort, sort_ok in *. rewrite Hf in *. rewrite Hs.
  apply (stable_sort_unique (node_less f (a_desc a))); auto.
  - apply node_less_irrefl.
  - apply node_less_trans.
  - apply node_less_negtrans.
Qed.

(** what the order is: integers by <, strings bytewise after lower-casing; reversed when descending *)
Lemma node_less_int f desc x y zx zy :
  lookup_def (SInt 0) f (n_sorts x) = SInt zx -> lookup_def (SInt 0) f (n_sorts y) = SInt zy ->
  node_less f desc x y = if desc then Z.ltb zy zx else Z.ltb zx zy.
Proof.
  intros Hx Hy. unfold node_less, sort_key, key_ltb. rewrite Hx, Hy. simpl.
  destruct desc; rewrite andb_false_r, orb_false_r; reflexivity.
Qed.

Lemma node_less_str f desc x y sx sy :
  lookup_def (SInt 0) f (n_sorts x) = SStr sx -> lookup_def (SInt 0) f (n_sorts y) = SStr sy ->
  node_less f desc x y = if desc then str_ltb (lower sy) (lower sx) else str_ltb (lower sx) (lower sy).
Proof.
  intros Hx Hy. unfold node_less, sort_key, key_ltb. rewrite Hx, Hy. simpl. destruct desc; reflexivity.
Qed.
