(** Executable model of thunder's thunder-managed pagination
    (graphql/schemabuilder/pagination.go, internal/filter/filter.go).

    Go function                               model
    ---------------------------------------   ------------------------------
    filter.GetDefaultSearchTokens  (regexp)   [tokens]
    filter.DefaultFilterFunc                  [default_match]
    applyTextFilter (+ the three runners)     [apply_text_filter] (= filter [node_filter], ProofsFilter.v)
    applySort + sorts[...] (sort.SliceStable) [apply_sort] (stable insertion sort)
    nodesToEdges                              [nodes_to_edges]
    pagesFromEdges                            [pages_from_edges]
    getCursorIndex                            [cursor_index]
    applyCursorsToAllEdges (as repaired)      [apply_cursors]
    applyCursorsToAllEdges (original, F10)    [apply_cursors_orig]
    paginateManually                          [paginate_manually]
    setCursors                                [set_cursors]
    getConnection                             [get_connection]

    Strings are byte strings (ASCII in the generators).  Only definitions live here; lemmas are in
    Pagination/Proofs*.v, the property theorems in Props/C11.v. *)
From Coq Require Import List ZArith NArith String Ascii Bool.
From Thunder Require Import Lib.Json.
Import ListNotations.
Open Scope string_scope.

(** * Byte-string helpers *)

Definition lower_ascii (c : ascii) : ascii :=
  let n := N_of_ascii c in
  if (N.leb 65 n && N.leb n 90)%bool then ascii_of_N (n + 32) else c.

(** second byte of a two-byte UTF-8 sequence C3 xx that encodes U+00C0..U+00DE except U+00D7 (the
    upper-case letters of the Latin-1 supplement) *)
Definition latin1_upper (d : ascii) : bool :=
  let n := N_of_ascii d in
  (N.leb 128 n && N.leb n 158 && negb (N.eqb n 151))%bool.

(** strings.ToLower on texts whose code points are below U+0100 ([text_in_model]): A-Z, and the
    Latin-1 supplement letters U+00C0..U+00DE (except the multiplication sign), to which Go adds 32. *)
Fixpoint lower (s : string) : string :=
  match s with
  | EmptyString => EmptyString
  | String c t =>
      match t with
      | String d t' =>
          if (N.eqb (N_of_ascii c) 195 && latin1_upper d)%bool
          then String c (String (ascii_of_N (N_of_ascii d + 32)) (lower t'))
          else String (lower_ascii c) (lower t)
      | EmptyString => String (lower_ascii c) EmptyString
      end
  end.

(** the texts for which [lower] is strings.ToLower: valid UTF-8 with code points below U+0100
    (ASCII bytes, or a lead byte C2/C3 followed by a continuation byte) *)
Fixpoint text_in_model (s : string) : bool :=
  match s with
  | EmptyString => true
  | String c t =>
      let n := N_of_ascii c in
      if N.ltb n 128 then text_in_model t
      else if (N.eqb n 194 || N.eqb n 195)%bool then
        match t with
        | String d t' => let m := N_of_ascii d in (N.leb 128 m && N.leb m 191 && text_in_model t')%bool
        | EmptyString => false
        end
      else false
  end.

Fixpoint is_prefix (p s : string) : bool :=
  match p, s with
  | EmptyString, _ => true
  | String a p', String b s' => if Ascii.eqb a b then is_prefix p' s' else false
  | String _ _, EmptyString => false
  end.

(** strings.Contains *)
Fixpoint contains (s t : string) : bool :=
  if is_prefix t s then true
  else match s with
       | EmptyString => false
       | String _ s' => contains s' t
       end.

Fixpoint mem_str (x : string) (l : list string) : bool :=
  match l with
  | [] => false
  | y :: t => if String.eqb x y then true else mem_str x t
  end.

Fixpoint lookup_def {A} (d : A) (k : string) (l : list (string * A)) : A :=
  match l with
  | [] => d
  | (k', v) :: t => if String.eqb k k' then v else lookup_def d k t
  end.

(** * filter.go *)

(** [\s] of Go's regexp (RE2): tab, newline, form feed, carriage return, space. *)
Definition is_space (c : ascii) : bool :=
  match N_of_ascii c with
  | 9%N | 10%N | 12%N | 13%N | 32%N => true
  | _ => false
  end.

Definition is_quote (c : ascii) : bool := Ascii.eqb c """"%char.

(** The regular expression of filter.go (one or more of: a run of characters that are neither blank nor
    a double quote, captured as group 1; or a double quote, a run of non-quote characters captured as
    group 2, and an optional closing quote) read as a scanner.  One match is a maximal run of
    chunks (a word = characters that are neither blank nor a quote; or a quoted segment up to the next
    quote or the end of the text) not separated by blanks.  Group 1 holds the last word of the match,
    group 2 the last quoted segment; the token is group 1 unless it is empty, then group 2. *)
Inductive chunk :=
| CNone                 (* inside a match, just after a closing quote *)
| CWord (w : string)    (* inside a word; [w] reversed *)
| CQuote (q : string).  (* inside a quoted segment; [q] reversed *)

Inductive tstate :=
| TOut                                                  (* between matches *)
| TIn (lastw : option string) (lastq : string) (c : chunk).

Fixpoint rev_str (acc s : string) : string :=
  match s with
  | EmptyString => acc
  | String c t => rev_str (String c acc) t
  end.

Definition unrev (s : string) : string := rev_str EmptyString s.

Definition token_of (lw : option string) (lq : string) : string :=
  match lw with Some w => w | None => lq end.

Fixpoint scan (s : string) (st : tstate) : list string :=
  match s with
  | EmptyString =>
      match st with
      | TOut => []
      | TIn lw lq CNone => [token_of lw lq]
      | TIn lw lq (CWord w) => [token_of (Some (unrev w)) lq]
      | TIn lw lq (CQuote q) => [token_of lw (unrev q)]
      end
  | String c t =>
      match st with
      | TOut =>
          if is_space c then scan t TOut
          else if is_quote c then scan t (TIn None EmptyString (CQuote EmptyString))
          else scan t (TIn None EmptyString (CWord (String c EmptyString)))
      | TIn lw lq CNone =>
          if is_space c then token_of lw lq :: scan t TOut
          else if is_quote c then scan t (TIn lw lq (CQuote EmptyString))
          else scan t (TIn lw lq (CWord (String c EmptyString)))
      | TIn lw lq (CWord w) =>
          if is_space c then token_of (Some (unrev w)) lq :: scan t TOut
          else if is_quote c then scan t (TIn (Some (unrev w)) lq (CQuote EmptyString))
          else scan t (TIn lw lq (CWord (String c w)))
      | TIn lw lq (CQuote q) =>
          if is_quote c then scan t (TIn lw (unrev q) CNone)
          else scan t (TIn lw lq (CQuote (String c q)))
      end
  end.

(** GetDefaultSearchTokens *)
Definition tokens (q : string) : list string := scan q TOut.

(** DefaultFilterFunc *)
Definition default_match (text : string) (toks : list string) : bool :=
  match toks with
  | [] => true
  | _ => existsb (fun t => contains (lower text) (lower t) && negb (String.eqb t EmptyString))%bool toks
  end.

(** * Nodes, arguments, results *)

(** the value of a sort field: signed, unsigned, float, string (getSort's four comparison functions).
    A float is represented by its code in an order-isomorphic image of the non-NaN float64s in Z
    (-0 and +0 identified; the harness computes the code, NaN is outside the model). *)
Inductive sval := SInt (z : Z) | SUint (z : Z) | SFloat (code : Z) | SStr (s : string).

Record node := mk_node {
  n_key : string;                       (* fmt.Sprintf("%v", key field) *)
  n_json : json;                        (* what the query's node selection renders (opaque here) *)
  n_texts : list (string * string);     (* value of every registered filter field *)
  n_sorts : list (string * sval)        (* value of every registered sort field *)
}.

Record pargs := mk_args {
  a_first : option Z;
  a_last : option Z;
  a_after : option string;
  a_before : option string;
  a_ftext : option string;
  a_ffields : option (list string);
  a_sortby : option string;
  a_desc : bool;                        (* sortOrder given and = desc *)
  a_ftype : option string               (* filterType: name of a custom FilterFunc *)
}.

(** the registered filter / sort fields of the paginated field *)
(** how a filter field is implemented: FilterField, FilterField(..., Expensive), BatchFilterField,
    BatchFilterFieldWithFallback *)
Inductive impl := IPlain | IExpensive | IBatch | IFallback.

Record ffield := mk_ff {
  ff_name : string;      (* the name it is registered under (what filterTextFields mentions) *)
  ff_attr : string;      (* which entry of [n_texts] its resolver returns *)
  ff_impl : impl
}.

Record config := mk_cfg {
  cfg_ff : list ffield;
  cfg_sf : list string;
  cfg_use_batch : bool;  (* what ShouldUseBatchFunc(ctx) answers for the fallback fields *)
  (* FilterFunc(name, tokenizeFilterText, filterFunc): user code, any pair of functions *)
  cfg_customs : list (string * ((string -> list string) * (string -> list string -> bool)))
}.

Inductive perr := ErrNegative | ErrBoth | ErrUnknownSort | ErrNoTotalFunc.

Record edge := mk_edge { e_node : node; e_cursor : string }.

Record conn := mk_conn {
  c_total : Z;
  c_edges : list edge;
  c_next : bool;
  c_prev : bool;
  c_start : string;
  c_end : string;
  c_pages : list string
}.

(** * applyTextFilter *)

Definition selected_fields (cfg : config) (a : pargs) : list ffield :=
  match a_ffields a with
  | Some fs => filter (fun f => mem_str (ff_name f) fs) (cfg_ff cfg)
  | None => cfg_ff cfg
  end.

Fixpoint lookup_custom {A} (k : string) (l : list (string * A)) : option A :=
  match l with
  | [] => None
  | (k', v) :: t => if String.eqb k k' then Some v else lookup_custom k t
  end.

(** the search tokens: default tokeniser without filterType, the registered tokeniser with one, none
    (nil) for a filterType nobody registered *)
Definition search_tokens (cfg : config) (a : pargs) (text : string) : list string :=
  match a_ftype a with
  | None => tokens text
  | Some ft => match lookup_custom ft (cfg_customs cfg) with
               | Some (tk, _) => tk text
               | None => []
               end
  end.

(** how a field text is matched: DefaultFilterFunc, the registered filterFunc, or never *)
Definition match_fn (cfg : config) (a : pargs) : string -> list string -> bool :=
  match a_ftype a with
  | None => default_match
  | Some ft => match lookup_custom ft (cfg_customs cfg) with
               | Some (_, m) => m
               | None => fun _ _ => false
               end
  end.

Definition field_matches (mf : string -> list string -> bool) (toks : list string) (n : node)
           (f : ffield) : bool :=
  mf (lookup_def EmptyString (ff_attr f) (n_texts n)) toks.

(** checkFilters: some field of the group matches *)
Definition keep_node (mf : string -> list string -> bool) (toks : list string) (fields : list ffield)
           (n : node) : bool :=
  existsb (field_matches mf toks n) fields.

(** which of the three runners of applyTextFilter resolves a field:
    Batch && UseBatchFunc(ctx) -> applyBatchTextFilter; else Expensive -> ...NotBatchedExpensive;
    else applyTextFilterNotBatched.  A fallback field is built non-expensive. *)
Inductive runner := RPlain | RExpensive | RBatch.

Definition runner_of (use_batch : bool) (f : ffield) : runner :=
  match ff_impl f with
  | IPlain => RPlain
  | IExpensive => RExpensive
  | IBatch => RBatch
  | IFallback => if use_batch then RBatch else RPlain
  end.

Definition runner_eqb (a b : runner) : bool :=
  match a, b with
  | RPlain, RPlain | RExpensive, RExpensive | RBatch, RBatch => true
  | _, _ => false
  end.

Definition group (cfg : config) (r : runner) (fields : list ffield) : list ffield :=
  filter (fun f => runner_eqb (runner_of (cfg_use_batch cfg) f) r) fields.

Definition node_filter (cfg : config) (a : pargs) : node -> bool :=
  match a_ftext a with
  | None => fun _ => true
  | Some EmptyString => fun _ => true
  | Some t => keep_node (match_fn cfg a) (search_tokens cfg a t) (selected_fields cfg a)
  end.

(** applyTextFilter as written: three keep-arrays, one per runner, or-ed together *)
Definition apply_text_filter (cfg : config) (l : list node) (a : pargs) : list node :=
  match a_ftext a with
  | None => l
  | Some EmptyString => l
  | Some t =>
      let toks := search_tokens cfg a t in
      let mf := match_fn cfg a in
      let sel := selected_fields cfg a in
      let keep_plain := map (keep_node mf toks (group cfg RPlain sel)) l in
      let keep_expensive := map (keep_node mf toks (group cfg RExpensive sel)) l in
      let keep_batch := map (keep_node mf toks (group cfg RBatch sel)) l in
      let keep := map (fun x => (fst (fst x) || snd x || snd (fst x))%bool)
                      (combine (combine keep_plain keep_expensive) keep_batch) in
      map fst (filter snd (combine l keep))
  end.

(** * applySort *)

(** Sort keys: an integer field gives (z, empty string), a string field (0, lower s); compared lexicographically,
    which is Int() < Int() for integer fields and ToLower(a) < ToLower(b) bytewise for string fields. *)
Definition skey := (Z * string)%type.

Definition key_ltb (a b : skey) : bool :=
  (Z.ltb (fst a) (fst b) || (Z.eqb (fst a) (fst b) && str_ltb (snd a) (snd b)))%bool.

Definition sort_key (f : string) (n : node) : skey :=
  match lookup_def (SInt 0) f (n_sorts n) with
  | SInt z => (z, EmptyString)
  | SUint z => (z, EmptyString)
  | SFloat c => (c, EmptyString)
  | SStr s => (0%Z, lower s)
  end.

Section Sort.
  Context {A : Type}.
  Variable less : A -> A -> bool.
  (** insert [x], which stood before every element of [l], into the sorted [l] *)
  Fixpoint insert_stable (x : A) (l : list A) : list A :=
    match l with
    | [] => [x]
    | y :: t => if less y x then y :: insert_stable x t else x :: l
    end.
  Definition stable_sort (l : list A) : list A := fold_right insert_stable [] l.
End Sort.

Definition node_less (f : string) (desc : bool) (x y : node) : bool :=
  if desc then key_ltb (sort_key f y) (sort_key f x) else key_ltb (sort_key f x) (sort_key f y).

Definition apply_sort (cfg : config) (l : list node) (a : pargs) : option (list node) :=
  match a_sortby a with
  | None => Some l
  | Some f => if mem_str f (cfg_sf cfg) then Some (stable_sort (node_less f (a_desc a)) l) else None
  end.

(** the arguments name a registered sort field (or none): [apply_sort] does not fail *)
Definition sort_ok (cfg : config) (a : pargs) : Prop :=
  match a_sortby a with None => True | Some f => mem_str f (cfg_sf cfg) = true end.

(** the list that is paginated: filtered, then sorted *)
Definition base_list (cfg : config) (l : list node) (a : pargs) : list node :=
  match apply_sort cfg (apply_text_filter cfg l a) a with Some s => s | None => [] end.

(** * Edges, cursors *)

Section Enc.
  (** [enc] = base64.StdEncoding.EncodeToString; the theorems only use that it is injective. *)
  Variable enc : string -> string.

  Definition nodes_to_edges (l : list node) : list edge :=
    map (fun n => mk_edge n (enc (n_key n))) l.

  (** getCursorIndex: None is -1 *)
  Fixpoint cursor_index (es : list edge) (c : string) : option nat :=
    match es with
    | [] => None
    | e :: t => if String.eqb (e_cursor e) c then Some 0
                else match cursor_index t c with Some i => Some (S i) | None => None end
    end.

  (** applyCursorsToAllEdges after the repair: (edges, elemsAfter, elemsBefore) *)
  Definition apply_cursors (es : list edge) (before after : option string) : list edge * bool * bool :=
    let '(es1, elems_before) :=
      match after with
      | Some a => match cursor_index es a with
                  | Some i => (skipn (S i) es, negb (Nat.eqb i 0))
                  | None => (es, false)
                  end
      | None => (es, false)
      end in
    let '(es2, elems_after) :=
      match before with
      | Some b => match cursor_index es1 b with
                  | Some i => (firstn i es1, negb (Nat.eqb (S i) (List.length es1)))
                  | None => (es1, false)
                  end
      | None => (es1, false)
      end in
    (es2, elems_after, elems_before).

  (** the code as found: edgeCount := len(edges) is taken before the [after] slice *)
  Definition apply_cursors_orig (es : list edge) (before after : option string) : list edge * bool * bool :=
    let edge_count := List.length es in
    let '(es1, elems_before) :=
      match after with
      | Some a => match cursor_index es a with
                  | Some i => (skipn (S i) es, negb (Nat.eqb i 0))
                  | None => (es, false)
                  end
      | None => (es, false)
      end in
    let '(es2, elems_after) :=
      match before with
      | Some b => match cursor_index es1 b with
                  | Some i => (firstn i es1, negb (Nat.eqb (S i) edge_count))
                  | None => (es1, false)
                  end
      | None => (es1, false)
      end in
    (es2, elems_after, elems_before).

  Definition is_some {A} (o : option A) : bool := match o with Some _ => true | None => false end.

  Definition z_of_opt (o : option Z) : Z := match o with Some z => z | None => 0%Z end.

  (** paginateManually, parameterised by the cursor function so that the original can be kept *)
  Definition paginate_with (ac : list edge -> option string -> option string -> list edge * bool * bool)
             (es : list edge) (a : pargs) : (list edge * bool * bool) + perr :=
    let '(es1, elems_after, elems_before) := ac es (a_before a) (a_after a) in
    let next := (is_some (a_before a) && elems_after)%bool in
    let prev := (is_some (a_after a) && elems_before)%bool in
    if (Z.ltb (z_of_opt (a_first a)) 0 || Z.ltb (z_of_opt (a_last a)) 0)%bool then inr ErrNegative
    else if (is_some (a_first a) && is_some (a_last a))%bool then inr ErrBoth
    else
      let '(es2, next2) :=
        match a_first a with
        | Some f => if Z.ltb f (Z.of_nat (List.length es1)) then (firstn (Z.to_nat f) es1, true) else (es1, next)
        | None => (es1, next)
        end in
      let '(es3, prev3) :=
        match a_last a with
        | Some l => if Z.ltb l (Z.of_nat (List.length es2))
                    then (skipn (List.length es2 - Z.to_nat l) es2, true) else (es2, prev)
        | None => (es2, prev)
        end in
      inl (es3, next2, prev3).

  Definition paginate_manually := paginate_with apply_cursors.
  Definition paginate_manually_orig := paginate_with apply_cursors_orig.

  (** setCursors: (startCursor, endCursor) *)
  Definition set_cursors (es : list edge) : string * string :=
    match es with
    | [] => (EmptyString, EmptyString)
    | e :: _ => (e_cursor e, e_cursor (last es e))
    end.

  (** PaginationArgs.limit *)
  Definition limit (a : pargs) : Z :=
    match a_first a with
    | Some f => f
    | None => match a_last a with Some l => l | None => 0%Z end
    end.

  (** pagesFromEdges; [i] is the index of the head of [es], [n] = len(edges) *)
  Fixpoint pages_from (lim : Z) (n : nat) (i : nat) (es : list edge) : list string :=
    match es with
    | [] => []
    | e :: t =>
        (if Nat.eqb i 0 then [EmptyString] else []) ++
        (if Z.eqb lim 0 then []
         else if Nat.eqb (S i) n then []
         else if Z.eqb (Z.rem (Z.of_nat (S i)) lim) 0 then [e_cursor e] else []) ++
        pages_from lim n (S i) t
    end.

  Definition pages_from_edges (es : list edge) (lim : Z) : list string :=
    pages_from lim (List.length es) 0 es.

  Definition empty_conn : conn := mk_conn 0 [] false false EmptyString EmptyString [].

  (** getConnection for a thunder-managed connection *)
  Definition get_connection_with (ac : list edge -> option string -> option string -> list edge * bool * bool)
             (cfg : config) (l : list node) (a : pargs) : conn + perr :=
    match l with
    | [] => inl empty_conn
    | _ =>
        let filtered := apply_text_filter cfg l a in
        match apply_sort cfg filtered a with
        | None => inr ErrUnknownSort
        | Some sorted =>
            let edges := nodes_to_edges sorted in
            let pages := pages_from_edges edges (limit a) in
            match paginate_with ac edges a with
            | inr e => inr e
            | inl (es, next, prev) =>
                let '(s, e) := set_cursors es in
                inl (mk_conn (Z.of_nat (List.length sorted)) es next prev s e pages)
            end
        end
    end.

  Definition get_connection := get_connection_with apply_cursors.
  Definition get_connection_orig := get_connection_with apply_cursors_orig.

  (** * Externally managed connections: the resolver embeds PaginationArgs and returns the page, a
      PaginationInfo and PostProcessOptions (getConnection with IsExternallyManaged) *)

  Record ext_info := mk_ext {
    ei_total : option Z;          (* TotalCountFunc(); None = nil func *)
    ei_next : bool;
    ei_prev : bool;
    ei_pages : list string;
    ei_apply_filter : bool;       (* PostProcessOptions.ApplyTextFilter *)
    ei_set_page_info : bool       (* PostProcessOptions.SetPageInfo *)
  }.

  Definition get_connection_ext (cfg : config) (nodes : list node) (x : ext_info) (a : pargs) : conn + perr :=
    match nodes with
    | [] => inl empty_conn
    | _ =>
        let nodes1 := if ei_apply_filter x then apply_text_filter cfg nodes a else nodes in
        let edges := nodes_to_edges nodes1 in
        if ei_set_page_info x then
          match paginate_manually edges a with
          | inr e => inr e
          | inl (es, next, prev) =>
              let '(s, e) := set_cursors es in
              inl (mk_conn (Z.of_nat (List.length nodes1)) es next prev s e (pages_from_edges edges (limit a)))
          end
        else
          match ei_total x with
          | None => inr ErrNoTotalFunc
          | Some t =>
              let '(s, e) := set_cursors edges in
              inl (mk_conn t edges (ei_next x) (ei_prev x) s e (ei_pages x))
          end
    end.

  (** ManualPaginationWithFallback: the switch picks the thunder-managed fallback resolver or the manual
      one; both are built from the same filter / sort field and FilterFunc options (as repaired by
      patches/C11-fix-2.patch) *)
  Definition get_connection_dual (use_fallback : bool) (cfg : config) (l : list node) (x : ext_info)
             (a : pargs) : conn + perr :=
    if use_fallback then get_connection cfg l a else get_connection_ext cfg l x a.

  (** the code as found: the fallback field is built without the FilterFunc options *)
  Definition drop_customs (cfg : config) : config :=
    mk_cfg (cfg_ff cfg) (cfg_sf cfg) (cfg_use_batch cfg) [].

  Definition get_connection_dual_orig (use_fallback : bool) (cfg : config) (l : list node) (x : ext_info)
             (a : pargs) : conn + perr :=
    if use_fallback then get_connection (drop_customs cfg) l a else get_connection_ext cfg l x a.

  (** totalCount *)
  Definition total_count (cfg : config) (l : list node) (a : pargs) : Z :=
    Z.of_nat (List.length (apply_text_filter cfg l a)).

  (** * Walks: follow endCursor with first = k (startCursor with last = k) *)

  Definition with_first_after (a : pargs) (k : Z) (after : option string) : pargs :=
    mk_args (Some k) None after None (a_ftext a) (a_ffields a) (a_sortby a) (a_desc a) (a_ftype a).

  Definition with_last_before (a : pargs) (k : Z) (before : option string) : pargs :=
    mk_args None (Some k) None before (a_ftext a) (a_ffields a) (a_sortby a) (a_desc a) (a_ftype a).

  Definition set_after (a : pargs) (o : option string) : pargs :=
    mk_args (a_first a) (a_last a) o (a_before a) (a_ftext a) (a_ffields a) (a_sortby a) (a_desc a) (a_ftype a).

  Definition set_before (a : pargs) (o : option string) : pargs :=
    mk_args (a_first a) (a_last a) (a_after a) o (a_ftext a) (a_ffields a) (a_sortby a) (a_desc a) (a_ftype a).

  (** result: the pages in the order visited, and whether the walk ended by itself
      (hasNextPage = false or an error) rather than by running out of fuel *)
  Fixpoint walk_forward_from (fuel : nat) (cfg : config) (l : list node) (a : pargs) (k : Z)
           (after : option string) : list (conn + perr) * bool :=
    match fuel with
    | O => ([], false)
    | S fuel' =>
        match get_connection cfg l (with_first_after a k after) with
        | inr e => ([inr e], true)
        | inl c =>
            if c_next c then
              let '(rest, fin) := walk_forward_from fuel' cfg l a k (Some (c_end c)) in
              (inl c :: rest, fin)
            else ([inl c], true)
        end
    end.

  Definition walk_forward (cfg : config) (l : list node) (a : pargs) (k : Z) :=
    walk_forward_from (S (List.length l)) cfg l a k None.

  Fixpoint walk_backward_from (fuel : nat) (cfg : config) (l : list node) (a : pargs) (k : Z)
           (before : option string) : list (conn + perr) * bool :=
    match fuel with
    | O => ([], false)
    | S fuel' =>
        match get_connection cfg l (with_last_before a k before) with
        | inr e => ([inr e], true)
        | inl c =>
            if c_prev c then
              let '(rest, fin) := walk_backward_from fuel' cfg l a k (Some (c_start c)) in
              (inl c :: rest, fin)
            else ([inl c], true)
        end
    end.

  Definition walk_backward (cfg : config) (l : list node) (a : pargs) (k : Z) :=
    walk_backward_from (S (List.length l)) cfg l a k None.

  (** * JSON rendering of a connection (object keys in canonical = sorted order) *)

  Definition edge_json (e : edge) : json :=
    JObj [("cursor", JStr (e_cursor e)); ("node", n_json (e_node e))].

  Definition conn_json (c : conn) : json :=
    JObj [("edges", JArr (map edge_json (c_edges c)));
          ("pageInfo", JObj [("endCursor", JStr (c_end c));
                             ("hasNextPage", JBool (c_next c));
                             ("hasPrevPage", JBool (c_prev c));
                             ("pages", JArr (map JStr (c_pages c)));
                             ("startCursor", JStr (c_start c))]);
          ("totalCount", JNum (c_total c))].
End Enc.

(** * base64.StdEncoding.EncodeToString *)

Definition b64_alphabet : list ascii :=
  list_ascii_of_string "ABCDEFGHIJKLMNOPQRSTUVWXYZabcdefghijklmnopqrstuvwxyz0123456789+/".

Definition b64_char (b5 b4 b3 b2 b1 b0 : bool) : ascii :=
  let n := ((if b5 then 32 else 0) + (if b4 then 16 else 0) + (if b3 then 8 else 0) +
            (if b2 then 4 else 0) + (if b1 then 2 else 0) + (if b0 then 1 else 0))%nat in
  nth n b64_alphabet "A"%char.

(** [Ascii b0 .. b7]: b0 is the least significant bit *)
Fixpoint base64 (s : string) : string :=
  match s with
  | EmptyString => EmptyString
  | String (Ascii a0 a1 a2 a3 a4 a5 a6 a7) EmptyString =>
      String (b64_char a7 a6 a5 a4 a3 a2)
        (String (b64_char a1 a0 false false false false) "==")
  | String (Ascii a0 a1 a2 a3 a4 a5 a6 a7) (String (Ascii b0 b1 b2 b3 b4 b5 b6 b7) EmptyString) =>
      String (b64_char a7 a6 a5 a4 a3 a2)
        (String (b64_char a1 a0 b7 b6 b5 b4)
           (String (b64_char b3 b2 b1 b0 false false) "="))
  | String (Ascii a0 a1 a2 a3 a4 a5 a6 a7)
      (String (Ascii b0 b1 b2 b3 b4 b5 b6 b7) (String (Ascii c0 c1 c2 c3 c4 c5 c6 c7) r)) =>
      String (b64_char a7 a6 a5 a4 a3 a2)
        (String (b64_char a1 a0 b7 b6 b5 b4)
           (String (b64_char b3 b2 b1 b0 c7 c6)
              (String (b64_char c5 c4 c3 c2 c1 c0) (base64 r))))
  end.

(** * The custom FilterFuncs the harness registers (user code; the theorems hold for any) *)

Fixpoint split_on (sep : ascii) (acc s : string) : list string :=
  match s with
  | EmptyString => [unrev acc]
  | String c t => if Ascii.eqb c sep then unrev acc :: split_on sep EmptyString t
                  else split_on sep (String c acc) t
  end.

(** "prefix": tokens = strings.Split(text, ","); a field matches when a non-empty token is a
    (case-sensitive) prefix of it.  "exact": one token, the whole text; match = equality. *)
Definition c11_customs : list (string * ((string -> list string) * (string -> list string -> bool))) :=
  [("prefix", (split_on ","%char EmptyString,
               fun text toks => existsb (fun t => negb (String.eqb t EmptyString) && is_prefix t text)%bool toks));
   ("exact", (fun t => [t],
              fun text toks => match toks with [t] => String.eqb text t | _ => false end))].

(** * Correspondence with the implementation *)

Inductive obs :=
| ObsConn (j : json)      (* the connection JSON, keys sorted *)
| ObsErr (e : nat).       (* 1 negative first/last, 2 first and last, 3 unknown sort field, 9 anything else *)

Definition err_code (e : perr) : nat :=
  match e with ErrNegative => 1 | ErrBoth => 2 | ErrUnknownSort => 3 | ErrNoTotalFunc => 4 end.

Definition obs_of (r : conn + perr) : obs :=
  match r with
  | inl c => ObsConn (conn_json c)
  | inr e => ObsErr (err_code e)
  end.

Definition obs_eqb (a b : obs) : bool :=
  match a, b with
  | ObsConn x, ObsConn y => json_eqb x y
  | ObsErr x, ObsErr y => Nat.eqb x y
  | _, _ => false
  end.

Fixpoint obs_list_eqb (a b : list obs) : bool :=
  match a, b with
  | [], [] => true
  | x :: a', y :: b' => (obs_eqb x y && obs_list_eqb a' b')%bool
  | _, _ => false
  end.

Inductive case_kind :=
| KPage                   (* one page query with the given arguments *)
| KWalkF (k : Z)          (* walk forward with first = k *)
| KWalkB (k : Z).         (* walk backward with last = k *)

Inductive ext_mode :=
| XNone                                  (* thunder-managed field *)
| XManual (x : ext_info)                 (* externally managed field *)
| XDual (use_fallback : bool) (x : ext_info).  (* ManualPaginationWithFallback *)

Record case := mk_case {
  cs_cfg : config;
  cs_nodes : list node;
  cs_args : pargs;
  cs_ext : ext_mode;
  cs_kind : case_kind;
  cs_obs : list obs        (* the pages the implementation returned, in the order visited *)
}.

(** * Walks over any kind of connection: follow endCursor with first = k (startCursor with last = k) through
      the page function [get] (thunder-managed, externally managed, ManualPaginationWithFallback) *)
Fixpoint walk_forward_by (get : pargs -> conn + perr) (fuel : nat) (a : pargs) (k : Z)
         (after : option string) : list (conn + perr) * bool :=
  match fuel with
  | O => ([], false)
  | S fuel' =>
      match get (with_first_after a k after) with
      | inr e => ([inr e], true)
      | inl c =>
          if c_next c then
            let '(rest, fin) := walk_forward_by get fuel' a k (Some (c_end c)) in
            (inl c :: rest, fin)
          else ([inl c], true)
      end
  end.

Fixpoint walk_backward_by (get : pargs -> conn + perr) (fuel : nat) (a : pargs) (k : Z)
         (before : option string) : list (conn + perr) * bool :=
  match fuel with
  | O => ([], false)
  | S fuel' =>
      match get (with_last_before a k before) with
      | inr e => ([inr e], true)
      | inl c =>
          if c_prev c then
            let '(rest, fin) := walk_backward_by get fuel' a k (Some (c_start c)) in
            (inl c :: rest, fin)
          else ([inl c], true)
      end
  end.

(** the page function of a case *)
Definition page_fn (c : case) : pargs -> conn + perr :=
  match cs_ext c with
  | XNone => get_connection base64 (cs_cfg c) (cs_nodes c)
  | XManual x => get_connection_ext base64 (cs_cfg c) (cs_nodes c) x
  | XDual fb x => get_connection_dual base64 fb (cs_cfg c) (cs_nodes c) x
  end.

(** mismatch codes: 1 connection JSON differs, 2 error / success or error class differs,
    3 forward walk differs, 4 backward walk differs *)
Definition check_case (c : case) : list nat :=
  match cs_kind c with
  | KPage =>
      let m := obs_of (page_fn c (cs_args c)) in
      match cs_obs c with
      | [o] => if obs_eqb m o then []
               else match m, o with ObsConn _, ObsConn _ => [1] | _, _ => [2] end
      | _ => [2]
      end
  | KWalkF k =>
      let '(pages, _) := walk_forward_by (page_fn c) (S (List.length (cs_nodes c))) (cs_args c) k None in
      if obs_list_eqb (map obs_of pages) (cs_obs c) then [] else [3]
  | KWalkB k =>
      let '(pages, _) := walk_backward_by (page_fn c) (S (List.length (cs_nodes c))) (cs_args c) k None in
      if obs_list_eqb (map obs_of pages) (cs_obs c) then [] else [4]
  end.

Fixpoint mismatches_from_sparse (_ : nat) (cs : list (nat * case)) : list (nat * list nat) :=
  match cs with
  | [] => []
  | (i, c) :: t => match check_case c with
                   | [] => mismatches_from_sparse 0 t
                   | l => (i, l) :: mismatches_from_sparse 0 t
                   end
  end.
