(** Cursor slicing (applyCursorsToAllEdges, paginateManually, setCursors): specification by list
    splits, and the two chained walks. *)
From Coq Require Import List ZArith String Ascii Bool Lia ZifyBool ZifyNat Arith.
From Thunder Require Import Lib.Json Pagination.Model.
Import ListNotations.
Open Scope list_scope.

(** * What the cursors mean, declaratively *)

Definition named (c : option string) (e : edge) : Prop := c = Some (e_cursor e).

(** [drop_through after E E1]: E1 is what remains of E after the element named by [after] and everything
    before it have been removed; an absent or unknown cursor removes nothing. *)
Inductive drop_through (after : option string) (E : list edge) : list edge -> Prop :=
| dt_found : forall p e s, E = p ++ e :: s -> named after e -> drop_through after E s
| dt_absent : (forall e, In e E -> ~ named after e) -> drop_through after E E.

(** [keep_until before E1 cand]: cand is what remains of E1 after the element named by [before] and
    everything after it have been removed. *)
Inductive keep_until (before : option string) (E1 : list edge) : list edge -> Prop :=
| ku_found : forall p e s, E1 = p ++ e :: s -> named before e -> keep_until before E1 p
| ku_absent : (forall e, In e E1 -> ~ named before e) -> keep_until before E1 E1.

(** * getCursorIndex *)

Lemma cursor_index_none_iff es c :
  cursor_index es c = None <-> forall x, In x es -> e_cursor x <> c.
Proof.
  induction es as [|e t IH]; simpl.
  - split; [intros _ x [] | reflexivity].
  - destruct (String.eqb (e_cursor e) c) eqn:E.
    + split; [discriminate|]. intros H. apply String.eqb_eq in E. exfalso. apply (H e); auto.
    + apply String.eqb_neq in E. destruct (cursor_index t c) eqn:Ci.
      * split; [discriminate|]. intros H. exfalso.
        destruct IH as [_ IH]. assert (Hn : Some n = None); [|discriminate].
        apply IH. intros x Hx. apply H; auto.
      * split; [|reflexivity]. intros _ x [<-|Hx]; auto. destruct IH as [IH _]. apply IH; auto.
Qed.

Lemma cursor_index_app p e s :
  (forall x, In x p -> e_cursor x <> e_cursor e) ->
  cursor_index (p ++ e :: s) (e_cursor e) = Some (List.length p).
Proof.
  induction p as [|a p IH]; simpl; intros H.
  - rewrite String.eqb_refl. reflexivity.
  - destruct (String.eqb (e_cursor a) (e_cursor e)) eqn:E.
    + apply String.eqb_eq in E. exfalso. apply (H a); auto.
    + rewrite IH; auto.
Qed.

Lemma nodup_split_notin (p : list edge) e s :
  NoDup (map e_cursor (p ++ e :: s)) ->
  (forall x, In x p -> e_cursor x <> e_cursor e) /\ (forall x, In x s -> e_cursor x <> e_cursor e).
Proof.
  rewrite map_app. simpl. intros H. apply NoDup_remove_2 in H.
  split; intros x Hx Heq; apply H; apply in_or_app; [left|right]; rewrite <- Heq; apply in_map; exact Hx.
Qed.

Lemma nodup_suffix (p s : list edge) : NoDup (map e_cursor (p ++ s)) -> NoDup (map e_cursor s).
Proof.
  induction p as [|a p IH]; simpl; auto. intros H. inversion H; auto.
Qed.

Lemma nodup_prefix (p s : list edge) : NoDup (map e_cursor (p ++ s)) -> NoDup (map e_cursor p).
Proof.
  induction p as [|a p IH]; simpl; intros H.
  - constructor.
  - inversion H as [|x l Hn Hd]; subst. constructor; auto.
    intros Hin. apply Hn. rewrite map_app. apply in_or_app. left. exact Hin.
Qed.

Lemma split_unique (E p p' : list edge) e e' s s' :
  NoDup (map e_cursor E) -> E = p ++ e :: s -> E = p' ++ e' :: s' -> e_cursor e = e_cursor e' ->
  p = p' /\ e = e' /\ s = s'.
Proof.
  intros Hnd. revert p' E Hnd. induction p as [|a p IH]; intros p' E Hnd H1 H2 Hc.
  - destruct p' as [|a' p'].
    + simpl in *. subst E. inversion H2. auto.
    + exfalso. simpl in *. subst E. inversion H2; subst a'.
      rewrite H2 in Hnd. simpl in Hnd. inversion Hnd as [|x l Hn Hd]; subst.
      apply Hn. rewrite map_app. apply in_or_app. right. simpl. left. symmetry. exact Hc.
  - destruct p' as [|a' p'].
    + exfalso. simpl in *. subst E. inversion H2; subst a.
      simpl in Hnd. inversion Hnd as [|x l Hn Hd]; subst.
      apply Hn. rewrite map_app. apply in_or_app. right. simpl. left. exact Hc.
    + simpl in *. subst E. inversion H2; subst a'.
      simpl in Hnd. inversion Hnd as [|x l Hn Hd]; subst.
      destruct (IH p' (p ++ e :: s) Hd eq_refl H1 Hc) as (-> & -> & ->). auto.
Qed.

Lemma skipn_app_exact {A} (p : list A) x s : skipn (S (List.length p)) (p ++ x :: s) = s.
Proof. induction p; simpl; auto. Qed.

Lemma firstn_app_exact {A} (p s : list A) : firstn (List.length p) (p ++ s) = p.
Proof. induction p; simpl; auto. f_equal; auto. Qed.

(** * applyCursorsToAllEdges *)

Lemma named_inv c e : named c e -> c = Some (e_cursor e).
Proof. exact (fun H => H). Qed.

Lemma apply_cursors_spec E before after E1 cand :
  NoDup (map e_cursor E) ->
  drop_through after E E1 -> keep_until before E1 cand ->
  apply_cursors E before after =
    (cand, Nat.ltb (S (List.length cand)) (List.length E1), Nat.ltb (S (List.length E1)) (List.length E)).
Proof.
  intros Hnd Ha Hb. unfold apply_cursors.
  assert (H1 : (match after with
                | Some a => match cursor_index E a with
                            | Some i => (skipn (S i) E, negb (Nat.eqb i 0))
                            | None => (E, false)
                            end
                | None => (E, false)
                end) = (E1, Nat.ltb (S (List.length E1)) (List.length E))).
  { destruct Ha as [p e s HE Hn | Hno].
    - rewrite (named_inv _ _ Hn). subst E.
      destruct (nodup_split_notin _ _ _ Hnd) as [Hp _].
      rewrite (cursor_index_app p e s Hp), skipn_app_exact.
      f_equal. rewrite app_length. cbn [List.length]. destruct p; cbn [List.length]; lia.
    - destruct after as [a|].
      + assert (Hc : cursor_index E a = None).
        { apply cursor_index_none_iff. intros x Hx Heq. apply (Hno x Hx). unfold named. congruence. }
        rewrite Hc. f_equal. lia.
      + f_equal. lia. }
  rewrite H1.
  assert (Hnd1 : NoDup (map e_cursor E1)).
  { destruct Ha as [p e s HE Hn | Hno]; auto. subst E.
    apply (nodup_suffix (p ++ [e]) s). rewrite <- app_assoc. exact Hnd. }
  assert (H2 : (match before with
                | Some b => match cursor_index E1 b with
                            | Some i => (firstn i E1, negb (Nat.eqb (S i) (List.length E1)))
                            | None => (E1, false)
                            end
                | None => (E1, false)
                end) = (cand, Nat.ltb (S (List.length cand)) (List.length E1))).
  { destruct Hb as [p e s HE Hn | Hno].
    - rewrite (named_inv _ _ Hn). subst E1.
      destruct (nodup_split_notin _ _ _ Hnd1) as [Hp _].
      rewrite (cursor_index_app p e s Hp), firstn_app_exact.
      f_equal. rewrite app_length. cbn [List.length]. destruct s; cbn [List.length]; lia.
    - destruct before as [b|].
      + assert (Hc : cursor_index E1 b = None).
        { apply cursor_index_none_iff. intros x Hx Heq. apply (Hno x Hx). unfold named. congruence. }
        rewrite Hc. f_equal. lia.
      + f_equal. lia. }
  rewrite H2. reflexivity.
Qed.

(** the relations are total (so the specification is never vacuous) ... *)
Lemma drop_through_total after E : exists E1, drop_through after E E1.
Proof.
  destruct after as [a|].
  - destruct (cursor_index E a) eqn:Ci.
    + assert (Hex : exists p e s, E = p ++ e :: s /\ e_cursor e = a).
      { clear -Ci. revert n Ci. induction E as [|x t IH]; simpl; intros n Ci; [discriminate|].
        destruct (String.eqb (e_cursor x) a) eqn:Ex.
        - apply String.eqb_eq in Ex. exists [], x, t. auto.
        - destruct (cursor_index t a) eqn:Ct; [|discriminate].
          destruct (IH _ eq_refl) as (p & e & s & -> & He). exists (x :: p), e, s. auto. }
      destruct Hex as (p & e & s & -> & <-). exists s. eapply dt_found; [reflexivity|reflexivity].
    + exists E. apply dt_absent. intros e He Hn. unfold named in Hn. inversion Hn; subst.
      rewrite cursor_index_none_iff in Ci. apply (Ci e He). reflexivity.
  - exists E. apply dt_absent. intros e _ Hn. discriminate Hn.
Qed.

Lemma keep_until_total before E1 : exists cand, keep_until before E1 cand.
Proof.
  destruct (drop_through_total before E1) as [s H]. destruct H as [p e s HE Hn | Hno].
  - exists p. eapply ku_found; eauto.
  - exists E1. apply ku_absent. exact Hno.
Qed.

(** ... and functional when cursors are unique *)
Lemma drop_through_fun after E E1 E1' :
  NoDup (map e_cursor E) -> drop_through after E E1 -> drop_through after E E1' -> E1 = E1'.
Proof.
  intros Hnd H1 H2. destruct H1 as [p e s HE Hn | Hno]; destruct H2 as [p' e' s' HE' Hn' | Hno']; auto.
  - unfold named in *. assert (Hc : e_cursor e = e_cursor e') by congruence.
    destruct (split_unique _ _ _ _ _ _ _ Hnd HE HE' Hc) as (_ & _ & ->). reflexivity.
  - exfalso. apply (Hno' e); auto. subst E. apply in_or_app. right. left. reflexivity.
  - exfalso. apply (Hno e'); auto. subst E. apply in_or_app. right. left. reflexivity.
Qed.

Lemma keep_until_fun before E1 c c' :
  NoDup (map e_cursor E1) -> keep_until before E1 c -> keep_until before E1 c' -> c = c'.
Proof.
  intros Hnd H1 H2. destruct H1 as [p e s HE Hn | Hno]; destruct H2 as [p' e' s' HE' Hn' | Hno']; auto.
  - unfold named in *. assert (Hc : e_cursor e = e_cursor e') by congruence.
    destruct (split_unique _ _ _ _ _ _ _ Hnd HE HE' Hc) as (-> & _ & _). reflexivity.
  - exfalso. apply (Hno' e); auto. subst E1. apply in_or_app. right. left. reflexivity.
  - exfalso. apply (Hno e'); auto. subst E1. apply in_or_app. right. left. reflexivity.
Qed.

Lemma drop_through_nodup after E E1 :
  NoDup (map e_cursor E) -> drop_through after E E1 -> NoDup (map e_cursor E1).
Proof.
  intros Hnd [p e s HE Hn | Hno]; auto. subst E.
  apply (nodup_suffix (p ++ [e]) s). rewrite <- app_assoc. exact Hnd.
Qed.

(** * paginateManually *)

Definition args_ok (a : pargs) : Prop :=
  (0 <= z_of_opt (a_first a))%Z /\ (0 <= z_of_opt (a_last a))%Z /\ (a_first a = None \/ a_last a = None).

(** the page the arguments select from the candidates *)
Definition cut_first (a : pargs) (cand : list edge) : bool :=
  match a_first a with Some f => Z.ltb f (Z.of_nat (List.length cand)) | None => false end.

Definition cut_last (a : pargs) (cand : list edge) : bool :=
  match a_last a with Some n => Z.ltb n (Z.of_nat (List.length cand)) | None => false end.

Definition page_of (a : pargs) (cand : list edge) : list edge :=
  match a_first a, a_last a with
  | Some f, _ => if Z.ltb f (Z.of_nat (List.length cand)) then firstn (Z.to_nat f) cand else cand
  | None, Some n => if Z.ltb n (Z.of_nat (List.length cand))
                    then skipn (List.length cand - Z.to_nat n) cand else cand
  | None, None => cand
  end.

Lemma paginate_spec E a E1 cand :
  NoDup (map e_cursor E) -> args_ok a ->
  drop_through (a_after a) E E1 -> keep_until (a_before a) E1 cand ->
  paginate_manually E a =
    inl (page_of a cand,
         (cut_first a cand || Nat.ltb (S (List.length cand)) (List.length E1))%bool,
         (cut_last a cand || Nat.ltb (S (List.length E1)) (List.length E))%bool).
Proof.
  intros Hnd (Hf & Hl & Hfl) Ha Hb.
  unfold paginate_manually, paginate_with. rewrite (apply_cursors_spec E _ _ E1 cand Hnd Ha Hb).
  assert (Hbf : (is_some (a_before a) && Nat.ltb (S (List.length cand)) (List.length E1))%bool
                = Nat.ltb (S (List.length cand)) (List.length E1)).
  { destruct (a_before a); simpl; auto. destruct Hb as [p e s HE Hn | Hno]; [discriminate Hn|].
    symmetry. apply Nat.ltb_ge. lia. }
  assert (Haf : (is_some (a_after a) && Nat.ltb (S (List.length E1)) (List.length E))%bool
                = Nat.ltb (S (List.length E1)) (List.length E)).
  { destruct (a_after a); simpl; auto. destruct Ha as [p e s HE Hn | Hno]; [discriminate Hn|].
    symmetry. apply Nat.ltb_ge. lia. }
  rewrite Hbf, Haf.
  destruct (Z.ltb (z_of_opt (a_first a)) 0 || Z.ltb (z_of_opt (a_last a)) 0)%bool eqn:Eneg; [lia|].
  unfold cut_first, cut_last, page_of.
  destruct Hfl as [Hnone | Hnone]; rewrite Hnone in *; simpl.
  - destruct (a_last a) as [n|]; simpl.
    + destruct (Z.ltb n (Z.of_nat (List.length cand))); reflexivity.
    + reflexivity.
  - rewrite andb_false_r. destruct (a_first a) as [f|]; simpl.
    + destruct (Z.ltb f (Z.of_nat (List.length cand))); simpl; rewrite ?orb_false_r; reflexivity.
    + reflexivity.
Qed.

(** the errors: exactly the arguments the code rejects *)
Lemma paginate_error E a :
  ~ args_ok a -> exists e, paginate_manually E a = inr e.
Proof.
  intros Hno. unfold paginate_manually, paginate_with.
  destruct (apply_cursors E (a_before a) (a_after a)) as [[es ea] eb].
  destruct (Z.ltb (z_of_opt (a_first a)) 0 || Z.ltb (z_of_opt (a_last a)) 0)%bool eqn:Eneg; [eauto|].
  destruct (is_some (a_first a) && is_some (a_last a))%bool eqn:Eboth; [eauto|].
  exfalso. apply Hno. unfold args_ok. split; [lia|]. split; [lia|].
  destruct (a_first a), (a_last a); simpl in *; auto; discriminate.
Qed.

(** * setCursors *)

Lemma set_cursors_spec es :
  set_cursors es = (match es with [] => EmptyString | e :: _ => e_cursor e end,
                    match es with [] => EmptyString | e :: _ => e_cursor (last es e) end).
Proof. destruct es; reflexivity. Qed.

Lemma last_app_single {A} (l : list A) x d : last (l ++ [x]) d = x.
Proof. induction l as [|a l IH]; simpl; auto. destruct (l ++ [x]) eqn:E; auto. destruct l; discriminate. Qed.
