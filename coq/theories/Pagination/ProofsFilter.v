(** applyTextFilter / filter.go: what passing the text filter means, and the default tokeniser on the
    documented sub-language (blank-separated words and quoted phrases). *)
From Coq Require Import List ZArith String Ascii Bool Lia Arith.
From Thunder Require Import Lib.Json Pagination.Model Pagination.ProofsFilterImpl.
Import ListNotations.
Open Scope list_scope.

Local Notation "a +++ b" := (String.append a b) (at level 60, right associativity).

Lemma is_prefix_spec p : forall s, is_prefix p s = true <-> exists post, s = p +++ post.
Proof.
  induction p as [|a p IH]; intros s; simpl.
  - split; [intros _; exists s; reflexivity | reflexivity].
  - destruct s as [|b s].
    + split; [discriminate | intros [post H]; discriminate H].
    + destruct (Ascii.eqb a b) eqn:E.
      * apply Ascii.eqb_eq in E. subst b. rewrite IH. split; intros [post H]; exists post; congruence.
      * apply Ascii.eqb_neq in E. split; [discriminate | intros [post H]; congruence].
Qed.

Lemma contains_unfold s t :
  contains s t = if is_prefix t s then true
                 else match s with EmptyString => false | String _ s' => contains s' t end.
Proof. destruct s; reflexivity. Qed.

(** strings.Contains: [t] occurs in [s] *)
Lemma contains_spec t : forall s, contains s t = true <-> exists pre post, s = pre +++ t +++ post.
Proof.
  intros s. split.
  - induction s as [|c s IH]; rewrite contains_unfold.
    + destruct (is_prefix t EmptyString) eqn:E; [|discriminate]. intros _.
      apply is_prefix_spec in E. destruct E as [post E]. exists EmptyString, post. exact E.
    + destruct (is_prefix t (String c s)) eqn:E.
      * intros _. apply is_prefix_spec in E. destruct E as [post E]. exists EmptyString, post. exact E.
      * intros H. destruct (IH H) as (pre & post & ->). exists (String c pre), post. reflexivity.
  - intros (pre & post & ->). induction pre as [|c pre IH]; rewrite contains_unfold.
    + simpl. assert (E : is_prefix t (t +++ post) = true) by (apply is_prefix_spec; eauto).
      rewrite E. reflexivity.
    + simpl. destruct (is_prefix t (String c (pre +++ t +++ post))); auto.
Qed.

Lemma mem_str_spec x l : mem_str x l = true <-> In x l.
Proof.
  induction l as [|y t IH]; simpl; [split; [discriminate|tauto]|].
  destruct (String.eqb x y) eqn:E.
  - apply String.eqb_eq in E. subst. tauto.
  - apply String.eqb_neq in E. rewrite IH. split; [tauto|]. intros [H|H]; [congruence|auto].
Qed.

(** DefaultFilterFunc: no tokens at all, or some non-empty token occurs (case-insensitively) *)
Lemma default_match_spec text toks :
  default_match text toks = true <->
  toks = [] \/ exists t pre post, In t toks /\ t <> EmptyString /\ lower text = pre +++ lower t +++ post.
Proof.
  unfold default_match. destruct toks as [|t0 r]; [split; auto|].
  rewrite existsb_exists. split.
  - intros (t & Hin & H). apply andb_true_iff in H. destruct H as [Hc Hne].
    apply contains_spec in Hc. destruct Hc as (pre & post & Hc). right. exists t, pre, post.
    repeat split; auto. intros ->. discriminate Hne.
  - intros [H | (t & pre & post & Hin & Hne & Hc)]; [discriminate|].
    exists t. split; auto. apply andb_true_iff. split.
    + apply contains_spec. eauto.
    + destruct (String.eqb t EmptyString) eqn:E; auto. apply String.eqb_eq in E. contradiction.
Qed.

Lemma selected_fields_spec cfg a f :
  In f (selected_fields cfg a) <->
  In f (cfg_ff cfg) /\ (forall fs, a_ffields a = Some fs -> In (ff_name f) fs).
Proof.
  unfold selected_fields. destruct (a_ffields a) as [fs|].
  - rewrite filter_In, mem_str_spec. split.
    + intros [H1 H2]. split; auto. intros fs' E. inversion E; subst; auto.
    + intros [H1 H2]. auto.
  - split; [intros H; split; auto; discriminate | tauto].
Qed.

(** a node passes iff there is no filter text, or some selected registered filter field matches: with
    DefaultFilterFunc on the default tokens, or - with filterType - the registered custom function on the
    custom tokens ([match_fn], [search_tokens]) *)
Lemma node_filter_spec cfg a n :
  node_filter cfg a n = true <->
  a_ftext a = None \/ a_ftext a = Some EmptyString \/
  exists t f, a_ftext a = Some t /\
    In f (cfg_ff cfg) /\ (forall fs, a_ffields a = Some fs -> In (ff_name f) fs) /\
    match_fn cfg a (lookup_def EmptyString (ff_attr f) (n_texts n)) (search_tokens cfg a t) = true.
Proof.
  unfold node_filter. destruct (a_ftext a) as [[|c t]|].
  - split; auto.
  - unfold keep_node. rewrite existsb_exists. split.
    + intros (f & Hf & Hm). right. right. exists (String c t), f. apply selected_fields_spec in Hf.
      destruct Hf. auto.
    + intros [H|[H|(t' & f & Ht & H1 & H2 & Hm)]]; try discriminate. inversion Ht; subst t'.
      exists f. split; auto. apply selected_fields_spec. auto.
  - split; auto.
Qed.

(** without filterType these are the default tokeniser and DefaultFilterFunc; with a registered name the
    user's functions; with an unregistered name nothing matches *)
Lemma match_fn_default cfg a : a_ftype a = None -> match_fn cfg a = default_match /\ search_tokens cfg a = tokens.
Proof. unfold match_fn, search_tokens. intros ->. split; reflexivity. Qed.

Lemma match_fn_custom cfg a ft tk m :
  a_ftype a = Some ft -> lookup_custom ft (cfg_customs cfg) = Some (tk, m) ->
  match_fn cfg a = m /\ search_tokens cfg a = tk.
Proof. unfold match_fn, search_tokens. intros -> ->. split; reflexivity. Qed.

Lemma match_fn_unregistered cfg a ft text toks :
  a_ftype a = Some ft -> lookup_custom ft (cfg_customs cfg) = None -> match_fn cfg a text toks = false.
Proof. unfold match_fn. intros -> ->. reflexivity. Qed.

Lemma apply_text_filter_spec cfg l a n :
  In n (apply_text_filter cfg l a) <-> In n l /\ node_filter cfg a n = true.
Proof. rewrite apply_text_filter_eq. apply filter_In. Qed.

(** * The tokeniser on the documented sub-language *)

Fixpoint all_chars (f : ascii -> bool) (s : string) : bool :=
  match s with EmptyString => true | String c t => (f c && all_chars f t)%bool end.

Definition word_char (c : ascii) : bool := (negb (is_space c) && negb (is_quote c))%bool.
Definition phrase_char (c : ascii) : bool := negb (is_quote c).

Inductive item := IWord (w : string) | IPhrase (p : string).

Definition item_ok (i : item) : bool :=
  match i with
  | IWord w => (all_chars word_char w && negb (String.eqb w EmptyString))%bool
  | IPhrase p => all_chars phrase_char p
  end.

Definition quote_s : string := String """"%char EmptyString.
Definition space_s : string := String " "%char EmptyString.

Definition render_item (i : item) : string :=
  match i with IWord w => w | IPhrase p => quote_s +++ p +++ quote_s end.

Definition content (i : item) : string := match i with IWord w => w | IPhrase p => p end.

Fixpoint render (is : list item) : string :=
  match is with
  | [] => EmptyString
  | i :: t => render_item i +++ space_s +++ render t
  end.

Lemma rev_str_rev s : forall acc acc', rev_str acc' (rev_str acc s) = rev_str (s +++ acc') acc.
Proof.
  induction s as [|c t IH]; intros acc acc'; simpl; auto. rewrite IH. reflexivity.
Qed.

Lemma append_nil_r s : s +++ EmptyString = s.
Proof. induction s; simpl; congruence. Qed.

Lemma unrev_rev_str w : unrev (rev_str EmptyString w) = w.
Proof. unfold unrev. rewrite rev_str_rev. simpl. apply append_nil_r. Qed.

Lemma append_assoc a b c : (a +++ b) +++ c = a +++ b +++ c.
Proof. induction a; simpl; congruence. Qed.

Lemma scan_word_chars w : forall acc rest lw lq,
  all_chars word_char w = true ->
  scan (w +++ rest) (TIn lw lq (CWord acc)) = scan rest (TIn lw lq (CWord (rev_str acc w))).
Proof.
  induction w as [|c w IH]; intros acc rest lw lq H; simpl in *; auto.
  apply andb_true_iff in H. destruct H as [Hc Hw]. unfold word_char in Hc.
  apply andb_true_iff in Hc. destruct Hc as [H1 H2].
  apply negb_true_iff in H1. apply negb_true_iff in H2. rewrite H1, H2. apply IH. exact Hw.
Qed.

Lemma scan_phrase_chars p : forall acc rest lw lq,
  all_chars phrase_char p = true ->
  scan (p +++ rest) (TIn lw lq (CQuote acc)) = scan rest (TIn lw lq (CQuote (rev_str acc p))).
Proof.
  induction p as [|c p IH]; intros acc rest lw lq H; simpl in *; auto.
  apply andb_true_iff in H. destruct H as [Hc Hp]. unfold phrase_char in Hc.
  apply negb_true_iff in Hc. rewrite Hc. apply IH. exact Hp.
Qed.

(** every term followed by a blank yields its content as one token *)
Lemma scan_item i rest :
  item_ok i = true ->
  scan (render_item i +++ space_s +++ rest) TOut = content i :: scan rest TOut.
Proof.
  destruct i as [w|p]; simpl; intros H.
  - apply andb_true_iff in H. destruct H as [Hw Hne].
    destruct w as [|c w]; [discriminate Hne|]. simpl in Hw.
    apply andb_true_iff in Hw. destruct Hw as [Hc Hw]. unfold word_char in Hc.
    apply andb_true_iff in Hc. destruct Hc as [H1 H2].
    apply negb_true_iff in H1. apply negb_true_iff in H2.
    simpl. rewrite H1, H2.
    rewrite scan_word_chars by exact Hw. simpl.
    change (rev_str (String c EmptyString) w) with (rev_str EmptyString (String c w)).
    rewrite unrev_rev_str. reflexivity.
  - simpl. rewrite append_assoc.
    rewrite scan_phrase_chars by exact H. simpl. rewrite unrev_rev_str. reflexivity.
Qed.

Theorem tokens_render is :
  forallb item_ok is = true -> tokens (render is) = map content is.
Proof.
  unfold tokens. induction is as [|i t IH]; cbn [render forallb map]; intros H; auto.
  apply andb_true_iff in H. destruct H as [Hi Ht].
  rewrite scan_item by exact Hi. rewrite IH by exact Ht. reflexivity.
Qed.

(** the same without a trailing blank: terms separated by single blanks *)
Fixpoint render_sep (is : list item) : string :=
  match is with
  | [] => EmptyString
  | [i] => render_item i
  | i :: t => render_item i +++ space_s +++ render_sep t
  end.

Lemma scan_item_end i : item_ok i = true -> scan (render_item i) TOut = [content i].
Proof.
  destruct i as [w|p]; simpl; intros H.
  - apply andb_true_iff in H. destruct H as [Hw Hne].
    destruct w as [|c w]; [discriminate Hne|]. simpl in Hw.
    apply andb_true_iff in Hw. destruct Hw as [Hc Hw]. unfold word_char in Hc.
    apply andb_true_iff in Hc. destruct Hc as [H1 H2].
    apply negb_true_iff in H1. apply negb_true_iff in H2.
    simpl. rewrite H1, H2. rewrite <- (append_nil_r w) at 1.
    rewrite scan_word_chars by exact Hw. simpl.
    change (rev_str (String c EmptyString) w) with (rev_str EmptyString (String c w)).
    rewrite unrev_rev_str. reflexivity.
  - simpl.
    rewrite scan_phrase_chars by exact H. simpl. rewrite unrev_rev_str. reflexivity.
Qed.

Theorem tokens_render_sep is :
  forallb item_ok is = true -> tokens (render_sep is) = map content is.
Proof.
  unfold tokens. induction is as [|i t IH]; cbn [forallb map]; intros H; auto.
  apply andb_true_iff in H. destruct H as [Hi Ht].
  destruct t as [|j t].
  - cbn [render_sep map]. apply scan_item_end. exact Hi.
  - change (render_sep (i :: j :: t)) with (render_item i +++ space_s +++ render_sep (j :: t)).
    rewrite scan_item by exact Hi. rewrite IH by exact Ht. reflexivity.
Qed.
