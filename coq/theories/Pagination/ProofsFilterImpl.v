(** applyTextFilter's three runners (plain, expensive, batched) or-ed together keep exactly the nodes for
    which some selected field matches: which implementation a filter field uses is irrelevant. *)
From Coq Require Import List ZArith String Ascii Bool Lia Arith.
From Thunder Require Import Lib.Json Pagination.Model.
Import ListNotations.
Open Scope list_scope.

Lemma existsb_filter {A} (P g : A -> bool) S :
  existsb P (filter g S) = existsb (fun x => (g x && P x)%bool) S.
Proof.
  induction S as [|x t IH]; simpl; auto. destruct (g x); simpl; rewrite IH; reflexivity.
Qed.

Lemma existsb_or {A} (P Q : A -> bool) S :
  (existsb P S || existsb Q S)%bool = existsb (fun x => (P x || Q x)%bool) S.
Proof.
  induction S as [|x t IH]; simpl; auto. rewrite <- IH.
  destruct (P x), (Q x), (existsb P t), (existsb Q t); reflexivity.
Qed.

Lemma existsb_ext {A} (P Q : A -> bool) S : (forall x, P x = Q x) -> existsb P S = existsb Q S.
Proof. intros H. induction S as [|x t IH]; simpl; auto. rewrite H, IH. reflexivity. Qed.

Lemma keep_groups cfg mf toks sel n :
  (keep_node mf toks (group cfg RPlain sel) n || keep_node mf toks (group cfg RBatch sel) n
   || keep_node mf toks (group cfg RExpensive sel) n)%bool = keep_node mf toks sel n.
Proof.
  unfold keep_node, group. rewrite !existsb_filter, !existsb_or. apply existsb_ext. intros f.
  destruct (runner_of (cfg_use_batch cfg) f); simpl; destruct (field_matches mf toks n f); reflexivity.
Qed.

Lemma combine_keep (f1 f2 f3 : node -> bool) l :
  map (fun x => (fst (fst x) || snd x || snd (fst x))%bool)
      (combine (combine (map f1 l) (map f2 l)) (map f3 l)) =
  map (fun n => (f1 n || f3 n || f2 n)%bool) l.
Proof. induction l as [|x t IH]; simpl; auto. rewrite IH. reflexivity. Qed.

Lemma filter_by_flags {A} (f : A -> bool) l : map fst (filter snd (combine l (map f l))) = filter f l.
Proof. induction l as [|x t IH]; simpl; auto. destruct (f x); simpl; rewrite IH; reflexivity. Qed.

Lemma filter_all {A} (l : list A) : filter (fun _ => true) l = l.
Proof. induction l; simpl; congruence. Qed.

Lemma filter_ext' {A} (f g : A -> bool) l : (forall x, f x = g x) -> filter f l = filter g l.
Proof. intros H. induction l as [|x t IH]; simpl; auto. rewrite H, IH. reflexivity. Qed.

Theorem apply_text_filter_eq cfg l a :
  apply_text_filter cfg l a = filter (node_filter cfg a) l.
Proof.
  unfold apply_text_filter, node_filter. destruct (a_ftext a) as [[|c t]|].
  - symmetry. apply filter_all.
  - cbv zeta. rewrite combine_keep, filter_by_flags. apply filter_ext'. intros n. apply keep_groups.
  - symmetry. apply filter_all.
Qed.

(** the result depends on the registered names and what they resolve to, not on how they are implemented
    nor on what ShouldUseBatchFunc answers *)
Lemma keep_node_selected_impl mf toks n (fs : option (list string)) :
  forall ffs ffs',
  map (fun f => (ff_name f, ff_attr f)) ffs = map (fun f => (ff_name f, ff_attr f)) ffs' ->
  keep_node mf toks (match fs with Some x => filter (fun f => mem_str (ff_name f) x) ffs | None => ffs end) n =
  keep_node mf toks (match fs with Some x => filter (fun f => mem_str (ff_name f) x) ffs' | None => ffs' end) n.
Proof.
  induction ffs as [|f t IH]; intros [|f' t'] H; try discriminate H.
  - reflexivity.
  - simpl in H. inversion H as [[Hn Ha Ht]]. specialize (IH t' Ht).
    unfold keep_node in *. destruct fs as [x|]; simpl.
    + rewrite Hn. destruct (mem_str (ff_name f') x); simpl.
      * unfold field_matches at 1 3. rewrite Ha. f_equal. exact IH.
      * exact IH.
    + unfold field_matches at 1 3. rewrite Ha. f_equal. exact IH.
Qed.

Theorem filter_impl_irrelevant ffs ffs' sf sf' ub ub' cu l a :
  map (fun f => (ff_name f, ff_attr f)) ffs = map (fun f => (ff_name f, ff_attr f)) ffs' ->
  apply_text_filter (mk_cfg ffs sf ub cu) l a = apply_text_filter (mk_cfg ffs' sf' ub' cu) l a.
Proof.
  intros H. rewrite !apply_text_filter_eq. apply filter_ext'. intros n.
  unfold node_filter. destruct (a_ftext a) as [[|c t]|]; auto.
  unfold selected_fields. cbn [cfg_ff]. apply keep_node_selected_impl. exact H.
Qed.
