(** C18 - enums as name -> value maps that need not be injective (aliases: several registered names for one
    Go value): every registered name is accepted, by literal and by variable, and arrives as its value. *)
From Coq Require Import List ZArith String Bool.
From Thunder Require Import Lib.Json Args.Model Args.Spec.
Import ListNotations.

Section Enum.
  Variable b64 : string -> option (list Z).
  Variable tdec : string -> option tval.
  Variable xdec : string -> option string.

  Lemma enum_name_transport vars z names n v :
    lookup n names = Some v ->
    vtj vars (LEnum n) = Ok (VStr n) /\
    parse b64 tdec xdec (TEnum z names) (VStr n) = Ok v.
  Proof. intros H. split; [reflexivity|]. cbn [parse]. rewrite H. reflexivity. Qed.

  Lemma enum_unregistered_refused z names n :
    lookup n names = None -> parse b64 tdec xdec (TEnum z names) (VStr n) = Err EArgs.
  Proof. intros H. cbn [parse]. rewrite H. reflexivity. Qed.

  Lemma enum_aliases_same_value z names n1 n2 v :
    lookup n1 names = Some v -> lookup n2 names = Some v ->
    parse b64 tdec xdec (TEnum z names) (VStr n1) = parse b64 tdec xdec (TEnum z names) (VStr n2).
  Proof. intros H1 H2. cbn [parse]. rewrite H1, H2. reflexivity. Qed.

  (** in lists: every element written with any of its names *)
  Lemma enum_list_transport z names ns vs :
    Forall2 (fun n v => lookup n names = Some v) ns vs ->
    parse b64 tdec xdec (TList (TEnum z names)) (VArr (map VStr ns)) = Ok (GList vs).
  Proof.
    intros H. cbn [parse].
    assert (E : (fix go (l : list jv) : result (list gv) :=
                   match l with
                   | [] => Ok []
                   | x :: r => match parse b64 tdec xdec (TEnum z names) x with
                               | Err e => Err e
                               | Ok v => match go r with Ok vs => Ok (v :: vs) | Err e => Err e end
                               end
                   end) (map VStr ns) = Ok vs).
    { induction H as [|n v ns' vs' Hn _ IH]; [reflexivity|].
      cbn [map]. cbn [parse]. rewrite Hn. cbn [parse] in IH. rewrite IH. reflexivity. }
    cbn [parse] in E. rewrite E. reflexivity.
  Qed.
End Enum.
