(** C18 - the scalar cases of the model against the scalarArgParsers table of the source, as regenerated
    into Gen/ArgParsers.v by tools/gentables (go/ast) on every run. *)
From Coq Require Import List ZArith String Ascii Bool Lia ZifyBool ZifyNat.
From Thunder Require Import Lib.Json Gen.ArgParsers Args.Model Args.Spec Args.Proofs.
Import ListNotations.
Open Scope string_scope.
Local Open Scope Z_scope.

Definition entry := (string * string * string * string)%type.
Definition e_type (e : entry) : string := fst (fst (fst e)).
Definition e_conv (e : entry) : string := snd (fst e).

Definition all_ikinds : list ikind := [I8; I16; I32; I64; IInt; U8; U16; U32; U64; UInt].

Lemma all_ikinds_complete k : In k all_ikinds.
Proof. destruct k; cbn; tauto. Qed.

Definition go_name (k : ikind) : string :=
  match k with
  | I8 => "int8" | I16 => "int16" | I32 => "int32" | I64 => "int64" | IInt => "int"
  | U8 => "uint8" | U16 => "uint16" | U32 => "uint32" | U64 => "uint64" | UInt => "uint"
  end.

(** Go's conversion float64 -> T for the integer type named T, applied to a value whose truncation is
    [t] (gc on amd64). *)
Definition go_float_conv (T : string) (t : Z) : option Z :=
  let direct := if t <? 2 ^ 63 then wrap 64 false (cvt64 t) else if t <? 2 ^ 64 then t else 2 ^ 63 in
  if String.eqb T "int8" then Some (wrap 8 true (cvt32 t))
  else if String.eqb T "int16" then Some (wrap 16 true (cvt32 t))
  else if String.eqb T "int32" then Some (wrap 32 true (cvt32 t))
  else if (String.eqb T "int64") || (String.eqb T "int") then Some (wrap 64 true (cvt64 t))
  else if String.eqb T "uint8" then Some (wrap 8 false (cvt32 t))
  else if String.eqb T "uint16" then Some (wrap 16 false (cvt32 t))
  else if String.eqb T "uint32" then Some (wrap 32 false (cvt64 t))
  else if (String.eqb T "uint64") || (String.eqb T "uint") then Some direct
  else None.

(** The conversion type the source's table names for the Go type [g]. *)
Fixpoint table_conv (g : string) (tbl : list entry) : option string :=
  match tbl with
  | [] => None
  | e :: r => if String.eqb (e_type e) g then Some (e_conv e) else table_conv g r
  end.

(** The scalar type constructors of the model and what the model does for each. *)
Definition scalar_tys : list ty :=
  [TBool; TF32; TF64; TString; TBytes; TTime] ++ map TInt all_ikinds.

Definition table_scalar (t : ty) : Prop :=
  match t with TBool | TInt _ | TF32 | TF64 | TString | TBytes | TTime => True | _ => False end.

Lemma scalar_tys_complete t : table_scalar t -> In t scalar_tys.
Proof.
  destruct t; cbn [table_scalar]; intros H; try contradiction; unfold scalar_tys;
    try (cbn; tauto).
  apply in_or_app. right. apply in_map. apply all_ikinds_complete.
Qed.

Definition go_type_name (t : ty) : string :=
  match t with
  | TBool => "bool" | TInt k => go_name k | TF32 => "float32" | TF64 => "float64"
  | TString => "string" | TBytes => "[]byte" | TTime => "time.Time" | _ => "?"
  end.

(** Which JSON kind the model's parser accepts, read off [mismatch]. *)
Definition asserted_of (t : ty) : string :=
  if negb (mismatch t (VBool true)) then "bool"
  else if negb (mismatch t (VNum 0 0)) then "float64"
  else if negb (mismatch t (VStr "")) then "string" else "?".

(** [conv] of the model goes through this Go type before [Convert(dest.Type())]. *)
Definition conv_via (k : ikind) : string := match k with U64 => "int64" | _ => go_name k end.

Definition conv_name (t : ty) : string :=
  match t with TInt k => conv_via k | TF32 => "float32" | _ => "" end.
Definition decoder_name (t : ty) : string :=
  match t with TBytes => "base64.StdEncoding.DecodeString" | TTime => "time.Parse time.RFC3339" | _ => "" end.

Definition entry_of (t : ty) : entry := (go_type_name t, asserted_of t, conv_name t, decoder_name t).
Definition model_table : list entry := map entry_of scalar_tys.

Definition entry_dec (a b : entry) : {a = b} + {a <> b}.
Proof. repeat decide equality. Defined.

Definition incl_b (l1 l2 : list entry) : bool :=
  forallb (fun e => if in_dec entry_dec e l2 then true else false) l1.

Lemma incl_b_ok l1 l2 : incl_b l1 l2 = true -> incl l1 l2.
Proof.
  unfold incl_b. rewrite forallb_forall. intros H e He. specialize (H e He).
  destruct (in_dec entry_dec e l2); [assumption | discriminate].
Qed.

Fixpoint nodup_b (l : list string) : bool :=
  match l with [] => true | x :: r => negb (existsb (String.eqb x) r) && nodup_b r end.

Lemma nodup_b_ok l : nodup_b l = true -> NoDup l.
Proof.
  induction l as [|x r IH]; cbn [nodup_b]; intros H; constructor.
  - apply andb_prop in H as [H _]. intros Hin.
    assert (E : existsb (String.eqb x) r = true) by (apply existsb_exists; exists x; split; [exact Hin | apply String.eqb_refl]).
    rewrite E in H. discriminate.
  - apply IH. apply andb_prop in H as [_ H]. exact H.
Qed.

(** ** wrap is idempotent up to the signedness of the last step *)
Lemma wrap_mod w s x : 0 < w -> (wrap w s x) mod 2 ^ w = x mod 2 ^ w.
Proof.
  intros Hw. unfold wrap. cbv zeta.
  assert (HM : 0 < 2 ^ w) by (apply Z.pow_pos_nonneg; lia).
  set (M := 2 ^ w) in *.
  destruct (s && (2 ^ (w - 1) <=? x mod M)).
  - replace (x mod M - M) with (x mod M + (-1) * M) by lia.
    rewrite Z_mod_plus_full. apply Z.mod_mod. lia.
  - apply Z.mod_mod. lia.
Qed.

Lemma wrap_wrap w s s' x : 0 < w -> wrap w s (wrap w s' x) = wrap w s x.
Proof.
  intros Hw. unfold wrap at 1. rewrite (wrap_mod w s' x Hw). reflexivity.
Qed.

(** The model's integer conversions are: Go's conversion to the type the table names for that entry,
    then Convert to the destination kind. *)
Theorem conv_from_table : forall k t,
  exists T, table_conv (go_name k) arg_parsers = Some T /\
            option_map (wrap (width k) (signed k)) (go_float_conv T t) = Some (conv k t).
Proof.
  intros k t. destruct k;
    (eexists; split; [vm_compute; reflexivity|]);
    cbn [go_float_conv option_map width signed conv String.eqb Ascii.eqb Bool.eqb orb];
    try (rewrite wrap_wrap by lia; reflexivity).
  (* uint: the direct conversion already lies in [0, 2^64) *)
  f_equal.
  destruct (t <? 2 ^ 63) eqn:C.
  - apply wrap_wrap. lia.
  - destruct (t <? 2 ^ 64) eqn:C2.
    + apply wrap_unsigned_id. pows_in C. pows. pows_in C2. lia.
    + apply wrap_unsigned_id. pows. lia.
Qed.

Theorem table_exact :
  (forall e, In e arg_parsers <-> In e model_table) /\ NoDup (map e_type arg_parsers).
Proof.
  split.
  - intros e. split; apply incl_b_ok; vm_compute; reflexivity.
  - apply nodup_b_ok. vm_compute. reflexivity.
Qed.

Theorem scalar_table_covered :
  (forall e, In e arg_parsers <-> In e (map entry_of scalar_tys)) /\
  NoDup (map e_type arg_parsers) /\
  (forall t, table_scalar t -> In t scalar_tys) /\
  (forall k t, exists T, table_conv (go_name k) arg_parsers = Some T /\
                         option_map (wrap (width k) (signed k)) (go_float_conv T t) = Some (conv k t)).
Proof.
  destruct table_exact as [H1 H2].
  split; [exact H1|]. split; [exact H2|]. split; [exact scalar_tys_complete | exact conv_from_table].
Qed.
