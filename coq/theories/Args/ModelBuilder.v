(** C18 - executable model of the argument-parser *builder* of graphql/schemabuilder:

    Go function                                   model
    -------------------------------------------   ---------------------------
    parseGraphQLFieldInfo (reflect.go 60-91)      [field_info] ([split_comma], [tag_opts], [lower_first])
    getStructObjectFields (input.go 111-166)      [struct_fields]
    makeStructParser as called for the argument
      struct of a field func (function.go 254)    [build_top]
    makeArgParser (input.go 170-184)              [build]
    makeArgParserInner (input.go 188-217)         [build_inner] (order: enum, scalar table, TextUnmarshaler,
                                                  struct / slice by kind, everything else refused)
    nilParseArguments (input.go 70-78)            [parse_noargs]

    A [gty] is a Go type as the builder sees it through reflect: for every type the three facts the
    builder asks about it ([tinfo]: is it a registered enum, which scalarArgParsers entry matches it, does a
    pointer to it implement encoding.TextUnmarshaler) and its kind with its components.  The result is the
    argument type [ty] of Args/Model.v whose [parse] is the parser the builder returns.
    Executable definitions only; proofs in Args/ProofsBuilder.v. *)
From Coq Require Import List ZArith String Ascii Bool.
From Thunder Require Import Lib.Json Args.Model.
Import ListNotations.
Open Scope string_scope.

(** the entries of scalarArgParsers (Gen/ArgParsers.v holds the table of the source) *)
Inductive sc := ScBool | ScInt (k : ikind) | ScF32 | ScF64 | ScString | ScBytes | ScTime.

Definition ty_of_sc (s : sc) : ty :=
  match s with
  | ScBool => TBool | ScInt k => TInt k | ScF32 => TF32 | ScF64 => TF64
  | ScString => TString | ScBytes => TBytes | ScTime => TTime
  end.

Record tinfo := mk_tinfo {
  ti_enum : option (gv * list (string * gv));  (* sb.enumMappings[typ]: zero value of the type, the name map *)
  ti_scalar : option sc;                       (* the entry internal.TypesIdenticalOrScalarAliases matches *)
  ti_text : bool                               (* reflect.PtrTo(typ).Implements(textUnmarshalerType) *)
}.

Record fmeta := mk_fmeta {
  fm_goname : string;      (* field.Name *)
  fm_unexported : bool;    (* field.PkgPath != "" *)
  fm_anonymous : bool;     (* field.Anonymous *)
  fm_tag : string          (* field.Tag.Get("graphql") *)
}.

Inductive gty : Type :=
| RPtr (g : gty)                                          (* reflect.Ptr *)
| RSlice (i : tinfo) (g : gty)                            (* reflect.Slice *)
| RStruct (i : tinfo) (name : string) (fs : list (fmeta * gty))   (* reflect.Struct; name = typ.Name() *)
| RLeaf (i : tinfo).                                      (* every other kind *)

Definition no_info : tinfo := mk_tinfo None None false.

Definition info_of (g : gty) : tinfo :=
  match g with RPtr _ => no_info | RSlice i _ | RStruct i _ _ | RLeaf i => i end.

(** * parseGraphQLFieldInfo *)

(** strings.Split(s, ",") ([acc] reversed) *)
Fixpoint rev_app (acc s : string) : string :=
  match acc with EmptyString => s | String c t => rev_app t (String c s) end.

Fixpoint split_comma_from (acc s : string) : list string :=
  match s with
  | EmptyString => [rev_app acc EmptyString]
  | String c t => if Ascii.eqb c ","%char then rev_app acc EmptyString :: split_comma_from EmptyString t
                  else split_comma_from (String c acc) t
  end.
Definition split_comma (s : string) : list string := split_comma_from EmptyString s.

(** the loop over tags[1:]: "key" and "optional", each at most once; anything else is an error *)
Fixpoint tag_opts (opts : list string) (key optional : bool) : option (bool * bool) :=
  match opts with
  | [] => Some (key, optional)
  | o :: r =>
      if (String.eqb o "key" && negb key)%bool then tag_opts r true optional
      else if (String.eqb o "optional" && negb optional)%bool then tag_opts r key true
      else None
  end.

(** makeGraphql on names that start with an ASCII letter (Go identifiers of the generator) *)
Definition lower_ascii (c : ascii) : ascii :=
  let n := N_of_ascii c in
  if (N.leb 65 n && N.leb n 90)%bool then ascii_of_N (n + 32) else c.
Definition lower_first (s : string) : string :=
  match s with EmptyString => EmptyString | String c r => String (lower_ascii c) r end.

Inductive finfo := FSkipped | FField (name : string) (key optional : bool).

Definition field_info (m : fmeta) : option finfo :=
  if fm_unexported m then Some FSkipped
  else
    let tags := split_comma (fm_tag m) in
    let name0 := match tags with n :: _ => n | [] => EmptyString end in
    let name := if String.eqb name0 EmptyString then lower_first (fm_goname m) else name0 in
    if String.eqb name "-" then Some FSkipped
    else match tag_opts (tl tags) false false with
         | Some (k, o) => Some (FField name k o)
         | None => None
         end.

(** * The builder *)

(** makeArgParserInner's first three tests, in the order of the code *)
Definition classify (i : tinfo) : option ty :=
  match ti_enum i with
  | Some (z, names) => Some (TEnum z names)
  | None => match ti_scalar i with
            | Some s => Some (ty_of_sc s)
            | None => if ti_text i then Some TText else None
            end
  end.

(** makeArgParser over a given makeArgParserInner *)
Definition build_with (inner : gty -> option ty) (g : gty) : option ty :=
  match g with
  | RPtr g' => option_map TPtr (inner g')
  | _ => inner g
  end.

(** getStructObjectFields' loop over a given makeArgParserInner; [seen] = the names already in [fields] *)
Section Fields.
  Variable inner : gty -> option ty.
  Fixpoint struct_fields_with (fs : list (fmeta * gty)) (seen : list string)
    : option (list (string * ty)) :=
    match fs with
    | [] => Some []
    | (m, h) :: r =>
        if fm_anonymous m then None                                (* "anonymous fields not supported" *)
        else match field_info m with
             | None => None                                        (* "unexpected tag" *)
             | Some FSkipped => struct_fields_with r seen
             | Some (FField n _ opt) =>
                 if mem_str n seen then None                       (* "duplicate field" *)
                 else match build_with inner h with
                      | None => None
                      | Some t => match struct_fields_with r (n :: seen) with
                                  | None => None
                                  | Some l => Some ((n, if opt then TOpt t else t) :: l)
                                  end
                      end
             end
    end.
End Fields.

Fixpoint build_inner (g : gty) {struct g} : option ty :=
  match classify (info_of g) with
  | Some t => Some t
  | None =>
      match g with
      | RStruct _ name fs =>
          match struct_fields_with build_inner fs [] with
          | None => None
          | Some l => if String.eqb name EmptyString then None   (* "should have a name" *)
                      else Some (TStruct l)
          end
      | RSlice _ h => option_map TList (build_with build_inner h)
      | RPtr _ | RLeaf _ => None                                 (* "should be struct, scalar, pointer, or a slice" *)
      end
  end.

Definition build : gty -> option ty := build_with build_inner.
Definition struct_fields := struct_fields_with build_inner.

(** the argument struct of a field func: makeStructParser directly (an unnamed struct is fine here, and
    whatever else the type is - enum, scalar alias, TextUnmarshaler - is not looked at) *)
Definition build_top (g : gty) : option ty :=
  match g with
  | RStruct _ _ fs => option_map TStruct (struct_fields fs [])
  | _ => None                                                    (* "expected struct but received type" *)
  end.

(** * Fields without an argument struct *)

(** nilParseArguments: nil or an empty object; anything else is "unexpected args" *)
Definition parse_noargs (j : jv) : result unit :=
  match j with
  | VNull => Ok tt
  | VObj [] => Ok tt
  | _ => Err EArgs
  end.

(** * Comparison with the type the harness derived (correspondence) *)
Definition ikind_eqb (a b : ikind) : bool :=
  match a, b with
  | I8, I8 | I16, I16 | I32, I32 | I64, I64 | IInt, IInt
  | U8, U8 | U16, U16 | U32, U32 | U64, U64 | UInt, UInt => true
  | _, _ => false
  end.

Fixpoint ty_eqb (a b : ty) {struct a} : bool :=
  match a, b with
  | TBool, TBool | TF32, TF32 | TF64, TF64 | TString, TString | TBytes, TBytes | TTime, TTime | TText, TText => true
  | TInt k, TInt k' => ikind_eqb k k'
  | TEnum z ns, TEnum z' ns' =>
      (gv_eqb z z' &&
       (fix go (x y : list (string * gv)) {struct x} : bool :=
          match x, y with
          | [], [] => true
          | (k, u) :: x', (k', v) :: y' => String.eqb k k' && gv_eqb u v && go x' y'
          | _, _ => false
          end) ns ns')%bool
  | TPtr x, TPtr y | TOpt x, TOpt y | TList x, TList y => ty_eqb x y
  | TStruct x, TStruct y =>
      (fix go (x y : list (string * ty)) {struct x} : bool :=
         match x, y with
         | [], [] => true
         | (k, u) :: x', (k', v) :: y' => (String.eqb k k' && ty_eqb u v && go x' y')%bool
         | _, _ => false
         end) x y
  | _, _ => false
  end.
