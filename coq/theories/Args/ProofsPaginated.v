(** C18 - paginated fields: connection arguments + the ordinary struct parser on the rest. *)
From Coq Require Import List ZArith String Ascii Bool.
From Thunder Require Import Lib.Json Args.Model Args.Spec Args.Proofs.
Import ListNotations.
Open Scope string_scope.

Lemma lookup_own_members n o :
  mem_str n conn_names = false -> lookup n (own_members o) = lookup n o.
Proof.
  intros Hn. unfold own_members. induction o as [|[k v] r IH]; [reflexivity|].
  cbn [filter fst lookup]. destruct (String.eqb n k) eqn:E.
  - apply String.eqb_eq in E. subst k. rewrite Hn. cbn [negb lookup]. rewrite String.eqb_refl. reflexivity.
  - destruct (negb (mem_str k conn_names)); [cbn [lookup]; rewrite E|]; exact IH.
Qed.

Section Paginated.
  Variable b64 : string -> option (list Z).
  Variable tdec : string -> option tval.
  Variable xdec : string -> option string.
  Notation parse := (parse b64 tdec xdec).
  Notation parse_fields := (parse_fields b64 tdec xdec).

  Lemma parse_fields_ext o o' fs :
    (forall n, In n (map fst fs) -> field_val n o = field_val n o') ->
    parse_fields o fs = parse_fields o' fs.
  Proof.
    induction fs as [|[n t'] r IH]; intros H; [reflexivity|].
    cbn [Proofs.parse_fields]. rewrite (H n (or_introl eq_refl)).
    rewrite IH by (intros m Hm; apply H; right; exact Hm). reflexivity.
  Qed.

  (** The resolver's own argument struct is parsed exactly as on an ordinary field - in particular a
      missing required argument is refused and optional ones arrive nil / zero even when no own argument
      was sent at all - provided the connection arguments themselves parse and no own argument is named
      like one of them. *)
  Theorem paginated_is_struct_parser fs o c :
    (forall n, In n (map fst fs) -> mem_str n conn_names = false) ->
    parse conn_ty (VObj o) = Ok c ->
    parse_paginated b64 tdec xdec (TStruct fs) (VObj o) = parse (TStruct fs) (VObj o).
  Proof.
    intros Hd Hc. unfold parse_paginated. rewrite Hc. rewrite !parse_struct_eq.
    rewrite (parse_fields_ext (own_members o) o fs); [reflexivity|].
    intros n Hn. unfold field_val. rewrite lookup_own_members by (apply Hd; exact Hn). reflexivity.
  Qed.

  Theorem paginated_bad_connection_arg t o e :
    parse conn_ty (VObj o) = Err e -> parse_paginated b64 tdec xdec t (VObj o) = Err e.
  Proof. intros H. unfold parse_paginated. rewrite H. reflexivity. Qed.
End Paginated.
