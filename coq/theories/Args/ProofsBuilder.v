(** C18 - lemmas about the argument-parser builder (Args/ModelBuilder.v). *)
From Coq Require Import List ZArith String Ascii Bool Lia.
From Thunder Require Import Lib.Json Args.Model Args.Spec Args.ModelBuilder.
Import ListNotations.
Open Scope string_scope.

(** * Induction over Go types (nested through the field list) *)
Section GtyInd.
  Variable P : gty -> Prop.
  Hypothesis Hptr : forall g, P g -> P (RPtr g).
  Hypothesis Hslice : forall i g, P g -> P (RSlice i g).
  Hypothesis Hstruct : forall i n fs, Forall (fun mh => P (snd mh)) fs -> P (RStruct i n fs).
  Hypothesis Hleaf : forall i, P (RLeaf i).

  Fixpoint gty_ind' (g : gty) : P g :=
    match g with
    | RPtr g' => Hptr g' (gty_ind' g')
    | RSlice i g' => Hslice i g' (gty_ind' g')
    | RStruct i n fs =>
        Hstruct i n fs
          ((fix go (fs : list (fmeta * gty)) : Forall (fun mh => P (snd mh)) fs :=
              match fs with
              | [] => Forall_nil _
              | mh :: r => Forall_cons mh (gty_ind' (snd mh)) (go r)
              end) fs)
    | RLeaf i => Hleaf i
    end.
End GtyInd.

(** * The declarative description of what the builder supports *)
Inductive BuildsInner : gty -> ty -> Prop :=
| BI_class : forall g t, classify (info_of g) = Some t -> BuildsInner g t
| BI_slice : forall i h t, classify i = None -> Builds h t -> BuildsInner (RSlice i h) (TList t)
| BI_struct : forall i name fs l, classify i = None -> name <> EmptyString ->
    BuildsFields fs [] l -> BuildsInner (RStruct i name fs) (TStruct l)
with Builds : gty -> ty -> Prop :=
| B_ptr : forall g t, BuildsInner g t -> Builds (RPtr g) (TPtr t)
| B_nonptr : forall g t, (forall g', g <> RPtr g') -> BuildsInner g t -> Builds g t
with BuildsFields : list (fmeta * gty) -> list string -> list (string * ty) -> Prop :=
| BF_nil : forall seen, BuildsFields [] seen []
| BF_skip : forall m h r seen l,
    fm_anonymous m = false -> field_info m = Some FSkipped -> BuildsFields r seen l ->
    BuildsFields ((m, h) :: r) seen l
| BF_field : forall m h r seen n k o t l,
    fm_anonymous m = false -> field_info m = Some (FField n k o) -> mem_str n seen = false ->
    Builds h t -> BuildsFields r (n :: seen) l ->
    BuildsFields ((m, h) :: r) seen ((n, if o then TOpt t else t) :: l).

Scheme BuildsInner_mut := Induction for BuildsInner Sort Prop
  with Builds_mut := Induction for Builds Sort Prop
  with BuildsFields_mut := Induction for BuildsFields Sort Prop.
Combined Scheme Builds_combined from BuildsInner_mut, Builds_mut, BuildsFields_mut.

Lemma classify_no_info : classify no_info = None.
Proof. reflexivity. Qed.

Lemma build_inner_unfold g :
  build_inner g =
  match classify (info_of g) with
  | Some t => Some t
  | None =>
      match g with
      | RStruct _ name fs =>
          match struct_fields_with build_inner fs [] with
          | None => None
          | Some l => if String.eqb name EmptyString then None else Some (TStruct l)
          end
      | RSlice _ h => option_map TList (build_with build_inner h)
      | RPtr _ | RLeaf _ => None
      end
  end.
Proof. destruct g; reflexivity. Qed.

(** soundness of the function against the relation *)
Lemma fields_sound fs :
  Forall (fun mh => forall t, build (snd mh) = Some t -> Builds (snd mh) t) fs ->
  forall seen l, struct_fields_with build_inner fs seen = Some l -> BuildsFields fs seen l.
Proof.
  induction 1 as [|[m h] r Hh _ IH]; intros seen l H; cbn [struct_fields_with] in H.
  - injection H as <-. constructor.
  - destruct (fm_anonymous m) eqn:Ha; [discriminate|].
    destruct (field_info m) as [[|n k o]|] eqn:Hf; [| |discriminate].
    + apply BF_skip; auto.
    + destruct (mem_str n seen) eqn:Hm; [discriminate|].
      fold (build h) in H.
      destruct (build h) as [t|] eqn:Hb; [|discriminate].
      destruct (struct_fields_with build_inner r (n :: seen)) as [l'|] eqn:Hr; [|discriminate].
      injection H as <-.
      eapply BF_field; eauto.
Qed.

Lemma build_sound g :
  (forall t, build_inner g = Some t -> BuildsInner g t) /\
  (forall t, build g = Some t -> Builds g t).
Proof.
  induction g using gty_ind'.
  - destruct IHg as [IHi _]. split.
    + intros t H. rewrite build_inner_unfold in H. cbn in H. discriminate.
    + intros t H. unfold build, build_with in H.
      destruct (build_inner g) as [t'|] eqn:Hb; [|discriminate]. injection H as <-.
      apply B_ptr. auto.
  - destruct IHg as [_ IHb].
    assert (Hi : forall t, build_inner (RSlice i g) = Some t -> BuildsInner (RSlice i g) t).
    { intros t H. rewrite build_inner_unfold in H. cbn [info_of] in H.
      destruct (classify i) as [t'|] eqn:Hc.
      - injection H as <-. apply BI_class. exact Hc.
      - fold (build g) in H. destruct (build g) as [t'|] eqn:Hb; [|discriminate].
        injection H as <-. apply BI_slice; auto. }
    split; [exact Hi|]. intros t H. apply B_nonptr; [discriminate|]. apply Hi. exact H.
  - assert (Hi : forall t, build_inner (RStruct i n fs) = Some t -> BuildsInner (RStruct i n fs) t).
    { intros t H0. rewrite build_inner_unfold in H0. cbn [info_of] in H0.
      destruct (classify i) as [t'|] eqn:Hc.
      - injection H0 as <-. apply BI_class. exact Hc.
      - destruct (struct_fields_with build_inner fs []) as [l|] eqn:Hs; [|discriminate].
        destruct (String.eqb n EmptyString) eqn:Hn; [discriminate|]. injection H0 as <-.
        apply BI_struct; auto.
        + intros ->. discriminate.
        + apply fields_sound; auto.
          eapply Forall_impl; [|exact H]. intros mh [_ Hb]. exact Hb. }
    split; [exact Hi|]. intros t H0. apply B_nonptr; [discriminate|]. apply Hi. exact H0.
  - assert (Hi : forall t, build_inner (RLeaf i) = Some t -> BuildsInner (RLeaf i) t).
    { intros t H. rewrite build_inner_unfold in H. cbn [info_of] in H.
      destruct (classify i) as [t'|] eqn:Hc; [|discriminate].
      injection H as <-. apply BI_class. exact Hc. }
    split; [exact Hi|]. intros t H. apply B_nonptr; [discriminate|]. apply Hi. exact H.
Qed.

(** completeness *)
Lemma build_complete :
  (forall g t, BuildsInner g t -> build_inner g = Some t) /\
  (forall g t, Builds g t -> build g = Some t) /\
  (forall fs seen l, BuildsFields fs seen l -> struct_fields_with build_inner fs seen = Some l).
Proof.
  apply Builds_combined.
  - intros g t Hc. rewrite build_inner_unfold, Hc. reflexivity.
  - intros i h t Hc _ IH. rewrite build_inner_unfold. cbn [info_of]. rewrite Hc.
    fold (build h). rewrite IH. reflexivity.
  - intros i name fs l Hc Hn _ IH. rewrite build_inner_unfold. cbn [info_of]. rewrite Hc, IH.
    destruct (String.eqb name EmptyString) eqn:E; [|reflexivity].
    apply String.eqb_eq in E. contradiction.
  - intros g t _ IH. unfold build, build_with. rewrite IH. reflexivity.
  - intros g t Hnp _ IH. unfold build, build_with. destruct g; auto. exfalso. eapply Hnp. reflexivity.
  - reflexivity.
  - intros m h r seen l Ha Hf _ IH. cbn [struct_fields_with]. rewrite Ha, Hf. exact IH.
  - intros m h r seen n k o t l Ha Hf Hm _ IHb _ IHr. cbn [struct_fields_with].
    rewrite Ha, Hf, Hm. fold (build h). rewrite IHb, IHr. reflexivity.
Qed.

Theorem build_iff g t : build g = Some t <-> Builds g t.
Proof. split; [apply build_sound | apply build_complete]. Qed.

Theorem build_top_iff g t :
  build_top g = Some t <->
  exists i name fs l, g = RStruct i name fs /\ t = TStruct l /\ BuildsFields fs [] l.
Proof.
  split.
  - destruct g as [g'|i g'|i name fs|i]; cbn [build_top]; try discriminate.
    unfold struct_fields. intros H.
    destruct (struct_fields_with build_inner fs []) as [l|] eqn:Hs; [|discriminate].
    injection H as <-. exists i, name, fs, l. repeat split.
    apply fields_sound; auto.
    apply Forall_forall. intros mh _. apply build_sound.
  - intros (i & name & fs & l & -> & -> & H). cbn [build_top]. unfold struct_fields.
    rewrite (proj2 (proj2 build_complete) _ _ _ H). reflexivity.
Qed.

(** * What the builder refuses (consequences of the characterisation, stated on the function) *)
Lemma pointer_to_pointer_refused g : build (RPtr (RPtr g)) = None.
Proof. reflexivity. Qed.

Lemma unsupported_kind_refused i : classify i = None -> build (RLeaf i) = None.
Proof. intros H. unfold build, build_with. rewrite build_inner_unfold. cbn [info_of]. rewrite H. reflexivity. Qed.

Lemma refused_element_refuses_slice i g : classify i = None -> build g = None -> build (RSlice i g) = None.
Proof.
  intros Hc H. unfold build, build_with. rewrite build_inner_unfold. cbn [info_of]. rewrite Hc.
  fold (build g). rewrite H. reflexivity.
Qed.

Lemma refused_pointee_refuses_pointer g : build_inner g = None -> build (RPtr g) = None.
Proof. intros H. unfold build, build_with. rewrite H. reflexivity. Qed.

Lemma unnamed_nested_struct_refused i fs : classify i = None -> build (RStruct i EmptyString fs) = None.
Proof.
  intros Hc. unfold build, build_with. rewrite build_inner_unfold. cbn [info_of]. rewrite Hc.
  destruct (struct_fields_with build_inner fs []); reflexivity.
Qed.

Lemma fields_refused_anonymous inner m h r seen :
  fm_anonymous m = true -> struct_fields_with inner ((m, h) :: r) seen = None.
Proof. intros H. cbn [struct_fields_with]. rewrite H. reflexivity. Qed.

Lemma fields_refused_tag inner m h r seen :
  field_info m = None -> struct_fields_with inner ((m, h) :: r) seen = None.
Proof. intros H. cbn [struct_fields_with]. rewrite H. destruct (fm_anonymous m); reflexivity. Qed.

(** a refusal anywhere in the field list refuses the struct *)
Lemma fields_refused_later inner fs1 fs2 seen :
  (forall seen', struct_fields_with inner fs2 seen' = None) ->
  struct_fields_with inner (fs1 ++ fs2) seen = None.
Proof.
  revert seen. induction fs1 as [|[m h] r IH]; intros seen H; cbn [app struct_fields_with]; [apply H|].
  destruct (fm_anonymous m); [reflexivity|].
  destruct (field_info m) as [[|n k o]|]; [apply IH; exact H| |reflexivity].
  destruct (mem_str n seen); [reflexivity|].
  destruct (build_with inner h); [|reflexivity]. rewrite IH; auto.
Qed.

Lemma fields_names inner fs : forall seen l,
  struct_fields_with inner fs seen = Some l ->
  NoDup (map fst l) /\ (forall n, In n (map fst l) -> mem_str n seen = false).
Proof.
  induction fs as [|[m h] r IH]; intros seen l H; cbn [struct_fields_with] in H.
  - injection H as <-. split; [constructor|intros n []].
  - destruct (fm_anonymous m); [discriminate|].
    destruct (field_info m) as [[|n k o]|]; [eapply IH; eauto| |discriminate].
    destruct (mem_str n seen) eqn:Hm; [discriminate|].
    destruct (build_with inner h) as [t|]; [|discriminate].
    destruct (struct_fields_with inner r (n :: seen)) as [l'|] eqn:Hr; [|discriminate].
    injection H as <-. destruct (IH _ _ Hr) as [Hnd Hns]. cbn [map fst]. split.
    + constructor; [|exact Hnd]. intros Hin. specialize (Hns _ Hin).
      unfold mem_str in Hns. cbn [existsb] in Hns. rewrite String.eqb_refl in Hns. discriminate.
    + intros x [<-|Hin]; [exact Hm|]. specialize (Hns _ Hin).
      unfold mem_str in *. cbn [existsb] in Hns. apply orb_false_iff in Hns. tauto.
Qed.

(** * Every type the builder returns is well formed *)
Definition info_ok (i : tinfo) : Prop :=
  match ti_enum i with Some (_, names) => NoDup (map fst names) | None => True end.

(** the name maps of the registered enums have unique names (they are Go maps) *)
Fixpoint enums_ok (g : gty) : Prop :=
  match g with
  | RPtr g' => enums_ok g'
  | RSlice i g' => info_ok i /\ enums_ok g'
  | RStruct i _ fs => info_ok i /\
      (fix go (fs : list (fmeta * gty)) : Prop :=
         match fs with [] => True | (_, h) :: r => enums_ok h /\ go r end) fs
  | RLeaf i => info_ok i
  end.

Lemma classify_wf i t : info_ok i -> classify i = Some t -> wf_ty t /\ base_ty t.
Proof.
  unfold classify, info_ok. destruct (ti_enum i) as [[z names]|].
  - intros Hn H. injection H as <-. cbn. auto.
  - intros _. destruct (ti_scalar i) as [s|].
    + intros H. injection H as <-. destruct s; cbn; auto.
    + destruct (ti_text i); [|discriminate]. intros H. injection H as <-. cbn. auto.
Qed.

Lemma enums_ok_info g : enums_ok g -> info_ok (info_of g).
Proof. destruct g; cbn; try tauto. Qed.

Lemma wf_struct_fields l :
  NoDup (map fst l) -> Forall (fun nt => wf_ty (snd nt)) l -> wf_ty (TStruct l).
Proof.
  intros Hnd Hf. cbn [wf_ty]. split; [exact Hnd|].
  induction Hf as [|[n t] r Ht _ IH]; [exact I|]. cbn in *. split; [exact Ht|]. apply IH.
  inversion Hnd; assumption.
Qed.

Lemma fields_wf fs :
  Forall (fun mh => enums_ok (snd mh) -> forall t, build (snd mh) = Some t -> wf_ty t) fs ->
  (fix go (fs : list (fmeta * gty)) : Prop :=
     match fs with [] => True | (_, h) :: r => enums_ok h /\ go r end) fs ->
  forall seen l, struct_fields_with build_inner fs seen = Some l -> Forall (fun nt => wf_ty (snd nt)) l.
Proof.
  induction 1 as [|[m h] r Hh _ IH]; intros He seen l H; cbn [struct_fields_with] in H.
  - injection H as <-. constructor.
  - destruct He as [Heh Her].
    destruct (fm_anonymous m); [discriminate|].
    destruct (field_info m) as [[|n k o]|]; [eapply IH; eauto| |discriminate].
    destruct (mem_str n seen); [discriminate|].
    fold (build h) in H. destruct (build h) as [t|] eqn:Hb; [|discriminate].
    destruct (struct_fields_with build_inner r (n :: seen)) as [l'|] eqn:Hr; [|discriminate].
    injection H as <-. constructor; [|eapply IH; eauto].
    cbn [snd] in *. specialize (Hh Heh t Hb). destruct o; cbn [wf_ty]; exact Hh.
Qed.

Lemma build_wf g :
  enums_ok g ->
  (forall t, build_inner g = Some t -> wf_ty t /\ base_ty t) /\
  (forall t, build g = Some t -> wf_ty t).
Proof.
  induction g using gty_ind'; intros He.
  - cbn [enums_ok] in He. destruct (IHg He) as [IHi _]. split.
    + intros t H. rewrite build_inner_unfold in H. cbn in H. discriminate.
    + intros t H. unfold build, build_with in H.
      destruct (build_inner g) as [t'|] eqn:Hb; [|discriminate]. injection H as <-.
      destruct (IHi _ eq_refl). cbn [wf_ty]. auto.
  - destruct He as [Hi He]. destruct (IHg He) as [_ IHb].
    assert (Hin : forall t, build_inner (RSlice i g) = Some t -> wf_ty t /\ base_ty t).
    { intros t H. rewrite build_inner_unfold in H. cbn [info_of] in H.
      destruct (classify i) as [t'|] eqn:Hc.
      - injection H as <-. eapply classify_wf; eauto.
      - fold (build g) in H. destruct (build g) as [t'|] eqn:Hb; [|discriminate].
        injection H as <-. cbn. split; auto. }
    split; [exact Hin|]. intros t H0. apply Hin. exact H0.
  - destruct He as [Hi He].
    assert (Hin : forall t, build_inner (RStruct i n fs) = Some t -> wf_ty t /\ base_ty t).
    { intros t H0. rewrite build_inner_unfold in H0. cbn [info_of] in H0.
      destruct (classify i) as [t'|] eqn:Hc.
      - injection H0 as <-. eapply classify_wf; eauto.
      - destruct (struct_fields_with build_inner fs []) as [l|] eqn:Hs; [|discriminate].
        destruct (String.eqb n EmptyString); [discriminate|]. injection H0 as <-.
        split; [|exact I]. apply wf_struct_fields.
        + eapply fields_names; eauto.
        + apply (fields_wf fs) with (seen := []); [|exact He|exact Hs].
          eapply Forall_impl; [|exact H]. intros mh IH He' t Hb. apply (proj2 (IH He')). exact Hb. }
    split; [exact Hin|]. intros t H0. apply Hin. exact H0.
  - assert (Hin : forall t, build_inner (RLeaf i) = Some t -> wf_ty t /\ base_ty t).
    { intros t H. rewrite build_inner_unfold in H. cbn [info_of] in H.
      destruct (classify i) as [t'|] eqn:Hc; [|discriminate].
      injection H as <-. eapply classify_wf; eauto. }
    split; [exact Hin|]. intros t H. apply Hin. exact H.
Qed.

Theorem built_types_wf g t : enums_ok g -> build g = Some t -> wf_ty t.
Proof. intros He. apply (proj2 (build_wf g He)). Qed.

Theorem built_top_wf g t : enums_ok g -> build_top g = Some t -> wf_ty t.
Proof.
  destruct g as [g'|i g'|i name fs|i]; cbn [build_top]; try discriminate.
  intros [_ He]. unfold struct_fields.
  destruct (struct_fields_with build_inner fs []) as [l|] eqn:Hs; [|discriminate].
  intros H. injection H as <-. apply wf_struct_fields.
  - eapply fields_names; eauto.
  - apply (fields_wf fs) with (seen := []); [|exact He|exact Hs].
    apply Forall_forall. intros mh _ He' t Hb.
    eapply built_types_wf; eauto.
Qed.

(** * nilParseArguments *)
Lemma parse_noargs_iff j : parse_noargs j = Ok tt <-> j = VNull \/ j = VObj [].
Proof.
  split.
  - destruct j as [| | | | |[|]]; cbn; try discriminate; auto.
  - intros [->| ->]; reflexivity.
Qed.

