(** C18 - rejections (kind mismatch, missing required), optional members, variable defaults. *)
From Coq Require Import List ZArith String Ascii Bool Lia ZifyBool ZifyNat.
From Thunder Require Import Lib.Json Args.Model Args.Spec Args.Proofs.
Import ListNotations.
Open Scope string_scope.
Local Open Scope Z_scope.

(** * Errors of the inner loops *)
Lemma mapr_err {A B} (f : A -> result B) l e : mapr f l = Err e -> exists x, In x l /\ f x = Err e.
Proof.
  induction l as [|x r IH]; cbn [mapr]; [discriminate|].
  destruct (f x) as [v|e'] eqn:E.
  - destruct (mapr f r) as [vs|e'']; [discriminate|]. intros H; inversion H; subst.
    destruct (IH eq_refl) as (y & Hy & Hf). exists y. split; [right; exact Hy | exact Hf].
  - intros H; inversion H; subst. exists x. split; [left; reflexivity | exact E].
Qed.

Lemma mapr_some_err {A B} (f : A -> result B) l x e0 :
  In x l -> f x = Err e0 -> exists e, mapr f l = Err e.
Proof.
  induction l as [|y r IH]; intros Hin Hf; [contradiction|].
  cbn [mapr]. destruct (f y) as [v|e'] eqn:E; [|eexists; reflexivity].
  destruct Hin as [-> | Hin]; [congruence|].
  destruct (IH Hin Hf) as (e & ->). eexists; reflexivity.
Qed.

Section Rejections.
  Variable b64 : string -> option (list Z).
  Variable tdec : string -> option tval.
  Variable xdec : string -> option string.
  Notation parse := (parse b64 tdec xdec).
  Notation parse_fields := (parse_fields b64 tdec xdec).

  Lemma parse_fields_err o fs e :
    parse_fields o fs = Err e -> exists n t', In (n, t') fs /\ parse t' (field_val n o) = Err e.
  Proof.
    induction fs as [|[n t'] r IH]; cbn [Proofs.parse_fields]; [discriminate|].
    destruct (parse t' (field_val n o)) as [v|e'] eqn:E.
    - destruct (parse_fields o r) as [vs|e'']; [discriminate|]. intros H; inversion H; subst.
      destruct (IH eq_refl) as (m & t2 & Hin & Hp). exists m, t2. split; [right; exact Hin | exact Hp].
    - intros H; inversion H; subst. exists n, t'. split; [left; reflexivity | exact E].
  Qed.

  Lemma parse_fields_some_err o fs n t' e0 :
    In (n, t') fs -> parse t' (field_val n o) = Err e0 -> exists e, parse_fields o fs = Err e.
  Proof.
    induction fs as [|[m t2] r IH]; intros Hin Hf; [contradiction|].
    cbn [Proofs.parse_fields]. destruct (parse t2 (field_val m o)) as [v|e'] eqn:E; [|eexists; reflexivity].
    destruct Hin as [Heq | Hin]; [inversion Heq; subst; congruence|].
    destruct (IH Hin Hf) as (e & ->). eexists; reflexivity.
  Qed.

  (** The argument parsers only ever fail with the PrepareQuery error class. *)
  Lemma parse_err_args : forall t j e, parse t j = Err e -> e = EArgs.
  Proof.
    induction t using ty_ind'; intros j e HE;
      try (cbn [Model.parse] in HE;
           repeat match type of HE with context [match ?x with _ => _ end] => destruct x end;
           inversion HE; reflexivity).
    - destruct j; cbn [Model.parse] in HE; try discriminate;
        (destruct (parse t _) eqn:E; [discriminate | inversion HE; subst; eapply IHt; exact E]).
    - destruct j; cbn [Model.parse] in HE; try discriminate; eapply IHt; exact HE.
    - destruct j; try (inversion HE; reflexivity).
      rewrite parse_list_eq in HE. destruct (mapr (parse t) l) as [vs|e'] eqn:E; [discriminate|].
      inversion HE; subst. destruct (mapr_err _ _ _ E) as (x & _ & Hx). eapply IHt; exact Hx.
    - destruct j; try (inversion HE; reflexivity).
      rewrite parse_struct_eq in HE. destruct (parse_fields l fs) as [vs|e'] eqn:E; [discriminate|].
      inversion HE; subst. destruct (parse_fields_err _ _ _ E) as (n & t' & Hin & Hp).
      rewrite Forall_forall in H. apply (H (n, t') Hin _ _ Hp).
  Qed.

  (** A kind mismatch at any position makes the whole argument list fail. *)
  Theorem mismatch_rejected : forall t j, mismatch t j = true -> parse t j = Err EArgs.
  Proof.
    induction t using ty_ind'; intros j HM;
      try (destruct j; cbn [mismatch] in HM; try discriminate; reflexivity).
    - destruct j; cbn [mismatch] in HM; try discriminate; cbn [Model.parse]; rewrite (IHt _ HM); reflexivity.
    - destruct j; cbn [mismatch] in HM; try discriminate; cbn [Model.parse]; apply IHt; exact HM.
    - destruct j; try reflexivity. cbn [mismatch] in HM.
      apply existsb_exists in HM as (x & Hin & Hx). apply IHt in Hx.
      rewrite parse_list_eq. destruct (mapr_some_err _ _ _ _ Hin Hx) as (e & He). rewrite He.
      destruct (mapr_err _ _ _ He) as (y & _ & Hy). apply parse_err_args in Hy. subst. reflexivity.
    - destruct j; try reflexivity. cbn [mismatch] in HM.
      assert (Ex : exists n t', In (n, t') fs /\ mismatch t' (field_val n l) = true).
      { clear H. induction fs as [|[n t'] r IH]; [discriminate|].
        apply orb_prop in HM as [HM | HM].
        - exists n, t'. split; [left; reflexivity | exact HM].
        - destruct (IH HM) as (m & t2 & Hin & Hm). exists m, t2. split; [right; exact Hin | exact Hm]. }
      destruct Ex as (n & t' & Hin & Hm).
      rewrite Forall_forall in H. pose proof (H (n, t') Hin _ Hm) as Hp. cbn [snd] in Hp.
      rewrite parse_struct_eq. destruct (parse_fields_some_err _ _ _ _ _ Hin Hp) as (e & He). rewrite He.
      destruct (parse_fields_err _ _ _ He) as (m & t2 & _ & Hy). apply parse_err_args in Hy. subst. reflexivity.
  Qed.

  Lemma required_null_mismatch t : required t = true -> mismatch t VNull = true.
  Proof. destruct t; cbn; intros H; try discriminate; reflexivity. Qed.

  Lemma mismatch_struct_in fs o n t' :
    In (n, t') fs -> mismatch t' (field_val n o) = true -> mismatch (TStruct fs) (VObj o) = true.
  Proof.
    intros Hin Hm. cbn [mismatch]. induction fs as [|[m t2] r IH]; [contradiction|].
    destruct Hin as [Heq | Hin].
    - inversion Heq; subst. rewrite Hm. reflexivity.
    - rewrite (IH Hin). apply orb_true_r.
  Qed.

  (** Missing (or null) required argument, at top level or in a nested input object. *)
  Theorem missing_required_rejected fs o n t' :
    In (n, t') fs -> required t' = true ->
    (lookup n o = None \/ lookup n o = Some VNull) ->
    parse (TStruct fs) (VObj o) = Err EArgs.
  Proof.
    intros Hin Hr Hl. apply mismatch_rejected. eapply mismatch_struct_in; [exact Hin|].
    assert (E : field_val n o = VNull) by (unfold field_val; destruct Hl as [-> | ->]; reflexivity).
    rewrite E. apply required_null_mismatch. exact Hr.
  Qed.

  Theorem null_in_list_rejected t' l :
    required t' = true -> In VNull l -> parse (TList t') (VArr l) = Err EArgs.
  Proof.
    intros Hr Hin. apply mismatch_rejected. cbn [mismatch]. apply existsb_exists.
    exists VNull. split; [exact Hin | apply required_null_mismatch; exact Hr].
  Qed.

  (** Each member of a parsed struct is the parse of the corresponding JSON member (null when absent). *)
  Lemma parse_fields_member o fs vs n t' :
    NoDup (map fst fs) -> parse_fields o fs = Ok vs -> In (n, t') fs ->
    exists v', lookup n vs = Some v' /\ parse t' (field_val n o) = Ok v'.
  Proof.
    revert vs. induction fs as [|[m t2] r IH]; intros vs Hnd HP Hin; [contradiction|].
    cbn [Proofs.parse_fields] in HP.
    destruct (parse t2 (field_val m o)) as [v|e] eqn:E; [|discriminate].
    destruct (parse_fields o r) as [vs'|e] eqn:E2; [|discriminate].
    inversion HP; subst. cbn [map fst] in Hnd. inversion Hnd as [|? ? Hm Hr]; subst.
    destruct Hin as [Heq | Hin].
    - inversion Heq; subst. exists v. cbn [lookup]. rewrite String.eqb_refl. auto.
    - destruct (IH vs' Hr eq_refl Hin) as (v' & Hl & Hp). exists v'. split; [|exact Hp].
      cbn [lookup]. destruct (String.eqb n m) eqn:En; [|exact Hl].
      apply String.eqb_eq in En; subst. exfalso. apply Hm.
      change m with (fst (m, t')). apply in_map. exact Hin.
  Qed.

  (** Optional arguments left out (or null) arrive as nil / the zero value. *)
  Theorem missing_optional_nil_or_zero fs o v n t' :
    NoDup (map fst fs) -> parse (TStruct fs) (VObj o) = Ok v -> In (n, t') fs ->
    (lookup n o = None \/ lookup n o = Some VNull) ->
    exists vs, v = GStruct vs /\
      (forall t2, t' = TPtr t2 -> lookup n vs = Some GNil) /\
      (forall t2, t' = TOpt t2 -> lookup n vs = Some (zero t2)).
  Proof.
    intros Hnd HP Hin Hl. rewrite parse_struct_eq in HP.
    destruct (parse_fields o fs) as [vs|e] eqn:E; [|discriminate]. inversion HP; subst.
    exists vs. split; [reflexivity|].
    destruct (parse_fields_member _ _ _ _ _ Hnd E Hin) as (v' & Hv & Hp).
    assert (En : field_val n o = VNull) by (unfold field_val; destruct Hl as [-> | ->]; reflexivity).
    rewrite En in Hp. split; intros t2 ->; cbn [Model.parse] in Hp; inversion Hp; subst; exact Hv.
  Qed.
End Rejections.

(** * Variable defaults *)
Lemma apply_defaults_gen orig : forall defs acc vars',
  NoDup (map vd_name defs) -> apply_defaults defs orig acc = Ok vars' ->
  (forall x, (forall d, In d defs -> vd_name d = x ->
                        vd_default d = None \/ non_null (lookup x orig) = true) ->
             lookup x vars' = lookup x acc) /\
  (forall d l, In d defs -> vd_default d = Some l ->
               vd_nonnull d = false /\
               (non_null (lookup (vd_name d) orig) = false ->
                exists v, vtj [] l = Ok v /\ lookup (vd_name d) vars' = Some v)).
Proof.
  induction defs as [|d0 r IH]; intros acc vars' Hnd HA.
  - cbn in HA. inversion HA; subst. split; [reflexivity | intros ? ? []].
  - cbn [map] in Hnd. inversion Hnd as [|? ? Hn0 Hr]; subst.
    cbn [apply_defaults] in HA.
    destruct (vd_nonnull d0) eqn:Enn.
    + destruct (vd_default d0) as [l0|] eqn:Ed; [discriminate|].
      destruct (IH _ _ Hr HA) as [I1 I2]. split.
      * intros x Hx. apply I1. intros d Hd. apply Hx. right; exact Hd.
      * intros d l [-> | Hd] Hl; [congruence | apply I2; assumption].
    + destruct (vd_default d0) as [l0|] eqn:Ed.
      * destruct (non_null (lookup (vd_name d0) orig)) eqn:Eo.
        -- destruct (IH _ _ Hr HA) as [I1 I2]. split.
           ++ intros x Hx. apply I1. intros d Hd. apply Hx. right; exact Hd.
           ++ intros d l [-> | Hd] Hl; [split; [exact Enn | congruence] | apply I2; assumption].
        -- destruct (vtj [] l0) as [v0|e0] eqn:Ev; [|discriminate].
           destruct (IH _ _ Hr HA) as [I1 I2]. split.
           ++ intros x Hx. rewrite I1 by (intros d Hd; apply Hx; right; exact Hd).
              cbn [lookup]. destruct (String.eqb x (vd_name d0)) eqn:Ex; [|reflexivity].
              apply String.eqb_eq in Ex. subst x.
              destruct (Hx d0 (or_introl eq_refl) eq_refl); congruence.
           ++ intros d l [-> | Hd] Hl.
              ** split; [exact Enn|]. intros _. exists v0. split; [congruence|].
                 rewrite I1.
                 --- cbn [lookup]. rewrite String.eqb_refl. reflexivity.
                 --- intros d' Hd' Hname. exfalso. apply Hn0. rewrite <- Hname. apply in_map. exact Hd'.
              ** apply I2; assumption.
      * destruct (IH _ _ Hr HA) as [I1 I2]. split.
        -- intros x Hx. apply I1. intros d Hd. apply Hx. right; exact Hd.
        -- intros d l [-> | Hd] Hl; [congruence | apply I2; assumption].
Qed.

(** A variable's default is used exactly when no non-null value is supplied for it;
    variables without a default keep what the client sent. *)
Theorem default_rule defs vars vars' :
  NoDup (map vd_name defs) -> apply_defaults defs vars vars = Ok vars' ->
  (forall d l, In d defs -> vd_default d = Some l ->
     vd_nonnull d = false /\
     (non_null (lookup (vd_name d) vars) = true -> lookup (vd_name d) vars' = lookup (vd_name d) vars) /\
     (non_null (lookup (vd_name d) vars) = false ->
        exists v, vtj [] l = Ok v /\ lookup (vd_name d) vars' = Some v)) /\
  (forall x, (forall d, In d defs -> vd_name d = x -> vd_default d = None) -> lookup x vars' = lookup x vars).
Proof.
  intros Hnd HA. destruct (apply_defaults_gen vars defs vars vars' Hnd HA) as [I1 I2]. split.
  - intros d l Hd Hl. destruct (I2 d l Hd Hl) as [Hnn Hdef]. split; [exact Hnn|]. split; [|exact Hdef].
    intros Hsup. apply I1. intros d' Hd' Hname. right. exact Hsup.
  - intros x Hx. apply I1. intros d Hd Hname. left. apply Hx; assumption.
Qed.

Lemma apply_defaults_err defs orig acc e : apply_defaults defs orig acc = Err e -> e = EParse.
Proof.
  revert acc. induction defs as [|d r IH]; intros acc; cbn [apply_defaults]; [discriminate|].
  destruct (vd_nonnull d); destruct (vd_default d); try apply IH; try (intros H; inversion H; reflexivity).
  destruct (non_null _); [apply IH|]. destruct (vtj [] l); [apply IH | intros H; inversion H; reflexivity].
Qed.

(** The rule as coded: a default on a required (non-null) variable is refused. *)
Theorem default_on_required_rejected defs orig acc d l :
  In d defs -> vd_nonnull d = true -> vd_default d = Some l ->
  apply_defaults defs orig acc = Err EParse.
Proof.
  intros Hd Hn Hl.
  assert (E : exists e, apply_defaults defs orig acc = Err e).
  { revert acc. induction defs as [|d0 r IH]; intros acc; [contradiction|].
    cbn [apply_defaults]. destruct Hd as [-> | Hd].
    - rewrite Hn, Hl. eexists; reflexivity.
    - destruct (vd_nonnull d0); destruct (vd_default d0); try (apply IH; exact Hd); try (eexists; reflexivity).
      destruct (non_null _); [apply IH; exact Hd|]. destruct (vtj [] l0); [apply IH; exact Hd | eexists; reflexivity]. }
  destruct E as (e & He). rewrite He. f_equal. eapply apply_defaults_err; exact He.
Qed.

(** * End to end: one field whose arguments are written as literals *)
Section EndToEnd.
  Variable b64 : string -> option (list Z).
  Variable tdec : string -> option tval.
  Variable xdec : string -> option string.
  Variable b64e : list Z -> string.
  Variable tenc : tval -> string.
  Variable xenc : string -> string.
  Variable time_ok : tval -> Prop.
  Variable text_ok : string -> Prop.
  Hypothesis b64_rt : forall b, bytes_ok b -> b64 (b64e b) = Some b.
  Hypothesis time_rt : forall x, time_ok x -> tdec (tenc x) = Some x.
  Hypothesis text_rt : forall s, text_ok s -> xdec (xenc s) = Some s.

  Theorem run_args_literal nullvar fs vs args defs vars vars' :
    wf_ty (TStruct fs) -> sendable time_ok text_ok (TStruct fs) (GStruct vs) ->
    lit_of b64e tenc xenc nullvar (TStruct fs) (GStruct vs) = LObj args ->
    apply_defaults defs vars vars = Ok vars' ->
    (lookup nullvar vars' = None \/ lookup nullvar vars' = Some VNull) ->
    run_args b64 tdec xdec (TStruct fs) defs vars args = Ok (GStruct vs).
  Proof.
    intros W S Hl HA Hn. unfold run_args, args_to_json. rewrite HA, <- Hl.
    destruct (literal_roundtrip b64 tdec xdec b64e tenc xenc time_ok text_ok b64_rt time_rt text_rt
                nullvar vars' Hn _ _ W S) as (j & Hj & Hp).
    rewrite Hj. exact Hp.
  Qed.

  (** ... and through one variable per argument, bound to the JSON of the member. *)
  Theorem run_args_rendering t defs vars vars' args j v :
    apply_defaults defs vars vars = Ok vars' ->
    args_to_json vars' args = Ok j -> renders b64 tdec xdec t v j ->
    run_args b64 tdec xdec t defs vars args = Ok v.
  Proof.
    intros HA Hj Hr. unfold run_args. rewrite HA, Hj. apply renders_parse. exact Hr.
  Qed.
End EndToEnd.
