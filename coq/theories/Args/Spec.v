(** C18 - definitions used in the statements of Props/C18.v (no proofs here).

    [renders t v j]   : the JSON value [j] is a rendering of the Go value [v] at type [t]
                        (members in any order, null members present or left out, unknown members allowed,
                        any dyadic representation of a number);
    [sendable t v]    : [v] is a value of [t] inside the range the property speaks about;
    [json_of], [lit_of] : the canonical JSON (variable transport) and literal (query text) of a value;
    [mismatch]        : some position of [j] holds a JSON kind the type at that position does not accept
                        (includes null / missing for a required position);
    [wf_ty]           : the argument types schemabuilder builds. *)
From Coq Require Import List ZArith String Ascii Bool.
From Thunder Require Import Lib.Json Args.Model.
Import ListNotations.
Open Scope string_scope.
Local Open Scope Z_scope.

(** * Well-formed argument types *)
Definition base_ty (t : ty) : Prop :=
  match t with TPtr _ | TOpt _ => False | _ => True end.

Fixpoint wf_ty (t : ty) : Prop :=
  match t with
  | TEnum _ names => NoDup (map fst names)
  | TPtr t' => base_ty t' /\ wf_ty t'        (* makeArgParser: no pointer to pointer *)
  | TOpt t' => wf_ty t'
  | TList t' => wf_ty t'
  | TStruct fs => NoDup (map fst fs) /\
                  (fix go (fs : list (string * ty)) : Prop :=
                     match fs with [] => True | (_, t') :: r => wf_ty t' /\ go r end) fs
  | _ => True
  end.

(** Integers the conversion expressions of scalarArgParsers carry unchanged: inside the range of the
    kind, and - because the uint64 entry converts through int64 (input.go:445) - below 2^63. *)
Definition conv_ok (k : ikind) (z : Z) : Prop :=
  int_lo k <= z <= int_hi k /\ (k = U64 -> z < 2 ^ 63).

(** * Renderings *)
Section Renders.
  Variable b64_dec : string -> option (list Z).
  Variable time_dec : string -> option tval.
  Variable text_dec : string -> option string.

  Fixpoint renders (t : ty) (v : gv) (j : jv) {struct t} : Prop :=
    match t with
    | TBool => exists b, v = GBool b /\ j = VBool b
    | TInt k => exists z m e, v = GInt z /\ j = VNum m e /\ trunc m e = z /\ conv_ok k z
    | TF64 => exists m e m' e', v = GFlt m e /\ j = VNum m' e' /\ normalize m' e' = (m, e)
    | TF32 => exists m e m' e', v = GFlt m e /\ j = VNum m' e' /\ Z.abs m' < 2 ^ 24 /\ normalize m' e' = (m, e)
    | TString => exists s, v = GStr s /\ j = VStr s
    | TBytes => exists b s, v = GBytes b /\ j = VStr s /\ b64_dec s = Some b
    | TTime => exists x s, v = GTime x /\ j = VStr s /\ time_dec s = Some x
    | TEnum _ names => exists n, j = VStr n /\ lookup n names = Some v
    | TText => exists x s, v = GText x /\ j = VStr s /\ text_dec s = Some x
    | TPtr t' => (j = VNull /\ v = GNil) \/ (j <> VNull /\ exists v', v = GPtr v' /\ renders t' v' j)
    | TOpt t' => (j = VNull /\ v = zero t') \/ (j <> VNull /\ renders t' v j)
    | TList t' => exists vs js, v = GList vs /\ j = VArr js /\ Forall2 (renders t') vs js
    | TStruct fs =>
        exists vs o, v = GStruct vs /\ j = VObj o /\
          (fix go (fs : list (string * ty)) (vs : list (string * gv)) : Prop :=
             match fs, vs with
             | [], [] => True
             | (n, t') :: fs', (n', v') :: vs' => n = n' /\ renders t' v' (field_val n o) /\ go fs' vs'
             | _, _ => False
             end) fs vs
    end.
End Renders.

(** * Values in range, their JSON and their literal *)
Definition enum_eqb (a b : gv) : bool :=
  match a, b with
  | GInt x, GInt y => x =? y
  | GStr x, GStr y => String.eqb x y
  | _, _ => false
  end.

Fixpoint rev_lookup (v : gv) (names : list (string * gv)) : option string :=
  match names with
  | [] => None
  | (n, v') :: r => if enum_eqb v' v then Some n else rev_lookup v r
  end.

Definition bytes_ok (b : list Z) : Prop := Forall (fun x => 0 <= x < 256) b.

Section Values.
  Variable time_ok : tval -> Prop.      (* times the client's formatter can print *)
  Variable text_ok : string -> Prop.    (* states the TextUnmarshaler's type can be marshalled from *)

  Fixpoint sendable (t : ty) (v : gv) {struct t} : Prop :=
    match t with
    | TBool => exists b, v = GBool b
    | TInt k => exists z, v = GInt z /\ int_lo k <= z <= int_hi k /\ - 2 ^ 53 <= z <= 2 ^ 53
    | TF64 => exists m e, v = GFlt m e /\ normalize m e = (m, e)
    | TF32 => exists m e, v = GFlt m e /\ normalize m e = (m, e) /\ Z.abs m < 2 ^ 24
    | TString => exists s, v = GStr s
    | TBytes => exists b, v = GBytes b /\ bytes_ok b
    | TTime => exists x, v = GTime x /\ time_ok x
    | TEnum _ names => exists n, rev_lookup v names = Some n
    | TText => exists x, v = GText x /\ text_ok x
    | TPtr t' => v = GNil \/ exists v', v = GPtr v' /\ sendable t' v'
    | TOpt t' => sendable t' v
    | TList t' => exists vs, v = GList vs /\ Forall (sendable t') vs
    | TStruct fs =>
        exists vs, v = GStruct vs /\
          (fix go (fs : list (string * ty)) (vs : list (string * gv)) : Prop :=
             match fs, vs with
             | [], [] => True
             | (n, t') :: fs', (n', v') :: vs' => n = n' /\ sendable t' v' /\ go fs' vs'
             | _, _ => False
             end) fs vs
    end.
End Values.

Section Encode.
  Variable b64_enc : list Z -> string.
  Variable time_enc : tval -> string.
  Variable text_enc : string -> string.

  (** The JSON a client puts into the variables object (null members written out). *)
  Fixpoint json_of (t : ty) (v : gv) {struct t} : jv :=
    match t with
    | TBool => match v with GBool b => VBool b | _ => VNull end
    | TInt _ => match v with GInt z => VNum z 0 | _ => VNull end
    | TF32 | TF64 => match v with GFlt m e => VNum m e | _ => VNull end
    | TString => match v with GStr s => VStr s | _ => VNull end
    | TBytes => match v with GBytes b => VStr (b64_enc b) | _ => VNull end
    | TTime => match v with GTime x => VStr (time_enc x) | _ => VNull end
    | TEnum _ names => match rev_lookup v names with Some n => VStr n | None => VNull end
    | TText => match v with GText x => VStr (text_enc x) | _ => VNull end
    | TPtr t' => match v with GPtr v' => json_of t' v' | _ => VNull end
    | TOpt t' => json_of t' v
    | TList t' => match v with GList vs => VArr (map (json_of t') vs) | _ => VNull end
    | TStruct fs =>
        match v with
        | GStruct vs =>
            VObj ((fix go (fs : list (string * ty)) (vs : list (string * gv)) : list (string * jv) :=
                     match fs, vs with
                     | (n, t') :: fs', (_, v') :: vs' => (n, json_of t' v') :: go fs' vs'
                     | _, _ => []
                     end) fs vs)
        | _ => VNull
        end
    end.

  (** The literal in the query text.  This graphql-go version has no null literal: a nil pointer is
      written as the variable [nullvar], which the request leaves unbound (or binds to null). *)
  Variable nullvar : string.

  Fixpoint lit_of (t : ty) (v : gv) {struct t} : lit :=
    match t with
    | TBool => match v with GBool b => LBool b | _ => LVar nullvar end
    | TInt _ => match v with GInt z => LInt z | _ => LVar nullvar end
    | TF32 | TF64 => match v with GFlt m e => LFloat m e | _ => LVar nullvar end
    | TString => match v with GStr s => LStr s | _ => LVar nullvar end
    | TBytes => match v with GBytes b => LStr (b64_enc b) | _ => LVar nullvar end
    | TTime => match v with GTime x => LStr (time_enc x) | _ => LVar nullvar end
    | TEnum _ names => match rev_lookup v names with Some n => LEnum n | None => LVar nullvar end
    | TText => match v with GText x => LStr (text_enc x) | _ => LVar nullvar end
    | TPtr t' => match v with GPtr v' => lit_of t' v' | _ => LVar nullvar end
    | TOpt t' => lit_of t' v
    | TList t' => match v with GList vs => LList (map (lit_of t') vs) | _ => LVar nullvar end
    | TStruct fs =>
        match v with
        | GStruct vs =>
            LObj ((fix go (fs : list (string * ty)) (vs : list (string * gv)) : list (string * lit) :=
                     match fs, vs with
                     | (n, t') :: fs', (_, v') :: vs' => (n, lit_of t' v') :: go fs' vs'
                     | _, _ => []
                     end) fs vs)
        | _ => LVar nullvar
        end
    end.
End Encode.

(** * Kind mismatches (anywhere inside the value) *)
Definition is_null (j : jv) : bool := match j with VNull => true | _ => false end.

Fixpoint mismatch (t : ty) (j : jv) {struct t} : bool :=
  match t with
  | TBool => match j with VBool _ => false | _ => true end
  | TInt _ | TF32 | TF64 => match j with VNum _ _ => false | _ => true end
  | TString | TBytes | TTime | TEnum _ _ | TText => match j with VStr _ => false | _ => true end
  | TPtr t' | TOpt t' => match j with VNull => false | _ => mismatch t' j end
  | TList t' => match j with VArr l => existsb (mismatch t') l | _ => true end
  | TStruct fs =>
      match j with
      | VObj o => (fix go (fs : list (string * ty)) : bool :=
                     match fs with
                     | [] => false
                     | (n, t') :: r => mismatch t' (field_val n o) || go r
                     end) fs
      | _ => true
      end
  end.

(** A required position: the type refuses null / a missing member. *)
Definition required (t : ty) : bool := match t with TPtr _ | TOpt _ => false | _ => true end.

(** * Exactly which inputs the argument parsers refuse: a kind mismatch at some position, a string a
      decoder refuses, or a name the enum does not have.  (Numbers are never refused.) *)
Section Rejects.
  Variable b64_dec : string -> option (list Z).
  Variable time_dec : string -> option tval.
  Variable text_dec : string -> option string.

  Definition is_none {A} (o : option A) : bool := match o with None => true | Some _ => false end.

  Fixpoint rejects (t : ty) (j : jv) {struct t} : bool :=
    match t with
    | TBool => match j with VBool _ => false | _ => true end
    | TInt _ | TF32 | TF64 => match j with VNum _ _ => false | _ => true end
    | TString => match j with VStr _ => false | _ => true end
    | TBytes => match j with VStr s => is_none (b64_dec s) | _ => true end
    | TTime => match j with VStr s => is_none (time_dec s) | _ => true end
    | TEnum _ names => match j with VStr s => is_none (lookup s names) | _ => true end
    | TText => match j with VStr s => is_none (text_dec s) | _ => true end
    | TPtr t' | TOpt t' => match j with VNull => false | _ => rejects t' j end
    | TList t' => match j with VArr l => existsb (rejects t') l | _ => true end
    | TStruct fs =>
        match j with
        | VObj o => (fix go (fs : list (string * ty)) : bool :=
                       match fs with
                       | [] => false
                       | (n, t') :: r => rejects t' (field_val n o) || go r
                       end) fs
        | _ => true
        end
    end.
End Rejects.

(** * Field occurrences of a document before conversion (same walk as [cfields]) *)
Fixpoint sfields (fuel : nat) (frags : list (string * list sel)) (s : sel) {struct fuel}
  : list (string * list (string * lit)) :=
  match fuel with
  | O => []
  | S k =>
      match s with
      | SField f args => [(f, args)]
      | SSpread n => match lookup n frags with Some b => flat_map (sfields k frags) b | None => [] end
      | SInline b => flat_map (sfields k frags) b
      end
  end.

(** Occurrence by occurrence: the same field, its arguments converted under the variable map [vars']. *)
Definition occ_rel (vars' : list (string * jv)) (sf : string * list (string * lit)) (cf : string * jv) : Prop :=
  fst sf = fst cf /\ args_to_json vars' (snd sf) = Ok (snd cf).

(** What one occurrence of the field yields on its own: its arguments converted under [vars'], then parsed. *)
Definition own_outcome (b64_dec : string -> option (list Z)) (time_dec : string -> option tval)
           (text_dec : string -> option string) (t : ty) (vars' : list (string * jv))
           (sf : string * list (string * lit)) (r : result gv) : Prop :=
  exists j, args_to_json vars' (snd sf) = Ok j /\ parse b64_dec time_dec text_dec t j = r.
