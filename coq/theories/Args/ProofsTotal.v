(** C18 - total characterisation of what the argument parsers refuse. *)
From Coq Require Import List ZArith String Ascii Bool Lia.
From Thunder Require Import Lib.Json Args.Model Args.Spec Args.Proofs Args.ProofsReject.
Import ListNotations.
Open Scope string_scope.

Lemma mapr_ok {A B} (f : A -> result B) l vs : mapr f l = Ok vs -> forall x, In x l -> exists v, f x = Ok v.
Proof.
  revert vs. induction l as [|y r IH]; intros vs H x Hin; [contradiction|].
  cbn [mapr] in H. destruct (f y) as [v|e] eqn:E; [|discriminate].
  destruct (mapr f r) as [vs'|e] eqn:E2; [|discriminate].
  destruct Hin as [-> | Hin]; [exists v; exact E | eapply IH; eauto].
Qed.

Section Total.
  Variable b64 : string -> option (list Z).
  Variable tdec : string -> option tval.
  Variable xdec : string -> option string.
  Notation parse := (parse b64 tdec xdec).
  Notation parse_fields := (parse_fields b64 tdec xdec).
  Notation rejects := (rejects b64 tdec xdec).

  Lemma parse_fields_ok o fs vs :
    parse_fields o fs = Ok vs -> forall n t', In (n, t') fs -> exists v, parse t' (field_val n o) = Ok v.
  Proof.
    revert vs. induction fs as [|[m t2] r IH]; intros vs H n t' Hin; [contradiction|].
    cbn [Proofs.parse_fields] in H. destruct (parse t2 (field_val m o)) as [v|e] eqn:E; [|discriminate].
    destruct (parse_fields o r) as [vs'|e] eqn:E2; [|discriminate].
    destruct Hin as [Heq | Hin]; [inversion Heq; subst; exists v; exact E | eapply IH; eauto].
  Qed.

  Definition outcome_ok (t : ty) (j : jv) : Prop :=
    match parse t j with
    | Ok _ => rejects t j = false
    | Err e => e = EArgs /\ rejects t j = true
    end.

  Lemma parse_outcome : forall t j, outcome_ok t j.
  Proof.
    unfold outcome_ok.
    induction t using ty_ind'; intros j;
      try (destruct j; cbn [Model.parse Spec.rejects]; auto;
           match goal with |- context [match ?d with Some _ => _ | None => _ end] => destruct d end;
           cbn [is_none]; auto; fail).
    - destruct j; cbn [Model.parse Spec.rejects]; auto. destruct (normalize (fst (round_sig 24 m e)) (snd (round_sig 24 m e))) eqn:E.
      destruct (round_sig 24 m e). cbn [fst snd] in E. rewrite E. reflexivity.
    - destruct j; cbn [Model.parse Spec.rejects]; auto. destruct (normalize m e). reflexivity.
    - destruct j; cbn [Model.parse Spec.rejects]; auto;
        match goal with |- context [parse t ?x] => specialize (IHt x); destruct (parse t x); auto end.
    - destruct j; cbn [Model.parse Spec.rejects]; auto; apply IHt.
    - destruct j; try (cbn [Model.parse Spec.rejects]; auto; fail).
      rewrite parse_list_eq. cbn [Spec.rejects].
      destruct (mapr (parse t) l) as [vs|e] eqn:E.
      + destruct (existsb (rejects t) l) eqn:Ex; [|reflexivity].
        apply existsb_exists in Ex as (x & Hin & Hx).
        destruct (mapr_ok _ _ _ E x Hin) as (v & Hv). specialize (IHt x). rewrite Hv in IHt. congruence.
      + destruct (mapr_err _ _ _ E) as (x & Hin & Hx). specialize (IHt x). rewrite Hx in IHt.
        destruct IHt as [-> Hr]. split; [reflexivity|]. apply existsb_exists. exists x. auto.
    - destruct j; try (cbn [Model.parse Spec.rejects]; auto; fail).
      rewrite parse_struct_eq. cbn [Spec.rejects].
      rewrite Forall_forall in H.
      destruct (parse_fields l fs) as [vs|e] eqn:E.
      + pose proof (parse_fields_ok _ _ _ E) as Hok. clear E.
        induction fs as [|[n t'] r IHfs]; [reflexivity|].
        destruct (Hok n t' (or_introl eq_refl)) as (v & Hv).
        pose proof (H (n, t') (or_introl eq_refl) (field_val n l)) as Hh. cbn [snd] in Hh. rewrite Hv in Hh.
        rewrite Hh. cbn [orb]. apply IHfs.
        * intros x Hx. apply H. right; exact Hx.
        * intros m t2 Hin. apply Hok. right; exact Hin.
      + destruct (parse_fields_err _ _ _ _ _ _ E) as (n & t' & Hin & Hp).
        pose proof (H (n, t') Hin (field_val n l)) as Hh. cbn [snd] in Hh. rewrite Hp in Hh.
        destruct Hh as [-> Hr]. split; [reflexivity|]. clear E H Hp.
        induction fs as [|[m t2] r IHfs]; [contradiction|].
        destruct Hin as [Heq | Hin]; [inversion Heq; subst; rewrite Hr; reflexivity|].
        rewrite (IHfs Hin). apply orb_true_r.
  Qed.

  (** Refused exactly when [rejects] says so; accepted otherwise. *)
  Theorem rejected_iff t j : parse t j = Err EArgs <-> rejects t j = true.
  Proof.
    pose proof (parse_outcome t j) as H. unfold outcome_ok in H.
    destruct (parse t j) as [v|e].
    - split; intros H'; [discriminate | congruence].
    - destruct H as [-> H]. split; intros _; [exact H | reflexivity].
  Qed.

  Theorem accepted_iff t j : (exists v, parse t j = Ok v) <-> rejects t j = false.
  Proof.
    pose proof (parse_outcome t j) as H. unfold outcome_ok in H.
    destruct (parse t j) as [v|e]; split; intros H'.
    - exact H.
    - exists v; reflexivity.
    - destruct H' as (v & Hv). discriminate.
    - destruct H as [_ H]. congruence.
  Qed.
End Total.
