(** C18 - an RFC 3339 formatter for the sub-language the model's [time_dec] reads (what a client's
    time formatter prints): definitions only; the round trip is proved in Args/ProofsInst.v. *)
From Coq Require Import List ZArith String Ascii Bool.
From Thunder Require Import Lib.Json Args.Model.
Import ListNotations.
Open Scope string_scope.
Local Open Scope Z_scope.

(** * An RFC 3339 formatter and its round trip through the model's [time_dec] *)
Definition digit_chr (d : Z) : ascii := ascii_of_nat (Z.to_nat (48 + d)).

Definition d2 (n : Z) (r : string) : string :=
  String (digit_chr (n / 10)) (String (digit_chr (n mod 10)) r).
Definition d4 (n : Z) (r : string) : string := d2 (n / 100) (d2 (n mod 100) r).
Definition d9 (n : Z) (r : string) : string :=
  String (digit_chr (n / 100000000)) (d4 (n / 10000 mod 10000) (d4 (n mod 10000) r)).

Definition zone_enc (off : Z) : string :=
  if off =? 0 then "Z"
  else String (if 0 <? off then "+"%char else "-"%char)
              (d2 (Z.abs off / 3600) (String ":" (d2 (Z.abs off mod 3600 / 60) ""))).

Definition frac_enc (ns : Z) (r : string) : string :=
  if ns =? 0 then r else String "." (d9 ns r).

Definition time_enc (x : tval) : string :=
  let tail := frac_enc (t_nsec x) (zone_enc (t_off x)) in
  let hms := d2 (t_hour x) (String ":" (d2 (t_min x) (String ":" (d2 (t_sec x) tail)))) in
  d4 (t_year x) (String "-" (d2 (t_month x) (String "-" (d2 (t_day x) (String "T" hms))))).

Definition time_ok (x : tval) : Prop :=
  0 <= t_year x <= 9999 /\ 1 <= t_month x <= 12 /\ 1 <= t_day x <= days_in (t_year x) (t_month x) /\
  0 <= t_hour x < 24 /\ 0 <= t_min x < 60 /\ 0 <= t_sec x < 60 /\ 0 <= t_nsec x < 1000000000 /\
  - 86400 < t_off x < 86400 /\ t_off x mod 60 = 0.

