(** C18 - the float64-exact range of integer arguments: exactly which integers survive the trip through
    float64 that both transports make (valueToJson: strconv.ParseInt then float64(...); variables:
    encoding/json decodes number tokens to float64). *)
From Coq Require Import List ZArith String Bool Lia ZifyBool.
From Thunder Require Import Lib.Json Args.Model Args.Spec Args.Proofs.
Import ListNotations.
Local Open Scope Z_scope.

(** the float64 nearest to the integer [z] (ties to even), as the JSON number both transports hand to the
    argument parser *)
Definition wire_num (z : Z) : jv := let (m, e) := round_sig 53 z 0 in VNum m e.

(** [z] is a float64: at most 53 significant bits *)
Definition f64_exact (z : Z) : Prop :=
  Z.abs z < 2 ^ 53 \/ (2 ^ (Z.log2 (Z.abs z) - 52) | z).

Lemma vtj_int vars z : int64_ok z = true -> vtj vars (LInt z) = Ok (wire_num z).
Proof. intros H. cbn [vtj]. rewrite H. unfold wire_num. destruct (round_sig 53 z 0). reflexivity. Qed.

Lemma pow2_pos n : 0 <= n -> 0 < 2 ^ n.
Proof. intros. apply Z.pow_pos_nonneg; lia. Qed.

(** the rounded value: same sign, at most 2^(bit length), equal to [z] exactly when [z] is a float64 *)
Lemma round53_spec z m e :
  round_sig 53 z 0 = (m, e) ->
  (trunc m e = z <-> f64_exact z) /\
  (0 <= z -> 0 <= trunc m e) /\ (z <= 0 -> trunc m e <= 0) /\
  (forall n, 53 <= n -> Z.abs z < 2 ^ n -> Z.abs (trunc m e) <= 2 ^ n).
Proof.
  intros Hr.
  destruct (Z_lt_le_dec (Z.abs z) (2 ^ 53)) as [Hs | Hb].
  - rewrite round_sig_small in Hr by (try lia; exact Hs). injection Hr as <- <-. rewrite trunc_int.
    split; [split; [intros _; left; exact Hs | reflexivity]|].
    split; [lia|]. split; [lia|]. intros n Hn Hz. lia.
  - unfold round_sig in Hr.
    set (a := Z.abs z) in *.
    assert (Ha : 0 < a) by (assert (0 < 2 ^ 53) by (apply pow2_pos; lia); lia).
    destruct (a =? 0) eqn:E0; [lia|].
    assert (Hl : 53 <= Z.log2 a) by (apply Z.log2_le_pow2; [exact Ha | exact Hb]).
    destruct (Z.log2 a + 1 <=? 53) eqn:E1; [lia|].
    set (sh := Z.log2 a + 1 - 53) in *.
    assert (Hsh : 1 <= sh) by (unfold sh; lia).
    assert (Hp : 0 < 2 ^ sh) by (apply pow2_pos; lia).
    set (q := a / 2 ^ sh) in *. set (r := a mod 2 ^ sh) in *.
    assert (Hdiv : a = 2 ^ sh * q + r) by (apply Z.div_mod; lia).
    assert (Hrr : 0 <= r < 2 ^ sh) by (apply Z.mod_pos_bound; exact Hp).
    assert (Hhalf : 2 ^ sh = 2 * 2 ^ (sh - 1)).
    { replace sh with (Z.succ (sh - 1)) at 1 by lia. rewrite Z.pow_succ_r by lia. reflexivity. }
    assert (Hh : 0 < 2 ^ (sh - 1)) by (apply pow2_pos; lia).
    assert (Hlog : 2 ^ Z.log2 a <= a < 2 ^ (Z.log2 a + 1)).
    { destruct (Z.log2_spec a Ha) as [L U]. rewrite <- Z.add_1_r in U. split; assumption. }
    assert (Hn53 : 2 ^ (Z.log2 a + 1) = 2 ^ 53 * 2 ^ sh).
    { rewrite <- Z.pow_add_r by lia. f_equal. unfold sh. lia. }
    assert (Hq : q < 2 ^ 53).
    { apply Z.div_lt_upper_bound; [exact Hp|]. rewrite Z.mul_comm. rewrite <- Hn53. apply Hlog. }
    assert (Hq0 : 0 <= q) by (apply Z.div_pos; lia).
    set (q' := if (2 ^ (sh - 1) <? r) || ((r =? 2 ^ (sh - 1)) && Z.odd q) then q + 1 else q) in *.
    assert (Hq' : (q' = q \/ q' = q + 1) /\ (r = 0 -> q' = q)).
    { unfold q'. split.
      - destruct (_ || _); auto.
      - intros ->. destruct (2 ^ (sh - 1) <? 0) eqn:C1; [lia|].
        destruct (0 =? 2 ^ (sh - 1)) eqn:C2; [lia|]. reflexivity. }
    injection Hr as <- <-.
    assert (Ht : trunc (Z.sgn z * q') sh = Z.sgn z * q' * 2 ^ sh).
    { unfold trunc. destruct (0 <=? sh) eqn:C; [reflexivity|lia]. }
    rewrite Ht.
    assert (Hzs : z = Z.sgn z * a) by (unfold a; rewrite <- Z.sgn_abs at 1; lia).
    assert (Hsg : Z.sgn z = 1 \/ Z.sgn z = -1) by (unfold a in Ha; lia).
    assert (Hexp : Z.log2 a - 52 = sh) by (unfold sh; lia).
    split; [|split; [|split]].
    + unfold f64_exact. fold a. rewrite Hexp. split.
      * intros Heq. right.
        assert (q' * 2 ^ sh = a) by (destruct Hsg as [S|S]; rewrite S in *; lia).
        destruct Hq' as [[->| ->] _].
        -- exists (Z.sgn z * q). rewrite Hzs at 1. rewrite <- H. ring.
        -- exfalso. nia.
      * intros [C | [c Hc]]; [lia|].
        assert (Hr0 : r = 0).
        { unfold r. apply Z.mod_divide; [lia|]. apply Z.divide_abs_r. exists c. exact Hc. }
        destruct Hq' as [_ Hq'']. rewrite (Hq'' Hr0). rewrite Hr0 in Hdiv.
        rewrite Hzs at 2. rewrite Hdiv. ring.
    + intros Hz. destruct Hsg as [S|S]; rewrite S; [|lia]. destruct Hq' as [[->| ->] _]; nia.
    + intros Hz. destruct Hsg as [S|S]; rewrite S; [lia|]. destruct Hq' as [[->| ->] _]; nia.
    + intros n Hn Hzn.
      assert (Hln : Z.log2 a + 1 <= n).
      { apply Z.log2_lt_pow2 in Hzn; [lia | exact Ha]. }
      assert (Hmono : 2 ^ (Z.log2 a + 1) <= 2 ^ n) by (apply Z.pow_le_mono_r; lia).
      assert (Hb' : q' * 2 ^ sh <= 2 ^ 53 * 2 ^ sh).
      { apply Z.mul_le_mono_nonneg_r; [lia|]. destruct Hq' as [[->| ->] _]; lia. }
      assert (0 <= q' * 2 ^ sh) by (destruct Hq' as [[->| ->] _]; nia).
      destruct Hsg as [S|S]; rewrite S; lia.
Qed.

Section Range.
  Variable b64 : string -> option (list Z).
  Variable tdec : string -> option tval.
  Variable xdec : string -> option string.

  Lemma parse_wire k z m e :
    round_sig 53 z 0 = (m, e) -> parse b64 tdec xdec (TInt k) (wire_num z) = Ok (GInt (conv k (trunc m e))).
  Proof. intros H. unfold wire_num. rewrite H. reflexivity. Qed.

  (** an integer in the range of its kind (below 2^63: the query language has no larger integer token, and
      the uint64 entry converts through int64) arrives unchanged exactly when it is a float64 *)
  Theorem int_arrives_iff_float64_exact k z :
    int_lo k <= z <= int_hi k -> - 2 ^ 63 <= z < 2 ^ 63 ->
    (parse b64 tdec xdec (TInt k) (wire_num z) = Ok (GInt z) <-> f64_exact z).
  Proof.
    intros Hk H64.
    destruct (round_sig 53 z 0) as [m e] eqn:Hr.
    rewrite (parse_wire k z m e Hr).
    destruct (round53_spec z m e Hr) as (Hiff & Hpos & Hneg & Hbound).
    set (t := trunc m e) in *.
    split.
    - intros H. injection H as H. apply Hiff.
      destruct (Z.eq_dec t z) as [E|NE]; [exact E|exfalso].
      assert (Hmin : z <> - 2 ^ 63).
      { intros ->. apply NE. apply Hiff. right. vm_compute. exists (-4503599627370496). reflexivity. }
      assert (Hab : Z.abs z < 2 ^ 63) by (pows_in Hmin; pows_in H64; pows; lia).
      specialize (Hbound 63 ltac:(lia) Hab).
      (* t <> z: z is not a float64, so |z| >= 2^53 and the kind is 64 bits wide *)
      assert (Hbig : 2 ^ 53 <= Z.abs z).
      { destruct (Z_lt_le_dec (Z.abs z) (2 ^ 53)) as [C|C]; [|exact C].
        exfalso. apply NE. apply Hiff. left. exact C. }
      unfold int_lo, int_hi in Hk. unfold conv in H.
      pows_in Hbig; pows_in Hbound; pows_in H64.
      destruct k; cbn [width signed] in Hk; pows_in Hk; try lia.
      + (* int64 *)
        destruct (Z.eq_dec t (2 ^ 63)) as [E|NE2].
        * rewrite E in H. vm_compute in H. lia.
        * rewrite cvt64_id in H by (pows; pows_in NE2; lia).
          rewrite wrap_signed_id in H by (pows; pows_in NE2; lia). contradiction.
      + destruct (Z.eq_dec t (2 ^ 63)) as [E|NE2].
        * rewrite E in H. vm_compute in H. lia.
        * rewrite cvt64_id in H by (pows; pows_in NE2; lia).
          rewrite wrap_signed_id in H by (pows; pows_in NE2; lia). contradiction.
      + (* uint64 *)
        assert (0 <= t) by (apply Hpos; lia).
        destruct (Z.eq_dec t (2 ^ 63)) as [E|NE2].
        * rewrite E in H. vm_compute in H. lia.
        * rewrite cvt64_id in H by (pows; pows_in NE2; lia).
          rewrite wrap_unsigned_id in H by (pows; pows_in NE2; lia). contradiction.
      + assert (0 <= t) by (apply Hpos; lia).
        destruct (Z.eq_dec t (2 ^ 63)) as [E|NE2].
        * rewrite E in H. vm_compute in H. lia.
        * destruct (t <? 2 ^ 63) eqn:C; pows_in C; [|pows_in NE2; lia].
          rewrite cvt64_id in H by (pows; pows_in NE2; lia).
          rewrite wrap_unsigned_id in H by (pows; pows_in NE2; lia). contradiction.
    - intros Hf. apply Hiff in Hf. rewrite Hf. rewrite conv_id; [reflexivity|].
      split; [exact Hk | intros _; lia].
  Qed.
End Range.

(** 2^53 is the bound: every integer up to it is a float64, the next one on either side is not *)
Theorem float64_exact_range_tight :
  (forall z, - 2 ^ 53 <= z <= 2 ^ 53 -> f64_exact z) /\
  ~ f64_exact (2 ^ 53 + 1) /\ ~ f64_exact (- (2 ^ 53 + 1)).
Proof.
  split; [|split].
  - intros z H. pows_in H.
    assert (C : Z.abs z < 2 ^ 53 \/ z = 2 ^ 53 \/ z = - 2 ^ 53) by (pows; lia).
    destruct C as [C | [-> | ->]]; [left; exact C | right | right].
    + vm_compute. exists 4503599627370496. reflexivity.
    + exists (-4503599627370496). vm_compute. reflexivity.
  - intros [C | [c Hc]]; [vm_compute in C; discriminate|].
    change (2 ^ (Z.log2 (Z.abs (2 ^ 53 + 1)) - 52)) with 2 in Hc. pows_in Hc. lia.
  - intros [C | [c Hc]]; [vm_compute in C; discriminate|].
    change (2 ^ (Z.log2 (Z.abs (- (2 ^ 53 + 1))) - 52)) with 2 in Hc. pows_in Hc. lia.
Qed.
