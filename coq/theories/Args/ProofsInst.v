(** C18 - the decoders used by the correspondence check satisfy the round-trip hypotheses of the
    transport theorems: base64 for all byte strings, the catalogue TextUnmarshaler for all strings. *)
From Coq Require Import List ZArith String Ascii Bool Lia ZifyBool ZifyNat.
From Thunder Require Import Lib.Json Args.Model Args.Spec Args.Codec Args.Proofs.
Import ListNotations.
Open Scope string_scope.
Local Open Scope Z_scope.

Ltac Zify.zify_post_hook ::= Z.div_mod_to_equations.

Lemma b64_val_chr n : 0 <= n < 64 -> b64_val (b64_chr n) = Some n.
Proof.
  intros H.
  assert (E : exists k : nat, (k < 64)%nat /\ n = Z.of_nat k) by (exists (Z.to_nat n); lia).
  destruct E as (k & Hk & ->).
  do 64 (destruct k as [|k]; [vm_compute; reflexivity|]). lia.
Qed.

Lemma pad_val : b64_val "="%char = None.
Proof. reflexivity. Qed.
Lemma pad_is : is_pad "="%char = true.
Proof. reflexivity. Qed.

Lemma b64_go_enc : forall fuel b,
  (List.length b < fuel)%nat -> bytes_ok b -> b64_dec_go fuel (b64_enc b) = Some b.
Proof.
  induction fuel as [|fuel IH]; intros b Hl Hb; [lia|].
  destruct b as [|x [|y [|z t]]].
  - reflexivity.
  - inversion Hb as [|? ? Hx _]; subst.
    cbn [b64_enc b64_dec_go].
    rewrite !b64_val_chr by lia. rewrite !pad_val, !pad_is. cbn [andb].
    f_equal. f_equal. lia.
  - inversion Hb as [|? ? Hx Hb1]; subst. inversion Hb1 as [|? ? Hy _]; subst.
    cbn [b64_enc b64_dec_go].
    rewrite !b64_val_chr by lia. rewrite !pad_val, !pad_is.
    f_equal. f_equal; [lia|]. f_equal. lia.
  - inversion Hb as [|? ? Hx Hb1]; subst. inversion Hb1 as [|? ? Hy Hb2]; subst.
    inversion Hb2 as [|? ? Hz Hb3]; subst.
    cbn [b64_enc b64_dec_go].
    rewrite !b64_val_chr by lia.
    rewrite IH by (cbn [List.length] in Hl; try lia; exact Hb3).
    f_equal. f_equal; [lia|]. f_equal; [lia|]. f_equal. lia.
Qed.

Lemma b64_enc_len : forall n b, (List.length b <= n)%nat -> (List.length b <= String.length (b64_enc b))%nat.
Proof.
  induction n as [|n IH]; intros b Hl.
  - destruct b; cbn in *; lia.
  - destruct b as [|x [|y [|z t]]]; cbn [b64_enc String.length List.length] in *; try lia.
    assert (List.length t <= String.length (b64_enc t))%nat by (apply IH; lia). lia.
Qed.

Theorem b64_roundtrip : forall b, bytes_ok b -> b64_dec (b64_enc b) = Some b.
Proof.
  intros b Hb. unfold b64_dec. apply b64_go_enc; [|exact Hb].
  pose proof (b64_enc_len (List.length b) b (le_n _)). lia.
Qed.

Theorem text_roundtrip : forall s, text_dec (text_enc s) = Some s.
Proof. reflexivity. Qed.

(** * RFC 3339 *)
Lemma digit_digit_chr d : 0 <= d < 10 -> digit (digit_chr d) = Some d.
Proof.
  intros H.
  assert (E : exists k : nat, (k < 10)%nat /\ d = Z.of_nat k) by (exists (Z.to_nat d); lia).
  destruct E as (k & Hk & ->).
  do 10 (destruct k as [|k]; [vm_compute; reflexivity|]). lia.
Qed.

Lemma digit_chr_not c d : 0 <= d < 10 -> c < 48 \/ 57 < c -> chr_is (digit_chr d) c = false.
Proof.
  intros H Hc. unfold chr_is, digit_chr.
  rewrite nat_ascii_embedding by lia. lia.
Qed.

Lemma digits2 n acc r : 0 <= n < 100 -> digits 2 acc (d2 n r) = Some (acc * 100 + n, r).
Proof.
  intros H. unfold d2. cbn [digits].
  rewrite !digit_digit_chr by lia. f_equal. f_equal. lia.
Qed.

Lemma digits4 n r : 0 <= n < 10000 -> digits 4 0 (d4 n r) = Some (n, r).
Proof.
  intros H. unfold d4, d2. cbn [digits].
  rewrite !digit_digit_chr by lia. f_equal. f_equal. lia.
Qed.

Lemma digits_upto9 n r : 0 <= n < 1000000000 -> digits_upto 9 0 0 (d9 n r) = (n, 9%nat, r).
Proof.
  intros H. unfold d9, d4, d2. cbn [digits_upto].
  rewrite !digit_digit_chr by lia. f_equal. f_equal. lia.
Qed.

Lemma zone_roundtrip off : - 86400 < off < 86400 -> off mod 60 = 0 -> time_zone (zone_enc off) = Some off.
Proof.
  intros H Hm. unfold zone_enc.
  destruct (off =? 0) eqn:E0; [assert (off = 0) by lia; subst; reflexivity|].
  destruct (0 <? off) eqn:Ep.
  - cbn [time_zone]. change (chr_is "+" 90) with false. change (chr_is "+" 43) with true. cbv iota.
    cbn [obind]. rewrite digits2 by lia. cbn [obind expect]. change (chr_is ":" 58) with true. cbv iota. cbn [obind].
    rewrite digits2 by lia. cbn [obind].
    assert (C : ((0 * 100 + Z.abs off / 3600 <=? 24) && (0 * 100 + Z.abs off mod 3600 / 60 <=? 60)) = true) by lia.
    rewrite C. f_equal. lia.
  - cbn [time_zone]. change (chr_is "-" 90) with false. change (chr_is "-" 43) with false.
    change (chr_is "-" 45) with true. cbv iota.
    cbn [obind]. rewrite digits2 by lia. cbn [obind expect]. change (chr_is ":" 58) with true. cbv iota. cbn [obind].
    rewrite digits2 by lia. cbn [obind].
    assert (C : ((0 * 100 + Z.abs off / 3600 <=? 24) && (0 * 100 + Z.abs off mod 3600 / 60 <=? 60)) = true) by lia.
    rewrite C. f_equal. lia.
Qed.

Lemma zone_first_char off :
  exists c r, zone_enc off = String c r /\ chr_is c 46 = false /\ chr_is c 44 = false.
Proof.
  unfold zone_enc. destruct (off =? 0); [exists "Z"%char, ""; auto|].
  destruct (0 <? off); eexists; eexists; split; try reflexivity; auto.
Qed.

Theorem time_roundtrip : forall x, time_ok x -> time_dec (time_enc x) = Some x.
Proof.
  intros [y mo d h mi s ns off] (Hy & Hmo & Hd & Hh & Hmi & Hs & Hns & Hoff & Hoffm).
  cbn [t_year t_month t_day t_hour t_min t_sec t_nsec t_off] in *.
  unfold time_enc, time_dec. cbn [t_year t_month t_day t_hour t_min t_sec t_nsec t_off]. cbv zeta.
  rewrite digits4 by lia. cbn [obind expect]. change (chr_is "-" 45) with true. cbv iota. cbn [obind].
  assert (Hd31 : d <= 31).
  { unfold days_in in Hd. repeat match type of Hd with context [if ?c then _ else _] => destruct c end; lia. }
  rewrite digits2 by lia. cbn [obind expect]. change (chr_is "-" 45) with true. cbv iota. cbn [obind].
  rewrite digits2 by lia. cbn [obind expect]. change (chr_is "T" 84) with true. cbv iota. cbn [obind].
  rewrite digits2 by lia. cbn [obind expect]. change (chr_is ":" 58) with true. cbv iota. cbn [obind].
  rewrite digits2 by lia. cbn [obind expect]. change (chr_is ":" 58) with true. cbv iota. cbn [obind].
  rewrite digits2 by lia. cbn [obind].
  assert (C : ((1 <=? 0 * 100 + mo) && (0 * 100 + mo <=? 12) && (1 <=? 0 * 100 + d)
               && (0 * 100 + d <=? days_in y (0 * 100 + mo)) && (0 * 100 + h <? 24) && (0 * 100 + mi <? 60)
               && (0 * 100 + s <? 60)) = true).
  { replace (0 * 100 + mo) with mo by lia. replace (0 * 100 + d) with d by lia. lia. }
  unfold frac_enc. destruct (ns =? 0) eqn:En.
  - destruct (zone_first_char off) as (c & r & Hz & H46 & H44). rewrite Hz. rewrite H46, H44. cbn [orb].
    cbn [obind]. rewrite <- Hz. rewrite zone_roundtrip by assumption. cbn [obind].
    rewrite C. f_equal. f_equal; lia.
  - change (chr_is "." 46) with true. cbn [orb]. rewrite digits_upto9 by lia.
    cbn [obind]. rewrite zone_roundtrip by assumption. cbn [obind].
    rewrite C. f_equal. change (10 ^ (9 - Z.of_nat 9)) with 1. f_equal; lia.
Qed.

Theorem concrete_transports :
  forall (t : ty) (v : gv),
    wf_ty t -> sendable time_ok (fun _ => True) t v ->
    parse b64_dec time_dec text_dec t (json_of b64_enc time_enc text_enc t v) = Ok v /\
    exists j, vtj [] (lit_of b64_enc time_enc text_enc "nul" t v) = Ok j /\
              parse b64_dec time_dec text_dec t j = Ok v.
Proof.
  intros t v W S. split.
  - apply (variable_roundtrip b64_dec time_dec text_dec b64_enc time_enc text_enc
             time_ok (fun _ => True) b64_roundtrip time_roundtrip
             (fun s _ => text_roundtrip s) t v W S).
  - apply (literal_roundtrip b64_dec time_dec text_dec b64_enc time_enc text_enc
             time_ok (fun _ => True) b64_roundtrip time_roundtrip
             (fun s _ => text_roundtrip s) "nul" [] (or_introl eq_refl) t v W S).
Qed.
