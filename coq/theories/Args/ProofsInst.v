(** C18 - the decoders used by the correspondence check satisfy the round-trip hypotheses of the
    transport theorems: base64 for all byte strings, the catalogue TextUnmarshaler for all strings. *)
From Coq Require Import List ZArith String Ascii Bool Lia ZifyBool ZifyNat.
From Thunder Require Import Lib.Json Args.Model Args.Spec Args.Proofs.
Import ListNotations.
Open Scope string_scope.
Local Open Scope Z_scope.

Ltac Zify.zify_post_hook ::= Z.div_mod_to_equations.

Lemma b64_val_chr n : 0 <= n < 64 -> b64_val (b64_chr n) = Some n.
Proof.
  intros H.
  assert (E : exists k : nat, (k < 64)%nat /\ n = Z.of_nat k) by (exists (Z.to_nat n); lia).
  destruct E as (k & Hk & ->).
  do 64 (destruct k as [|k]; [vm_compute; reflexivity|]). lia.
Qed.

Lemma pad_val : b64_val "="%char = None.
Proof. reflexivity. Qed.
Lemma pad_is : is_pad "="%char = true.
Proof. reflexivity. Qed.

Lemma b64_go_enc : forall fuel b,
  (List.length b < fuel)%nat -> bytes_ok b -> b64_dec_go fuel (b64_enc b) = Some b.
Proof.
  induction fuel as [|fuel IH]; intros b Hl Hb; [lia|].
  destruct b as [|x [|y [|z t]]].
  - reflexivity.
  - inversion Hb as [|? ? Hx _]; subst.
    cbn [b64_enc b64_dec_go].
    rewrite !b64_val_chr by lia. rewrite !pad_val, !pad_is. cbn [andb].
    f_equal. f_equal. lia.
  - inversion Hb as [|? ? Hx Hb1]; subst. inversion Hb1 as [|? ? Hy _]; subst.
    cbn [b64_enc b64_dec_go].
    rewrite !b64_val_chr by lia. rewrite !pad_val, !pad_is.
    f_equal. f_equal; [lia|]. f_equal. lia.
  - inversion Hb as [|? ? Hx Hb1]; subst. inversion Hb1 as [|? ? Hy Hb2]; subst.
    inversion Hb2 as [|? ? Hz Hb3]; subst.
    cbn [b64_enc b64_dec_go].
    rewrite !b64_val_chr by lia.
    rewrite IH by (cbn [List.length] in Hl; try lia; exact Hb3).
    f_equal. f_equal; [lia|]. f_equal; [lia|]. f_equal. lia.
Qed.

Lemma b64_enc_len : forall n b, (List.length b <= n)%nat -> (List.length b <= String.length (b64_enc b))%nat.
Proof.
  induction n as [|n IH]; intros b Hl.
  - destruct b; cbn in *; lia.
  - destruct b as [|x [|y [|z t]]]; cbn [b64_enc String.length List.length] in *; try lia.
    assert (List.length t <= String.length (b64_enc t))%nat by (apply IH; lia). lia.
Qed.

Theorem b64_roundtrip : forall b, bytes_ok b -> b64_dec (b64_enc b) = Some b.
Proof.
  intros b Hb. unfold b64_dec. apply b64_go_enc; [|exact Hb].
  pose proof (b64_enc_len (List.length b) b (le_n _)). lia.
Qed.

Theorem text_roundtrip : forall s, text_dec (text_enc s) = Some s.
Proof. reflexivity. Qed.

(** RFC 3339: the general formatter is not modelled; the hypothesis is instantiated on a sample of
    printed times (each line is checked by evaluation of the model's [time_dec]). *)
Definition time_samples : list (tval * string) :=
  [ (mk_tval 2020 1 2 3 4 5 0 0, "2020-01-02T03:04:05Z");
    (mk_tval 2024 2 29 23 59 59 123000000 19800, "2024-02-29T23:59:59.123+05:30");
    (mk_tval 1 1 1 0 0 0 0 0, "0001-01-01T00:00:00Z");
    (mk_tval 9999 12 31 23 59 59 999999999 (-43200), "9999-12-31T23:59:59.999999999-12:00") ].

Definition tval_eq_dec (a b : tval) : {a = b} + {a <> b}.
Proof. repeat decide equality. Defined.

Definition time_enc_sample (x : tval) : string :=
  match find (fun p => if tval_eq_dec (fst p) x then true else false) time_samples with
  | Some p => snd p
  | None => ""
  end.

Definition time_sample_ok (x : tval) : Prop := In x (map fst time_samples).

Theorem time_sample_roundtrip : forall x, time_sample_ok x -> time_dec (time_enc_sample x) = Some x.
Proof.
  intros x H. unfold time_sample_ok in H. cbn [map fst time_samples] in H.
  repeat (destruct H as [<- | H]; [vm_compute; reflexivity|]). contradiction.
Qed.

Theorem concrete_transports :
  forall (t : ty) (v : gv),
    wf_ty t -> sendable time_sample_ok (fun _ => True) t v ->
    parse b64_dec time_dec text_dec t (json_of b64_enc time_enc_sample text_enc t v) = Ok v /\
    exists j, vtj [] (lit_of b64_enc time_enc_sample text_enc "nul" t v) = Ok j /\
              parse b64_dec time_dec text_dec t j = Ok v.
Proof.
  intros t v W S. split.
  - apply (variable_roundtrip b64_dec time_dec text_dec b64_enc time_enc_sample text_enc
             time_sample_ok (fun _ => True) b64_roundtrip time_sample_roundtrip
             (fun s _ => text_roundtrip s) t v W S).
  - apply (literal_roundtrip b64_dec time_dec text_dec b64_enc time_enc_sample text_enc
             time_sample_ok (fun _ => True) b64_roundtrip time_sample_roundtrip
             (fun s _ => text_roundtrip s) "nul" [] (or_introl eq_refl) t v W S).
Qed.
