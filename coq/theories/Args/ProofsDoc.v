(** C18 - Parse's order: defaults are installed before any selection set is converted, so a field's
    arguments do not depend on whether it stands in the operation, a named fragment or an inline fragment. *)
From Coq Require Import List ZArith String Ascii Bool.
From Thunder Require Import Lib.Json Args.Model Args.Spec Args.Proofs.
Import ListNotations.
Open Scope string_scope.

Lemma conv_inline_eq names vars b :
  conv_sel names vars (SInline b) =
  match conv_sels names vars b with Ok cs => Ok (CInline cs) | Err e => Err e end.
Proof.
  cbn [conv_sel].
  induction b as [|x r IH]; [reflexivity|].
  cbn [conv_sels]. destruct (conv_sel names vars x) as [c|e]; [|reflexivity].
  match type of IH with match ?F with _ => _ end = _ => destruct F end;
    destruct (conv_sels names vars r); inversion IH; subst; reflexivity.
Qed.

Lemma lookup_conv_frags names vars fr cfr :
  conv_frags names vars fr = Ok cfr ->
  forall n, match lookup n fr with
            | Some b => exists cb, lookup n cfr = Some cb /\ conv_sels names vars b = Ok cb
            | None => lookup n cfr = None
            end.
Proof.
  revert cfr. induction fr as [|[m b] r IH]; intros cfr H n.
  - inversion H; subst. reflexivity.
  - cbn [conv_frags] in H. destruct (conv_sels names vars b) as [cb|e] eqn:E; [|discriminate].
    destruct (conv_frags names vars r) as [cr|e] eqn:E2; [|discriminate]. inversion H; subst.
    cbn [lookup]. destruct (String.eqb n m).
    + exists cb. auto.
    + apply IH. reflexivity.
Qed.

Section Place.
  Variable names : list string.
  Variable vars' : list (string * jv).      (* the variable map after the defaults *)
  Variable fr : list (string * list sel).
  Variable cfr : list (string * list csel).
  Hypothesis Hfr : conv_frags names vars' fr = Ok cfr.

  Notation occ_rel := (occ_rel vars').

  Lemma fields_rel_list k :
    (forall s c, conv_sel names vars' s = Ok c -> Forall2 occ_rel (sfields k fr s) (cfields k cfr c)) ->
    forall b cb, conv_sels names vars' b = Ok cb ->
                 Forall2 occ_rel (flat_map (sfields k fr) b) (flat_map (cfields k cfr) cb).
  Proof.
    intros Hk. induction b as [|x r IH]; intros cb H.
    - inversion H; subst. constructor.
    - cbn [conv_sels] in H. destruct (conv_sel names vars' x) as [c|e] eqn:E; [|discriminate].
      destruct (conv_sels names vars' r) as [cs|e] eqn:E2; [|discriminate]. inversion H; subst.
      cbn [flat_map]. apply Forall2_app; [apply Hk; exact E | apply IH; reflexivity].
  Qed.

  Lemma fields_rel : forall k s c,
    conv_sel names vars' s = Ok c -> Forall2 occ_rel (sfields k fr s) (cfields k cfr c).
  Proof.
    induction k as [|k IH]; intros s c H; [constructor|].
    destruct s as [f args|n|b].
    - cbn [conv_sel] in H. destruct (args_to_json vars' args) as [j|e] eqn:E; [|discriminate].
      inversion H; subst. cbn [sfields cfields]. constructor; [|constructor]. split; [reflexivity | exact E].
    - cbn [conv_sel] in H. destruct (mem_str n names); [|discriminate]. inversion H; subst.
      cbn [sfields cfields]. pose proof (lookup_conv_frags _ _ _ _ Hfr n) as Hl.
      destruct (lookup n fr) as [b|].
      + destruct Hl as (cb & -> & Hc). apply (fields_rel_list k IH b cb Hc).
      + rewrite Hl. constructor.
    - rewrite conv_inline_eq in H. destruct (conv_sels names vars' b) as [cb|e] eqn:E; [|discriminate].
      inversion H; subst. cbn [sfields cfields]. apply (fields_rel_list k IH b cb E).
  Qed.
End Place.

(** Every field occurrence the operation reaches - directly, through inline fragments, through named
    fragments at any depth - carries [args_to_json] of its literals under the *defaulted* variables. *)
Theorem arguments_independent_of_place vars vars' d p fuel :
  apply_defaults (d_defs d) vars vars = Ok vars' -> parse_doc vars d = Ok p ->
  Forall2 (occ_rel vars') (flat_map (sfields fuel (d_frags d)) (d_body d)) (doc_fields fuel p).
Proof.
  intros HA HP. unfold parse_doc in HP. rewrite HA in HP.
  destruct (conv_frags (map fst (d_frags d)) vars' (d_frags d)) as [cf|e] eqn:E; [|discriminate].
  destruct (conv_sels (map fst (d_frags d)) vars' (d_body d)) as [cb|e] eqn:E2; [|discriminate].
  inversion HP; subst. unfold doc_fields. cbn [p_frags p_body].
  apply (fields_rel_list (map fst (d_frags d)) vars' (d_frags d) cf fuel
           (fields_rel (map fst (d_frags d)) vars' (d_frags d) cf E fuel) _ _ E2).
Qed.

(** One field, three places: the same request. *)
Theorem run_doc_place b64 tdec xdec t defs vars args pl :
  run_doc b64 tdec xdec t vars (doc_at pl defs "f" args) = run_args b64 tdec xdec t defs vars args.
Proof.
  unfold run_doc, parse_doc, run_args.
  destruct pl; cbn [doc_at d_defs d_frags d_body map fst];
    destruct (apply_defaults defs vars vars) as [vars'|e]; try reflexivity;
    cbn [conv_frags conv_sels]; try rewrite conv_inline_eq; cbn [conv_sels conv_sel];
    try change (mem_str "Fr" ["Fr"]) with true; cbv iota;
    destruct (args_to_json vars' args) as [j|e]; try reflexivity.
Qed.

(** * Selections are independent: each occurrence of the field is parsed from its own arguments *)
From Thunder Require Import Args.ProofsReject.

Section Independent.
  Variable b64 : string -> option (list Z).
  Variable tdec : string -> option tval.
  Variable xdec : string -> option string.
  Variable t : ty.
  Variable vars' : list (string * jv).
  Notation parse := (parse b64 tdec xdec).
  Notation parse_all := (parse_all b64 tdec xdec).

  Notation own_outcome := (own_outcome b64 tdec xdec t vars').

  Lemma parse_all_ok S C :
    Forall2 (occ_rel vars') S C ->
    forall vs, parse_all t C = Ok vs <-> Forall2 (fun sf v => own_outcome sf (Ok v)) S vs.
  Proof.
    induction 1 as [|sf [f j] S C [Hf Hj] HF IH]; intros vs.
    - cbn [Model.parse_all]. split; intros H.
      + inversion H; subst. constructor.
      + inversion H; subst. reflexivity.
    - cbn [Model.parse_all snd] in *. split; intros H.
      + destruct (parse t j) as [v|e] eqn:E; [|discriminate].
        destruct (parse_all t C) as [vs'|e] eqn:E2; [|discriminate]. inversion H; subst.
        constructor; [exists j; auto | apply IH; reflexivity].
      + inversion H as [|? v ? vs' (j' & Hj' & Hp) HR]; subst.
        rewrite Hj in Hj'. inversion Hj'; subst. rewrite Hp.
        apply IH in HR. rewrite HR. reflexivity.
  Qed.

  Lemma parse_all_err S C :
    Forall2 (occ_rel vars') S C ->
    forall sf e, In sf S -> own_outcome sf (Err e) -> parse_all t C = Err EArgs.
  Proof.
    induction 1 as [|sf0 [f j] S C [Hf Hj] HF IH]; intros sf e Hin Ho; [contradiction|].
    cbn [Model.parse_all snd] in *. destruct Hin as [<- | Hin].
    - destruct Ho as (j' & Hj' & Hp). rewrite Hj in Hj'. inversion Hj'; subst. rewrite Hp.
      f_equal. eapply parse_err_args; exact Hp.
    - destruct (parse t j) as [v|e'] eqn:E.
      + rewrite (IH sf e Hin Ho). reflexivity.
      + f_equal. eapply parse_err_args; exact E.
  Qed.
End Independent.

(** A request that selects the field any number of times (aliases, inline and named fragments): it is accepted
    exactly when every occurrence, taken on its own with its own arguments, is accepted, each resolver then
    receives the value of its own arguments; and one occurrence whose own arguments are refused makes the
    request fail with the argument error, wherever it stands and whatever the other occurrences look like. *)
Theorem selections_independent b64 tdec xdec t vars vars' d p fuel :
  apply_defaults (d_defs d) vars vars = Ok vars' -> parse_doc vars d = Ok p ->
  let occs := flat_map (sfields fuel (d_frags d)) (d_body d) in
  (forall vs, parse_all b64 tdec xdec t (doc_fields fuel p) = Ok vs <->
              Forall2 (fun sf v => own_outcome b64 tdec xdec t vars' sf (Ok v)) occs vs) /\
  (forall sf e, In sf occs -> own_outcome b64 tdec xdec t vars' sf (Err e) ->
                parse_all b64 tdec xdec t (doc_fields fuel p) = Err EArgs).
Proof.
  intros HA HP occs. pose proof (arguments_independent_of_place vars vars' d p fuel HA HP) as HF.
  split.
  - apply parse_all_ok. exact HF.
  - apply parse_all_err. exact HF.
Qed.

(** * Defaults reach every depth of an argument literal *)
From Thunder Require Import Args.ProofsSubst.

(** A variable declared with a default and left unsupplied (or supplied null) is bound, after Parse's
    first step, to the JSON of its default; and a variable bound to the JSON of a sub-literal can stand
    for that sub-literal at any depth - inside object literals, lists inside objects, objects inside
    lists - without changing what valueToJson produces. *)
Theorem default_reaches_every_depth defs vars vars' d l0 :
  NoDup (map vd_name defs) -> apply_defaults defs vars vars = Ok vars' ->
  In d defs -> vd_default d = Some l0 -> non_null (lookup (vd_name d) vars) = false ->
  exists j, vtj [] l0 = Ok j /\ lookup (vd_name d) vars' = Some j /\
    forall l l', lsub vars' l l' -> vtj vars' l' = vtj vars' l.
Proof.
  intros Hnd HA Hd Hl Hn.
  destruct (default_rule defs vars vars' Hnd HA) as [H1 _].
  destruct (H1 d l0 Hd Hl) as (_ & _ & H3). destruct (H3 Hn) as (j & Hj & Hlk).
  exists j. split; [exact Hj|]. split; [exact Hlk|]. apply lsub_vtj.
Qed.
