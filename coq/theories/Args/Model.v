(** C18 - executable model of argument transport in thunder.

    graphql/parser.go   valueToJson (17-71), argsToJson (91-105), variable definitions
                        and defaults in Parse (382-422)
    graphql/schemabuilder/input.go
                        makeStructParser (81-106), makeArgParser / makeArgParserInner (170-217),
                        wrapPtrParser (221-238), wrapWithZeroValue (242-258), getEnumArgParser
                        (261-279), makeTextUnmarshalerParser (284-302), makeSliceParser (305-330),
                        scalarArgParsers (358-527)
    graphql/executor.go PrepareQuery parses the arguments of every selection (172-180) before
                        Execute runs any resolver (two-phase machine at the end of this file)

    Executable definitions only; proofs are in Args/Proofs.v, theorems in Props/C18.v.

    JSON numbers are dyadic rationals [m * 2^e] (every float64 is one, exactly), so the
    float64 -> intN conversions of input.go and the float64 -> float32 rounding can be modelled
    exactly.  [Lib.Json.json] (integer numbers) embeds through [of_json]. *)
From Coq Require Import List ZArith String Ascii Bool.
From Thunder Require Import Lib.Json.
Import ListNotations.
Open Scope string_scope.
Local Open Scope Z_scope.

(** * JSON as [encoding/json] hands it to thunder ([interface{}] trees) *)
Inductive jv : Type :=
| VNull
| VBool (b : bool)
| VNum (m e : Z)               (* the float64 m * 2^e *)
| VStr (s : string)
| VArr (l : list jv)
| VObj (l : list (string * jv)).

Fixpoint of_json (j : json) : jv :=
  match j with
  | JNull => VNull
  | JBool b => VBool b
  | JNum z => VNum z 0
  | JStr s => VStr s
  | JArr l => VArr (map of_json l)
  | JObj l => VObj ((fix go (l : list (string * json)) :=
                       match l with [] => [] | (k, v) :: t => (k, of_json v) :: go t end) l)
  end.

(** * Results; the two places a request can be refused before execution *)
Inductive err := EParse (* graphql.Parse *) | EArgs (* graphql.PrepareQuery: "error parsing args" *).
Inductive result (A : Type) : Type := Ok (a : A) | Err (e : err).
Arguments Ok {A} a.
Arguments Err {A} e.

(** * Go values of argument types (what the resolver receives), dumped type-directed *)
Record tval := mk_tval { t_year : Z; t_month : Z; t_day : Z; t_hour : Z; t_min : Z; t_sec : Z;
                         t_nsec : Z; t_off : Z (* zone offset, seconds east of UTC *) }.

Inductive gv : Type :=
| GBool (b : bool)
| GInt (z : Z)                 (* any integer kind; the width lives in the type *)
| GFlt (m e : Z)               (* float32 / float64 value m * 2^e, normalised: m odd, or 0 0 *)
| GStr (s : string)
| GBytes (b : list Z)
| GTime (t : tval)
| GText (s : string)           (* the state a TextUnmarshaler ends up in *)
| GNil                         (* nil pointer *)
| GPtr (v : gv)
| GNilList                     (* nil slice (also nil []byte) *)
| GList (l : list gv)
| GStruct (l : list (string * gv)).

(** * Argument types *)
Inductive ikind := I8 | I16 | I32 | I64 | IInt | U8 | U16 | U32 | U64 | UInt.

Inductive ty : Type :=
| TBool
| TInt (k : ikind)
| TF32
| TF64
| TString
| TBytes
| TTime
| TEnum (zero : gv) (names : list (string * gv))   (* schema.Enum map; zero value of the Go type *)
| TText                                            (* encoding.TextUnmarshaler *)
| TPtr (t : ty)
| TOpt (t : ty)                                    (* struct field tagged `graphql:",optional"` *)
| TList (t : ty)
| TStruct (fs : list (string * ty)).

(** * Numbers *)
Fixpoint strip_pos (p : positive) (e : Z) : positive * Z :=
  match p with
  | xO p' => strip_pos p' (e + 1)
  | _ => (p, e)
  end.

Definition normalize (m e : Z) : Z * Z :=
  match m with
  | Z0 => (0, 0)
  | Zpos p => let (p', e') := strip_pos p e in (Zpos p', e')
  | Zneg p => let (p', e') := strip_pos p e in (Zneg p', e')
  end.

(** Truncation toward zero: the integer part of m * 2^e. *)
Definition trunc (m e : Z) : Z :=
  if 0 <=? e then m * 2 ^ e else Z.quot m (2 ^ (- e)).

(** Round to [p] significant bits, ties to even (IEEE conversion int64 -> float64 with p = 53,
    float64 -> float32 with p = 24; exponent range not modelled). *)
Definition round_sig (p m e : Z) : Z * Z :=
  let a := Z.abs m in
  let n := if a =? 0 then 0 else Z.log2 a + 1 in
  if n <=? p then (m, e)
  else
    let sh := n - p in
    let q := a / 2 ^ sh in
    let r := a mod 2 ^ sh in
    let half := 2 ^ (sh - 1) in
    let q' := if (half <? r) || ((r =? half) && Z.odd q) then q + 1 else q in
    (Z.sgn m * q', e + sh).

Definition width (k : ikind) : Z :=
  match k with
  | I8 | U8 => 8 | I16 | U16 => 16 | I32 | U32 => 32 | I64 | IInt | U64 | UInt => 64
  end.
Definition signed (k : ikind) : bool :=
  match k with I8 | I16 | I32 | I64 | IInt => true | _ => false end.

Definition int_lo (k : ikind) : Z := if signed k then - 2 ^ (width k - 1) else 0.
Definition int_hi (k : ikind) : Z := if signed k then 2 ^ (width k - 1) - 1 else 2 ^ width k - 1.

(** Two's-complement wrap to [w] bits. *)
Definition wrap (w : Z) (s : bool) (t : Z) : Z :=
  let r := t mod 2 ^ w in
  if s && (2 ^ (w - 1) <=? r) then r - 2 ^ w else r.

(** float64 -> integer as gc compiles it on amd64 (the Go spec leaves out-of-range results
    implementation-defined): CVTTSD2SL / CVTTSD2SQ give the "integer indefinite" value
    (minimum integer) when the truncated value does not fit. *)
Definition cvt32 (t : Z) : Z := if (- 2 ^ 31 <=? t) && (t <? 2 ^ 31) then t else - 2 ^ 31.
Definition cvt64 (t : Z) : Z := if (- 2 ^ 63 <=? t) && (t <? 2 ^ 63) then t else - 2 ^ 63.

(** [conv k t]: the conversion expression of the [k] entry of scalarArgParsers applied to a float64
    whose truncation is [t].  Note the uint64 entry converts through int64 (input.go:445). *)
Definition conv (k : ikind) (t : Z) : Z :=
  match k with
  | I8 => wrap 8 true (cvt32 t)
  | I16 => wrap 16 true (cvt32 t)
  | I32 => wrap 32 true (cvt32 t)
  | U8 => wrap 8 false (cvt32 t)
  | U16 => wrap 16 false (cvt32 t)
  | U32 => wrap 32 false (cvt64 t)
  | I64 | IInt => wrap 64 true (cvt64 t)
  | U64 => wrap 64 false (cvt64 t)
  | UInt => if t <? 2 ^ 63 then wrap 64 false (cvt64 t)
            else if t <? 2 ^ 64 then t else 2 ^ 63
  end.

(** * Zero values *)
Definition zero_time : tval := mk_tval 1 1 1 0 0 0 0 0.

Fixpoint zero (t : ty) : gv :=
  match t with
  | TBool => GBool false
  | TInt _ => GInt 0
  | TF32 | TF64 => GFlt 0 0
  | TString => GStr ""
  | TBytes => GNilList
  | TTime => GTime zero_time
  | TEnum z _ => z
  | TText => GText ""
  | TPtr _ => GNil
  | TOpt t' => zero t'
  | TList _ => GNilList
  | TStruct fs => GStruct ((fix go (fs : list (string * ty)) :=
                              match fs with [] => [] | (n, t') :: r => (n, zero t') :: go r end) fs)
  end.

(** * input.go: the parsers *)
Definition field_val (n : string) (o : list (string * jv)) : jv :=
  match lookup n o with Some v => v | None => VNull end.      (* asMap[name] *)

Section Parse.
  (** Third-party decoders (encoding/base64, time.Parse(time.RFC3339), the user's UnmarshalText). *)
  Variable b64_dec : string -> option (list Z).
  Variable time_dec : string -> option tval.
  Variable text_dec : string -> option string.

  Fixpoint parse (t : ty) (j : jv) {struct t} : result gv :=
    match t with
    | TBool => match j with VBool b => Ok (GBool b) | _ => Err EArgs end
    | TInt k => match j with VNum m e => Ok (GInt (conv k (trunc m e))) | _ => Err EArgs end
    | TF64 => match j with
              | VNum m e => let (m', e') := normalize m e in Ok (GFlt m' e')
              | _ => Err EArgs
              end
    | TF32 => match j with
              | VNum m e => let (m1, e1) := round_sig 24 m e in
                            let (m', e') := normalize m1 e1 in Ok (GFlt m' e')
              | _ => Err EArgs
              end
    | TString => match j with VStr s => Ok (GStr s) | _ => Err EArgs end
    | TBytes => match j with
                | VStr s => match b64_dec s with Some b => Ok (GBytes b) | None => Err EArgs end
                | _ => Err EArgs
                end
    | TTime => match j with
               | VStr s => match time_dec s with Some t => Ok (GTime t) | None => Err EArgs end
               | _ => Err EArgs
               end
    | TEnum _ names => match j with
                       | VStr s => match lookup s names with Some v => Ok v | None => Err EArgs end
                       | _ => Err EArgs
                       end
    | TText => match j with
               | VStr s => match text_dec s with Some x => Ok (GText x) | None => Err EArgs end
               | _ => Err EArgs
               end
    | TPtr t' =>                                            (* wrapPtrParser *)
        match j with
        | VNull => Ok GNil
        | _ => match parse t' j with Ok v => Ok (GPtr v) | Err e => Err e end
        end
    | TOpt t' =>                                            (* wrapWithZeroValue *)
        match j with
        | VNull => Ok (zero t')
        | _ => parse t' j
        end
    | TList t' =>                                           (* makeSliceParser *)
        match j with
        | VArr l =>
            match (fix go (l : list jv) : result (list gv) :=
                     match l with
                     | [] => Ok []
                     | x :: r => match parse t' x with
                                 | Err e => Err e
                                 | Ok v => match go r with Ok vs => Ok (v :: vs) | Err e => Err e end
                                 end
                     end) l with
            | Ok vs => Ok (GList vs)
            | Err e => Err e
            end
        | _ => Err EArgs
        end
    | TStruct fs =>                                         (* makeStructParser *)
        match j with
        | VObj o =>
            match (fix go (fs : list (string * ty)) : result (list (string * gv)) :=
                     match fs with
                     | [] => Ok []
                     | (n, t') :: r => match parse t' (field_val n o) with
                                       | Err e => Err e
                                       | Ok v => match go r with
                                                 | Ok vs => Ok ((n, v) :: vs)
                                                 | Err e => Err e
                                                 end
                                       end
                     end) fs with
            | Ok vs => Ok (GStruct vs)
            | Err e => Err e
            end
        | _ => Err EArgs
        end
    end.
End Parse.

(** * parser.go: literals, variables, defaults *)
Inductive lit : Type :=
| LInt (z : Z)                 (* ast.IntValue: the digits *)
| LFloat (m e : Z)             (* ast.FloatValue: the float64 strconv.ParseFloat returns *)
| LStr (s : string)
| LBool (b : bool)
| LEnum (s : string)
| LVar (x : string)
| LList (l : list lit)
| LObj (l : list (string * lit)).

Definition int64_ok (z : Z) : bool := (- 2 ^ 63 <=? z) && (z <? 2 ^ 63).

Definition mem_str (n : string) (l : list string) : bool := existsb (String.eqb n) l.

Fixpoint vtj (vars : list (string * jv)) (l : lit) {struct l} : result jv :=
  match l with
  | LInt z => if int64_ok z then let (m, e) := round_sig 53 z 0 in Ok (VNum m e) else Err EParse
  | LFloat m e => Ok (VNum m e)
  | LStr s => Ok (VStr s)
  | LBool b => Ok (VBool b)
  | LEnum s => Ok (VStr s)
  | LVar x => match lookup x vars with Some v => Ok v | None => Ok VNull end
  | LList l =>
      match (fix go (l : list lit) : result (list jv) :=
               match l with
               | [] => Ok []
               | x :: r => match vtj vars x with
                           | Err e => Err e
                           | Ok v => match go r with Ok vs => Ok (v :: vs) | Err e => Err e end
                           end
               end) l with
      | Ok vs => Ok (VArr vs)
      | Err e => Err e
      end
  | LObj fs =>
      match (fix go (fs : list (string * lit)) (seen : list string) : result (list (string * jv)) :=
               match fs with
               | [] => Ok []
               | (n, x) :: r =>
                   if mem_str n seen then Err EParse            (* "duplicate field" *)
                   else match vtj vars x with
                        | Err e => Err e
                        | Ok v => match go r (n :: seen) with
                                  | Ok vs => Ok ((n, v) :: vs)
                                  | Err e => Err e
                                  end
                        end
               end) fs [] with
      | Ok vs => Ok (VObj vs)
      | Err e => Err e
      end
  end.

(** argsToJson has the shape of the ObjectValue case ("duplicate arg"). *)
Definition args_to_json (vars : list (string * jv)) (args : list (string * lit)) : result jv :=
  vtj vars (LObj args).

Record vardef := mk_vardef { vd_name : string; vd_nonnull : bool; vd_default : option lit }.

Definition non_null (o : option jv) : bool :=
  match o with Some VNull | None => false | Some _ => true end.

(** Parse, lines 382-422.  [orig] is the client's variable map (tested by [vars[name] != nil]),
    [acc] the map being built ([defaultedVars]; first binding wins in [lookup]). *)
Fixpoint apply_defaults (defs : list vardef) (orig acc : list (string * jv))
  : result (list (string * jv)) :=
  match defs with
  | [] => Ok acc
  | d :: r =>
      if vd_nonnull d then
        match vd_default d with
        | Some _ => Err EParse       (* "required variable cannot provide a default value" *)
        | None => apply_defaults r orig acc
        end
      else
        match vd_default d with
        | None => apply_defaults r orig acc
        | Some l =>
            if non_null (lookup (vd_name d) orig) then apply_defaults r orig acc
            else match vtj [] l with
                 | Err _ => Err EParse
                 | Ok v => apply_defaults r orig ((vd_name d, v) :: acc)
                 end
        end
  end.

Section Run.
  Variable b64_dec : string -> option (list Z).
  Variable time_dec : string -> option tval.
  Variable text_dec : string -> option string.

  (** One field [f(args)] whose argument struct has type [t]: graphql.Parse then the
      ParseArguments call of PrepareQuery. *)
  Definition run_args (t : ty) (defs : list vardef) (vars : list (string * jv))
             (args : list (string * lit)) : result gv :=
    match apply_defaults defs vars vars with
    | Err e => Err e
    | Ok vars' =>
        match args_to_json vars' args with
        | Err e => Err e
        | Ok j => parse b64_dec time_dec text_dec t j
        end
    end.

  (** ** Two-phase machine: prepare everything, then execute (http.go 81-92, executor.go 172-180) *)
  Record fieldq := mk_fieldq { fq_ty : ty; fq_args : list (string * lit) }.

  Record request := mk_request { rq_defs : list vardef; rq_vars : list (string * jv);
                                 rq_fields : list fieldq }.

  Fixpoint prepare_fields (vars : list (string * jv)) (fs : list fieldq) : result (list gv) :=
    match fs with
    | [] => Ok []
    | f :: r =>
        match args_to_json vars (fq_args f) with
        | Err e => Err e
        | Ok j => match parse b64_dec time_dec text_dec (fq_ty f) j with
                  | Err e => Err e
                  | Ok v => match prepare_fields vars r with
                            | Ok vs => Ok (v :: vs)
                            | Err e => Err e
                            end
                  end
        end
    end.

  (** Parse converts every argument list of the document (argsToJson), then PrepareQuery parses
      them; both phases are over before Execute starts.  (A Parse-phase error anywhere precedes
      every PrepareQuery error; with a single error class per phase this only matters for which
      class is reported, see [prepare].) *)
  Fixpoint convert_fields (vars : list (string * jv)) (fs : list fieldq) : result unit :=
    match fs with
    | [] => Ok tt
    | f :: r => match args_to_json vars (fq_args f) with
                | Err e => Err e
                | Ok _ => convert_fields vars r
                end
    end.

  Definition prepare (rq : request) : result (list gv) :=
    match apply_defaults (rq_defs rq) (rq_vars rq) (rq_vars rq) with
    | Err e => Err e
    | Ok vars' => match convert_fields vars' (rq_fields rq) with
                  | Err e => Err e
                  | Ok _ => prepare_fields vars' (rq_fields rq)
                  end
    end.

  Inductive mstate :=
  | MInit                                              (* request received *)
  | MFailed (e : err)                                  (* answered with a client error *)
  | MRunning (args : list gv) (calls : list (nat * gv)).  (* resolver calls so far: (field, argument) *)

  Inductive label := LPrepare | LResolve (i : nat).    (* work units run in any order, any number *)

  Definition step (rq : request) (st : mstate) (l : label) : option mstate :=
    match st, l with
    | MInit, LPrepare => match prepare rq with
                         | Ok args => Some (MRunning args [])
                         | Err e => Some (MFailed e)
                         end
    | MRunning args calls, LResolve i =>
        match nth_error args i with
        | Some a => Some (MRunning args (calls ++ [(i, a)]))
        | None => None
        end
    | _, _ => None
    end.

  Fixpoint run (rq : request) (st : mstate) (ls : list label) : option mstate :=
    match ls with
    | [] => Some st
    | l :: r => match step rq st l with Some st' => run rq st' r | None => None end
    end.

  Definition calls_of (st : mstate) : list (nat * gv) :=
    match st with MRunning _ c => c | _ => [] end.
End Run.

(** * Concrete decoders used by the correspondence check
      (what the harness's catalogue types and the standard library do on the generated strings) *)

(** ** base64.StdEncoding.DecodeString (padding required, trailing bits not checked) *)
Definition b64_val (c : ascii) : option Z :=
  let n := Z.of_nat (nat_of_ascii c) in
  if (65 <=? n) && (n <=? 90) then Some (n - 65)
  else if (97 <=? n) && (n <=? 122) then Some (n - 71)
  else if (48 <=? n) && (n <=? 57) then Some (n + 4)
  else if n =? 43 then Some 62
  else if n =? 47 then Some 63
  else None.

Definition is_pad (c : ascii) : bool := Z.of_nat (nat_of_ascii c) =? 61.

Fixpoint b64_dec_go (fuel : nat) (s : string) : option (list Z) :=
  match fuel with
  | O => None
  | S fuel' =>
      match s with
      | EmptyString => Some []
      | String c1 (String c2 (String c3 (String c4 rest))) =>
          match b64_val c1, b64_val c2 with
          | Some a, Some b =>
              match b64_val c3, b64_val c4 with
              | Some c, Some d =>
                  match b64_dec_go fuel' rest with
                  | Some t => Some ((a * 4 + b / 16) :: ((b mod 16) * 16 + c / 4) :: ((c mod 4) * 64 + d) :: t)
                  | None => None
                  end
              | Some c, None =>
                  if is_pad c4 then match rest with
                                    | EmptyString => Some [a * 4 + b / 16; (b mod 16) * 16 + c / 4]
                                    | _ => None
                                    end
                  else None
              | None, _ =>
                  if is_pad c3 && is_pad c4 then match rest with
                                                 | EmptyString => Some [a * 4 + b / 16]
                                                 | _ => None
                                                 end
                  else None
              end
          | _, _ => None
          end
      | _ => None
      end
  end.

Definition b64_dec (s : string) : option (list Z) := b64_dec_go (S (String.length s)) s.

Definition b64_chr (n : Z) : ascii :=
  ascii_of_nat (Z.to_nat (if n <? 26 then n + 65 else if n <? 52 then n + 71
                          else if n <? 62 then n - 4 else if n =? 62 then 43 else 47)).

Fixpoint b64_enc (b : list Z) : string :=
  match b with
  | [] => EmptyString
  | [x] => String (b64_chr (x / 4)) (String (b64_chr ((x mod 4) * 16)) "==")
  | [x; y] => String (b64_chr (x / 4)) (String (b64_chr ((x mod 4) * 16 + y / 16))
                (String (b64_chr ((y mod 16) * 4)) "="))
  | x :: y :: z :: t =>
      String (b64_chr (x / 4)) (String (b64_chr ((x mod 4) * 16 + y / 16))
        (String (b64_chr ((y mod 16) * 4 + z / 64)) (String (b64_chr (z mod 64)) (b64_enc t))))
  end.

(** ** time.Parse(time.RFC3339, s) on the sub-language
       YYYY-MM-DDTHH:MM:SS[.d{1,9}](Z|(+|-)HH:MM) *)
Definition digit (c : ascii) : option Z :=
  let n := Z.of_nat (nat_of_ascii c) in
  if (48 <=? n) && (n <=? 57) then Some (n - 48) else None.

Definition chr_is (c : ascii) (n : Z) : bool := Z.of_nat (nat_of_ascii c) =? n.

(** read exactly [k] digits *)
Fixpoint digits (k : nat) (acc : Z) (s : string) : option (Z * string) :=
  match k with
  | O => Some (acc, s)
  | S k' => match s with
            | String c r => match digit c with
                            | Some d => digits k' (acc * 10 + d) r
                            | None => None
                            end
            | EmptyString => None
            end
  end.

(** read up to [k] digits; returns value, count, rest *)
Fixpoint digits_upto (k : nat) (acc : Z) (cnt : nat) (s : string) : Z * nat * string :=
  match k with
  | O => (acc, cnt, s)
  | S k' => match s with
            | String c r => match digit c with
                            | Some d => digits_upto k' (acc * 10 + d) (S cnt) r
                            | None => (acc, cnt, s)
                            end
            | EmptyString => (acc, cnt, s)
            end
  end.

Definition expect (n : Z) (s : string) : option string :=
  match s with String c r => if chr_is c n then Some r else None | EmptyString => None end.

Definition leap (y : Z) : bool :=
  ((y mod 4 =? 0) && negb (y mod 100 =? 0)) || (y mod 400 =? 0).

Definition days_in (y m : Z) : Z :=
  if m =? 2 then (if leap y then 29 else 28)
  else if (m =? 4) || (m =? 6) || (m =? 9) || (m =? 11) then 30 else 31.

Definition obind {A B} (o : option A) (f : A -> option B) : option B :=
  match o with Some a => f a | None => None end.

Definition time_zone (s : string) : option Z :=
  match s with
  | String c r =>
      if chr_is c 90 (* Z *) then match r with EmptyString => Some 0 | _ => None end
      else
        let sg := if chr_is c 43 then Some 1 else if chr_is c 45 then Some (-1) else None in
        obind sg (fun sg =>
        obind (digits 2 0 r) (fun '(hh, r1) =>
        obind (expect 58 r1) (fun r2 =>
        obind (digits 2 0 r2) (fun '(mm, r3) =>
        match r3 with
        | EmptyString => if (hh <=? 24) && (mm <=? 60) then Some (sg * (hh * 3600 + mm * 60)) else None
        | _ => None
        end))))
  | EmptyString => None
  end.

Definition time_dec (s : string) : option tval :=
  obind (digits 4 0 s) (fun '(y, s1) =>
  obind (expect 45 s1) (fun s2 =>
  obind (digits 2 0 s2) (fun '(mo, s3) =>
  obind (expect 45 s3) (fun s4 =>
  obind (digits 2 0 s4) (fun '(d, s5) =>
  obind (expect 84 s5) (fun s6 =>
  obind (digits 2 0 s6) (fun '(h, s7) =>
  obind (expect 58 s7) (fun s8 =>
  obind (digits 2 0 s8) (fun '(mi, s9) =>
  obind (expect 58 s9) (fun s10 =>
  obind (digits 2 0 s10) (fun '(sec, s11) =>
  let '(ns, rest) :=
    match s11 with
    | String c r =>
        if chr_is c 46 || chr_is c 44 then
          let '(v, cnt, r') := digits_upto 9 0 0 r in
          match cnt with
          | O => (None, s11)
          | _ => (Some (v * 10 ^ (9 - Z.of_nat cnt)), r')
          end
        else (Some 0, s11)
    | EmptyString => (Some 0, s11)
    end in
  obind ns (fun ns =>
  obind (time_zone rest) (fun off =>
  if (1 <=? mo) && (mo <=? 12) && (1 <=? d) && (d <=? days_in y mo)
     && (h <? 24) && (mi <? 60) && (sec <? 60)
  then Some (mk_tval y mo d h mi sec ns off) else None))))))))))))).

(** ** The harness's TextUnmarshaler: accepts "tu:" ++ x and stores x *)
Definition text_dec (s : string) : option string :=
  match s with
  | String "t" (String "u" (String ":" r)) => Some r
  | _ => None
  end.
Definition text_enc (s : string) : string := "tu:" ++ s.

(** * Comparison with observed behaviour (correspondence check) *)
Definition tval_eqb (a b : tval) : bool :=
  (t_year a =? t_year b) && (t_month a =? t_month b) && (t_day a =? t_day b)
  && (t_hour a =? t_hour b) && (t_min a =? t_min b) && (t_sec a =? t_sec b)
  && (t_nsec a =? t_nsec b) && (t_off a =? t_off b).

Fixpoint list_Z_eqb (a b : list Z) : bool :=
  match a, b with
  | [], [] => true
  | x :: a', y :: b' => (x =? y) && list_Z_eqb a' b'
  | _, _ => false
  end.

Fixpoint gv_eqb (a b : gv) {struct a} : bool :=
  match a, b with
  | GBool x, GBool y => Bool.eqb x y
  | GInt x, GInt y => x =? y
  | GFlt m e, GFlt m' e' => (m =? m') && (e =? e')
  | GStr x, GStr y => String.eqb x y
  | GBytes x, GBytes y => list_Z_eqb x y
  | GTime x, GTime y => tval_eqb x y
  | GText x, GText y => String.eqb x y
  | GNil, GNil => true
  | GPtr x, GPtr y => gv_eqb x y
  | GNilList, GNilList => true
  | GList x, GList y =>
      (fix go (x y : list gv) {struct x} : bool :=
         match x, y with
         | [], [] => true
         | a :: x', b :: y' => gv_eqb a b && go x' y'
         | _, _ => false
         end) x y
  | GStruct x, GStruct y =>
      (fix go (x y : list (string * gv)) {struct x} : bool :=
         match x, y with
         | [], [] => true
         | (k, a) :: x', (k', b) :: y' => String.eqb k k' && gv_eqb a b && go x' y'
         | _, _ => false
         end) x y
  | _, _ => false
  end.

(** * Documents: graphql.Parse, lines 382-452, in the order of the code *)
(** Parse (1) walks the variable definitions and installs the defaults ([apply_defaults]); (2) converts the
    selection set of every named fragment, (3) then that of the operation - (2) and (3) with the
    *defaulted* variable map (parseSelectionSet -> argsToJson).  Fields therefore get their arguments the
    same way wherever they stand.  (detectCyclesAndUnusedFragments and detectConflicts are not modelled:
    documents are assumed to pass them; a spread of an unknown fragment is the client error of line 161.) *)
Inductive sel : Type :=
| SField (f : string) (args : list (string * lit))
| SSpread (n : string)                       (* ...Name *)
| SInline (b : list sel).                    (* ... on T { b } *)

Inductive csel : Type :=                     (* after Parse: UnparsedArgs are JSON *)
| CField (f : string) (j : jv)
| CSpread (n : string)
| CInline (b : list csel).

Record doc := mk_doc { d_defs : list vardef; d_frags : list (string * list sel); d_body : list sel }.
Record pdoc := mk_pdoc { p_frags : list (string * list csel); p_body : list csel }.

Fixpoint conv_sel (names : list string) (vars : list (string * jv)) (s : sel) {struct s} : result csel :=
  match s with
  | SField f args => match args_to_json vars args with Ok j => Ok (CField f j) | Err e => Err e end
  | SSpread n => if mem_str n names then Ok (CSpread n) else Err EParse      (* "unknown fragment" *)
  | SInline b =>
      match (fix go (b : list sel) : result (list csel) :=
               match b with
               | [] => Ok []
               | x :: r => match conv_sel names vars x with
                           | Err e => Err e
                           | Ok c => match go r with Ok cs => Ok (c :: cs) | Err e => Err e end
                           end
               end) b with
      | Ok cs => Ok (CInline cs)
      | Err e => Err e
      end
  end.

Fixpoint conv_sels (names : list string) (vars : list (string * jv)) (b : list sel) : result (list csel) :=
  match b with
  | [] => Ok []
  | x :: r => match conv_sel names vars x with
              | Err e => Err e
              | Ok c => match conv_sels names vars r with Ok cs => Ok (c :: cs) | Err e => Err e end
              end
  end.

Fixpoint conv_frags (names : list string) (vars : list (string * jv)) (fr : list (string * list sel))
  : result (list (string * list csel)) :=
  match fr with
  | [] => Ok []
  | (n, b) :: r => match conv_sels names vars b with
                   | Err e => Err e
                   | Ok cb => match conv_frags names vars r with
                              | Ok cr => Ok ((n, cb) :: cr)
                              | Err e => Err e
                              end
                   end
  end.

Definition parse_doc (vars : list (string * jv)) (d : doc) : result pdoc :=
  match apply_defaults (d_defs d) vars vars with           (* 1: variable definitions and defaults *)
  | Err e => Err e
  | Ok vars' =>
      let names := map fst (d_frags d) in
      match conv_frags names vars' (d_frags d) with        (* 2: fragment bodies, defaulted variables *)
      | Err e => Err e
      | Ok cf => match conv_sels names vars' (d_body d) with   (* 3: the operation *)
                 | Err e => Err e
                 | Ok cb => Ok (mk_pdoc cf cb)
                 end
      end
  end.

(** The fields a selection set reaches (PrepareQuery / Flatten walk through fragments); [fuel] bounds the
    nesting depth (Parse has refused cyclic fragments). *)
Fixpoint cfields (fuel : nat) (frags : list (string * list csel)) (s : csel) {struct fuel} : list (string * jv) :=
  match fuel with
  | O => []
  | S k =>
      match s with
      | CField f j => [(f, j)]
      | CSpread n => match lookup n frags with Some b => flat_map (cfields k frags) b | None => [] end
      | CInline b => flat_map (cfields k frags) b
      end
  end.

Definition doc_fields (fuel : nat) (p : pdoc) : list (string * jv) :=
  flat_map (cfields fuel (p_frags p)) (p_body p).

(** The three places a field can stand in. *)
Inductive place := InBody | InFragment | InInline.

Definition doc_at (pl : place) (defs : list vardef) (f : string) (args : list (string * lit)) : doc :=
  match pl with
  | InBody => mk_doc defs [] [SField f args]
  | InFragment => mk_doc defs [("Fr", [SField f args])] [SSpread "Fr"]
  | InInline => mk_doc defs [] [SInline [SField f args]]
  end.

Section RunDoc.
  Variable b64_dec : string -> option (list Z).
  Variable time_dec : string -> option tval.
  Variable text_dec : string -> option string.

  (** PrepareQuery: every field occurrence the operation reaches has its own arguments parsed, in turn;
      the first failure is the request's error.  (One argument type [t]: the occurrences are selections of
      the same field.) *)
  Fixpoint parse_all (t : ty) (l : list (string * jv)) : result (list gv) :=
    match l with
    | [] => Ok []
    | (_, j) :: r => match parse b64_dec time_dec text_dec t j with
                     | Err e => Err e
                     | Ok v => match parse_all t r with Ok vs => Ok (v :: vs) | Err e => Err e end
                     end
    end.

  Definition run_multi (t : ty) (vars : list (string * jv)) (d : doc) : result (list gv) :=
    match parse_doc vars d with
    | Err e => Err e
    | Ok p => parse_all t (doc_fields 4 p)
    end.

  (** ** Paginated fields (schemabuilder/pagination.go buildPaginatedArgParser, 1402-1504): the connection
         arguments are parsed into ConnectionArgs, every other member goes to the ordinary struct parser of
         the resolver's own argument struct - also when none is left. *)
  Definition conn_ty : ty :=
    TStruct [("first", TPtr (TInt I64)); ("last", TPtr (TInt I64)); ("after", TPtr TString);
             ("before", TPtr TString); ("filterText", TPtr TString);
             ("filterTextFields", TPtr (TList TString)); ("sortBy", TPtr TString);
             ("sortOrder", TPtr (TEnum (GInt 0) [("asc", GInt 0); ("desc", GInt 1)]));
             ("filterType", TPtr TString)].
  Definition conn_names : list string :=
    ["first"; "last"; "after"; "before"; "filterText"; "filterTextFields"; "sortBy"; "sortOrder"; "filterType"].

  Definition own_members (o : list (string * jv)) : list (string * jv) :=
    filter (fun kv => negb (mem_str (fst kv) conn_names)) o.

  Definition parse_paginated (t : ty) (j : jv) : result gv :=
    match j with
    | VObj o => match parse b64_dec time_dec text_dec conn_ty j with
                | Err e => Err e
                | Ok _ => parse b64_dec time_dec text_dec t (VObj (own_members o))
                end
    | _ => Err EArgs
    end.

  (** Parse the document, then parse the arguments of the one field [f] it reaches. *)
  Definition run_doc (t : ty) (vars : list (string * jv)) (d : doc) : result gv :=
    match parse_doc vars d with
    | Err e => Err e
    | Ok p => match doc_fields 4 p with
              | [(_, j)] => parse b64_dec time_dec text_dec t j
              | _ => Err EParse
              end
    end.

  Definition run_doc_paginated (t : ty) (vars : list (string * jv)) (d : doc) : result gv :=
    match parse_doc vars d with
    | Err e => Err e
    | Ok p => match doc_fields 4 p with
              | [(_, j)] => parse_paginated t j
              | _ => Err EParse
              end
    end.
End RunDoc.

Inductive obs := OOk (v : gv) | OErrParse | OErrArgs | OOther.

Record send := mk_send { s_defs : list vardef; s_vars : list (string * jv);
                         s_args : list (string * lit); s_place : place;
                         s_conn : option (list (string * lit));   (* Some c: sent to the paginated field, connection arguments c *)
                         s_obs : obs;
                         s_calls : Z (* resolver calls observed for this request *) }.

(** A request selecting the same field several times (aliases, fragments), each with its own arguments. *)
Inductive mobs := MOk (vs : list gv) (* in document order *) | MErrParse | MErrArgs | MOther.
Record msend := mk_msend { m_vars : list (string * jv); m_doc : doc; m_obs : mobs; m_calls : Z }.

Record case := mk_case { c_ty : ty; c_sends : list send; c_multi : list msend }.

Definition run_conc (t : ty) (s : send) : result gv :=
  match s_conn s with
  | None => run_doc b64_dec time_dec text_dec t (s_vars s) (doc_at (s_place s) (s_defs s) "f" (s_args s))
  | Some c => run_doc_paginated b64_dec time_dec text_dec t (s_vars s)
                (doc_at (s_place s) (s_defs s) "p" (c ++ s_args s)%list)
  end.

(** codes: 1 = accepted/rejected (or the rejecting phase) differs, 2 = value reaching the resolver differs,
    3 = number of resolver calls differs from the two-phase machine's (1 after Ok, 0 after Err) *)
Definition check_send (t : ty) (s : send) : list nat :=
  let r := run_conc t s in
  let c1 := match r, s_obs s with
            | Ok _, OOk _ | Err EParse, OErrParse | Err EArgs, OErrArgs => []
            | _, _ => [1%nat]
            end in
  let c2 := match r, s_obs s with
            | Ok v, OOk v' => if gv_eqb v v' then [] else [2%nat]
            | _, _ => []
            end in
  let c3 := match r with
            | Ok _ => if s_calls s =? 1 then [] else [3%nat]
            | Err _ => if s_calls s =? 0 then [] else [3%nat]
            end in
  (c1 ++ c2 ++ c3)%list.

Fixpoint check_sends (t : ty) (k : nat) (ss : list send) : list nat :=
  match ss with
  | [] => []
  | s :: r => (map (fun c => (10 * k + c)%nat) (check_send t s) ++ check_sends t (S k) r)%list
  end.

Fixpoint gvs_eqb (a b : list gv) : bool :=
  match a, b with
  | [], [] => true
  | x :: a', y :: b' => gv_eqb x y && gvs_eqb a' b'
  | _, _ => false
  end.

(** codes 101-103: as 1-3, for a request with several selections of the field *)
Definition check_msend (t : ty) (s : msend) : list nat :=
  let r := run_multi b64_dec time_dec text_dec t (m_vars s) (m_doc s) in
  let c1 := match r, m_obs s with
            | Ok _, MOk _ | Err EParse, MErrParse | Err EArgs, MErrArgs => []
            | _, _ => [101%nat]
            end in
  let c2 := match r, m_obs s with
            | Ok vs, MOk vs' => if gvs_eqb vs vs' then [] else [102%nat]
            | _, _ => []
            end in
  let c3 := match r with
            | Ok vs => if m_calls s =? Z.of_nat (List.length vs) then [] else [103%nat]
            | Err _ => if m_calls s =? 0 then [] else [103%nat]
            end in
  (c1 ++ c2 ++ c3)%list.

Definition check_case (c : case) : list nat :=
  (check_sends (c_ty c) 0 (c_sends c) ++ flat_map (check_msend (c_ty c)) (c_multi c))%list.

Fixpoint mismatches_from_sparse (_ : nat) (cs : list (nat * case)) : list (nat * list nat) :=
  match cs with
  | [] => []
  | (i, c) :: t => match check_case c with
                   | [] => mismatches_from_sparse 0 t
                   | l => (i, l) :: mismatches_from_sparse 0 t
                   end
  end.
