(** C18 - correspondence check including the builder and the value PrepareQuery stores in Selection.Args.

    A case: the raw reflect view of the argument struct ([gty]), whether schema.Build accepted it, and - when
    it did - the sends of Args/Model.v ([case]) with, per send, what Selection.Args held after PrepareQuery
    (before Execute).  The model's [build_top] must refuse exactly when Build refuses, return the argument
    type the harness derived from the reflect.Type, and [parse] at that type must give the value found in
    Selection.Args and the value the resolver received. *)
From Coq Require Import List ZArith String Bool.
From Thunder Require Import Lib.Json Args.Model Args.ModelBuilder.
Import ListNotations.

(** what the harness saw in Selection.Args after PrepareQuery returned *)
Inductive pobs :=
| PNone                (* not looked at (request with several selections) *)
| PAbsent              (* Parse or PrepareQuery refused the request: nothing was stored *)
| PVal (v : gv).

(** a request to the field [n], which has no argument struct (nilParseArguments), with literal arguments:
    outcome 0 = answered, 1 = refused by graphql.Parse, 2 = refused by PrepareQuery, 3 = anything else;
    [np_calls] = how often n's resolver ran *)
Record nprobe := mk_nprobe { np_args : list (string * lit); np_outcome : nat; np_calls : Z }.

Record bcase := mk_bcase {
  b_gty : gty;
  b_built : bool;
  b_case : option case;
  b_prep : list pobs;        (* aligned with the sends of [b_case] *)
  b_noargs : list nprobe
}.

(** 300: outcome of a request to the field without arguments differs; 301: its resolver ran / did not run *)
Definition check_nprobe (p : nprobe) : list nat :=
  let r := match args_to_json [] (np_args p) with
           | Err e => Err e
           | Ok j => parse_noargs j
           end in
  ((match r, np_outcome p with
    | Ok _, O | Err EParse, 1%nat | Err EArgs, 2%nat => []
    | _, _ => [300%nat]
    end) ++
   (match r with
    | Ok _ => if Z.eqb (np_calls p) 1 then [] else [301%nat]
    | Err _ => if Z.eqb (np_calls p) 0 then [] else [301%nat]
    end))%list.

(** code k*10+4: Selection.Args after PrepareQuery differs from the model's parse result *)
Fixpoint check_preps (t : ty) (k : nat) (ss : list send) (ps : list pobs) : list nat :=
  match ss, ps with
  | s :: ss', p :: ps' =>
      (match run_conc t s, p with
       | _, PNone => []
       | Ok v, PVal v' => if gv_eqb v v' then [] else [(10 * k + 4)%nat]
       | Err _, PAbsent => []
       | _, _ => [(10 * k + 4)%nat]
       end ++ check_preps t (S k) ss' ps')%list
  | _, _ => []
  end.

(** 200: Build accepts / refuses where the model's builder does the opposite;
    201: the model's builder returns another argument type than the one the harness derived *)
Definition check_bcase (b : bcase) : list nat :=
  (match build_top (b_gty b), b_built b with
   | None, false => []
   | Some _, false | None, true => [200%nat]
   | Some t, true =>
       match b_case b with
       | None => []
       | Some c => ((if ty_eqb t (c_ty c) then [] else [201%nat]) ++ check_case c ++
                    check_preps (c_ty c) 0 (c_sends c) (b_prep b))%list
       end
   end ++ flat_map check_nprobe (b_noargs b))%list.

Fixpoint mismatches_from_sparse (_ : nat) (cs : list (nat * bcase)) : list (nat * list nat) :=
  match cs with
  | [] => []
  | (i, c) :: t => match check_bcase c with
                   | [] => mismatches_from_sparse 0 t
                   | l => (i, l) :: mismatches_from_sparse 0 t
                   end
  end.
