(** C18 - lemmas about Args/Model.v. *)
From Coq Require Import List ZArith String Ascii Bool Lia ZifyBool ZifyNat.
From Thunder Require Import Lib.Json Args.Model.
Import ListNotations.
Open Scope string_scope.
Local Open Scope Z_scope.

(** * Two-phase machine: no resolver call unless every argument list of the request parsed *)
Section Machine.
  Variable b64 : string -> option (list Z).
  Variable tdec : string -> option tval.
  Variable xdec : string -> option string.

  Notation prepare := (prepare b64 tdec xdec).
  Notation step := (step b64 tdec xdec).
  Notation run := (run b64 tdec xdec).

  (** Invariant of every reachable state. *)
  Definition inv (rq : request) (st : mstate) : Prop :=
    match st with
    | MInit => True
    | MFailed e => prepare rq = Err e
    | MRunning args calls =>
        prepare rq = Ok args /\ forall i a, In (i, a) calls -> nth_error args i = Some a
    end.

  Lemma step_inv rq st l st' : inv rq st -> step rq st l = Some st' -> inv rq st'.
  Proof.
    destruct st as [|e|args calls]; destruct l as [|i]; simpl; try discriminate.
    - intros _. destruct (prepare rq) as [args|e] eqn:E; intros H; inversion H; subst; simpl; auto.
      split; auto. intros i a [].
    - intros [Hp Hc]. destruct (nth_error args i) as [a|] eqn:E; [|discriminate].
      intros H; inversion H; subst; simpl. split; auto.
      intros j b Hin. apply in_app_or in Hin as [Hin|[Heq|[]]]; auto.
      inversion Heq; subst; auto.
  Qed.

  Lemma run_inv rq ls : forall st st', inv rq st -> run rq st ls = Some st' -> inv rq st'.
  Proof.
    induction ls as [|l ls IH]; simpl; intros st st' Hi Hr.
    - inversion Hr; subst; auto.
    - destruct (step rq st l) as [st1|] eqn:E; [|discriminate].
      eapply IH; [eapply step_inv; eauto | eauto].
  Qed.

  Lemma no_resolver_before_args rq ls st :
    run rq MInit ls = Some st ->
    (forall e, prepare rq = Err e -> calls_of st = []) /\
    (forall i a, In (i, a) (calls_of st) ->
       exists args, prepare rq = Ok args /\ nth_error args i = Some a).
  Proof.
    intros Hr. pose proof (run_inv rq ls MInit st I Hr) as Hi.
    destruct st as [|e|args calls]; simpl in *.
    - split; [auto | intros ? ? []].
    - split; [auto | intros ? ? []].
    - destruct Hi as [Hp Hc]. split.
      + intros e He. rewrite Hp in He. discriminate.
      + intros i a Hin. exists args. auto.
  Qed.
End Machine.
